#!/usr/bin/env python3
"""Apply every seeded change under /verif/seeded to /repo (one at a time, undone straight after),
run the quick check of the property it targets (and optionally others) and record who catches what.
usage: run_seeds.py [seed-id-prefix ...]   e.g. run_seeds.py C05 C06-2"""
import json, os, subprocess, sys, glob
sel = sys.argv[1:]
out = {}
path = "/verif/findings/seed_results.json"
if os.path.exists(path):
    out = json.load(open(path))
assert subprocess.run("git -C /repo status --porcelain", shell=True, capture_output=True, text=True).stdout.strip() == "", "repo dirty"
for d in sorted(glob.glob("/verif/seeded/*")):
    sid = os.path.basename(d)
    if sel and not any(sid.startswith(s) for s in sel):
        continue
    prop = json.load(open(f"{d}/meta.json"))["property"]
    if not os.path.exists(f"/verif/harness/npv/props/{prop.lower()}.py"):
        print(sid, "no check yet"); continue
    r = subprocess.run(f"git -C /repo apply {d}/patch.diff", shell=True, capture_output=True, text=True)
    if r.returncode != 0:
        print(sid, "patch does not apply", r.stderr[:200]); out[sid] = {"applies": False}; continue
    try:
        per_seed = {}
        for vs in os.environ.get("SEEDS", "0").split():
            c = subprocess.run(f"cd /verif && VERIF_SEED={vs} ./check {prop} --tier quick", shell=True, capture_output=True, text=True)
            lines = [l for l in c.stdout.split("\n") if l.startswith("VIOLATION") or l.startswith("FRAMEWORK")]
            per_seed[vs] = {"exit": c.returncode, "violations": [l.split("replay=")[-1].split("/")[-1] for l in lines][:3]}
        first = per_seed[sorted(per_seed)[0]]
        out[sid] = {"property": prop, "exit": first["exit"], "violations": first["violations"],
                    "caught": all(v["exit"] == 1 for v in per_seed.values()),
                    "per_verif_seed": {k: v["exit"] == 1 for k, v in per_seed.items()}}
        print(sid, "CAUGHT" if out[sid]["caught"] else "MISSED", out[sid]["per_verif_seed"], first["violations"][:2])
    finally:
        subprocess.run("git -C /repo checkout -- .", shell=True)
json.dump(out, open(path, "w"), indent=1)
