#!/bin/sh
# parseeds.sh: every claimed check × seeds, properties in parallel (seeds of one property one after the other,
# because a check rewrites its own evidence file); prints one line per run and the tail of every non-clean one
cd "$(dirname "$0")/.." || exit 2
props=$(python3 -c "import json;print(' '.join(c['property_id'] for c in json.load(open('MANIFEST.json'))['checks']))")
echo $props | tr ' ' '\n' | xargs -P ${JOBS:-8} -I{} sh -c 'for sd in '"${SEEDS:-0 1}"'; do out=$(VERIF_SEED=$sd ./check {} --tier '"${TIER:-quick}"' 2>&1); rc=$?; echo "$out" | tail -1; if [ $rc -ne 0 ]; then echo "== {} seed=$sd rc=$rc"; echo "$out" | grep -v KNOWN | tail -5; fi; done'
echo "parseeds done"
