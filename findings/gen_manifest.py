#!/usr/bin/env python3
"""Regenerates /verif/MANIFEST.json from the table below (kept in one place so it stays valid)."""
import json, os
V = "/verif"
props = {}
for l in open(f"{V}/properties.jsonl"):
    p = json.loads(l); props[p["id"]] = p

LEVEL_NOTE = ("Trusted: Lean 4.33 kernel; axioms propext/Classical.choice/Quot.sound only (audited on every run with "
              "#print axioms; no sorry/native_decide/own axioms); the hand-written implementation model NPModel/Impl and the "
              "pyarrow/pandas kernel models NPModel/Arrow are tied to /repo only by the correspondence check run by this "
              "command (differential, seeded by VERIF_SEED); the Python harness (generators, physical export, views).")

CLAIMS = {
 "C01": ("validator soundness proved for all chunk counts/offsets/buffers (validate_sound, ragged_is_refused), set_list_field stores only validated storage, slice/take keep rectangularity; correspondence: every entry point offered well-formed and ragged data, every storage bound to an array observed at birth and judged by the Lean invariant", "§7 C01"),
 "C02": ("canonical packing reads back exactly (pack_lists_then_rows), zero-copy packing of a sorted column flattens back to the column and has the announced row lengths, flatten/re-pack identity; correspondence: pack_flat vs model and vs per-label oracle incl. >16 unsorted duplicate labels, all round trips on all layouts, histories on one object", "§7 C02"),
 "C03": ("row lengths = offset differences, flat view = concatenation of rows = window of the child buffer, flat length = sum of lengths, missing iff invalid — proved for every window into every buffer; correspondence: 14 observers × all layouts vs model and spec, derived objects, in-place histories", "§7 C03"),
 "C04": ("layout independence of selection proved as corollaries of the refinement theorems (any two chunks with equal rows); correspondence: metamorphic — one content in ≥6 layouts × ~45 public operations (array, accessor, frame), results must be equal or all fail", "§7 C04"),
 "C05": ("chunk-level refinement of slice and take to list operations proved for all chunks, windows and index lists; correspondence: getitem/take/setitem/concat/dropna/pickle/copy/equals vs model and vs Python list semantics, frame row movement, in-place histories, exhaustive slices (thorough)", "§7 C05"),
 "C06": ("frame condition of set_list_field/set_flat_field/fill_field_lists proved for every column, field and value: same chunks, same validity (missing rows, row count), every other field the identical list array, edited field = window of the supplied lists; correspondence: accessor and NestedFrame['n.f']= over layouts × value forms", "§7 C06"),
 "C07": ("filter-and-repack pipeline of query proved for every number of rows, row lengths and condition outcomes (query_filters_inside_rows: packed rows = non-empty filtered rows in order, packed index = rows keeping a record, row i keeps exactly its satisfying records in order; same offsets for every field; mixed layers refused); correspondence: expressions from the grammar (comparisons, arithmetic, and/or/not, quoted names) x layouts x label patterns vs model and per-row spec, base-layer queries vs pandas, query_flat", "§7 C07"),
 "C08": ("PARTIAL: the column bookkeeping of read_parquet is proved (full read returns every column in file order with struct-of-lists columns cast to nested unless rejected; whole-column selections return exactly the requested columns in order; the fields of one nest are regrouped into that nest with exactly the requested fields in requested order; a nest requested both in full and by a field is refused); the parquet codec and pyarrow's column projection are parameters with assumed laws, exercised on real files: writer configurations (row-group size, compression, dictionary, path vs file-like), non-default index, plain-pyarrow reader (no metadata, struct of equal-length lists, same content), foreign files written by pyarrow, random and directed column/field selections vs the Lean model and vs the full read", "§7 C08"),
 "C09": ("pack groups by label keeping original relative order (stable sort + packer proved end to end for int/str labels: packed_row_holds_records_of_label, distinct packed labels, absent labels), join lookup refines take; correspondence: add_nested x {left,right,inner,outer} x label patterns vs model (pandas join) and per-row spec, on=column, from_flat, from_lists/nest_lists, frame['new.f']=", "§7 C09"),
 "C10": ("reduce hands row i its own list (iter_field_list_is_rows_own_list, any offsets/buffers), one call per row with every requested column (reduce_calls_shape); correspondence: recording callback x column selections x extra args x return shapes, count_nested", "§7 C10"),
 "C11": ("records stay in their rows and move as a whole for ANY comparator (sort_keeps_records_in_rows via mergeSort_perm), sorted ordinals are non-decreasing and a table sorted by ordinal packs row by row into its own records (sorted_table_packs_by_ordinal), positions ordered by the comparator; correspondence: model (stable lexsort, NaN above numbers) vs code, relation oracle in Lean (per-row permutation + sortedness)", "§7 C11"),
 "C12": ("same filter-and-repack theorem with the completeness mask; how=any/all/thresh decision lemmas; target resolution decision table (mixed/conflicting refused, on_nested/subset aims); correspondence: how x thresh x subset x on_nested x inplace vs model and per-row spec, base-layer dropna vs oracle, refusals", "§7 C12"),
 "C13": ("eval is elementwise on the flat view by construction of the model (eval_is_elementwise, validated per expression), assignment to a field of an existing nest satisfies the frame condition (eval_assign_frame_condition + replaced_column_frame_condition); correspondence: arithmetic/conditions vs model and spec, assignments to existing/new field/new nest, inplace or not, multi-line programs", "§7 C13"),
 "C14": ("plain and quoted spellings parse to the same components (parse_plain, parse_quoted for arbitrary names incl. spaces/punctuation/dots/keywords, spellings_agree), precedence of a literal base column, known field resolution identical for item access and assignment, unknown path is an error, listing consistent — one parser function in the model for all seven operations; correspondence: marker frames with identifier/space/punctuation/keyword/digit-first/colliding names, each path spelled plain/quoted/half-quoted in getitem, setitem, query, eval, eval-assignment, reduce, sort_values, dropna; real _parse_hierarchical_components vs the Lean parser; unknown paths", "§7 C14"),
 "C15": ("sharing model (array objects = heap cells; results/deep copies/in-place frame operations only allocate, in-place array operations write one cell): an in-place write is visible only through objects referring to that cell, allocation leaves every other object unchanged, a deep copy shares no cell, noninterference over histories of any length by induction with the allocator invariant; correspondence: families {original, deep copy, row slice, column selection, extracted series, argument table and series, results} under random interleavings of 16 pure, 3 in-place-array, 6 in-place-frame operations and in-place edits of the argument table, full snapshots of every live object after every step, the set of objects that may change predicted from object identity (`is`)", "§7 C15"),
 "C16": ("state-machine model of the only hidden state (the _aliases attribute and the eval/query protocol around it, as after the fix): invariant 'attribute clear after every call, successful or raising' by induction over histories, a raising call and a non-inplace call leave the frame exactly as it was, history_independence for prefixes of any length; correspondence: 31 failing/read-only operations, all single prefixes + sampled pairs (all pairs and triples in thorough) followed by a battery of 18 probes on the same object and on a copy, each compared with the same probe on a freshly built equal frame", "§7 C16"),
 "C17": ("the string name parses back to the same dtype (name_parses_back: any number/order of fields, separator-free distinct names, alias-sound types), names are injective, parametric types are refused never mis-parsed (unknown_type_refused, field_parse_sound), declared dtype after a field edit = type of the stored data; correspondence: every alias pyarrow accepts exhaustively (enumerated at run time), parametric instantiations, random field lists/orders, truncated/permuted/mutated strings vs the Lean parser, identity/hash/pickle/ArrowDtype round trips, declared-vs-stored dtype after edit histories", "§7 C17"),
 "C18": ("PARTIAL: closure model (class of the result and kind of every column under the operations of the property): every rule maps closed frames to closed frames and chains of any depth stay closed (closure_step, closure_chain by induction), the listing of nested columns is exactly the columns of nested kind; the per-operation rules themselves are pandas runtime behaviour (constructor propagation, extension-dtype preservation) which a theorem cannot exhibit — they are validated on every step of every chain by the correspondence: 30 operations incl. empty results (query matching nothing, iloc[0:0]), concat, join, set/reset index, pickle, parquet; all single steps, sampled pairs (all pairs in thorough) and random chains of depth 3-6 from random layouts; after every step class, dtypes, nested_columns, all_columns vs the model and a usability probe (dotted access, query, field assignment on a copy)", "§7 C18"),
 "C19": ("same records per row in both orientations proved for validated chunks whose fields are slices of different buffers (rebased_window_same_extents, list_struct_same_records); correspondence: every export/import door and explicit type requests on all layouts", "§7 C19"),
}
TECH = "Lean 4 proof (refinement/invariant theorems over an executable model) + differential correspondence check model-vs-code with spec oracle"
checks = []
for pid in sorted(CLAIMS):
    text, ref = CLAIMS[pid]
    checks.append({
        "property_id": pid,
        "quick_cmd": f"./check {pid} --tier quick",
        "thorough_cmd": f"./check {pid} --tier thorough",
        "evidence_file": f"evidence/{pid}.json",
        "replay_cmd_template": f"./check {pid} --replay {{path}}",
        "engine": "lean-model+correspondence",
        "level_claimed": {"category": "proof", "text": text, "design_ref": ref},
        "level_note": LEVEL_NOTE,
        "technique": TECH,
    })
na = [{"property_id": pid, "reason": "not yet built in this round: model, theorems and correspondence for this property are still being written (see DESIGN.md §13 staging); no check is claimed until they exist"}
      for pid in sorted(props) if pid not in CLAIMS]
m = {
 "version": 1,
 "setup_cmd": "./setup.sh",
 "hooks": {"guard": "NESTED_PANDAS_VERIF", "enable": "no source hooks are needed: the harness observes array births by wrapping NestedExtensionArray.__setattr__ at run time; the guard variable is exported by ./check but read by nothing in /repo",
           "baseline_off_cmd": "cd /repo && /venv/bin/python -m pytest -ra -q -p no:cacheprovider --timeout=900 --continue-on-collection-errors",
           "source_commits": [], "add_only": True},
 "engines": [
   {"name": "lean-model", "path": "lean/NPModel", "serves_properties": sorted(CLAIMS), "kind_free_text": "Lean 4 executable model (Arrow physical layer, implementation model, logical spec) with machine-checked theorems; native driver npdriver speaks a JSON line protocol"},
   {"name": "correspondence", "path": "harness/npv", "serves_properties": sorted(CLAIMS), "kind_free_text": "Python harness: generators of contents × physical layouts × labels × arguments, runs the real library in-process, pipes the same physical inputs to the Lean driver, compares real / model / spec"},
 ],
 "checks": checks,
 "not_applicable": na,
 "notes": "Known findings (genuine defects recorded, not repaired) are in KNOWN_FINDINGS.txt together with the list of fix: commits made in /repo; seeded changes used to test the checks are under seeded/.",
}
json.dump(m, open(f"{V}/MANIFEST.json", "w"), indent=1)
print("claimed", len(checks), "n/a", len(na))
