#!/usr/bin/env python3
"""Which definitions of the implementation model (NPModel/Impl, NPModel/Arrow/Kernels) are reachable
from an operation of the driver (i.e. are run against the real code by the correspondence check)?
Static reachability over identifier occurrences; prints the unreachable ones."""
import re, glob, os, json
root = "/verif/lean/NPModel/NPModel"
files = glob.glob(f"{root}/Impl/*.lean") + glob.glob(f"{root}/Arrow/*.lean") + glob.glob(f"{root}/Pandas/*.lean") + \
        glob.glob(f"{root}/State/*.lean") + glob.glob(f"{root}/Spec/*.lean")
defs = {}
for f in files:
    src = open(f).read()
    # strip comments
    src_nc = re.sub(r"/-.*?-/", "", src, flags=re.S)
    src_nc = re.sub(r"--.*", "", src_nc)
    for m in re.finditer(r"^(?:partial |private |protected )?def\s+([A-Za-z_][\w.']*)", src_nc, re.M):
        name = m.group(1)
        # body: until next top-level def/theorem/structure/inductive/end
        start = m.end()
        nxt = re.search(r"^(?:partial |private |protected )?(?:def|theorem|structure|inductive|abbrev|instance|end|namespace|@\[)\b", src_nc[start:], re.M)
        body = src_nc[start:start + (nxt.start() if nxt else len(src_nc))]
        defs[name] = {"file": os.path.relpath(f, root), "body": body}
driver = "".join(open(f).read() for f in glob.glob(f"{root}/Driver/*.lean") + [f"{root}/../Driver.lean"] if os.path.exists(f))
short = {}
for n in defs:
    short.setdefault(n.split(".")[-1], []).append(n)

def refs(text):
    out = set()
    for tok in set(re.findall(r"[A-Za-z_][\w.']*", text)):
        parts = tok.split(".")
        for k in range(len(parts)):
            cand = ".".join(parts[k:])
            if cand in defs:
                out.add(cand)
        # method-call syntax `x.foo.bar` resolves to `T.foo`
        for part in parts:
            for n in short.get(part, []):
                out.add(n)
    return out
reach, todo = set(), list(refs(driver))
while todo:
    n = todo.pop()
    if n in reach:
        continue
    reach.add(n)
    todo.extend(refs(defs[n]["body"]) - reach)
impl = {n: d for n, d in defs.items() if d["file"].startswith(("Impl/", "Arrow/"))}
un = sorted(n for n in impl if n not in reach)
print(json.dumps({"impl_defs": len(impl), "reachable_from_driver": len([n for n in impl if n in reach]), "unreachable": un}, indent=1))
