#!/usr/bin/env python3
"""Confirm a seeded change produced by a sub-agent and file it under /verif/seeded/<id>/.
usage: confirm_seed.py <dir with patch.diff demo.py meta.json> <seed id>
Runs in a scratch worktree of /repo HEAD (removed afterwards): applies the patch, runs the pinned
test suite, runs the demo (must fail), reverts, runs the demo (must pass)."""
import json, os, shutil, subprocess, sys

src, sid = sys.argv[1], sys.argv[2]
wt = f"/tmp/confirm-{sid}"
env = dict(os.environ, PYTHONPATH=f"{wt}/src")
def sh(cmd, **kw):
    return subprocess.run(cmd, shell=True, capture_output=True, text=True, **kw)
sh(f"git -C /repo worktree remove --force {wt}")
r = sh(f"git -C /repo worktree add -q {wt} HEAD")
assert r.returncode == 0, r.stderr
try:
    shutil.copy("/repo/src/nested_pandas/_version.py", f"{wt}/src/nested_pandas/_version.py")
    r = sh(f"git -C {wt} apply {src}/patch.diff")
    applies = r.returncode == 0
    res = {"applies_to_repo_head": applies, "apply_err": r.stderr[-300:]}
    if applies:
        t = sh(f"cd {wt} && /venv/bin/python -m pytest -q -p no:cacheprovider --timeout=900 2>&1 | tail -3", env=env)
        res["tests_tail"] = t.stdout.strip().split("\n")[-1]
        res["tests_pass"] = "311 passed" in t.stdout and "1 failed" in t.stdout
        d = sh(f"cd {wt} && /venv/bin/python {src}/demo.py", env=env)
        res["demo_with_patch_exit"] = d.returncode
        res["demo_with_patch_tail"] = (d.stdout + d.stderr)[-400:]
        sh(f"git -C {wt} checkout -- .")
        d = sh(f"cd {wt} && /venv/bin/python {src}/demo.py", env=env)
        res["demo_without_patch_exit"] = d.returncode
        res["confirmed"] = bool(res["tests_pass"] and res["demo_with_patch_exit"] != 0 and res["demo_without_patch_exit"] == 0)
    else:
        res["confirmed"] = False
    print(json.dumps(res, indent=1))
    if res["confirmed"]:
        out = f"/verif/seeded/{sid}"
        os.makedirs(out, exist_ok=True)
        for f in ("patch.diff", "demo.py"):
            shutil.copy(f"{src}/{f}", f"{out}/{f}")
        meta = json.load(open(f"{src}/meta.json"))
        meta["confirmed_by"] = {"repo_head": sh("git -C /repo rev-parse --short HEAD").stdout.strip(),
                                "ran": ["git apply patch.diff in a scratch worktree of /repo HEAD",
                                        "pinned pytest suite: " + res["tests_tail"],
                                        f"demo.py with patch: exit {res['demo_with_patch_exit']}",
                                        f"demo.py without patch: exit {res['demo_without_patch_exit']}"]}
        json.dump(meta, open(f"{out}/meta.json", "w"), indent=1)
finally:
    sh(f"git -C /repo worktree remove --force {wt}")
