#!/bin/sh
# usage: try_mut.sh <patch> <prop> [tier]   — apply a seeded change to /repo, run the check, undo it
P="$1"; PROP="$2"; TIER="${3:-quick}"
git -C /repo apply "$P" || { echo "PATCH DOES NOT APPLY"; exit 3; }
cd /verif && ./check "$PROP" --tier "$TIER" | tail -6
RC=$?
git -C /repo checkout -- . 
echo "check exit (tail masks): see VIOLATION lines above"
