#!/bin/sh
# run every claimed check with several seeds on the current tree; print only non-clean results
# usage: SEEDS="1 2 3" TIER=quick findings/multiseed.sh     (run from anywhere; works in a `vp run` snapshot)
cd "$(dirname "$0")/.." || exit 2
for p in $(python3 -c "import json;print(' '.join(c['property_id'] for c in json.load(open('MANIFEST.json'))['checks']))" 2>/dev/null); do
  for sd in ${SEEDS:-1 2 3 4 5}; do
    out=$(VERIF_SEED=$sd ./check $p --tier ${TIER:-quick} 2>&1); rc=$?
    echo "$out" | tail -1
    if [ $rc -ne 0 ]; then echo "== $p seed=$sd rc=$rc"; echo "$out" | grep -v KNOWN | tail -6; fi
  done
done
echo "multiseed done"
