#!/usr/bin/env python3
"""Print the seed table of DESIGN.md §14 from /verif/seeded/*/meta.json and findings/seed_results.json."""
import json, glob, os
res = json.load(open("/verif/findings/seed_results.json"))
print("| seed | change | result | reported in (first VERIF_SEED) |")
print("|---|---|---|---|")
for d in sorted(glob.glob("/verif/seeded/*")):
    sid = os.path.basename(d)
    m = json.load(open(f"{d}/meta.json"))
    r = res.get(sid, {})
    ops = sorted({v.split("-", 2)[-1].rsplit("-", 1)[0] for v in r.get("violations", [])})
    seeds = r.get("per_verif_seed", {})
    verdict = "caught" if r.get("caught") else ("not caught — outside the domain" if m.get("out_of_domain") else ("harmless since fix 0e78524 (caught before)" if m.get("neutralised_by_fix") else "MISSED"))
    if seeds:
        verdict += " (" + ",".join(k for k, v in sorted(seeds.items()) if v) + ")"
    summ = m["summary"].replace("|", "/").replace("\n", " ")[:150]
    print(f"| {sid} | {summ}… | {verdict} | {', '.join(ops)[:90]} |")
