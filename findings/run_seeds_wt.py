#!/usr/bin/env python3
"""Like run_seeds.py, but never touches /repo's working tree: every seeded change is applied in a
scratch worktree of /repo HEAD (removed afterwards) and the quick check of its property is pointed
at it with NPV_REPO.  Properties run in parallel, the seeds of one property one after the other.
The evidence files these runs write are NOT evidence about /repo: regenerate them afterwards.
usage: SEEDS="0 1" run_seeds_wt.py [seed-id-prefix ...]"""
import json, os, subprocess, sys, glob, shutil
from concurrent.futures import ThreadPoolExecutor
sel = sys.argv[1:]
path = "/verif/findings/seed_results.json"
out = json.load(open(path)) if os.path.exists(path) else {}
def sh(cmd, **kw):
    return subprocess.run(cmd, shell=True, capture_output=True, text=True, **kw)
groups = {}
for d in sorted(glob.glob("/verif/seeded/*")):
    sid = os.path.basename(d)
    if sel and not any(sid.startswith(s) for s in sel):
        continue
    groups.setdefault(json.load(open(f"{d}/meta.json"))["property"], []).append(sid)
def run_group(prop):
    res = {}
    for sid in groups[prop]:
        wt = f"/tmp/seedwt-{sid}"
        sh(f"git -C /repo worktree remove --force {wt}")
        r = sh(f"git -C /repo worktree add -q --detach {wt} HEAD")
        try:
            shutil.copy("/repo/src/nested_pandas/_version.py", f"{wt}/src/nested_pandas/_version.py")
            r = sh(f"git -C {wt} apply /verif/seeded/{sid}/patch.diff")
            if r.returncode != 0:
                res[sid] = {"applies": False}; print(sid, "patch does not apply", r.stderr[:200], flush=True); continue
            per = {}
            for vs in os.environ.get("SEEDS", "0").split():
                c = sh(f"cd /verif && NPV_REPO={wt} VERIF_SEED={vs} ./check {prop} --tier quick")
                lines = [l for l in c.stdout.split("\n") if l.startswith("VIOLATION") or l.startswith("FRAMEWORK")]
                per[vs] = {"exit": c.returncode, "violations": [l.split("replay=")[-1].split("/")[-1] for l in lines][:3]}
            first = per[sorted(per)[0]]
            res[sid] = {"property": prop, "exit": first["exit"], "violations": first["violations"],
                        "caught": all(v["exit"] == 1 for v in per.values()),
                        "per_verif_seed": {k: v["exit"] == 1 for k, v in per.items()}}
            print(sid, "CAUGHT" if res[sid]["caught"] else "MISSED", res[sid]["per_verif_seed"], first["violations"][:2], flush=True)
        finally:
            sh(f"git -C /repo worktree remove --force {wt}")
    return res
with ThreadPoolExecutor(max_workers=int(os.environ.get("JOBS", "6"))) as ex:
    for res in ex.map(run_group, list(groups)):
        out.update(res)
json.dump(out, open(path, "w"), indent=1)
