#!/bin/sh
# Runs the repository's pinned test suite (guard off) and prints the summary line.
cd /repo && /venv/bin/python -m pytest -q -p no:cacheprovider --timeout=900 --continue-on-collection-errors "$@" 2>&1 | tail -3
