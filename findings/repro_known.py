"""Replays every `known:` finding of /verif/KNOWN_FINDINGS.txt on the real code (/repo/src).
Prints one line per finding: STILL-VIOLATED (the defect is present, as recorded) or NOT-REPRODUCED.
Run:  /venv/bin/python /verif/findings/repro_known.py"""
import io, sys, warnings
import numpy as np, pandas as pd, pyarrow as pa
warnings.filterwarnings("ignore")
sys.path.insert(0, "/repo/src")
from nested_pandas import NestedFrame, NestedDtype, read_parquet
from nested_pandas.series.packer import pack_seq
from nested_pandas.series.ext_array import NestedExtensionArray

R = {}
def case(f):
    try:
        R[f.__name__] = f()
    except Exception as e:  # noqa
        R[f.__name__] = (True, f"raised {type(e).__name__}: {e}")
    return f

def hidden():
    a = pa.ListArray.from_arrays([0, 2, 4], pa.array([1, 2, 8, 9]))
    return NestedExtensionArray(pa.StructArray.from_arrays([a], names=["a"], mask=pa.array([False, True])))

@case
def K1_hidden_child_lists():
    ext = hidden()
    violated = list(ext.isna()) == [False, True] and list(ext.list_lengths) == [2, 2]
    return violated, f"isna={list(ext.isna())} list_lengths={list(ext.list_lengths)} to_flat={pd.Series(ext).nest.to_flat()['a'].tolist()}"

@case
def K2_to_lists_child_nullness():
    null_child = pa.ListArray.from_arrays(pa.array([0, 0], type=pa.int32()), pa.array([], type=pa.int64()), mask=pa.array([True]))
    s1 = pd.Series(NestedExtensionArray(pa.StructArray.from_arrays([null_child], names=["a"], mask=pa.array([True]))))
    s2 = pd.Series(NestedExtensionArray(pa.StructArray.from_arrays([pa.array([[]], type=pa.list_(pa.int64()))], names=["a"], mask=pa.array([True]))))
    v1, v2 = s1.nest.to_lists()["a"].tolist(), s2.nest.to_lists()["a"].tolist()
    return repr(v1) != repr(v2), f"{v1!r} vs {v2!r}"

@case
def K3_partial_parquet_load_missing():
    nf = NestedFrame({"x": [1, 2, 3]}, index=[0, 1, 2]).add_nested(pd.DataFrame({"a": [1, 2, 3], "b": [1., 2., 3.]}, index=[0, 0, 2]), "n")
    buf = io.BytesIO(); nf.to_parquet(buf); buf.seek(0)
    r = read_parquet(buf, columns=["x", "n.a"])
    return r["n"].isna().tolist() != [False, True, False], r["n"].isna().tolist()

@case
def K4_multiline_eval_copy():
    nf = NestedFrame({"x": [1, 2]}, index=[0, 1]).add_nested(pd.DataFrame({"a": [1, 2, 3]}, index=[0, 0, 1]), "n")
    try:
        nf.eval("n.c = n.a + 1\nn.d = n.c * 2")
        return False, "worked"
    except AttributeError as e:
        return True, f"AttributeError: {e}"

@case
def K5_flat_index_equals_frame_index():
    s = pack_seq([pd.DataFrame({"v": [1, 2]}), pd.DataFrame({"v": np.array([], dtype=np.int64)})], index=["a", "a"], name="n")
    nf = NestedFrame({"x": [1, 2]}, index=["a", "a"]); nf["n"] = s
    nf["n.w"] = nf["n.v"] * 10
    return nf["n.w"].tolist() != [10, 20], nf["n.w"].tolist()

@case
def K6_list_struct_loses_missing():
    ext = NestedExtensionArray(pa.array([{"a": [1]}, None], type=pa.struct([("a", pa.list_(pa.int64()))])))
    back = NestedExtensionArray(ext.chunked_list_struct_array)
    return list(back.isna()) != [False, True], list(back.isna())

@case
def K7_from_lists_empty_frame():
    df = NestedFrame({"a": pd.Series([], dtype=pd.ArrowDtype(pa.list_(pa.int64())))})
    try:
        NestedFrame.from_lists(df)
        return False, "worked"
    except AttributeError as e:
        return True, f"AttributeError: {e}"

@case
def K8_count_nested_empty_frame():
    from nested_pandas.utils import count_nested
    nf = NestedFrame({"x": np.array([], dtype=np.int64)}).add_nested(pd.DataFrame({"a": np.array([], dtype=np.int64)}), "n")
    r = count_nested(nf, "n")
    return "n_n" not in r.columns, list(r.columns)

@case
def K9_duplicate_field_names_misparse():
    d = NestedDtype(pa.struct([pa.field("a", pa.list_(pa.int64())), pa.field("a", pa.list_(pa.float64()))]))
    p = NestedDtype.construct_from_string(d.name)
    return p != d, f"{d.name} -> {p.name}"

@case
def K10_nested_column_called_base():
    nf = NestedFrame({"a": [1, 2]}, index=[0, 1]).add_nested(pd.DataFrame({"t": [1.0, 2.0, 3.0]}, index=[0, 0, 1]), "base")
    out = {}
    for nm, fn in (("reduce", lambda: nf.reduce(lambda t: {"n": len(t)}, "base.t")),
                   ("sort_values", lambda: nf.sort_values("base.t")),
                   ("dropna", lambda: nf.dropna(subset="base.t"))):
        try:
            fn()
            out[nm] = "ok"
        except KeyError as e:
            out[nm] = "KeyError"
    out["all_columns"] = sorted(nf.all_columns)
    return out["reduce"] == "KeyError" or out["sort_values"] == "KeyError" or out["all_columns"] == ["base"], out

@case
def K11_two_colliding_sibling_names_in_one_expression():
    nf = NestedFrame({"id": [0, 1]}, index=[0, 1]).add_nested(
        pd.DataFrame({"t (s)": [1.0, 2.0, 3.0], "t_(s)": [10.0, 20.0, 30.0]}, index=[0, 0, 1]), "n")
    alone = [nf.eval("n.`t (s)` + 0").tolist(), nf.eval("n.`t_(s)` + 0").tolist()]
    both = nf.eval("n.`t (s)` + n.`t_(s)`").tolist()
    return alone == [[1.0, 2.0, 3.0], [10.0, 20.0, 30.0]] and both != [11.0, 22.0, 33.0], {"alone": alone, "both": both}

if __name__ == "__main__":
    for k, (violated, d) in R.items():
        print(("STILL-VIOLATED " if violated else "NOT-REPRODUCED "), k, "--", d)
