"""Reproductions of the defects of the pinned tree found while building the model.
Each function returns (ok: bool, detail).  ok == True means the property holds.
Run:  /venv/bin/python /verif/findings/repro_all.py
"""
import io, sys, warnings
import numpy as np, pandas as pd, pyarrow as pa
warnings.filterwarnings("ignore")
sys.path.insert(0, "/repo/src")
import nested_pandas as npd
from nested_pandas import NestedFrame, NestedDtype, read_parquet
from nested_pandas.series.packer import pack_flat, pack_lists, pack_seq
from nested_pandas.series.ext_array import NestedExtensionArray

def mk():
    flat = pd.DataFrame({"a": [1, 2, 3, 4, 5, 6], "b": [1., 2., 3., 4., 5., 6.]}, index=[0, 0, 1, 2, 2, 2])
    return pack_flat(flat, name="n")

def mk_missing():
    return pack_seq([pd.DataFrame({"a": [1, 2], "b": [1., 2.]}), None, pd.DataFrame({"a": [3], "b": [3.]})], name="n")

def rows(s):
    return [None if r is None or r is pd.NA else {c: r[c].tolist() for c in r.columns} for r in list(s.array)]

R = {}
def case(f):
    try:
        R[f.__name__] = f()
    except Exception as e:  # noqa
        R[f.__name__] = (False, f"raised {type(e).__name__}: {e}")
    return f

@case
def F1_field_edit_keeps_missing_rows():
    s = mk_missing()
    out = {}
    out["with_flat"] = s.nest.with_flat_field("c", [7, 8, 9]).isna().tolist()
    out["without"] = s.nest.without_field("b").isna().tolist()
    out["view"] = s.nest[["a"]].isna().tolist()
    return all(v == [False, True, False] for v in out.values()), out

@case
def F2_flat_field_on_slice():
    s = mk().iloc[1:]
    r = s.nest.with_flat_field("c", [3, 4, 5, 6])
    return rows(r)[0]["c"] == [3], rows(r)

@case
def F3_list_field_on_slice_and_chunks():
    s = mk()
    r1 = s.iloc[1:].nest.with_list_field("c", pa.array([[3], [4, 5, 6]]))
    s2 = pd.concat([s, s])
    r2 = s2.nest.with_list_field("c", pa.array([[1, 2], [3], [4, 5, 6]] * 2))
    return True, (rows(r1), len(r2))

@case
def F4_setitem_refuses_ragged():
    s = mk()
    arr = s.array.copy()
    try:
        arr[0] = {"a": [1, 2, 3], "b": [1.0]}
    except ValueError:
        return True, "refused"
    return False, "ragged row stored"

@case
def F5_empty_selection_usable():
    arr = mk().array[np.array([], dtype=int)]
    return (arr.field_names == ["a", "b"] and arr.flat_length == 0 and list(arr.list_lengths) == []), "ok"

@case
def F6_setitem_new_nest_keeps_callers_series():
    nf = NestedFrame({"x": [1, 2]}, index=[0, 1])
    ser = pd.Series([1., 2., 3.], index=[0, 0, 1], name="orig")
    nf["m.w"] = ser
    return ser.name == "orig", ser.name

@case
def F7_failed_eval_leaves_no_state():
    nf = NestedFrame({"x": [1, 2]}, index=[0, 1]).add_nested(
        pd.DataFrame({"a b": [1, 2, 3]}, index=[0, 0, 1]), "n")
    before = nf["n.`a b`"].tolist()
    try:
        nf.eval("n.`a b` + undefined_name")
    except Exception:
        pass
    try:
        after = nf["n.`a b`"].tolist()
    except Exception as e:
        return False, f"quoted access after failed eval: {type(e).__name__}"
    return before == after, after

@case
def F7b_eval_assign_result_has_no_alias_table():
    nf = NestedFrame({"x": [1, 2]}, index=[0, 1]).add_nested(
        pd.DataFrame({"a b": [1, 2, 3]}, index=[0, 0, 1]), "n")
    out = nf.eval("n.c = n.`a b` + 1")
    try:
        v = out["n.`a b`"].tolist()
    except Exception as e:
        return False, f"quoted access on eval result: {type(e).__name__}"
    return v == [1, 2, 3], v

@case
def F8_sort_dropna_accept_quoted_paths():
    nf = NestedFrame({"x": [1, 2]}, index=[0, 1]).add_nested(
        pd.DataFrame({"a b": [3, None, 1]}, index=[0, 0, 1]), "n")
    r1 = nf.sort_values("n.`a b`")
    r2 = nf.dropna(subset="n.`a b`")
    return True, (r1["n.`a b`"].tolist(), r2["n.`a b`"].tolist())

@case
def F9_negative_int_array_indexing():
    arr = mk().array
    r = arr[np.array([-1, 0])]
    return len(r) == 2 and r[0]["a"].tolist() == [4, 5, 6], "ok"

@case
def F10_from_lists_repeated_labels():
    df = pd.DataFrame({"x": [1, 2, 3], "l": [[1, 2], [3], [4, 5]]}, index=[0, 0, 1])
    nf = NestedFrame.from_lists(df, base_columns=["x"], list_columns=["l"])
    return len(nf) == 3, len(nf)

@case
def F11_count_nested_missing_rows():
    from nested_pandas.utils import count_nested
    nf = NestedFrame({"x": [1, 2, 3]}, index=[0, 1, 2]).add_nested(
        pd.DataFrame({"a": [1, 2, 3]}, index=[0, 0, 2]), "n")
    r = count_nested(nf, "n")
    return r["n_n"].tolist()[0] == 2 and len(r) == 3, r["n_n"].tolist()

@case
def F12_parquet_partial_load_keeps_missing():
    nf = NestedFrame({"x": [1, 2, 3]}, index=[0, 1, 2]).add_nested(
        pd.DataFrame({"a": [1, 2, 3], "b": [1., 2., 3.]}, index=[0, 0, 2]), "n")
    buf = io.BytesIO(); nf.to_parquet(buf); buf.seek(0)
    r = read_parquet(buf, columns=["x", "n.a"])
    return r["n"].isna().tolist() == [False, True, False], r["n"].isna().tolist()

@case
def F13_multiline_eval_noninplace():
    nf = NestedFrame({"x": [1, 2]}, index=[0, 1]).add_nested(
        pd.DataFrame({"a": [1, 2, 3]}, index=[0, 0, 1]), "n")
    r = nf.eval("n.c = n.a + 1\nn.d = n.c * 2")
    return r["n.d"].tolist() == [4, 6, 8], r["n.d"].tolist()

@case
def F14_dotted_setitem_dup_labels():
    nf = NestedFrame({"x": [1, 2]}, index=["a", "a"]).add_nested(
        pd.DataFrame({"v": [1, 2]}, index=["a", "a"]), "n")
    # flat index is [a,a,a,a]; take a frame where flat index equals frame index: lengths [2,0]
    s = pack_seq([pd.DataFrame({"v": [1, 2]}), pd.DataFrame({"v": np.array([], dtype=np.int64)})], index=["a", "a"], name="n")
    nf2 = NestedFrame({"x": [1, 2]}, index=["a", "a"]); nf2["n"] = s
    flat = nf2["n.v"]
    nf2["n.w"] = flat * 10
    return nf2["n.w"].tolist() == [10, 20], nf2["n.w"].tolist()

@case
def F15_dotted_nest_name_query_dropna_sort():
    fi = [10, 10, 30, 30, 30]
    nf = NestedFrame({"x": [1.5, 2.5, 3.5]}, index=[10, 20, 30]).add_nested(
        pd.DataFrame({"a": [1200., np.nan, 1202., 1203., 1204.], "t": [5., 4., 3., 2., 1.]}, index=fi), "a.b")
    q = nf.query("`a.b`.`a` > 1200")["a.b"].nest.to_flat()["a"].tolist()
    d = len(nf.dropna(subset="`a.b`.`a`")["a.b"].nest.to_flat())
    s = nf.sort_values("`a.b`.`t`")["a.b"].nest.to_flat()["t"].tolist()
    cols = list(nf.query("`a.b`.`a` > 1200").columns)
    ok = q == [1202., 1203., 1204.] and d == 4 and s == [4., 5., 1., 2., 3.] and cols == ["x", "a.b"]
    return ok, (q, d, s, cols)

@case
def F16_eval_statements_quoted_nest():
    nf = NestedFrame({"x": [1.0, 2.0]}, index=[0, 1]).add_nested(pd.DataFrame({"a": [1.0, 2.0, 3.0]}, index=[0, 0, 1]), "n-x")
    nf.eval("`n-x`.a = `n-x`.a + 1\n`n-x`.d = `n-x`.a * 2", inplace=True)
    return nf["`n-x`.d"].tolist() == [4.0, 6.0, 8.0], nf["`n-x`.d"].tolist()

@case
def F17_dtype_hash_after_parquet():
    import io
    import pyarrow as pa
    import pyarrow.parquet as pq
    from nested_pandas import NestedDtype
    st = pa.struct([("a", pa.list_(pa.int64()))])
    buf = io.BytesIO()
    pq.write_table(pa.table({"c": pa.array([{"a": [1, 2]}], type=st)}), buf)
    buf.seek(0)
    back = NestedDtype(pq.read_table(buf)["c"].type)
    d = NestedDtype(st)
    return (back == d and hash(back) == hash(d) and back in {d}), (back == d, hash(back) == hash(d))

@case
def F18_from_lists_plain_dataframe():
    df = pd.DataFrame({"k": [1, 2], "l": [[1, 2], [3]]})
    r = NestedFrame.from_lists(df, base_columns=["k"], name="n")
    return isinstance(r, NestedFrame), type(r).__name__


@case
def F19_flat_values_alias_callers_numpy_memory():
    nf = NestedFrame({"x": [1, 2]}, index=[0, 1]).add_nested(pd.DataFrame({"a": [1.0, 2.0, 3.0]}, index=[0, 0, 1]), "n")
    ser = pd.Series(np.array([10.0, 20.0, 30.0]), index=[0, 0, 1])
    nf["n.g"] = ser
    arr = np.array([1.0, 2.0, 3.0])
    s2 = nf["n"].nest.with_flat_field("k", arr)
    s3 = nf["n"].copy()
    s3.nest["a"] = arr
    ser.iloc[0] = 555.0            # the caller goes on with ITS objects
    arr[1] = -2.0
    got = (nf["n.g"].tolist(), s2.nest["k"].tolist(), s3.nest["a"].tolist())
    return got == ([10.0, 20.0, 30.0], [1.0, 2.0, 3.0], [1.0, 2.0, 3.0]), got

@case
def F20_mixed_layers_under_unary_operator_or_function_refused():
    nf = NestedFrame({"id": [0, 1], "x": [1.0, 2.0]}, index=[5, 6]).add_nested(pd.DataFrame({"a": [1, 2, 3]}, index=[5, 5, 6]), "nest")
    got = {}
    for q in ["-(nest.a + id) < 0", "~(nest.a > id)", "abs(nest.a - x) < 1"]:
        try:
            nf.query(q)
            got[q] = "accepted"
        except ValueError:
            got[q] = "refused"
    ok_single = nf.query("-nest.a < -1")["nest"].nest.to_flat()["a"].tolist() == [2, 3]
    return all(v == "refused" for v in got.values()) and ok_single, got


@case
def F21_sort_values_with_a_field_called_index():
    nf = NestedFrame({"a": [1, 2]}, index=[0, 1]).add_nested(pd.DataFrame({"index": [3.0, 1.0, 2.0], "t": [1, 2, 3]}, index=[0, 0, 1]), "n")
    try:
        got = (nf.sort_values("n.index")["n"].nest.to_flat()["index"].tolist(),
               nf.sort_values("n.t", ascending=False)["n"].nest.to_flat()["t"].tolist())
    except Exception as e:
        return False, repr(e)
    return got == ([1.0, 3.0, 2.0], [2, 1, 3]), got


@case
def F22_nested_column_called_self():
    df = pd.DataFrame({"a": [1, 2], "l": [[1, 2], [3]]}, index=[0, 0])
    nf = NestedFrame({"a": [1, 2]}, index=[0, 1]).add_nested(pd.DataFrame({"t": [1.0, 2.0, 3.0]}, index=[0, 0, 1]), "n")
    try:
        r1 = NestedFrame.from_lists(df, base_columns=["a"], list_columns=["l"], name="self")
        r2 = nf.reduce(lambda t: {"self.x": t * 2, "m": t.sum()}, "n.t")
        got = (list(r1.columns), r1["self"].nest.to_flat()["l"].tolist(), list(r2.columns), r2["self"].nest.to_flat()["x"].tolist())
    except Exception as e:
        return False, repr(e)
    return got == (["a", "self"], [1, 2, 3], ["m", "self"], [2.0, 4.0, 6.0]), got


if __name__ == "__main__":
    bad = 0
    for k, (ok, d) in R.items():
        print(("HOLDS   " if ok else "VIOLATED"), k, "--", d)
        bad += (not ok)
    sys.exit(1 if bad else 0)
