#!/bin/sh
# seedwt.sh <seed id>: scratch worktree of /repo HEAD with the seeded change applied, for pointing a check at it
# (NPV_REPO=/tmp/sw-<id> ./check Cxx); seedwt.sh -r <seed id> removes it.  Never touches /repo's working tree.
if [ "$1" = "-r" ]; then git -C /repo worktree remove --force /tmp/sw-$2; exit 0; fi
git -C /repo worktree remove --force /tmp/sw-$1 2>/dev/null
git -C /repo worktree add -q --detach /tmp/sw-$1 HEAD && cp /repo/src/nested_pandas/_version.py /tmp/sw-$1/src/nested_pandas/ && git -C /tmp/sw-$1 apply /verif/seeded/$1/patch.diff && echo /tmp/sw-$1
