/-
  Driver — line protocol: one JSON request per line on stdin, one JSON answer per line on stdout.
  Run as a compiled executable (`lake build npdriver`) or `lake env lean --run Driver.lean`.
-/
import NPModel.Driver.FrameOps

partial def loop (hin hout : IO.FS.Stream) : IO Unit := do
  let line ← hin.getLine
  if line.isEmpty then return ()
  let t := line.trimAscii.toString
  if !t.isEmpty then
    hout.putStrLn (NP.handleLine2 t)
    hout.flush
  loop hin hout

def main : IO Unit := do
  loop (← IO.getStdin) (← IO.getStdout)
