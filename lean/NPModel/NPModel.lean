import NPModel.Basic
import NPModel.Arrow.Phys
import NPModel.Arrow.Kernels
import NPModel.Spec.Col
