/-
  NPModel.Arrow.Kernels — executable models of the pyarrow kernels nested-pandas calls.
  These definitions are ASSUMPTIONS about pyarrow 25 (validated by the K-tier of the
  correspondence check), not verified code.

  Two kinds of kernel:
  * window kernels (`slice`, `field`, `.offsets`, `.values`, `from_arrays`) are modelled
    buffer-exactly, because the library's own logic consults raw offsets after them;
  * value kernels (`take`, `filter`, `if_else`, `drop_null`, `combine_chunks`, `pa.array`)
    produce a fresh array; the model builds the canonical fresh layout (`PList.ofRows`).
    Struct-level value kernels act child-wise, so child lists under a null struct row
    ("hidden" lists) survive them — as observed on pyarrow.
-/
import NPModel.Arrow.Phys
namespace NP
variable {α : Type}

/-! ### window kernels -/

/-- `list_array.slice(st, n)` / what `.field()` of a sliced struct shows. -/
def PList.slice (l : PList α) (st n : Nat) : PList α :=
  { offs := (l.offs.drop st).take (n + 1), valid := (l.valid.drop st).take n, vals := l.vals }

def PStruct.slice (s : PStruct α) (st n : Nat) : PStruct α :=
  { valid := (s.valid.drop st).take n
    kids  := s.kids.map fun k => { k with list := k.list.slice st n } }

/-- `ChunkedArray.slice(st, n)`: per-chunk windows (chunks entirely before `st` are dropped). -/
def chunkedSlice : List (PStruct α) → Nat → Nat → List (PStruct α)
  | [], _, _ => []
  | ch :: rest, st, n =>
    if st ≥ ch.len then chunkedSlice rest (st - ch.len) n
    else
      let k := min n (ch.len - st)
      ch.slice st k :: chunkedSlice rest 0 (n - k)

/-- `pa.ListArray.from_arrays(offsets, values)`: no mask, every list valid.
    pyarrow raises ArrowInvalid when the first or last offset is out of bounds. -/
def listFromArrays (offs : List Nat) (vals : List α) : R (PList α) :=
  match offs.getLast? with
  | none => .error .arrowInvalid
  | some last =>
    if last ≤ vals.length ∧ offs.head?.getD 0 ≤ vals.length then
      .ok { offs := offs, valid := List.replicate (offs.length - 1) true, vals := vals }
    else .error .arrowInvalid

/-- `ListArray.flatten()`: concatenation of the extents of the *valid* lists of the window. -/
def PList.flatten (l : PList α) : List α :=
  (l.rows.map fun r => r.getD []).flatten

/-- `pc.list_value_length`. -/
def PList.valueLengths (l : PList α) : List (Option Nat) :=
  l.rows.map fun r => r.map List.length

/-! ### value kernels (fresh canonical output) -/

/-- `take` with optional (masked) indices; an out-of-range index is an IndexError. -/
def gather {β : Type} (idx : List (Option Nat)) (xs : List β) : List (Option β) :=
  idx.map fun o => o.bind fun i => xs[i]?

def PList.take (l : PList α) (idx : List (Option Nat)) : PList α :=
  PList.ofRows ((gather idx l.rows).map Option.join)

def PStruct.take (s : PStruct α) (idx : List (Option Nat)) : PStruct α :=
  { valid := (gather idx s.valid).map fun o => o.getD false
    kids  := s.kids.map fun k => { k with list := k.list.take idx } }

def filterBy {β : Type} : List Bool → List β → List β
  | m :: ms, x :: xs => if m then x :: filterBy ms xs else filterBy ms xs
  | _, _ => []

def PStruct.filter (s : PStruct α) (mask : List Bool) : PStruct α :=
  { valid := filterBy mask s.valid
    kids  := s.kids.map fun k => { k with list := PList.ofRows (filterBy mask k.list.rows) } }

/-- Per-row rows of field number `j` of a chunk (`[]` if the chunk has no such field). -/
def PStruct.kidRows (s : PStruct α) (j : Nat) : List (Option (List α)) :=
  match s.kids[j]? with
  | some k => k.list.rows
  | none => []

/-- `combine_chunks()` / `pa.concat_arrays`: one fresh chunk. -/
def PCol.combine (c : PCol α) : PStruct α :=
  { valid := c.chunks.flatMap (·.valid)
    kids  := (List.range c.ty.length).map fun j =>
      { name := (c.ty[j]?.getD ("", "")).1, ty := (c.ty[j]?.getD ("", "")).2
        list := PList.ofRows (c.chunks.flatMap fun ch => ch.kidRows j) } }

/-- `pc.if_else(mask, a, b)` on struct arrays of equal length (child-wise). -/
def selectBy {β : Type} : List Bool → List β → List β → List β
  | m :: ms, x :: xs, y :: ys => (if m then x else y) :: selectBy ms xs ys
  | _, _, _ => []

def PStruct.ifElse (mask : List Bool) (a b : PStruct α) : PStruct α :=
  { valid := selectBy mask a.valid b.valid
    kids  := List.zipWith (fun ka kb => { kb with list := PList.ofRows (selectBy mask ka.list.rows kb.list.rows) })
               a.kids b.kids }

/-- `pa.StructArray.from_arrays(arrays, names, mask=None)` fails on unequal child lengths. -/
def structFromArrays (kids : List (PField α)) (validity : Option (List Bool)) : R (PStruct α) :=
  match kids with
  | [] => .error .valueError
  | k :: ks =>
    if ks.all (fun k' => k'.list.len = k.list.len) then
      .ok { valid := validity.getD (List.replicate k.list.len true), kids := k :: ks }
    else .error .arrowInvalid

/-- A boxed struct scalar: `none` = null struct; per field `none` = null list. -/
abbrev PScalar (α : Type) := Option (List (Option (List α)))

/-- Fresh struct array from boxed scalars (`pa.array(list_of_scalars, type=…)`). -/
def PStruct.ofScalars (ty : List (String × String)) (xs : List (PScalar α)) : PStruct α :=
  { valid := xs.map Option.isSome
    kids  := (List.range ty.length).map fun j =>
      { name := (ty[j]?.getD ("", "")).1, ty := (ty[j]?.getD ("", "")).2
        list := PList.ofRows (xs.map fun x => match x with
          | none => none
          | some fs => (fs[j]?).join) } }

/-- The struct scalar at row `i` of a chunk (child-wise; struct validity separate). -/
def PStruct.scalarAt (s : PStruct α) (i : Nat) : PScalar α :=
  if s.valid.getD i false then some (s.kids.map fun k => (k.list.rows.getD i none)) else none

end NP
