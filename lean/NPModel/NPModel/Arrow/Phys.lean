/-
  NPModel.Arrow.Phys — what pyarrow shows of a (possibly sliced, possibly chunked)
  struct-of-list array: raw offset windows, validity bitmaps, whole child buffers.
  The cell type `α` is a parameter: data-movement code never looks inside values.
-/
import NPModel.Basic
namespace NP

/-- One `pa.ListArray`, possibly a slice of a larger one.
    `offs`  = `.offsets` : the RAW window (length n+1), *not* re-based on slices;
    `valid` = `.is_valid()` (length n);
    `vals`  = `.values` : the whole child buffer (the slice offset is ignored by pyarrow). -/
structure PList (α : Type) where
  offs  : List Nat
  valid : List Bool
  vals  : List α
  deriving Repr, DecidableEq

/-- One field of a struct array: name, rendered element type, the list array. -/
structure PField (α : Type) where
  name : String
  ty   : String
  list : PList α
  deriving Repr, DecidableEq

/-- One chunk: a `pa.StructArray` whose fields are list arrays. -/
structure PStruct (α : Type) where
  valid : List Bool
  kids  : List (PField α)
  deriving Repr, DecidableEq

/-- `pa.ChunkedArray` of struct type. The type is kept separately: a column may have zero chunks. -/
structure PCol (α : Type) where
  ty     : List (String × String)
  chunks : List (PStruct α)
  deriving Repr, DecidableEq

variable {α : Type}

/-- The extents `vals[offs[i] : offs[i+1]]`. -/
def segs : List Nat → List α → List (List α)
  | a :: b :: rest, vals => ((vals.drop a).take (b - a)) :: segs (b :: rest) vals
  | _, _ => []

/-- Logical reading of a list array: `none` for a null list (whatever its extent). -/
def PList.rows (l : PList α) : List (Option (List α)) :=
  List.zipWith (fun v s => if v then some s else none) l.valid (segs l.offs l.vals)

def PList.len (l : PList α) : Nat := l.valid.length

def PStruct.len (s : PStruct α) : Nat := s.valid.length

def PCol.len (c : PCol α) : Nat := sumNat (c.chunks.map PStruct.len)

def PStruct.ty (s : PStruct α) : List (String × String) := s.kids.map fun k => (k.name, k.ty)

/-- Canonical fresh list array with the given rows: zero-based offsets, null ⇒ empty extent.
    This is the layout pyarrow's `take`, `filter`, `if_else`, `pa.array(...)` produce. -/
def PList.ofRows (rows : List (Option (List α))) : PList α :=
  { offs  := offsetsFrom 0 (rows.map fun r => (r.getD []).length)
    valid := rows.map Option.isSome
    vals  := (rows.map fun r => r.getD []).flatten }

/-! ### Well-formedness (what every array pyarrow hands out satisfies) -/

def monotone : List Nat → Bool
  | a :: b :: rest => decide (a ≤ b) && monotone (b :: rest)
  | _ => true

def PList.WF (l : PList α) : Bool :=
  decide (l.offs.length = l.valid.length + 1) && monotone l.offs &&
  decide (l.offs.getLast?.getD 0 ≤ l.vals.length)

def PStruct.WF (s : PStruct α) : Bool :=
  s.kids.all fun k => k.list.WF && decide (k.list.len = s.len)

def PCol.WF (c : PCol α) : Bool :=
  c.chunks.all fun s => s.WF && decide (s.ty = c.ty)

end NP
