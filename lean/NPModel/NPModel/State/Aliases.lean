/-
  NPModel.State.Aliases — the only piece of hidden state a NestedFrame carries between calls:
  the `_aliases` attribute (core.py `_metadata = ["_aliases"]`), set by `eval` for the duration
  of an evaluation, read by `_parse_hierarchical_components` and by the field resolvers, copied
  to derived frames by pandas' `__finalize__`.

  The model is parametric in the data `D`, the results `R` and the semantics of each operation
  `sem : D → Option T → Option (R × D)` (`none` = the call raises; the `Option T` argument is the
  alias table the operation sees).  What is modelled exactly is the PROTOCOL around it (eval.py /
  core.py `eval`, `query`), as it is after the `fix:` commit a0b20be:

      eval:   self._aliases = table;  try: answer = body()  finally: self._aliases = None
              if answer is a frame: answer._aliases = None
      query:  preflight (reads _aliases, may raise) ; eval ; select
      others: read _aliases, never write it; in-place variants replace the data only on success
-/
import NPModel.Basic
namespace NP.State

variable {D R T : Type}

structure Frame (D T : Type) where
  data    : D
  aliases : Option T
  deriving DecidableEq

/-- how an operation is wrapped -/
inductive Kind where
  | eval      -- sets the table, runs, clears it (try/finally)
  | plain     -- any other public operation: reads the attribute only
  deriving DecidableEq, Repr

structure Op (D R T : Type) where
  kind  : Kind
  table : T                                   -- the alias table `eval` derives from its expression
  sem   : D → Option T → Option (R × D)        -- outcome given the data and the table it sees
  inplace : Bool                              -- whether a successful call replaces the receiver's data

/-- one public call on a frame: the outcome (`none` = raised) and the frame afterwards -/
def call (f : Frame D T) (op : Op D R T) : Option R × Frame D T :=
  match op.kind with
  | .eval =>
    -- the body sees the table of THIS expression; whatever happens the attribute is cleared
    match op.sem f.data (some op.table) with
    | some (r, d') => (some r, { data := if op.inplace then d' else f.data, aliases := none })
    | none => (none, { data := f.data, aliases := none })
  | .plain =>
    match op.sem f.data f.aliases with
    | some (r, d') => (some r, { f with data := if op.inplace then d' else f.data })
    | none => (none, f)

/-- the frame after a history of calls (outcomes discarded) -/
def after (f : Frame D T) : List (Op D R T) → Frame D T
  | [] => f
  | op :: rest => after (call f op).2 rest

/-- an operation is read-only-or-failing on `f` if it raises or is not in place -/
def Harmless (f : Frame D T) (op : Op D R T) : Prop :=
  (call f op).1 = none ∨ op.inplace = false

end NP.State
