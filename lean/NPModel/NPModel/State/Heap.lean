/-
  NPModel.State.Heap — sharing model for C15: array objects are heap cells (a
  NestedExtensionArray object holds an immutable Arrow storage and is re-bound in place by
  `__setitem__`, `set_*_field`, `pop_fields`), series/frames are objects referring to cells.

  * an operation that returns a new object allocates fresh cells for everything it returns and
    writes nothing;
  * a deep copy allocates a fresh cell for every cell of the source;
  * an in-place array operation writes exactly one cell;
  * an in-place frame operation (`inplace=True`, `frame['n.f'] = …`) re-points the target object
    to fresh cells and writes no existing cell.
  The values are abstract (`V`).
-/
import NPModel.Basic
namespace NP.State


abbrev ObjId := Nat

structure Heap (V : Type) where
  cells : List (Nat × V)            -- association list: the current value of every array object
  objs  : List (ObjId × List Nat)   -- every live series/frame and the array objects it refers to, in column order
  next  : Nat                       -- allocator

variable {V : Type}

def Heap.read (h : Heap V) (c : Nat) : Option V := (h.cells.find? (·.1 == c)).map (·.2)

def Heap.refs (h : Heap V) (o : ObjId) : List Nat := ((h.objs.find? (·.1 == o)).map (·.2)).getD []

/-- what an object shows: the values of the cells it refers to -/
def Heap.observe (h : Heap V) (o : ObjId) : List (Option V) := (h.refs o).map h.read

inductive HOp (V : Type) where
  | writeCell (c : Nat) (v : V)                         -- in-place array operation on array object `c`
  | rebind (o : ObjId) (vals : List V)                   -- in-place frame operation: `o` gets fresh arrays
  | newObj (o : ObjId) (vals : List V)                   -- an operation returning a new object `o`
  | deepCopy (src dst : ObjId)                           -- `dst = src.copy()`

def setCell (cells : List (Nat × V)) (c : Nat) (v : V) : List (Nat × V) :=
  cells.map fun p => if p.1 == c then (c, v) else p

/-- fresh cells `n, n+1, …` holding `vals` -/
def alloc (n : Nat) : List V → List (Nat × V)
  | [] => []
  | v :: vs => (n, v) :: alloc (n + 1) vs

def setObj (objs : List (ObjId × List Nat)) (o : ObjId) (cs : List Nat) : List (ObjId × List Nat) :=
  (o, cs) :: objs.filter (·.1 != o)

def Heap.step (h : Heap V) : HOp V → Heap V
  | .writeCell c v => { h with cells := setCell h.cells c v }
  | .rebind o vals | .newObj o vals =>
    let fresh := alloc h.next vals
    { cells := h.cells ++ fresh, objs := setObj h.objs o (fresh.map (·.1)), next := h.next + vals.length }
  | .deepCopy src dst =>
    let vals := (h.observe src).filterMap id
    let fresh := alloc h.next vals
    { cells := h.cells ++ fresh, objs := setObj h.objs dst (fresh.map (·.1)), next := h.next + vals.length }

def Heap.run (h : Heap V) : List (HOp V) → Heap V
  | [] => h
  | op :: ops => (h.step op).run ops

/-- allocator invariant: every cell in use is below `next` -/
def Heap.WF (h : Heap V) : Prop :=
  (∀ p ∈ h.cells, p.1 < h.next) ∧ (∀ o ∈ h.objs, ∀ c ∈ o.2, c < h.next)

end NP.State
