/-
  NPModel.State.Kinds — closure model for C18: the class of a result and the kind of each of its
  columns under the operations named in the property.  Each rule is pandas/NestedFrame runtime
  behaviour (constructor propagation via `_constructor`, dtype preservation of extension arrays);
  the rules are ASSUMPTIONS validated by the correspondence on every step of every chain; what is
  proved is that the rules compose: closure under chains of any depth.
-/
import NPModel.Basic
namespace NP.State

inductive ColKind where
  | base
  | nested (fields : List String)
  | degraded                         -- a formerly nested column that became object / struct / list
  deriving Repr, DecidableEq

structure FKind where
  isNestedFrame : Bool
  cols : List (String × ColKind)
  deriving Repr, DecidableEq

def FKind.nestedColumns (F : FKind) : List String :=
  F.cols.filterMap fun (n, k) => match k with | .nested _ => some n | _ => none

def FKind.fieldsOf (F : FKind) (n : String) : Option (List String) :=
  match F.cols.find? (·.1 == n) with
  | some (_, .nested fs) => some fs
  | _ => none

/-- the result is a NestedFrame and no nested column has degraded -/
def FKind.Closed (F : FKind) : Prop := F.isNestedFrame = true ∧ ∀ c ∈ F.cols, c.2 ≠ .degraded

inductive KOp where
  | rowOp                                  -- query / sort / dropna / row selection / head / tail / reindex / concat of equal dtypes / copy / pickle / parquet / reset_index(drop) : same columns, same kinds
  | addField (nest field : String)         -- eval assignment / field assignment on an existing nest
  | dropField (nest field : String)
  | addNested (name : String) (fields : List String)   -- add_nested / new nest by assignment / join with a nested table
  | addBase (name : String)                -- join/merge with a base table, reset_index(), assign
  | selectCols (names : List String)       -- column selection
  deriving Repr

def upsertField (fs : List String) (f : String) : List String := if fs.contains f then fs else fs ++ [f]

def FKind.step (F : FKind) : KOp → FKind
  | .rowOp => F
  | .addField n f => { F with cols := F.cols.map fun (c, k) => match k with
      | .nested fs => if c == n then (c, .nested (upsertField fs f)) else (c, k)
      | _ => (c, k) }
  | .dropField n f => { F with cols := F.cols.map fun (c, k) => match k with
      | .nested fs => if c == n then (c, .nested (fs.filter (· != f))) else (c, k)
      | _ => (c, k) }
  | .addNested name fs => { F with cols := (F.cols.filter (·.1 != name)) ++ [(name, .nested fs)] }
  | .addBase name => { F with cols := (F.cols.filter (·.1 != name)) ++ [(name, .base)] }
  | .selectCols names => { F with cols := F.cols.filter fun c => names.contains c.1 }

def FKind.run (F : FKind) : List KOp → FKind
  | [] => F
  | op :: ops => (F.step op).run ops

end NP.State
