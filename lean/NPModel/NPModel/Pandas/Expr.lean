/-
  NPModel.Pandas.Expr — the mini expression language of the query/eval grammar the property
  list quantifies over, with its evaluation on ONE record (elementwise semantics).
  ASSUMPTION about pandas' engine (validated case by case by the correspondence check):
  `DataFrame.eval` on Arrow-typed columns is elementwise — the value at flat position `j`
  depends only on the values of record `j`, with Kleene logic for nulls, IEEE semantics for NaN.
-/
import NPModel.Basic
namespace NP

inductive CmpOp where | lt | le | eq | ne | ge | gt deriving Repr, DecidableEq
inductive ArOp where | add | sub | mul deriving Repr, DecidableEq

inductive Expr where
  | field (layer : Option String) (name : String)    -- `none` = base column
  | const (v : Val)
  | cmp (o : CmpOp) (l r : Expr)
  | ar (o : ArOp) (l r : Expr)
  | and (l r : Expr)
  | or (l r : Expr)
  | not (e : Expr)
  deriving Repr

/-- layers an expression refers to (`_subexprs_by_nest` keys: "" for the base layer) -/
def Expr.layers : Expr → List (Option String)
  | .field l _ => [l]
  | .const _ => []
  | .cmp _ l r | .ar _ l r | .and l r | .or l r => (l.layers ++ r.layers).eraseDups
  | .not e => e.layers

/-- numeric view: (isFloat, twice the value) -/
def Val.num? : Val → Option (Bool × Int)
  | .int i => some (false, 2 * i)
  | .flt t => some (true, t)
  | _ => none

def cmpOrd (o : CmpOp) (c : Ordering) : Bool :=
  match o, c with
  | .lt, .lt => true | .le, .lt => true | .le, .eq => true | .eq, .eq => true
  | .ne, .lt => true | .ne, .gt => true | .ge, .gt => true | .ge, .eq => true | .gt, .gt => true
  | _, _ => false

/-- comparison of two non-null values; `none` = the pair is not comparable (not generated) -/
def Val.cmp (o : CmpOp) (a b : Val) : Option Bool :=
  match a, b with
  | .nan, _ | _, .nan => if a.num?.isSome ∨ b.num?.isSome ∨ (a == .nan ∧ b == .nan) then some (o == .ne) else none
  | .str x, .str y => some (cmpOrd o (compare x y))
  | .bool x, .bool y => some (cmpOrd o (compare x.toNat y.toNat))
  | .ts x, .ts y => some (cmpOrd o (compare x y))
  | a, b => match a.num?, b.num? with
    | some (_, x), some (_, y) => some (cmpOrd o (compare x y))
    | _, _ => none

/-! ### the order `sort_values` uses on cells -/

def cellIsNull : Cell → Bool := Option.isNone

/-- order on non-null values used by sort_values: NaN above every number -/
def Val.lt (a b : Val) : Bool :=
  match a, b with
  | .nan, _ => false
  | x, .nan => x != .nan
  | a, b => (Val.cmp .lt a b).getD false

def cellLt (a b : Cell) : Bool := match a, b with | some x, some y => Val.lt x y | _, _ => false

def Val.arith (o : ArOp) (a b : Val) : Option Val :=
  match a, b with
  | .nan, x | x, .nan => if x.num?.isSome ∨ x == .nan then some .nan else none
  | .int x, .int y => some (.int (match o with | .add => x + y | .sub => x - y | .mul => x * y))
  | a, b => match a.num?, b.num? with
    | some (_, x), some (_, y) =>
      match o with
      | .add => some (.flt (x + y))
      | .sub => some (.flt (x - y))
      | .mul => if (x * y) % 2 = 0 then some (.flt (x * y / 2)) else none   -- off the exact grid: not generated
    | _, _ => none

inductive EvalErr where | undefined | badType deriving Repr, DecidableEq

/-- evaluate on one record; `lookup layer name` gives the record's cell or `none` if undefined -/
def Expr.eval (lookup : Option String → String → Option Cell) : Expr → Except EvalErr Cell
  | .field l n => match lookup l n with
    | some c => .ok c
    | none => .error .undefined
  | .const v => .ok (some v)
  | .cmp o l r => do
    let a ← l.eval lookup; let b ← r.eval lookup
    -- pandas rewrites `term == "str"` / `term != "str"` into `isin` / `not isin` (expr.py
    -- `_rewrite_membership_op`): two-valued, a null is simply not a member
    let isStrConst : Expr → Bool := fun e => match e with | .const (.str _) => true | _ => false
    let isTerm : Expr → Bool := fun e => match e with | .field _ _ => true | .const _ => true | _ => false
    if (o == .eq ∨ o == .ne) ∧ (isStrConst l ∨ isStrConst r) ∧ isTerm l ∧ isTerm r then
      match a, b with
      | some x, some y => pure (some (.bool ((x == y) == (o == .eq))))
      | _, _ => pure (some (.bool (o == .ne)))
    else
    match a, b with
    | some x, some y => match Val.cmp o x y with
      | some r => pure (some (.bool r))
      | none => throw .badType
    | _, _ => pure none
  | .ar o l r => do
    let a ← l.eval lookup; let b ← r.eval lookup
    match a, b with
    | some x, some y => match Val.arith o x y with
      | some r => pure (some r)
      | none => throw .badType
    | _, _ => pure none
  | .and l r => do
    let a ← l.eval lookup; let b ← r.eval lookup
    match a, b with     -- Kleene
    | some (.bool false), _ | _, some (.bool false) => pure (some (.bool false))
    | some (.bool true), some (.bool true) => pure (some (.bool true))
    | none, some (.bool true) | some (.bool true), none | none, none => pure none
    | _, _ => throw .badType
  | .or l r => do
    let a ← l.eval lookup; let b ← r.eval lookup
    match a, b with
    | some (.bool true), _ | _, some (.bool true) => pure (some (.bool true))
    | some (.bool false), some (.bool false) => pure (some (.bool false))
    | none, some (.bool false) | some (.bool false), none | none, none => pure none
    | _, _ => throw .badType
  | .not e => do
    match (← e.eval lookup) with
    | some (.bool b) => pure (some (.bool (!b)))
    | none => pure none
    | _ => throw .badType

/-- static result type of an expression given the field types -/
def Expr.ty (tyOf : Option String → String → String) : Expr → String
  | .field l n => tyOf l n
  | .const (.int _) => "int64" | .const (.flt _) => "double" | .const .nan => "double"
  | .const (.str _) => "string" | .const (.bool _) => "bool" | .const (.ts _) => "timestamp[ns]"
  | .cmp _ _ _ | .and _ _ | .or _ _ | .not _ => "bool"
  | .ar _ l r => if l.ty tyOf == "double" ∨ r.ty tyOf == "double" then "double" else "int64"

end NP
