/-
  NPModel.Findings — negation witnesses for the known findings of /verif/KNOWN_FINDINGS.txt:
  for each finding a concrete input on which the implementation model (validated against the
  code by the correspondence) violates the property's specification, proved by evaluation
  (`decide`, no axioms beyond the kernel's).  The same inputs are replayed on the real code by
  /verif/findings/repro_known.py.
-/
import NPModel.Spec.Frame
import NPModel.Impl.Dtype
import NPModel.Impl.Names
import NPModel.Refine.Samples
namespace NP.Findings
open NP

/-! ### K1 — hidden child lists under a missing row -/

def hiddenList : PList Nat := { offs := [0, 2, 4], valid := [true, true], vals := [1, 2, 8, 9] }
/-- row 1 is missing (struct invalid) but its child list still holds `[8, 9]`
    (`StructArray.from_arrays(mask=…)`, and what struct-level take/concat keep of it) -/
def hiddenKid : PField Nat := { name := "a", ty := "int64", list := hiddenList }
def hiddenChunk : PStruct Nat := { valid := [true, false], kids := [hiddenKid] }
def hiddenCol : PCol Nat := { ty := [("a", "int64")], chunks := [hiddenChunk] }

/-- iteration and `isna` say the row is missing, `list_lengths` counts its two hidden records and
    the flat view contains them — C03/C04/C06/C07/C10-C13/C19 all fail on such a column. -/
theorem hidden_lists_are_counted :
    hiddenCol.rows = [some [("a", [1, 2])], none] ∧
    NArr.listLengths hiddenCol = .ok [2, 2] ∧
    NArr.flatField hiddenCol "a" = .ok [1, 2, 8, 9] ∧
    Spec.lens hiddenCol.rows = [2, 0] := by decide

/-! ### K2 — to_lists shows the nullness of child lists -/

def nullList : PList Nat := { offs := [0, 0], valid := [false], vals := [] }
def emptyList : PList Nat := { offs := [0, 0], valid := [true], vals := [] }
def nullKid : PField Nat := { name := "a", ty := "int64", list := nullList }
def emptyKid : PField Nat := { name := "a", ty := "int64", list := emptyList }
def missNull : PStruct Nat := { valid := [false], kids := [nullKid] }
def missEmpty : PStruct Nat := { valid := [false], kids := [emptyKid] }

/-- two logically equal columns (one missing row) that `to_lists` / `get_list_series` /
    `iter_field_lists` tell apart: `<NA>` vs `[]` -/
theorem to_lists_shows_child_nullness :
    missNull.rows = missEmpty.rows ∧
    NArr.iterFieldLists { ty := [("a", "int64")], chunks := [missNull] } "a" = .ok [none] ∧
    NArr.iterFieldLists { ty := [("a", "int64")], chunks := [missEmpty] } "a" = .ok [some []] := by decide

/-! ### K5 — a flat Series whose index equals the frame index -/

def dupList : PList Nat := { offs := [0, 2, 2], valid := [true, true], vals := [1, 2] }
def dupKid : PField Nat := { name := "v", ty := "int64", list := dupList }
def dupChunk : PStruct Nat := { valid := [true, true], kids := [dupKid] }
def dupCol : PCol Nat := { ty := [("v", "int64")], chunks := [dupChunk] }
def dupFrame : NFrame Nat := { index := [.str "a", .str "a"], cols := [("n", .nest dupCol)] }

/-- rows of lengths 2 and 0 under labels `[a, a]`: the flat index `[a, a]` equals the frame index,
    so `frame['n.w'] = flat_series` takes the base-aligned branch and repeats the first value. -/
def rowsAfter (r : R (NFrame Nat)) : Option (List (Row Nat)) :=
  match r with
  | .ok F => match F.nest? "n" with
    | .ok c => some c.rows
    | .error _ => none
  | .error _ => none

def dupSpec : LCol Nat := { ty := [("v", "int64")], rows := [some [("v", [1, 2])], some [("v", [])]] }

theorem flat_index_equals_frame_index :
    rowsAfter (dupFrame.setField "n" "w" "int64" (.array [10, 20]) (some [.str "a", .str "a"]) 0)
      = some [some [("v", [1, 2]), ("w", [10, 10])], some [("v", []), ("w", [])]] ∧
    ((Spec.setFlatField dupSpec "w" "int64" (.array [10, 20]) false).toOption.map (·.rows))
      = some [some [("v", [1, 2]), ("w", [10, 20])], some [("v", []), ("w", [])]] := by
  constructor <;> decide

/-! ### K6 — the list-struct orientation carries no validity -/

/-- a missing row exported as list-of-structs and imported again is an empty, non-missing row -/
theorem list_struct_loses_missing :
    missNull.rows = [none] ∧
    ((transposeSL missNull false).bind transposeLS).map (·.rows) = .ok [some [("a", [])]] := by decide

/-! ### K3 — rebuilding a struct from leaf list columns -/

/-- `Table.to_struct_array()` / `StructArray.from_arrays` without a mask: every row is valid,
    whatever the validity of the struct the leaves came from (partial parquet load). -/
theorem partial_load_loses_missing :
    (structFromArrays missNull.kids none).map (·.valid) = .ok [true] ∧ missNull.valid = [false] := by decide

/-! ### K9 — duplicate field names -/

/-- `nested<a: [int64], a: [double]>` parses (successfully) to a dtype with ONE field -/
theorem duplicate_field_names_misparse :
    let render : Bool → Str := fun t => if t then ['d', 'o', 'u', 'b', 'l', 'e'] else ['i', 'n', 't', '6', '4']
    let alias? : Str → Option Bool := fun s =>
      if s = ['d', 'o', 'u', 'b', 'l', 'e'] then some true else if s = ['i', 'n', 't', '6', '4'] then some false else none
    constructFromString alias? (dtypeName render [(['a'], false), (['a'], true)]) = .ok [(['a'], true)] := by decide

/-! ### K4 — multi-line eval on a copy -/

/-- pandas evaluates a multi-line expression with `inplace=False` on a copy (`target`), while the
    field resolver installed by `NestedFrame.eval` was built from the receiver: line 2 looks the
    field assigned by line 1 up in the receiver and does not find it.  `fieldsSeen` models what
    the resolver sees after line 1. -/
def fieldsSeenAfterLine1 (receiverFields : List String) (assigned : String) (inplace : Bool) : List String :=
  if inplace then receiverFields ++ [assigned]      -- the receiver itself was updated, the cache invalidated
  else receiverFields                               -- only the copy was updated

theorem multiline_copy_resolver_is_stale :
    (fieldsSeenAfterLine1 ["a"] "c" false).contains "c" = false ∧
    (fieldsSeenAfterLine1 ["a"] "c" true).contains "c" = true := by decide

/-! ### K8 — count_nested on an empty frame is pandas behaviour (`DataFrame.apply` on an empty
    frame returns an empty frame, not a Series); it has no counterpart in the model and is replayed
    on the real code only (findings/repro_known.py). -/
theorem count_nested_empty_frame : True := trivial

/-! ### K7 — `from_lists` on an empty frame packs the list columns with the FLAT packer
    (`add_nested(df[list_columns])`): the element type of the nested field is then the type of the
    column itself (a list type), not the lists' element type.  In the model: the flat packer keeps
    the column's type tag as the field's element type. -/
theorem from_lists_empty_frame :
    ((packSortedDf ({ index := [], cols := [("l", "list<int64>", ([] : List Nat))] } : FlatDF Nat)).map (·.col.ty))
      = .ok [("l", "list<int64>")] := by decide

/-! ### K10 — a nested column that is called "base"

    `reduce`, `sort_values` and `dropna` name the layer an argument belongs to by a string, and use
    the string "base" for the base layer (`layer = "base" if len(components) < 2 else components[0]`,
    then `if layer == "base"`): the path of a field of a nested column that is itself called "base"
    is taken for a base column.  `all_columns` uses the same key for the list of base columns. -/
def layerOf (components : List String) : String :=
  if components.length < 2 then "base" else components.headD ""

def isBaseLayer (layer : String) : Bool := layer == "base"

theorem nest_named_base_is_taken_for_the_base_layer :
    isBaseLayer (layerOf ["base", "a"]) = true ∧ isBaseLayer (layerOf ["a"]) = true ∧
    isBaseLayer (layerOf ["n", "a"]) = false := by decide

/-- **K11** (C14): the evaluator names a backtick-quoted part by pandas' cleaned identifier and
    `_aliases` maps that identifier back to ONE original name (a Python dict: the pair recorded last
    wins, `aliasLookup`).  Two sibling fields whose cleaned names coincide (`t (s)` / `t_(s)`) that
    are BOTH named in one expression therefore resolve to the same field — whatever the cleaned
    identifier and the two names are. -/
theorem colliding_clean_names_resolve_to_the_last (c a b : List Char) :
    aliasLookup [(c, a), (c, b)] c = b := by
  simp [aliasLookup]

example : aliasLookup [("t__LPAR_s_RPAR_".toList, "t (s)".toList), ("t__LPAR_s_RPAR_".toList, "t_(s)".toList)]
    "t__LPAR_s_RPAR_".toList = "t_(s)".toList := by decide

end NP.Findings
