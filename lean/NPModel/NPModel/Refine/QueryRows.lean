/-
  NPModel.Refine.QueryRows — `NestedFrame.query` on a nested layer, end to end at the level of
  rows: the flat view with the ordinal index, the per-record outcome of the condition, the
  filtered table, the packer and the alignment back to the frame (C07).
-/
import NPModel.Refine.Repacked
import NPModel.Refine.Observers
namespace NP
variable {α : Type}

/-- the per-row lists of every field of a column, column-major (what `to_flat` flattens) -/
def colLists (c : PCol α) : List (String × String × List (List α)) :=
  (c.ty.map (·.1)).map fun f => (f, tyOf c f, Spec.fieldLists c.rows f)

theorem ordIndex_eq_listIndex : ∀ (s : Nat) (lens : List Nat),
    ordIndex s lens = (repeatEach (List.range' s lens.length) lens).map fun (i : Nat) => Label.int (i : Int)
  | _, [] => rfl
  | s, n :: ns => by
    simp only [ordIndex, List.length_cons, List.range'_succ, repeatEach_cons, List.map_append, List.map_replicate,
      ordIndex_eq_listIndex (s + 1) ns]

/-- every field has the rows' record counts (rectangular rows) -/
theorem fieldLists_lengths (c : PCol α) (h : c.Clean) (f : String) (hf : c.ty.any (·.1 == f) = true) :
    (Spec.fieldLists c.rows f).map List.length = c.rows.map Row.len := by
  have hrect := PCol.validate_rect c h.wf h.nullEmpty h.validated
  unfold Spec.fieldLists
  rw [List.map_map]
  apply List.map_congr_left
  intro r hr
  cases hrt : r with
  | none => rfl
  | some t =>
    simp only [Function.comp]
    have hn := PCol.row_names c h.wf r hr t hrt
    have hrr : Row.rect r = true := (List.all_eq_true.mp hrect) r hr
    rw [hrt] at hrr
    apply field_length_eq_row_len t f hrr
    have : (t.map (·.1)).any (· == f) = true := by
      rw [hn]; simpa [List.any_map, Function.comp] using hf
    simpa [List.any_map, Function.comp] using this

theorem colLists_lengths (c : PCol α) (h : c.Clean) : ∀ col ∈ colLists c, col.2.2.map List.length = c.rows.map Row.len := by
  intro col hcol
  unfold colLists at hcol
  simp only [List.mem_map] at hcol
  obtain ⟨f, ⟨p, hp, rfl⟩, rfl⟩ := hcol
  exact fieldLists_lengths c h p.1 (by rw [List.any_eq_true]; exact ⟨p, hp, by simp⟩)

/-- **The flat view with the ordinal index** (what query / dropna / sort_values start from) is the
    ordinal flat table of the column's per-row lists. -/
theorem ordinalFlat_refines (F : NFrame α) (nest : String) (c : PCol α) (hc : F.nest? nest = .ok c)
    (h : c.Clean) (hch : c.chunks ≠ []) (hidx : F.index.length = c.len) :
    F.ordinalFlat nest = .ok (ordFlat (colLists c) (c.rows.map Row.len)) := by
  unfold NFrame.ordinalFlat
  simp only [hc, bind, Except.bind, toFlat_refines F.index c h hch hidx, getListIndex_refines c h]
  unfold Spec.toFlat PCol.abs
  have hne : (c.ty.map (·.1)).isEmpty = false := by
    cases hty : c.ty with
    | nil => exact absurd hty h.fields
    | cons _ _ => rfl
  have hall : (c.ty.map (·.1)).all (fun f => c.ty.any (·.1 == f)) = true := by
    rw [List.all_eq_true]
    intro f hf
    rw [List.mem_map] at hf
    obtain ⟨p, hp, rfl⟩ := hf
    rw [List.any_eq_true]
    exact ⟨p, hp, by simp⟩
  simp only [Option.getD_none, hne, Bool.false_eq_true, if_false, hall, not_true_eq_false, pure, Except.pure]
  have hlen : (Spec.listIndex c.rows).length = (Spec.flatIndex F.index c.rows).length := by
    unfold Spec.listIndex Spec.flatIndex Spec.lens
    rw [repeatEach_length _ _ (by simp), repeatEach_length _ _ (by rw [List.length_map, PCol.rows_length, hidx])]
  simp only [FlatDF.len, hlen, ne_eq, not_true_eq_false, if_false]
  unfold ordFlat colLists
  congr 2
  · rw [ordIndex_eq_listIndex]
    simp [Spec.listIndex, Spec.lens, List.range_eq_range']
  · simp only [List.map_map]
    apply List.map_congr_left
    intro p _
    rfl

theorem splitBy_flatten : ∀ (lens : List Nat) (xs : List Bool), xs.length = sumNat lens →
    (Spec.splitBy lens xs).flatten = xs ∧ All2 (fun m n => m.length = n) (Spec.splitBy lens xs) lens
  | [], xs, h => by
    have : xs = [] := List.length_eq_zero_iff.mp (by simpa [sumNat] using h)
    subst this
    exact ⟨rfl, All2.nil⟩
  | n :: ns, xs, h => by
    rw [sumNat_cons] at h
    have ⟨h1, h2⟩ := splitBy_flatten ns (xs.drop n) (by simp; omega)
    constructor
    · simp only [Spec.splitBy, List.flatten_cons, h1, List.take_append_drop]
    · exact All2.cons (by simp; omega) h2

/-- **`query` on a nested layer, end to end.**  For a frame whose nested column `nest` is stored
    cleanly (any chunking and offsets) and a condition over that layer only: whenever the
    condition evaluates on every record (`vals`), the query succeeds, replaces only that column,
    and row `i` of it holds exactly the records of row `i` on which the condition is `True`, in
    their original order, every field filtered alike; a row left without records is missing and
    no row of the frame is added, dropped or moved. -/
theorem query_nested_refines (F : NFrame Cell) (e : Expr) (nest : String) (c : PCol Cell)
    (hl : e.layers = [some nest]) (hnc : F.nestedColumns.contains nest = true)
    (hc : F.nest? nest = .ok c) (h : c.Clean) (hch : c.chunks ≠ []) (hidx : F.index.length = c.len)
    (vals : List Cell)
    (hev : evalAll (ordFlat (colLists c) (c.rows.map Row.len)).len
      (recordLookup (ordFlat (colLists c) (c.rows.map Row.len)) nest) e = .ok vals) :
    let masks := Spec.splitBy (c.rows.map Row.len) (vals.map fun v => v == some (.bool true))
    ∃ col, F.query e = .ok (F.setCol nest (.nest col)) ∧
      col.rows = repackedRows ((colLists c).map fun c' => (c'.1, c'.2.1, filterRowsBy masks c'.2.2))
        (masks.map fun m => (m.filter id).length) ∧
      col.rows.length = F.index.length := by
  intro masks
  have hvl : vals.length = sumNat (c.rows.map Row.len) := by
    have := (mapM_ok_spec _ _ _ hev).1
    rw [this, List.length_range, FlatDF.len]
    unfold ordFlat
    simp only [ordIndex_length]
  have ⟨hflat, hall⟩ := splitBy_flatten (c.rows.map Row.len) (vals.map fun v => v == some (.bool true))
    (by rw [List.length_map]; exact hvl)
  have hcne : colLists c ≠ [] := by
    unfold colLists
    cases hty : c.ty with
    | nil => exact absurd hty h.fields
    | cons _ _ => simp
  have hn : (c.rows.map Row.len).length = F.index.length := by
    rw [List.length_map, PCol.rows_length, hidx]
  obtain ⟨col, h1, h2⟩ := filter_then_repack F nest (colLists c) (c.rows.map Row.len) masks hn
    (colLists_lengths c h) hall hcne
  refine ⟨col, ?_, h2, ?_⟩
  · unfold NFrame.query
    simp only [hl, List.length_cons, List.length_nil, Nat.lt_irrefl, if_false, hnc, not_true_eq_false, bind, Except.bind,
      pure, Except.pure, ordinalFlat_refines F nest c hc h hch hidx, hev]
    rw [← hflat]
    exact h1
  · rw [h2]
    have hml : masks.length = F.index.length := by rw [← hn]; exact hall.length_eq
    simp [repackedRows, hml]

end NP
