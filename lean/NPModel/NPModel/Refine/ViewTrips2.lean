/-
  NPModel.Refine.ViewTrips2 — the list view round trip along the physical path (`pack_lists` on the
  child list arrays `to_lists` hands out, chunk by chunk), `to_lists` as a function of the rows,
  `pack_seq` refusing ragged rows, layout independence of the list view round trip.
-/
import NPModel.Refine.ViewTrips
namespace NP
variable {α : Type}

/-- a chunk read without its validity: every row present -/
def PStruct.allValid (s : PStruct α) : PStruct α := { s with valid := List.replicate s.len true }

theorem kids_of_ty (c : PCol α) (hw : c.WF = true) (s : PStruct α) (hs : s ∈ c.chunks) :
    ((List.range c.ty.length).map fun j =>
      ({ name := (c.ty.getD j ("", "")).1, ty := (c.ty.getD j ("", "")).2,
         list := (s.kids.getD j ⟨"", "", ⟨[0], [], []⟩⟩).list } : PField α)) = s.kids := by
  have ⟨_, hty⟩ := PCol.chunk_facts c hw s hs
  have hlen : s.kids.length = c.ty.length := by rw [← hty]; simp [PStruct.ty]
  apply List.ext_getElem (by simp [hlen])
  intro j h1 h2
  simp only [List.getElem_map, List.getElem_range]
  have hj : j < c.ty.length := by simpa using h1
  have e1 : c.ty.getD j ("", "") = ((s.kids[j]).name, (s.kids[j]).ty) := by
    rw [← hty]
    simp [PStruct.ty, List.getD_eq_getElem?_getD, List.getElem?_map, List.getElem?_eq_getElem h2]
  have e2 : s.kids.getD j ⟨"", "", ⟨[0], [], []⟩⟩ = s.kids[j] := by
    simp [List.getD_eq_getElem?_getD, List.getElem?_eq_getElem h2]
  rw [e1, e2]

/-- `pack_lists` on columns that all have the same chunk lengths: one struct per chunk position -/
theorem packLists_equal_chunking (idx : List Label) (cols : List (String × String × List (PList α))) (v : Bool)
    (L : List Nat) (hne : cols ≠ []) (hl : ∀ col ∈ cols, col.2.2.map PList.len = L) :
    packLists idx cols v = (do
      let chunks ← (List.range L.length).mapM fun i =>
        structFromArrays (cols.map fun (n, t, chs) =>
          ({ name := n, ty := t, list := chs.getD i { offs := [0], valid := [], vals := [] } } : PField α)) none
      let c ← NArr.init { ty := cols.map fun (n, t, _) => (n, t), chunks := chunks } v
      pure { index := idx, col := c }) := by
  unfold packLists
  obtain ⟨c0, cr, rfl⟩ := List.exists_cons_of_ne_nil hne
  have h0 := hl c0 List.mem_cons_self
  have hall : (cr.map fun x => x.2.2.map PList.len).all (· == c0.2.2.map PList.len) = true := by
    rw [List.all_eq_true]
    intro x hx
    obtain ⟨col, hc, rfl⟩ := List.mem_map.mp hx
    simp [hl col (List.mem_cons_of_mem _ hc), h0]
  rw [h0] at hall
  simp only [List.map_cons, h0, hall, if_true]

theorem structFromArrays_kids (s : PStruct α) (hw : s.WF = true) (hk : s.kids ≠ []) :
    structFromArrays s.kids none = .ok s.allValid := by
  obtain ⟨k, ks, hks⟩ := List.exists_cons_of_ne_nil hk
  unfold structFromArrays
  rw [hks]
  have hlen : ∀ k' ∈ s.kids, k'.list.len = s.len := fun k' hk' => (PStruct.WF_kid hw hk').2
  have hall : ks.all (fun k' => decide (k'.list.len = k.list.len)) = true := by
    rw [List.all_eq_true]
    intro k' hk'
    have a := hlen k' (by rw [hks]; exact List.mem_cons_of_mem _ hk')
    have b := hlen k (by rw [hks]; exact List.mem_cons_self)
    simp [a, b]
  simp only [hall, if_true, Option.getD_none]
  have b := hlen k (by rw [hks]; exact List.mem_cons_self)
  simp only [PStruct.allValid, b, hks]

/-- **`pack_lists` on the child list arrays `to_lists` hands out, chunk by chunk** (the physical path:
    same chunking for every field, raw windows into the old buffers, nothing copied): the result has
    the column's declared fields and chunk for chunk the SAME list arrays, every row present. -/
theorem packLists_fieldChunks (idx : List Label) (c : PCol α) (h : c.Clean) (hne : c.chunks ≠ []) :
    packLists idx (fieldChunks c) true = .ok ⟨idx, ⟨c.ty, c.chunks.map PStruct.allValid⟩⟩ := by
  have htyne : c.ty ≠ [] := h.fields
  have hcols_ne : fieldChunks c ≠ [] := by
    unfold fieldChunks
    intro e
    have := congrArg List.length e
    simp at this
    exact htyne this
  have hl : ∀ col ∈ fieldChunks c, col.2.2.map PList.len = c.chunks.map PStruct.len := by
    intro col hcol
    unfold fieldChunks at hcol
    obtain ⟨j, hj, rfl⟩ := List.mem_map.mp hcol
    simp only [List.map_map]
    apply List.map_congr_left
    intro s hs
    have ⟨hws, hty⟩ := PCol.chunk_facts c h.wf s hs
    have hj' : j < s.kids.length := by
      have : s.kids.length = c.ty.length := by rw [← hty]; simp [PStruct.ty]
      rw [this]; simpa using hj
    have e2 : s.kids.getD j ⟨"", "", ⟨[0], [], []⟩⟩ = s.kids[j] := by
      simp [List.getD_eq_getElem?_getD, List.getElem?_eq_getElem hj']
    simp only [Function.comp, e2]
    exact (PStruct.WF_kid hws (List.getElem_mem hj')).2
  rw [packLists_equal_chunking idx (fieldChunks c) true (c.chunks.map PStruct.len) hcols_ne hl]
  have hty : (fieldChunks c).map (fun (x : String × String × List (PList α)) => (x.1, x.2.1)) = c.ty := by
    unfold fieldChunks
    rw [List.map_map]
    apply List.ext_getElem (by simp)
    intro j h1 h2
    simp [List.getD_eq_getElem?_getD, List.getElem?_eq_getElem h2]
  have hmap : (List.range (c.chunks.map PStruct.len).length).mapM (fun i =>
        structFromArrays ((fieldChunks c).map fun (x : String × String × List (PList α)) =>
          ({ name := x.1, ty := x.2.1, list := x.2.2.getD i { offs := [0], valid := [], vals := [] } } : PField α)) none)
      = .ok ((List.range (c.chunks.map PStruct.len).length).map fun i =>
          (c.chunks.getD i ⟨[], []⟩).allValid) := by
    apply mapM_ok_of_forall
    intro i hi
    have hi' : i < c.chunks.length := by simpa using hi
    have hs : c.chunks[i] ∈ c.chunks := List.getElem_mem hi'
    have ⟨hws, hty'⟩ := PCol.chunk_facts c h.wf _ hs
    have ek : ((fieldChunks c).map fun (x : String × String × List (PList α)) =>
          ({ name := x.1, ty := x.2.1, list := x.2.2.getD i { offs := [0], valid := [], vals := [] } } : PField α))
        = (c.chunks[i]).kids := by
      rw [← kids_of_ty c h.wf _ hs]
      unfold fieldChunks
      rw [List.map_map]
      apply List.map_congr_left
      intro j _
      simp [List.getD_eq_getElem?_getD, List.getElem?_map, List.getElem?_eq_getElem hi']
    rw [ek]
    have hkne : (c.chunks[i]).kids ≠ [] := by
      obtain ⟨k0, ks, e⟩ := PCol.Clean.kids_ne c h _ hs
      rw [e]; simp
    rw [structFromArrays_kids _ hws hkne]
    simp [List.getD_eq_getElem?_getD, List.getElem?_eq_getElem hi']
  have hchunks : ((List.range (c.chunks.map PStruct.len).length).map fun i => (c.chunks.getD i ⟨[], []⟩).allValid)
      = c.chunks.map PStruct.allValid := by
    apply List.ext_getElem (by simp)
    intro i h1 h2
    have hi' : i < c.chunks.length := by simpa using h2
    simp [List.getD_eq_getElem?_getD, List.getElem?_eq_getElem hi']
  simp only [bind, Except.bind, pure, Except.pure] at hmap ⊢
  rw [hmap, hchunks]
  simp only [hty]
  unfold NArr.init
  have hne' : (c.chunks.map PStruct.allValid).isEmpty = false := by
    obtain ⟨s0, rest, e⟩ := List.exists_cons_of_ne_nil hne
    rw [e]; rfl
  simp only [hne', Bool.false_eq_true, if_false, if_true, bind, Except.bind, pure, Except.pure]
  have hv : PCol.validate (⟨c.ty, c.chunks.map PStruct.allValid⟩ : PCol α) = .ok () := by
    unfold PCol.validate
    apply forM_ok_of_forall
    intro s hs
    obtain ⟨s', hs', rfl⟩ := List.mem_map.mp hs
    have := h.validated
    unfold PCol.validate at this
    have hv' : s'.validate = .ok () := forM_ok this s' hs'
    simpa [PStruct.validate, PStruct.allValid] using hv'
  rw [hv]

/-- a chunk read without its validity shows every present row unchanged and every missing row — which
    stores nothing — as a table of empty lists -/
theorem PStruct.allValid_rows (s : PStruct α) (hn : s.noHidden) :
    s.allValid.rows = s.rows.map fun r => some (r.getD (emptyTable s)) := by
  unfold PStruct.rows
  have hlen : s.allValid.len = s.len := by simp [PStruct.allValid, PStruct.len]
  rw [hlen, List.map_map]
  apply List.map_congr_left
  intro i hi
  have hi' : i < s.len := by simpa using hi
  simp only [Function.comp, PStruct.rowAt, PStruct.allValid, List.getD_eq_getElem?_getD, List.getElem?_replicate, hi',
    if_true, Option.getD_some]
  cases hv : (s.valid[i]?).getD false with
  | true => simp
  | false =>
    simp only [Bool.false_eq_true, if_false, Option.getD_none, emptyTable, Option.some.injEq]
    apply List.map_congr_left
    intro k hk
    have h0 := hn i hi' (by simpa [List.getD_eq_getElem?_getD] using hv) k hk
    unfold len0 at h0
    have : (k.list.rows.getD i none).getD [] = [] := List.eq_nil_of_length_eq_zero h0
    simp only [List.getD_eq_getElem?_getD] at this
    rw [this]

/-- **the list view round trip along the physical path** (field names need not be distinct): -/
theorem packLists_fieldChunks_rows (idx : List Label) (c : PCol α) (h : c.Clean) (hne : c.chunks ≠ []) :
    ∃ s', packLists idx (fieldChunks c) true = .ok s' ∧ s'.index = idx ∧ s'.col.ty = c.ty ∧
      s'.col.rows = c.chunks.flatMap fun s => s.rows.map fun r => some (r.getD (emptyTable s)) := by
  refine ⟨_, packLists_fieldChunks idx c h hne, rfl, rfl, ?_⟩
  simp only [PCol.rows, List.flatMap_map]
  apply List.flatMap_congr
  intro s hs
  exact PStruct.allValid_rows s (h.noHidden s hs)

/-- **`pack_seq` refuses ragged input**: as soon as ONE offered row is not rectangular under the
    dtype, nothing is packed (ValueError) — whatever the other rows are. -/
theorem packSeq_ragged (idx : List Label) (ty : List (String × String)) (rows : List (Row α))
    (r : Row α) (hr : r ∈ rows) (hrag : Row.rect (normRow ty r) = false) :
    packSeq idx ty rows = .error .valueError := by
  let S : PStruct α := PStruct.ofScalars ty (rows.map (boxScalar ty))
  have hcan : S.canonical := by
    intro k hk
    simp only [S, PStruct.ofScalars, List.mem_map] at hk
    obtain ⟨j, _, rfl⟩ := hk
    exact ⟨_, rfl⟩
  have hl : ∀ k ∈ S.kids, k.list.rows.length = rows.length := by
    intro k hk
    simp only [S, PStruct.ofScalars, List.mem_map] at hk
    obtain ⟨j, _, rfl⟩ := hk
    simp [PList.ofRows_rows]
  have hnot : S.validate ≠ .ok () := by
    intro hv
    rw [PStruct.canonical_validate_iff S hcan, PStruct.aligned_iff_rows S rows.length hl] at hv
    obtain ⟨i, hi, hri⟩ := List.getElem_of_mem hr
    have hi' : i < (rows.map (boxScalar ty)).length := by simpa using hi
    have h := hv i hi
    rw [ofScalars_allEq ty _ i hi'] at h
    have : (rows.map (boxScalar ty)).getD i none = boxScalar ty rows[i] := by
      simp [List.getD_eq_getElem?_getD, List.getElem?_map, List.getElem?_eq_getElem hi]
    rw [this, unbox_box, hri, hrag] at h
    cases h
  have hverr : S.validate = .error .valueError := by
    rcases PStruct.validate_cases S with h | h
    · exact absurd h hnot
    · exact h
  unfold packSeq NArr.init
  simp only [List.isEmpty_cons, Bool.false_eq_true, if_false, if_true, bind, Except.bind, pure, Except.pure]
  have hv : PCol.validate (⟨ty, [S]⟩ : PCol α) = .error .valueError := by
    unfold PCol.validate
    show (S.validate >>= fun _ => List.forM [] PStruct.validate) = _
    rw [hverr]; rfl
  rw [hv]

/-- **`to_lists()`** of a series on `Clean` storage: one column per declared field, in declared order,
    under the field's name, and the i-th list of column `f` is the list field `f` has in row i of the
    element view (no elements for a missing row) — one list per row. -/
theorem toLists_spec (s : NSeries α) (h : s.col.Clean) (hne : s.col.chunks ≠ []) :
    ∃ df, s.toLists none = .ok df ∧ df.index = s.index ∧ df.cols.map (·.1) = s.col.ty.map (·.1) ∧
      ∀ col ∈ df.cols, col.2.2.map (fun r => r.getD []) = Spec.fieldLists s.col.rows col.1 ∧
        col.2.2.length = s.col.len := by
  obtain ⟨idx, c⟩ := s
  simp only at h hne ⊢
  obtain ⟨s0, rest, hch⟩ := List.exists_cons_of_ne_nil hne
  have hs0 : s0 ∈ c.chunks := by rw [hch]; exact List.mem_cons_self
  have ⟨_, hty0⟩ := PCol.chunk_facts c h.wf s0 hs0
  have hnames : NArr.fieldNames c = .ok (c.ty.map (·.1)) := by
    unfold NArr.fieldNames
    rw [hch]
    simp only [pure, Except.pure]
    rw [← hty0]; simp [PStruct.ty]
  let colOf : String → String × String × List (Option (List α)) := fun f => (f, tyOf c f, listsOf c f)
  have hcols : (c.ty.map (·.1)).mapM (fun f => do pure (f, tyOf c f, ← NArr.iterFieldLists c f))
      = .ok ((c.ty.map (·.1)).map colOf) := by
    apply mapM_ok_of_forall
    intro f hf
    obtain ⟨p, hp, rfl⟩ := List.mem_map.mp hf
    rw [iterFieldLists_eq c h.wf p.1 (field_of_ty c p hp)]
    rfl
  refine ⟨{ index := idx, cols := (c.ty.map (·.1)).map colOf }, ?_, rfl, ?_, ?_⟩
  · unfold NSeries.toLists
    simp only [hnames, bind, Except.bind, pure, Except.pure]
    have : (c.ty.map (·.1)).isEmpty = false := by
      cases hc : c.ty with
      | nil => exact absurd hc h.fields
      | cons _ _ => rfl
    simp only [this, Bool.false_eq_true, if_false]
    have hcols' := hcols
    simp only [bind, Except.bind, pure, Except.pure] at hcols'
    rw [hcols']
  · simp only [List.map_map]
    apply List.map_congr_left
    intro p _
    rfl
  · intro col hcol
    simp only [List.mem_map] at hcol
    obtain ⟨f, ⟨p, hp, rfl⟩, rfl⟩ := hcol
    exact listsOf_spec c h p.1 (field_of_ty c p hp)

/-- the list view round trip does not see the layout: two series on `Clean` storage with the same
    declared fields and the same rows give, through `to_lists` then `pack_lists`, the same rows -/
theorem listTrip_layout_independent (s₁ s₂ : NSeries α) (h₁ : s₁.col.Clean) (h₂ : s₂.col.Clean)
    (hne₁ : s₁.col.chunks ≠ []) (hne₂ : s₂.col.chunks ≠ [])
    (hty : s₁.col.ty = s₂.col.ty) (hrows : s₁.col.rows = s₂.col.rows) :
    ∃ df₁ p₁ df₂ p₂, s₁.toLists none = .ok df₁ ∧ packLists df₁.index df₁.asChunks true = .ok p₁ ∧
      s₂.toLists none = .ok df₂ ∧ packLists df₂.index df₂.asChunks true = .ok p₂ ∧
      p₁.col.rows = p₂.col.rows := by
  obtain ⟨df₁, p₁, a1, a2, _, _, a5⟩ := toLists_packLists s₁ h₁ hne₁
  obtain ⟨df₂, p₂, b1, b2, _, _, b5⟩ := toLists_packLists s₂ h₂ hne₂
  refine ⟨df₁, p₁, df₂, p₂, a1, a2, b1, b2, ?_⟩
  have hl : s₁.col.len = s₂.col.len := by
    rw [← PCol.rows_length s₁.col, ← PCol.rows_length s₂.col, hrows]
  rw [a5, b5, hty, hrows, hl]

/-- `pack_lists` on list columns that do NOT share their chunking (packer.py: the columns are combined
    first): one chunk whose fields are the canonical re-encoding of each column's lists -/
theorem packLists_other_chunking (idx : List Label) (f0 : String) (fr : List String) (T : String → String)
    (C : String → List (PList α)) (n : Nat)
    (hdiff : (fr.map fun f => (C f).map PList.len).all (· == (C f0).map PList.len) = false)
    (hlen : ∀ f ∈ f0 :: fr, ((C f).flatMap PList.rows).length = n)
    (hal : ∀ f ∈ f0 :: fr, ((C f).flatMap PList.rows).map len0 = ((C f0).flatMap PList.rows).map len0) :
    packLists idx ((f0 :: fr).map fun f => (f, T f, C f)) true =
      .ok { index := idx,
            col := { ty := (f0 :: fr).map fun f => (f, T f),
                     chunks := [{ valid := List.replicate n true,
                                  kids := (f0 :: fr).map fun f => { name := f, ty := T f, list := PList.ofRows ((C f).flatMap PList.rows) } }] } } := by
  unfold packLists
  simp only [List.map_cons, List.map_map, Function.comp_def, List.map_nil]
  simp only [hdiff, Bool.false_eq_true, if_false]
  have hsf : structFromArrays
      (({ name := f0, ty := T f0, list := PList.ofRows ((C f0).flatMap PList.rows) } : PField α) ::
        (fr.map fun x => ({ name := x, ty := T x, list := PList.ofRows ((C x).flatMap PList.rows) } : PField α))) none
      = .ok ⟨List.replicate n true,
              ({ name := f0, ty := T f0, list := PList.ofRows ((C f0).flatMap PList.rows) } : PField α) ::
                (fr.map fun x => ({ name := x, ty := T x, list := PList.ofRows ((C x).flatMap PList.rows) } : PField α))⟩ := by
    unfold structFromArrays
    have : (fr.map fun x => ({ name := x, ty := T x, list := PList.ofRows ((C x).flatMap PList.rows) } : PField α)).all
        (fun k' => decide (k'.list.len = (PList.ofRows ((C f0).flatMap PList.rows)).len)) = true := by
      rw [List.all_eq_true]
      intro k hk
      obtain ⟨f, hf, rfl⟩ := List.mem_map.mp hk
      simp [ofRows_len, hlen f (List.mem_cons_of_mem _ hf), hlen f0 List.mem_cons_self]
    simp only [ofRows_len, hlen f0 List.mem_cons_self] at this ⊢
    simp only [this, if_true, Option.getD_none]
  simp only [hsf, bind, Except.bind, pure, Except.pure]
  unfold NArr.init
  simp only [List.isEmpty_cons, Bool.false_eq_true, if_false, if_true, bind, Except.bind, pure, Except.pure]
  have hv : PCol.validate (⟨(f0, T f0) :: (fr.map fun x => (x, T x)),
      [⟨List.replicate n true,
        ({ name := f0, ty := T f0, list := PList.ofRows ((C f0).flatMap PList.rows) } : PField α) ::
          (fr.map fun x => ({ name := x, ty := T x, list := PList.ofRows ((C x).flatMap PList.rows) } : PField α))⟩]⟩ : PCol α)
      = .ok () := by
    unfold PCol.validate
    apply forM_ok_of_forall
    intro s hs
    simp only [List.mem_cons, List.not_mem_nil, or_false] at hs
    subst hs
    unfold PStruct.validate
    have : (fr.map fun x => ({ name := x, ty := T x, list := PList.ofRows ((C x).flatMap PList.rows) } : PField α)).all
        (fun k' => rebased k'.list.offs == rebased (PList.ofRows ((C f0).flatMap PList.rows)).offs) = true := by
      rw [List.all_eq_true]
      intro k hk
      obtain ⟨f, hf, rfl⟩ := List.mem_map.mp hk
      simp only [ofRows_offs, hal f (List.mem_cons_of_mem _ hf), beq_self_eq_true]
    simp only [this, if_true]
  rw [hv]


theorem PStruct.allValid_allValid (s : PStruct α) : s.allValid.allValid = s.allValid := by
  simp [PStruct.allValid, PStruct.len]

/-- the column the list view round trip returns is itself `Clean` (well formed, validated, nothing
    hidden: every row is present) -/
theorem allValid_clean (c : PCol α) (h : c.Clean) : (⟨c.ty, c.chunks.map PStruct.allValid⟩ : PCol α).Clean := by
  refine ⟨?_, ?_, ?_, ?_, h.fields⟩
  · unfold PCol.WF
    rw [List.all_eq_true]
    intro s hs
    obtain ⟨s', hs', rfl⟩ := List.mem_map.mp hs
    have ⟨hw, hty⟩ := PCol.chunk_facts c h.wf s' hs'
    have hwf : s'.allValid.WF = true := by
      unfold PStruct.WF at hw ⊢
      simp only [PStruct.allValid, PStruct.len, List.length_replicate] at hw ⊢
      exact hw
    have hty' : s'.allValid.ty = c.ty := by simpa [PStruct.ty, PStruct.allValid] using hty
    simp only [hwf, hty', Bool.true_and, decide_true]
  · intro s hs
    obtain ⟨s', hs', rfl⟩ := List.mem_map.mp hs
    have := h.nullEmpty s' hs'
    simpa [PStruct.nullEmpty, PStruct.allValid] using this
  · unfold PCol.validate
    apply forM_ok_of_forall
    intro s hs
    obtain ⟨s', hs', rfl⟩ := List.mem_map.mp hs
    have := h.validated
    unfold PCol.validate at this
    have hv' : s'.validate = .ok () := forM_ok this s' hs'
    simpa [PStruct.validate, PStruct.allValid] using hv'
  · intro s hs
    obtain ⟨s', hs', rfl⟩ := List.mem_map.mp hs
    intro i hi hv
    exfalso
    have hi' : i < s'.len := by simpa [PStruct.allValid, PStruct.len] using hi
    simp [PStruct.allValid, List.getD_eq_getElem?_getD, hi'] at hv

/-- **the list view round trip is stable**: doing it a second time changes nothing -/
theorem relist_relist (s : NSeries α) (h : s.col.Clean) (hne : s.col.chunks ≠ []) :
    ∃ s', s.relist = .ok s' ∧ s'.relist = .ok s' := by
  refine ⟨_, packLists_fieldChunks s.index s.col h hne, ?_⟩
  have h2 := packLists_fieldChunks s.index ⟨s.col.ty, s.col.chunks.map PStruct.allValid⟩ (allValid_clean s.col h)
    (by simpa using hne)
  unfold NSeries.relist
  simp only at h2 ⊢
  rw [h2, List.map_map]
  congr 3
  apply List.map_congr_left
  intro x _
  exact PStruct.allValid_allValid x

end NP
