/-
  NPModel.Refine.CleanTake — the storage invariant `PCol.Clean` is re-established by the value
  kernels: a canonical chunk is well formed and null-empty; `take` with a missing fill value on a
  clean column returns a clean column with one row per position.
  Helper lemmas only.
-/
import NPModel.Refine.Observers
import NPModel.Refine.TakeFill
import NPModel.Refine.JoinRows
namespace NP
variable {α : Type}

theorem length_flatten_getD (rows : List (Option (List α))) :
    (rows.map fun r => r.getD []).flatten.length = sumNat (rows.map fun r => (r.getD []).length) := by
  rw [length_flatten_sumNat, List.map_map]
  rfl

theorem ofRows_WF (rows : List (Option (List α))) : (PList.ofRows rows).WF = true := by
  unfold PList.WF PList.ofRows
  simp only [offsetsFrom_length, List.length_map, decide_true, Bool.true_and, monotone_offsetsFrom,
    offsetsFrom_last, Nat.zero_add, decide_eq_true_eq]
  rw [length_flatten_getD]

theorem ofRows_len (rows : List (Option (List α))) : (PList.ofRows rows).len = rows.length := by
  simp [PList.ofRows, PList.len]

theorem ofRows_nullEmpty (rows : List (Option (List α))) : (PList.ofRows rows).nullEmpty = true := by
  unfold PList.nullEmpty PList.ofRows
  simp only [diffs_offsetsFrom]
  rw [List.all_eq_true]
  intro p hp
  have hz : (rows.map Option.isSome).zip (rows.map fun r => (r.getD []).length) =
      rows.map fun r => (r.isSome, (r.getD []).length) := by
    rw [List.zip_map']
  rw [hz, List.mem_map] at hp
  obtain ⟨r, _, rfl⟩ := hp
  cases r <;> simp

/-- a canonical chunk whose children have the chunk's length is well formed and null-empty -/
theorem canonical_WF (s : PStruct α) (hc : s.canonical) (hl : ∀ k ∈ s.kids, k.list.rows.length = s.len) :
    s.WF = true ∧ s.nullEmpty = true := by
  constructor
  · unfold PStruct.WF
    rw [List.all_eq_true]
    intro k hk
    obtain ⟨r, hr⟩ := hc k hk
    have := hl k hk
    rw [hr, PList.ofRows_rows] at this
    rw [hr, ofRows_WF, ofRows_len, this]
    simp
  · unfold PStruct.nullEmpty
    rw [List.all_eq_true]
    intro k hk
    obtain ⟨r, hr⟩ := hc k hk
    rw [hr]
    exact ofRows_nullEmpty r

end NP

namespace NP
variable {α : Type}

/-- what `take(allow_fill=True)` with a missing fill value returns, when it returns: one fresh
    chunk gathered from the combined chunks -/
theorem take_none_chunk (c : PCol α) (indices : List Int) (c' : PCol α)
    (h : NArr.take c indices true none = .ok c') :
    c' = { c with chunks := [c.combine.take (indices.map fun i => if i < 0 then none else some i.toNat)] } := by
  unfold NArr.take at h
  simp only [bind, Except.bind, pure, Except.pure, throw, throwThe, MonadExceptOf.throw, if_true] at h
  split at h
  · cases h
  · split at h
    · cases h
    · split at h
      · -- no negative position
        rename_i hneg
        have hidx : (indices.map fun i => some i.toNat) =
            (indices.map fun i => if i < 0 then (none : Option Nat) else some i.toNat) := by
          apply List.map_congr_left
          intro i hi
          have : ¬ i < 0 := by
            intro hlt
            apply hneg
            rw [List.any_eq_true]
            exact ⟨i, hi, by simpa using hlt⟩
          simp [this]
        unfold NArr.init PCol.take at h
        simp only [List.isEmpty_cons, Bool.false_eq_true, if_false, if_true, bind, Except.bind, pure, Except.pure] at h
        split at h
        · cases h
        · rw [← hidx]
          exact (Except.ok.inj h).symm
      · split at h
        · cases h
        · have hfv : boxScalar c.ty (none : Row α) = none := rfl
          simp only [hfv, fillMasked] at h
          unfold NArr.init at h
          simp only [List.isEmpty_cons, Bool.false_eq_true, if_false, if_true, bind, Except.bind, pure, Except.pure] at h
          split at h
          · cases h
          · exact (Except.ok.inj h).symm

end NP

namespace NP
variable {α : Type}

/-- positions of two concatenations whose first parts have equal lengths line up -/
theorem getD_append_aligned {β γ : Type} (a₁ a₂ : List β) (b₁ b₂ : List γ) (h : a₁.length = b₁.length) (i : Nat)
    (da : β) (db : γ) :
    (i < a₁.length ∧ (a₁ ++ a₂).getD i da = a₁.getD i da ∧ (b₁ ++ b₂).getD i db = b₁.getD i db) ∨
    (a₁.length ≤ i ∧ (a₁ ++ a₂).getD i da = a₂.getD (i - a₁.length) da ∧ (b₁ ++ b₂).getD i db = b₂.getD (i - a₁.length) db) := by
  by_cases hi : i < a₁.length
  · left
    refine ⟨hi, ?_, ?_⟩
    · simp [List.getD_eq_getElem?_getD, List.getElem?_append_left hi]
    · simp [List.getD_eq_getElem?_getD, List.getElem?_append_left (h ▸ hi)]
  · right
    have hi' : a₁.length ≤ i := Nat.le_of_not_lt hi
    refine ⟨hi', ?_, ?_⟩
    · simp [List.getD_eq_getElem?_getD, List.getElem?_append_right hi']
    · simp [List.getD_eq_getElem?_getD, List.getElem?_append_right (h ▸ hi'), h]

/-- no hidden child lists in any chunk ⇒ none in the combined chunk -/
theorem PCol.combine_noHidden (c : PCol α) (hw : c.WF = true) (hn : ∀ s ∈ c.chunks, s.noHidden) :
    c.combine.noHidden := by
  have hch := PCol.chunk_facts c hw
  intro i hi hv k hk
  unfold PCol.combine at hk hv
  simp only [List.mem_map, List.mem_range] at hk
  obtain ⟨j, hj, rfl⟩ := hk
  simp only [PList.ofRows_rows]
  simp only at hv
  have key : ∀ (chunks : List (PStruct α)), (∀ s ∈ chunks, s ∈ c.chunks) → ∀ i,
      (chunks.flatMap (·.valid)).getD i false = false → i < (chunks.flatMap (·.valid)).length →
      len0 ((chunks.flatMap fun ch => ch.kidRows j).getD i none) = 0 := by
    intro chunks
    induction chunks with
    | nil => intro _ i _ hlt; simp at hlt
    | cons s rest ih =>
      intro hsub i hvi hlt
      have hs : s ∈ c.chunks := hsub s List.mem_cons_self
      have ⟨hws, hty⟩ := hch s hs
      have hjk : j < s.kids.length := by
        have : s.kids.length = c.ty.length := by
          have := congrArg List.length hty
          simpa [PStruct.ty] using this
        rw [this]; exact hj
      have hlen : s.valid.length = (s.kidRows j).length := (PStruct.kidRows_length hws j hjk).symm
      simp only [List.flatMap_cons] at hvi hlt ⊢
      rcases getD_append_aligned s.valid (rest.flatMap (·.valid)) (s.kidRows j) (rest.flatMap fun ch => ch.kidRows j)
          hlen i false none with ⟨h1, h2, h3⟩ | ⟨h1, h2, h3⟩
      · rw [h3]
        rw [h2] at hvi
        have hk : s.kids[j]? = some s.kids[j] := List.getElem?_eq_getElem hjk
        rw [s.kidRows_of_get j _ hk]
        exact hn s hs i h1 hvi _ (List.getElem_mem hjk)
      · rw [h3]
        rw [h2] at hvi
        apply ih (fun s' hs' => hsub s' (List.mem_cons_of_mem _ hs')) _ hvi
        simp only [List.length_append] at hlt
        omega
  apply key c.chunks (fun s hs => hs) i hv
  have : c.combine.len = (c.chunks.flatMap (·.valid)).length := rfl
  rw [← this]; exact hi

end NP

namespace NP
variable {α : Type}

/-- gathering rows from a chunk without hidden child lists hides nothing either -/
theorem PStruct.take_noHidden (s : PStruct α) (hn : s.noHidden) (hl : ∀ k ∈ s.kids, k.list.rows.length = s.len)
    (idx : List (Option Nat)) : (s.take idx).noHidden := by
  intro i hi hv k hk
  have hlen : (s.take idx).len = idx.length := by simp [PStruct.take, PStruct.len, gather]
  rw [hlen] at hi
  unfold PStruct.take at hk hv
  simp only [List.mem_map] at hk
  obtain ⟨k0, hk0, rfl⟩ := hk
  simp only [PList.take, PList.ofRows_rows]
  simp only [gather, List.getD_eq_getElem?_getD, List.getElem?_map, List.getElem?_eq_getElem hi, Option.map_some,
    Option.getD_some] at hv ⊢
  cases ho : idx[i] with
  | none => simp [len0]
  | some j =>
    rw [ho] at hv
    simp only [Option.bind_some] at hv ⊢
    by_cases hj : j < s.len
    · have hvj : s.valid[j]? = some s.valid[j] := List.getElem?_eq_getElem hj
      rw [hvj] at hv
      have hvf : s.valid.getD j false = false := by
        rw [List.getD_eq_getElem?_getD, hvj]; simpa using hv
      have := hn j hj hvf k0 hk0
      have hrj : k0.list.rows[j]? = some (k0.list.rows.getD j none) := by
        rw [List.getD_eq_getElem?_getD, List.getElem?_eq_getElem (by rw [hl k0 hk0]; exact hj)]; rfl
      rw [hrj]
      simpa using this
    · have : k0.list.rows[j]? = none := by
        rw [List.getElem?_eq_none_iff, hl k0 hk0]; omega
      rw [this]
      simp [len0]

/-- **`take` with a missing fill value re-establishes the storage invariant**: from a clean column
    (any chunking, offsets, buffers) it returns a clean column — one fresh chunk, canonical layout,
    validated, nothing hidden under missing rows — with one row per requested position and the
    same declared fields. -/
theorem take_none_clean (c : PCol α) (hc : c.Clean) (indices : List Int) (c' : PCol α)
    (h : NArr.take c indices true none = .ok c') :
    c'.Clean ∧ c'.len = indices.length ∧ c'.ty = c.ty ∧ c'.chunks ≠ [] := by
  have he := take_none_chunk c indices c' h
  let idx : List (Option Nat) := indices.map fun i => if i < 0 then none else some i.toNat
  let s := c.combine.take idx
  have hal : c.aligned := PCol.aligned_of_validate c hc.wf hc.nullEmpty hc.validated
  have hslen : s.len = indices.length := by simp [s, idx, PStruct.take, PStruct.len, gather]
  have hkl : ∀ k ∈ s.kids, k.list.rows.length = s.len := by
    intro k hk
    rw [hslen]
    have := PStruct.take_kid_rows_length c.combine idx k hk
    simpa [idx] using this
  have ⟨hws, hnes⟩ := canonical_WF s (PStruct.take_canonical c.combine idx) hkl
  have hty : s.ty = c.ty := by rw [PStruct.take_ty, PCol.combine_ty]
  subst he
  refine ⟨⟨?_, ?_, ?_, ?_, hc.fields⟩, ?_, rfl, List.cons_ne_nil _ _⟩
  · unfold PCol.WF
    simp only [List.all_cons, List.all_nil, Bool.and_true, Bool.and_eq_true, decide_eq_true_eq]
    exact ⟨hws, hty⟩
  · intro s' hs'
    simp only [List.mem_cons, List.not_mem_nil, or_false] at hs'
    subst hs'
    exact hnes
  · unfold PCol.validate
    show (s.validate >>= fun _ => List.forM [] PStruct.validate) = _
    rw [PStruct.take_validate c.combine (PCol.combine_aligned c hc.wf hal) idx]
    rfl
  · intro s' hs'
    simp only [List.mem_cons, List.not_mem_nil, or_false] at hs'
    subst hs'
    exact PStruct.take_noHidden c.combine (PCol.combine_noHidden c hc.wf hc.noHidden)
      (fun k hk => by rw [PCol.combine_kid_rows_length c hc.wf k hk, PCol.combine_len]) idx
  · show PCol.len { c with chunks := [s] } = _
    simp only [PCol.len, List.map_cons, List.map_nil, sumNat, List.foldr_cons, List.foldr_nil, Nat.add_zero, hslen]

end NP
