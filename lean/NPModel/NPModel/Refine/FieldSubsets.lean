/-
  NPModel.Refine.FieldSubsets — removing fields (`pop_fields`, `.nest.without_field`) and selecting fields
  (`view_fields`, `.nest[[fields]]`, `to_flat(fields)`): what the result holds row by row (no hypothesis on the
  layout), and that cleanly stored columns stay cleanly stored.  Helper lemmas only.
-/
import NPModel.Refine.CleanFields
namespace NP
variable {α : Type}

/-- every element a successful `mapM` returns is the image of an element of the input -/
theorem mapM_ok_mem {β γ : Type} (f : β → R γ) :
    ∀ (l : List β) (out : List γ), l.mapM f = .ok out →
      out.length = l.length ∧ ∀ y ∈ out, ∃ x ∈ l, f x = .ok y := by
  intro l
  induction l with
  | nil =>
    intro out ho
    simp [pure, Except.pure] at ho
    subst ho
    exact ⟨rfl, fun y hy => by cases hy⟩
  | cons a l ih =>
    intro out ho
    rw [List.mapM_cons] at ho
    obtain ⟨b, hb, ho⟩ := except_bind_ok ho
    obtain ⟨bs, hbs, ho⟩ := except_bind_ok ho
    simp only [pure, Except.pure, Except.ok.injEq] at ho
    subst ho
    obtain ⟨hl, hm⟩ := ih bs hbs
    refine ⟨by simp [hl], ?_⟩
    intro y hy
    rcases List.mem_cons.mp hy with rfl | hy
    · exact ⟨a, List.mem_cons_self, hb⟩
    · obtain ⟨x, hx, hfx⟩ := hm y hy
      exact ⟨x, List.mem_cons_of_mem _ hx, hfx⟩

/-- a chunk rebuilt from SOME of the fields of a clean chunk (at least one, in any order), under the same validity,
    is clean -/
theorem subkids_chunkClean (ty : List (String × String)) (s : PStruct α) (h : ChunkClean ty s)
    (kids' : List (PField α)) (hsub : ∀ x ∈ kids', x ∈ s.kids) (s' : PStruct α)
    (hs' : structFromArrays kids' (some s.valid) = .ok s') :
    ChunkClean (kids'.map fun k => (k.name, k.ty)) s' ∧ kids' ≠ [] := by
  cases hk : kids' with
  | nil => rw [hk] at hs'; simp [structFromArrays] at hs'
  | cons k ks =>
    rw [hk] at hs' hsub
    unfold structFromArrays at hs'
    split at hs'
    · cases hs'
    · rename_i k' ks' heq
      cases heq
      split at hs'
      · simp only [Option.getD_some, Except.ok.injEq] at hs'
        subst hs'
        have hwf := h.wf
        unfold PStruct.WF at hwf
        rw [List.all_eq_true] at hwf
        refine ⟨⟨?_, rfl, ?_, ?_, ?_⟩, by simp⟩
        · unfold PStruct.WF
          rw [List.all_eq_true]
          intro x hx
          have := hwf x (hsub x hx)
          simp only [Bool.and_eq_true, PStruct.len] at this ⊢
          exact this
        · have hn := h.nullEmpty
          unfold PStruct.nullEmpty at hn ⊢
          rw [List.all_eq_true] at hn ⊢
          intro x hx
          exact hn x (hsub x hx)
        · -- validated: every kept field's re-based offsets equal those of the first field of `s`
          have hv := h.validated
          unfold PStruct.validate at hv ⊢
          cases hk0 : s.kids with
          | nil =>
            have := hsub k List.mem_cons_self
            rw [hk0] at this
            cases this
          | cons k0 ks0 =>
            rw [hk0] at hv
            simp only at hv ⊢
            split at hv
            · rename_i hall
              rw [List.all_eq_true] at hall
              have heq0 : ∀ x ∈ s.kids, rebased x.list.offs = rebased k0.list.offs := by
                intro x hx
                rw [hk0] at hx
                rcases List.mem_cons.mp hx with rfl | hx
                · rfl
                · simpa using hall x hx
              have : ks.all (fun k' => rebased k'.list.offs == rebased k.list.offs) = true := by
                rw [List.all_eq_true]
                intro x hx
                have h1 := heq0 x (hsub x (List.mem_cons_of_mem _ hx))
                have h2 := heq0 k (hsub k List.mem_cons_self)
                simp [h1, h2]
              simp [this]
            · cases hv
        · intro i hi hvi x hx
          exact h.noHidden i (by simpa [PStruct.len] using hi) hvi x (hsub x hx)
      · cases hs'

theorem subfields_chunkClean (ty : List (String × String)) (s : PStruct α) (h : ChunkClean ty s)
    (p : PField α → Bool) (s' : PStruct α)
    (hs' : structFromArrays (s.kids.filter p) (some s.valid) = .ok s') :
    ChunkClean ((s.kids.filter p).map fun k => (k.name, k.ty)) s' ∧ s.kids.filter p ≠ [] :=
  subkids_chunkClean ty s h _ (fun _ hx => (List.mem_filter.mp hx).1) s' hs'

/-- `pop_fields` keeps storage clean: the remaining fields of every chunk under the chunk's own validity -/
theorem popFields_clean (c : PCol α) (h : c.Clean) (fields : List String) (c' : PCol α)
    (ho : NArr.popFields c fields = .ok c') : c'.Clean ∧ c'.chunks.length = c.chunks.length ∧ c'.chunks ≠ [] := by
  unfold NArr.popFields at ho
  simp only [bind, Except.bind, pure, Except.pure, throw, throwThe, MonadExceptOf.throw] at ho
  repeat' split at ho
  all_goals first | (cases ho; done) | skip
  rename_i _ names hnames _ _ _ chunks hchunks
  simp only [Except.ok.injEq] at ho
  subst ho
  obtain ⟨hlen, hmem⟩ := mapM_ok_mem _ _ _ hchunks
  have hcne : c.chunks ≠ [] := by
    intro hnil
    simp [NArr.fieldNames, hnil] at hnames
  have hne' : chunks ≠ [] := by
    intro hnil
    rw [hnil] at hlen
    exact hcne (List.length_eq_zero_iff.mp hlen.symm)
  have hcc := PCol.Clean.chunkClean c h
  have hch : ∀ s' ∈ chunks, ChunkClean (c.ty.filter fun p => ¬ fields.eraseDups.contains p.1) s' ∧
      (c.ty.filter fun p => ¬ fields.eraseDups.contains p.1) ≠ [] := by
    intro s' hs'
    obtain ⟨s, hs, hfs⟩ := hmem s' hs'
    have hcs := hcc s hs
    obtain ⟨hclean, hne⟩ := subfields_chunkClean c.ty s hcs _ s' hfs
    have hty : (s.kids.filter fun k => ¬ fields.eraseDups.contains k.name).map (fun k => (k.name, k.ty))
        = c.ty.filter fun p => ¬ fields.eraseDups.contains p.1 := by
      rw [← hcs.ty_eq]
      unfold PStruct.ty
      rw [List.filter_map]
      rfl
    constructor
    · rw [hty] at hclean
      exact hclean
    · rw [← hty]
      intro hnil
      exact hne (List.map_eq_nil_iff.mp hnil)
  obtain ⟨s0, hs0⟩ := List.exists_mem_of_ne_nil _ hne'
  exact ⟨clean_of_chunks _ _ (hch s0 hs0).2 (fun s' hs' => (hch s' hs').1), hlen, hne'⟩

/-- a quantity every step of a successful `mapM` preserves is preserved list-wise -/
theorem mapM_ok_map_eq {β γ δ : Type} (f : β → R γ) (g : γ → δ) (g' : β → δ)
    (hf : ∀ x y, f x = .ok y → g y = g' x) :
    ∀ (l : List β) (out : List γ), l.mapM f = .ok out → out.map g = l.map g' := by
  intro l
  induction l with
  | nil =>
    intro out ho
    simp [pure, Except.pure] at ho
    subst ho
    rfl
  | cons a l ih =>
    intro out ho
    rw [List.mapM_cons] at ho
    obtain ⟨b, hb, ho⟩ := except_bind_ok ho
    obtain ⟨bs, hbs, ho⟩ := except_bind_ok ho
    simp only [pure, Except.pure, Except.ok.injEq] at ho
    subst ho
    simp [hf a b hb, ih bs hbs]

theorem structFromArrays_some_len (kids : List (PField α)) (v : List Bool) (s' : PStruct α)
    (h : structFromArrays kids (some v) = .ok s') : s'.len = v.length := by
  unfold structFromArrays at h
  split at h
  · cases h
  · split at h
    · simp only [Option.getD_some, Except.ok.injEq] at h
      subst h
      rfl
    · cases h

/-- `pop_fields` keeps the number of rows -/
theorem popFields_len (c : PCol α) (fields : List String) (c' : PCol α)
    (ho : NArr.popFields c fields = .ok c') : c'.len = c.len := by
  unfold NArr.popFields at ho
  simp only [bind, Except.bind, pure, Except.pure, throw, throwThe, MonadExceptOf.throw] at ho
  repeat' split at ho
  all_goals first | (cases ho; done) | skip
  rename_i _ names hnames _ _ _ chunks hchunks
  simp only [Except.ok.injEq] at ho
  subst ho
  unfold PCol.len
  have := mapM_ok_map_eq _ PStruct.len PStruct.len
    (fun s s' hs => structFromArrays_some_len _ _ _ hs) _ _ hchunks
  simp only [this]

/-- the frame with one of its nested columns replaced by the same column without some fields
    (`nf[n] = nf[n].nest.without_field(fields)`: the accessor's `pop_fields` on a copy, then pandas' column assignment) -/
def NFrame.dropFields (F : NFrame α) (nest : String) (fields : List String) : R (NFrame α) := do
  let c ← F.nest? nest
  let c' ← NArr.popFields c fields
  pure (F.setCol nest (.nest c'))

theorem dropFields_sound (F : NFrame α) (h : F.Sound) (nest : String) (fields : List String) (F' : NFrame α)
    (hok : F.dropFields nest fields = .ok F') : F'.Sound := by
  unfold NFrame.dropFields at hok
  simp only [bind, Except.bind, pure, Except.pure] at hok
  split at hok
  · cases hok
  · rename_i c hc
    split at hok
    · cases hok
    · rename_i c' hc'
      have he := (Except.ok.inj hok).symm
      subst he
      obtain ⟨n, hmem⟩ := nest?_mem F nest c hc
      have ⟨hcl, hch, hlen⟩ := h.nest n c hmem
      obtain ⟨hcl', _, hne'⟩ := popFields_clean c hcl fields c' hc'
      exact setCol_sound F h nest c' hcl' hne' (by rw [popFields_len c fields c' hc', hlen])

/-! ### what `pop_fields` leaves, row by row (no hypothesis on the layout) -/

/-- a row without the fields named in `fs` -/
def Row.without (fs : List String) (r : Row α) : Row α := r.map fun t => t.filter fun p => ¬ fs.contains p.1

theorem subfields_rows (s : PStruct α) (fs : List String) (s' : PStruct α)
    (hs' : structFromArrays (s.kids.filter fun k => ¬ fs.contains k.name) (some s.valid) = .ok s') :
    s'.rows = s.rows.map (Row.without fs) ∧ s'.valid = s.valid := by
  unfold structFromArrays at hs'
  split at hs'
  · cases hs'
  · rename_i k ks hk
    split at hs'
    · simp only [Option.getD_some, Except.ok.injEq] at hs'
      subst hs'
      refine ⟨?_, rfl⟩
      unfold PStruct.rows
      simp only [PStruct.len, List.map_map]
      apply List.map_congr_left
      intro i _
      simp only [Function.comp, PStruct.rowAt, Row.without]
      split
      · simp only [Option.map_some, Option.some.injEq]
        rw [← hk, List.filter_map]
        rfl
      · rfl
    · cases hs'

/-- **`pop_fields` row by row**: the result declares the remaining fields, and every row is the old row without the
    removed fields — the same rows are missing, every remaining field holds the same list in every row. -/
theorem popFields_rows (c : PCol α) (fields : List String) (c' : PCol α)
    (ho : NArr.popFields c fields = .ok c') :
    c'.ty = (c.ty.filter fun p => ¬ fields.eraseDups.contains p.1) ∧
    c'.rows = c.rows.map (Row.without fields.eraseDups) ∧
    c'.chunks.map (·.valid) = c.chunks.map (·.valid) := by
  unfold NArr.popFields at ho
  simp only [bind, Except.bind, pure, Except.pure, throw, throwThe, MonadExceptOf.throw] at ho
  repeat' split at ho
  all_goals first | (cases ho; done) | skip
  rename_i _ names hnames _ _ _ chunks hchunks
  simp only [Except.ok.injEq] at ho
  subst ho
  refine ⟨rfl, ?_, ?_⟩
  · unfold PCol.rows
    have := mapM_ok_map_eq _ PStruct.rows (fun s => s.rows.map (Row.without fields.eraseDups))
      (fun s s' hs => (subfields_rows s _ s' hs).1) _ _ hchunks
    simp only [List.flatMap, this, List.map_flatten, List.map_map]
    rfl
  · exact mapM_ok_map_eq _ (·.valid) (·.valid) (fun s s' hs => (subfields_rows s _ s' hs).2) _ _ hchunks

/-! ### `view_fields` (`series.nest[[fields]]`, `to_flat(fields)`): the named fields, in the order asked for -/

/-- the field of a chunk `view_fields` picks by name -/
def pickKid (s : PStruct α) (f : String) : R (PField α) :=
  match s.kid? f with
  | some k => pure k
  | none => throw .keyError

def viewChunk (fields : List String) (s : PStruct α) : R (PStruct α) := do
  let kids ← fields.mapM (pickKid s)
  structFromArrays kids (some s.valid)

/-- `NArr.viewFields` written with named per-chunk steps (definitionally the same function) -/
theorem viewFields_eq (c : PCol α) (fields : List String) :
    NArr.viewFields c fields = (do
      let names ← NArr.fieldNames c
      if fields.eraseDups.length ≠ fields.length then throw .valueError
      if ¬ fields.all names.contains then throw .valueError
      let chunks ← c.chunks.mapM (viewChunk fields)
      pure { ty := fields.filterMap fun f => (c.ty.find? (·.1 == f)), chunks := chunks }) := by
  rfl

theorem pickKid_ok (s : PStruct α) (f : String) (k : PField α) (h : pickKid s f = .ok k) :
    s.kids.find? (·.name == f) = some k := by
  unfold pickKid PStruct.kid? at h
  split at h
  · rename_i k' hk'
    simp only [pure, Except.pure, Except.ok.injEq] at h
    subst h
    exact hk'
  · cases h

/-- the picked fields are fields of the chunk, and any name-keyed reading of them is the by-name selection -/
theorem pickKids_spec {β : Type} (s : PStruct α) (g : PField α → β) :
    ∀ (fields : List String) (kids : List (PField α)), fields.mapM (pickKid s) = .ok kids →
      (∀ x ∈ kids, x ∈ s.kids) ∧
      kids.map (fun k => (k.name, g k)) =
        fields.filterMap (fun f => (s.kids.map fun k => (k.name, g k)).find? (·.1 == f)) := by
  intro fields
  induction fields with
  | nil =>
    intro kids h
    simp [pure, Except.pure] at h
    subst h
    exact ⟨fun x hx => (by cases hx), rfl⟩
  | cons f fs ih =>
    intro kids h
    rw [List.mapM_cons] at h
    obtain ⟨k, hk, h⟩ := except_bind_ok h
    obtain ⟨ks, hks, h⟩ := except_bind_ok h
    simp only [pure, Except.pure, Except.ok.injEq] at h
    subst h
    obtain ⟨hsub, hmap⟩ := ih ks hks
    have hf := pickKid_ok s f k hk
    constructor
    · intro x hx
      rcases List.mem_cons.mp hx with rfl | hx
      · exact List.mem_of_find?_eq_some hf
      · exact hsub x hx
    · have : (s.kids.map fun k => (k.name, g k)).find? (·.1 == f) = some (k.name, g k) := by
        rw [List.find?_map]
        have : ((fun (x : String × β) => x.1 == f) ∘ fun (k : PField α) => (k.name, g k)) = fun k => k.name == f := rfl
        rw [this, hf]
        rfl
      simp only [List.map_cons, List.filterMap_cons, this, hmap]

/-- a row restricted to the named fields, in the order they are named -/
def Row.select (fs : List String) (r : Row α) : Row α := r.map fun t => fs.filterMap fun f => t.find? (·.1 == f)

theorem viewChunk_spec (ty : List (String × String)) (fields : List String) (s s' : PStruct α)
    (h : viewChunk fields s = .ok s') :
    s'.valid = s.valid ∧ s'.rows = s.rows.map (Row.select fields) ∧
    s'.ty = fields.filterMap (fun f => s.ty.find? (·.1 == f)) ∧
    (ChunkClean ty s → ChunkClean (fields.filterMap fun f => s.ty.find? (·.1 == f)) s') := by
  unfold viewChunk at h
  obtain ⟨kids, hkids, h⟩ := except_bind_ok h
  have hty := (pickKids_spec s (fun k => k.ty) fields kids hkids).2
  have hsub := (pickKids_spec s (fun k => k.ty) fields kids hkids).1
  have hval : s'.valid = s.valid ∧ s'.kids = kids := by
    unfold structFromArrays at h
    split at h
    · cases h
    · split at h
      · simp only [Option.getD_some, Except.ok.injEq] at h
        subst h
        exact ⟨rfl, rfl⟩
      · cases h
  refine ⟨hval.1, ?_, ?_, ?_⟩
  · unfold PStruct.rows
    simp only [PStruct.len, hval.1, List.map_map]
    apply List.map_congr_left
    intro i _
    simp only [Function.comp, PStruct.rowAt, Row.select, hval.1, hval.2]
    split
    · simp only [Option.map_some, Option.some.injEq]
      exact (pickKids_spec s (fun k => ((k.list.rows.getD i none).getD [])) fields kids hkids).2
    · rfl
  · unfold PStruct.ty
    rw [hval.2]
    exact hty
  · intro hc
    have := (subkids_chunkClean ty s hc kids hsub s' h).1
    rw [hty] at this
    exact this

/-- **`view_fields` row by row**: every row is the old row restricted to the named fields in the order asked for
    (the same rows are missing); a clean column stays clean. -/
theorem viewFields_spec (c : PCol α) (fields : List String) (c' : PCol α)
    (ho : NArr.viewFields c fields = .ok c') :
    c'.ty = fields.filterMap (fun f => c.ty.find? (·.1 == f)) ∧
    c'.rows = c.rows.map (Row.select fields) ∧
    c'.chunks.map (·.valid) = c.chunks.map (·.valid) ∧ c'.len = c.len ∧ c'.chunks ≠ [] ∧
    (c.Clean → c'.Clean) := by
  rw [viewFields_eq] at ho
  simp only [bind, Except.bind, pure, Except.pure, throw, throwThe, MonadExceptOf.throw] at ho
  repeat' split at ho
  all_goals first | (cases ho; done) | skip
  rename_i _ names hnames _ hall _ chunks hchunks
  simp only [Except.ok.injEq] at ho
  subst ho
  have hvalid := mapM_ok_map_eq _ (·.valid) (·.valid)
    (fun s s' hs => (viewChunk_spec [] fields s s' hs).1) _ _ hchunks
  obtain ⟨hlen, hmem⟩ := mapM_ok_mem _ _ _ hchunks
  have hcne : c.chunks ≠ [] := by
    intro hnil
    simp [NArr.fieldNames, hnil] at hnames
  have hne' : chunks ≠ [] := by
    intro hnil
    rw [hnil] at hlen
    exact hcne (List.length_eq_zero_iff.mp hlen.symm)
  refine ⟨rfl, ?_, hvalid, ?_, hne', ?_⟩
  · unfold PCol.rows
    have := mapM_ok_map_eq _ PStruct.rows (fun s => s.rows.map (Row.select fields))
      (fun s s' hs => (viewChunk_spec [] fields s s' hs).2.1) _ _ hchunks
    simp only [List.flatMap, this, List.map_flatten, List.map_map]
    rfl
  · unfold PCol.len
    have := mapM_ok_map_eq _ PStruct.len PStruct.len
      (fun s s' hs => by unfold PStruct.len; rw [(viewChunk_spec [] fields s s' hs).1]) _ _ hchunks
    simp only [this]
  · intro hclean
    have hcc := PCol.Clean.chunkClean c hclean
    have hch : ∀ s' ∈ chunks, ChunkClean (fields.filterMap fun f => c.ty.find? (·.1 == f)) s' := by
      intro s' hs'
      obtain ⟨s, hs, hfs⟩ := hmem s' hs'
      have := (viewChunk_spec c.ty fields s s' hfs).2.2.2 (hcc s hs)
      rw [(hcc s hs).ty_eq] at this
      exact this
    -- the declared type is not empty: the first chunk of the result has at least one field
    obtain ⟨s0, hs0⟩ := List.exists_mem_of_ne_nil _ hne'
    have hty0 := (hch s0 hs0).ty_eq
    obtain ⟨s, hs, hfs⟩ := hmem s0 hs0
    have hkne : (fields.filterMap fun f => c.ty.find? (·.1 == f)) ≠ [] := by
      intro hnil
      rw [hnil] at hty0
      unfold viewChunk at hfs
      obtain ⟨kids, _, hst⟩ := except_bind_ok hfs
      have : s0.kids = [] := by simpa [PStruct.ty] using hty0
      unfold structFromArrays at hst
      split at hst
      · cases hst
      · split at hst
        · simp only [Option.getD_some, Except.ok.injEq] at hst
          subst hst
          cases this
        · cases hst
    exact clean_of_chunks _ _ hkne hch

/-- the frame with one of its nested columns replaced by a selection of its fields
    (`nf[n] = nf[n].nest[[fields]]`) -/
def NFrame.selectFields (F : NFrame α) (nest : String) (fields : List String) : R (NFrame α) := do
  let c ← F.nest? nest
  let c' ← NArr.viewFields c fields
  pure (F.setCol nest (.nest c'))

theorem selectFields_sound (F : NFrame α) (h : F.Sound) (nest : String) (fields : List String) (F' : NFrame α)
    (hok : F.selectFields nest fields = .ok F') : F'.Sound := by
  unfold NFrame.selectFields at hok
  simp only [bind, Except.bind, pure, Except.pure] at hok
  split at hok
  · cases hok
  · rename_i c hc
    split at hok
    · cases hok
    · rename_i c' hc'
      have he := (Except.ok.inj hok).symm
      subst he
      obtain ⟨n, hmem⟩ := nest?_mem F nest c hc
      have ⟨hcl, hch, hlen⟩ := h.nest n c hmem
      obtain ⟨_, _, _, hl, hne', hcl'⟩ := viewFields_spec c fields c' hc'
      exact setCol_sound F h nest c' (hcl' hcl) hne' (by rw [hl, hlen])

/-- every frame operation of the model, field removal and field selection included -/
inductive FullOp where
  | all (op : AllOp)
  | dropFields (nest : String) (fields : List String)
  | selectFields (nest : String) (fields : List String)

def FullOp.run (F : NFrame Cell) : FullOp → R (NFrame Cell)
  | .all op => op.run F
  | .dropFields nest fields => F.dropFields nest fields
  | .selectFields nest fields => F.selectFields nest fields

def runFullChain (F : NFrame Cell) : List FullOp → R (NFrame Cell)
  | [] => .ok F
  | op :: ops => match op.run F with
    | .ok F' => runFullChain F' ops
    | .error e => .error e

theorem AllOp.run_sound (F : NFrame Cell) (h : F.Sound) (op : AllOp) (F₁ : NFrame Cell) (hr : op.run F = .ok F₁) :
    F₁.Sound :=
  runAllChain_sound [op] F h F₁ (by
    unfold runAllChain
    rw [hr]
    rfl)

theorem runFullChain_sound : ∀ (ops : List FullOp) (F : NFrame Cell), F.Sound → ∀ F', runFullChain F ops = .ok F' → F'.Sound
  | [], F, h, F', hok => by
    have := (Except.ok.inj hok).symm
    subst this
    exact h
  | op :: ops, F, h, F', hok => by
    unfold runFullChain at hok
    cases hr : op.run F with
    | error e => rw [hr] at hok; cases hok
    | ok F₁ =>
      rw [hr] at hok
      have h₁ : F₁.Sound := by
        cases op with
        | all o => exact AllOp.run_sound F h o F₁ hr
        | dropFields nest fields => exact dropFields_sound F h nest fields F₁ hr
        | selectFields nest fields => exact selectFields_sound F h nest fields F₁ hr
      exact runFullChain_sound ops F₁ h₁ F' hok

/-! ### the flat view of a subset of the fields -/

/-- **`to_flat(fields=…)`** for any non-empty list of known field names, in any order and multiplicity: the flat
    index of the rows, and under every requested NAME the concatenation of that field's own lists, with that field's
    own declared type. -/
theorem toFlat_fields_refines (index : List Label) (c : PCol α) (h : c.Clean)
    (hidx : index.length = c.len) (fs : List String) (hne : fs ≠ [])
    (hall : ∀ f ∈ fs, c.ty.any (·.1 == f) = true) :
    NSeries.toFlat { index := index, col := c } (some fs) = Spec.toFlat index c.abs (some fs) := by
  unfold Spec.toFlat PCol.abs
  simp only [Option.getD_some]
  unfold NSeries.toFlat
  have hne' : fs.isEmpty = false := by
    cases fs with
    | nil => exact absurd rfl hne
    | cons _ _ => rfl
  simp only [bind, Except.bind, pure, Except.pure, hne', Bool.false_eq_true, if_false,
    getFlatIndex_refines index c h]
  have hil : (Spec.flatIndex index c.rows).length = sumNat (c.rows.map Row.len) := by
    unfold Spec.flatIndex Spec.lens
    rw [repeatEach_length _ _ (by rw [List.length_map, PCol.rows_length, hidx])]
  have hmap := mapM_ok_of_forall
    (fun f => (do
      let v ← NArr.flatField c f
      if v.length ≠ (Spec.flatIndex index c.rows).length then throw .valueError
      pure (f, tyOf c f, v) : R (String × String × List α)))
    (fun f => (f, tyOf c f, Spec.flatField c.rows f))
    fs (by
      intro f hf
      have hany := hall f hf
      simp only [flatField_refines c h f hany, bind, Except.bind, pure, Except.pure,
        flatField_length c h f hany, hil, ne_eq, not_true_eq_false, if_false])
  simp only [bind, Except.bind, pure, Except.pure] at hmap
  rw [hmap]
  have hall' : fs.all (fun f => c.ty.any (·.1 == f)) = true := by
    rw [List.all_eq_true]
    exact hall
  simp only [if_false, hall', not_true_eq_false]
  rfl

end NP
