/-
  NPModel.Refine.SortRows — sorting the flat view by (ordinal, keys…) and re-packing
  (`sort_values` on a nested layer): records stay in their rows, whole records move together.
-/
import NPModel.Refine.Repack
namespace NP
variable {α β : Type}

theorem valsOfLabel_map [BEq β] (k : β) (perm : List Nat) (f : Nat → β) (g : Nat → α) :
    valsOfLabel k (perm.map f) (perm.map g) = (perm.filter fun p => f p == k).map g := by
  unfold valsOfLabel
  induction perm with
  | nil => rfl
  | cons p ps ih =>
    simp only [List.map_cons, List.zip_cons_cons, List.filter_cons]
    split <;> simp_all

/-- **Records stay in their rows and move as a whole.**  Reordering the flat table by ANY
    permutation of its positions (the same permutation for the ordinal index and for every
    field — `g p` is the whole record at position `p`) leaves, for every row ordinal `k`, a
    permutation of the records that carried `k` before: none lost, none duplicated, none moved to
    another row. -/
theorem reorder_keeps_records_in_rows [BEq β] (perm : List Nat) (N : Nat) (hp : perm.Perm (List.range N))
    (f : Nat → β) (g : Nat → α) (k : β) :
    (valsOfLabel k (perm.map f) (perm.map g)).Perm (valsOfLabel k ((List.range N).map f) ((List.range N).map g)) := by
  rw [valsOfLabel_map, valsOfLabel_map]
  exact (hp.filter _).map g

/-- the sort used by `sort_values` returns a permutation of the positions, whatever the comparator -/
theorem mergeSort_positions_perm (le : Nat → Nat → Bool) (N : Nat) :
    ((List.range N).mergeSort le).Perm (List.range N) :=
  List.mergeSort_perm _ _

/-! ### sorted labels are in run-length form -/

section
variable [DecidableEq β]

/-- group adjacent equal labels -/
def toRuns : List (β × α) → List (β × List α)
  | [] => []
  | (k, v) :: rest =>
    match toRuns rest with
    | (k', vs) :: runs => if k = k' then (k, v :: vs) :: runs else (k, [v]) :: (k', vs) :: runs
    | [] => [(k, [v])]

theorem toRuns_labels_vals (ps : List (β × α)) :
    runLabels (toRuns ps) = ps.map (·.1) ∧ runVals (toRuns ps) = ps.map (·.2) := by
  induction ps with
  | nil => exact ⟨rfl, rfl⟩
  | cons p ps ih =>
    obtain ⟨k, v⟩ := p
    obtain ⟨ih1, ih2⟩ := ih
    unfold toRuns
    cases h : toRuns ps with
    | nil =>
      rw [h] at ih1 ih2
      simp only [runLabels, runVals, List.flatMap_nil] at ih1 ih2
      have e1 : ps.map (·.1) = [] := ih1.symm
      have e2 : ps.map (·.2) = [] := ih2.symm
      simp [runLabels, runVals, e1, e2]
    | cons r runs =>
      obtain ⟨k', vs⟩ := r
      rw [h] at ih1 ih2
      rw [runLabels_cons] at ih1
      rw [runVals_cons] at ih2
      simp only
      split
      · rename_i hk
        subst hk
        simp only [runLabels_cons, runVals_cons, List.length_cons, List.replicate_succ, List.cons_append, List.map_cons]
        rw [ih1, ih2]
        exact ⟨rfl, rfl⟩
      · simp only [runLabels_cons, runVals_cons, List.length_cons, List.length_nil, List.replicate_succ,
          List.replicate_zero, List.cons_append, List.nil_append, List.map_cons]
        rw [ih1, ih2]
        exact ⟨rfl, rfl⟩

theorem toRuns_keys_mem (ps : List (β × α)) : ∀ k ∈ (toRuns ps).map (·.1), k ∈ ps.map (·.1) := by
  induction ps with
  | nil => intro k hk; simp [toRuns] at hk
  | cons p ps ih =>
    obtain ⟨k0, v⟩ := p
    intro k hk
    unfold toRuns at hk
    cases h : toRuns ps with
    | nil =>
      rw [h] at hk
      simp at hk
      simp [hk]
    | cons r runs =>
      obtain ⟨k', vs⟩ := r
      rw [h] at hk ih
      simp only at hk
      split at hk
      · simp only [List.map_cons, List.mem_cons] at hk ⊢
        rcases hk with rfl | hk
        · left; rfl
        · right; exact ih k (by simp [hk])
      · simp only [List.map_cons, List.mem_cons] at hk ⊢
        rcases hk with rfl | rfl | hk
        · left; rfl
        · right; exact ih k (by simp)
        · right; exact ih k (by simp [hk])

/-- **Sorted labels are in run-length form with pairwise distinct keys** (for any transitive,
    antisymmetric comparison). -/
theorem toRuns_keys_distinct (le : β → β → Bool)
    (trans : ∀ a b c, le a b → le b c → le a c) (antisymm : ∀ a b, le a b → le b a → a = b)
    (ps : List (β × α)) (hs : (ps.map (·.1)).Pairwise (fun a b => le a b = true)) :
    ((toRuns ps).map (·.1)).Pairwise (fun a b => le a b = true ∧ a ≠ b) := by
  induction ps with
  | nil => simp [toRuns]
  | cons p ps ih =>
    obtain ⟨k0, v⟩ := p
    have hs' := (List.pairwise_cons.mp hs).2
    have hle : ∀ x ∈ ps.map (·.1), le k0 x = true := (List.pairwise_cons.mp hs).1
    have ih' := ih hs'
    have hmem := toRuns_keys_mem ps
    unfold toRuns
    cases h : toRuns ps with
    | nil => simp
    | cons r runs =>
      obtain ⟨k', vs⟩ := r
      rw [h] at ih' hmem
      simp only
      split
      · rename_i hk
        subst hk
        exact ih'
      · rename_i hk
        simp only [List.map_cons] at ih' ⊢
        have hk' : le k0 k' = true := hle k' (hmem k' (by simp))
        refine List.pairwise_cons.mpr ⟨?_, ih'⟩
        intro x hx
        rcases List.mem_cons.mp hx with rfl | hx
        · exact ⟨hk', hk⟩
        · have hx' := (List.pairwise_cons.mp ih').1 x hx
          refine ⟨trans _ _ _ hk' hx'.1, ?_⟩
          intro e
          subst e
          exact hk (antisymm _ _ hk' hx'.1)

/-- Hence the packed row of label `k` in a table sorted by label is the subsequence of records
    labelled `k`, and the packed rows are the non-empty groups in label order. -/
theorem packed_row_of_sorted (le : β → β → Bool)
    (trans : ∀ a b c, le a b → le b c → le a c) (antisymm : ∀ a b, le a b → le b a → a = b)
    (ps : List (β × α)) (hs : (ps.map (·.1)).Pairwise (fun a b => le a b = true)) (k : β) (l : List α)
    (hm : (k, l) ∈ toRuns ps) :
    valsOfLabel k (ps.map (·.1)) (ps.map (·.2)) = l ∧
    segs (packOffsets (ps.map (·.1))) (ps.map (·.2)) = (nonemptyRuns (toRuns ps)).map (·.2) ∧
    ((packOffsets (ps.map (·.1))).dropLast).map (fun o => (ps.map (·.1)).getD o k) = (nonemptyRuns (toRuns ps)).map (·.1) := by
  have hd : ((toRuns ps).map (·.1)).Pairwise (· ≠ ·) :=
    List.Pairwise.imp (fun h => h.2) (toRuns_keys_distinct le trans antisymm ps hs)
  have ⟨e1, e2⟩ := toRuns_labels_vals ps
  refine ⟨?_, ?_, ?_⟩
  · rw [← e1, ← e2]; exact valsOfLabel_run _ hd k l hm
  · rw [← e1, ← e2]; exact packed_rows_are_runs _ hd
  · rw [← e1]; exact packed_index_is_run_keys k _ hd

end

end NP
