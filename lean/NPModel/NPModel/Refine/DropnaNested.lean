/-
  NPModel.Refine.DropnaNested — `dropna` aimed at a nested layer, end to end on the implementation
  model: from a cleanly stored nested column to the rows of the result.
  Helper lemmas only; the property theorems live in NPModel.Props.C12.
-/
import NPModel.Refine.QueryRows
import NPModel.Refine.SortNested
namespace NP
variable {α : Type}

/-- the flat columns `dropna` inspects: all fields, or the fields named by `subset` -/
def inspectedCols (flat : FlatDF α) (subset : Option (List String)) : List (String × String × List α) :=
  match subset with
  | none => flat.cols
  | some fs => fs.map fun f => (flat.cols.find? (·.1 == f)).getD (f, "", [])

theorem dropnaCols_ok (flat : FlatDF α) (subset : Option (List String))
    (h : ∀ fs, subset = some fs → ∀ f ∈ fs, flat.cols.any (·.1 == f) = true) :
    dropnaCols flat subset = .ok (inspectedCols flat subset) := by
  unfold dropnaCols inspectedCols
  cases subset with
  | none => rfl
  | some fs =>
    simp only
    apply mapM_ok_of_forall
    intro f hf
    unfold dropnaCol
    cases hfind : flat.cols.find? (·.1 == f) with
    | none =>
      rw [List.find?_eq_none] at hfind
      have := h fs rfl f hf
      rw [List.any_eq_true] at this
      obtain ⟨x, hx, hxe⟩ := this
      exact absurd hxe (hfind x hx)
    | some c => rfl

theorem dropnaKeep_length (isNull : α → Bool) (how : How) (thresh : Option Nat)
    (cols : List (String × String × List α)) (n : Nat) : (dropnaKeep isNull how thresh cols n).length = n := by
  simp [dropnaKeep]

/-- record `j` is kept iff `keepRecord` says so of its cells in the inspected fields -/
theorem dropnaKeep_at (isNull : α → Bool) (how : How) (thresh : Option Nat)
    (cols : List (String × String × List α)) (n j : Nat) (hj : j < n) :
    (dropnaKeep isNull how thresh cols n)[j]? = some (keepRecord isNull how thresh (recordCells cols j)) := by
  simp [dropnaKeep, List.getElem?_map, List.getElem?_range hj]

/-- **`dropna` on a nested layer, end to end.**  For a frame whose nested column `nest` is stored
    cleanly (any chunking and offsets), any `how` / `thresh`, and a `subset` naming fields of that
    column (or none): the call succeeds and replaces only that column; with `keep` the per-record
    verdict of `keepRecord` on the record's cells in the inspected fields and `masks` that verdict
    cut into the rows' extents, row `i` of the result holds exactly the records of row `i` that are
    kept, in their original order, every field filtered alike; a row left without records is
    missing; no frame row is added, dropped or moved. -/
theorem dropnaNested_rows (isNull : α → Bool) (F : NFrame α) (nest : String) (c : PCol α)
    (hc : F.nest? nest = .ok c) (hclean : c.Clean) (hch : c.chunks ≠ []) (hidx : F.index.length = c.len)
    (how : How) (thresh : Option Nat) (subset : Option (List String))
    (hsub : ∀ fs, subset = some fs → ∀ f ∈ fs, c.ty.any (·.1 == f) = true) :
    let lens := c.rows.map Row.len
    let flat := ordFlat (colLists c) lens
    let keep := dropnaKeep isNull how thresh (inspectedCols flat subset) flat.len
    let masks := Spec.splitBy lens keep
    ∃ col, F.dropnaNested isNull nest how thresh subset = .ok (F.setCol nest (.nest col)) ∧
      col.rows = repackedRows ((colLists c).map fun f => (f.1, f.2.1, filterRowsBy masks f.2.2))
        (masks.map fun m => (m.filter id).length) ∧
      col.rows.length = F.index.length ∧ masks.flatten = keep ∧ masks.map List.length = lens := by
  intro lens flat keep masks
  have hflat : F.ordinalFlat nest = .ok flat := ordinalFlat_refines F nest c hc hclean hch hidx
  have hcols : dropnaCols flat subset = .ok (inspectedCols flat subset) := by
    apply dropnaCols_ok
    intro fs hfs f hf
    have := hsub fs hfs f hf
    rw [List.any_eq_true] at this ⊢
    obtain ⟨p, hp, hpe⟩ := this
    refine ⟨(p.1, tyOf c p.1, (Spec.fieldLists c.rows p.1).flatten), ?_, hpe⟩
    show _ ∈ (ordFlat (colLists c) lens).cols
    unfold ordFlat colLists
    simp only [List.map_map, List.mem_map, Function.comp]
    exact ⟨p, hp, rfl⟩
  have hlen : flat.len = sumNat lens := by
    show (ordIndex 0 lens).length = _
    exact ordIndex_length 0 lens
  have hkl : keep.length = sumNat lens := by
    show (dropnaKeep isNull how thresh (inspectedCols flat subset) flat.len).length = _
    rw [dropnaKeep_length, hlen]
  have ⟨hmflat, hmall⟩ := splitBy_flatten lens keep hkl
  have hmlens := (splitBy_flatten' lens keep hkl).2
  have hn : lens.length = F.index.length := by
    show (c.rows.map Row.len).length = _
    rw [List.length_map, PCol.rows_length, hidx]
  have hne : colLists c ≠ [] := by
    unfold colLists
    cases hty : c.ty with
    | nil => exact absurd hty hclean.fields
    | cons _ _ => simp
  obtain ⟨col, hcol, hrows⟩ := filter_then_repack F nest (colLists c) lens masks hn (colLists_lengths c hclean) hmall hne
  refine ⟨col, ?_, hrows, ?_, hmflat, hmlens⟩
  · unfold NFrame.dropnaNested
    simp only [hflat, hcols, bind, Except.bind]
    show F.setFilteredFlatDf nest (flat.filterRows keep) = _
    rw [← hmflat]
    exact hcol
  · rw [hrows]
    unfold repackedRows
    simp only [List.length_map, List.length_range]
    rw [hmall.length_eq, hn]

end NP
