/-
  NPModel.Refine.Transpose — re-basing offsets onto the window of values they point to
  (`_rebased_offsets` / `_windowed_values` in series/utils.py) shows the same extents.
-/
import NPModel.Refine.Validate
namespace NP
variable {α : Type}

theorem drop_take_drop_take (vals : List α) (h m x y : Nat) (hxy : x + y ≤ m) :
    (((vals.drop h).take m).drop x).take y = (vals.drop (h + x)).take y := by
  apply List.ext_getElem?
  intro i
  simp only [List.getElem?_take, List.getElem?_drop]
  by_cases hi : i < y
  · have : x + i < m := by omega
    simp [hi, this, Nat.add_assoc]
  · simp [hi]

theorem segs_rebase_aux (vals : List α) (h L : Nat) :
    ∀ (offs : List Nat), monotone offs = true → (∀ x ∈ offs, h ≤ x) → (∀ x ∈ offs, x ≤ L) →
      segs (offs.map (· - h)) ((vals.drop h).take (L - h)) = segs offs vals := by
  intro offs
  induction offs with
  | nil => intros; rfl
  | cons a rest ih =>
    cases rest with
    | nil => intros; rfl
    | cons b rest =>
      intro hm hlo hhi
      simp at hm
      have ha := hlo a List.mem_cons_self
      have hb := hlo b (List.mem_cons_of_mem _ List.mem_cons_self)
      have hbL := hhi b (List.mem_cons_of_mem _ List.mem_cons_self)
      have := ih hm.2 (fun x hx => hlo x (List.mem_cons_of_mem _ hx)) (fun x hx => hhi x (List.mem_cons_of_mem _ hx))
      simp only [List.map_cons, segs_cons₂] at this ⊢
      rw [this]
      congr 1
      have e : b - h - (a - h) = b - a := by omega
      rw [e, drop_take_drop_take vals h (L - h) (a - h) (b - a) (by omega)]
      congr 2
      omega

/-- the extents seen through re-based offsets over the windowed values are the original extents -/
theorem segs_rebased_window (l : PList α) (hm : monotone l.offs = true)
    (hl : l.offs.getLast?.getD 0 ≤ l.vals.length) :
    segs (rebased l.offs) l.windowVals = segs l.offs l.vals := by
  unfold rebased PList.windowVals
  exact segs_rebase_aux l.vals _ _ l.offs hm (monotone_head_le hm)
    (monotone_le_last hm (Nat.le_refl _))

end NP
