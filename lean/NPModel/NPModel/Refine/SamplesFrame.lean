/-
  NPModel.Refine.SamplesFrame — a concrete frame for the non-vacuity `example`s of the frame-level
  theorems: a nested column in two chunks (the first a slice into a larger buffer, with an empty
  row), a base column, a condition over the nested layer.
-/
import NPModel.Impl.Frame
namespace NP.Samples
open NP

def qa1 : PList Cell := { offs := [1, 3, 3], valid := [true, true], vals := [some (.int 9), some (.int 1), some (.int 5)] }
def qb1 : PList Cell := { offs := [0, 2, 2], valid := [true, true], vals := [some (.int 7), some (.int 8)] }
def qch1 : PStruct Cell :=
  { valid := [true, true], kids := [{ name := "a", ty := "int64", list := qa1 }, { name := "b", ty := "int64", list := qb1 }] }
def qa2 : PList Cell := { offs := [0, 1], valid := [true], vals := [some (.int 3)] }
def qb2 : PList Cell := { offs := [0, 1], valid := [true], vals := [some (.int 4)] }
def qch2 : PStruct Cell :=
  { valid := [true], kids := [{ name := "a", ty := "int64", list := qa2 }, { name := "b", ty := "int64", list := qb2 }] }
/-- rows: `{a:[1,5], b:[7,8]}`, `{a:[], b:[]}`, `{a:[3], b:[4]}` -/
def qcol : PCol Cell := { ty := [("a", "int64"), ("b", "int64")], chunks := [qch1, qch2] }
def qframe : NFrame Cell :=
  { index := [.int 10, .int 20, .int 30]
    cols := [("x", .base "int64" [some (.int 1), some (.int 2), some (.int 3)]), ("n", .nest qcol)] }
/-- `n.a > 2` -/
def qexpr : Expr := .cmp .gt (.field (some "n") "a") (.const (.int 2))

end NP.Samples
