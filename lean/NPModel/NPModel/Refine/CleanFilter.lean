/-
  NPModel.Refine.CleanFilter — the boolean-mask selection of rows (`__getitem__` with a mask, what a
  base-layer `query` applies to every nested column) keeps storage clean, and base-layer queries
  keep frames sound.  Helper lemmas only.
-/
import NPModel.Refine.SoundFrames
import NPModel.Refine.Select
import NPModel.Refine.DropNa
namespace NP
variable {α : Type}

/-- what the observers need of one chunk of a column declaring `ty` -/
structure ChunkClean (ty : List (String × String)) (s : PStruct α) : Prop where
  wf : s.WF = true
  ty_eq : s.ty = ty
  nullEmpty : s.nullEmpty = true
  validated : s.validate = .ok ()
  noHidden : s.noHidden

theorem forM_ok_of_forall {β : Type} {f : β → R Unit} : ∀ (l : List β), (∀ x ∈ l, f x = .ok ()) → l.forM f = .ok ()
  | [], _ => rfl
  | a :: l, h => by
    change (f a >>= fun _ => List.forM l f) = _
    rw [h a List.mem_cons_self]
    exact forM_ok_of_forall l (fun x hx => h x (List.mem_cons_of_mem _ hx))

theorem PCol.Clean.chunkClean (c : PCol α) (h : c.Clean) : ∀ s ∈ c.chunks, ChunkClean c.ty s := by
  intro s hs
  have ⟨hw, hty⟩ := PCol.chunk_facts c h.wf s hs
  exact ⟨hw, hty, h.nullEmpty s hs, forM_ok h.validated s hs, h.noHidden s hs⟩

theorem clean_of_chunks (ty : List (String × String)) (chunks : List (PStruct α)) (hty : ty ≠ [])
    (h : ∀ s ∈ chunks, ChunkClean ty s) : PCol.Clean { ty := ty, chunks := chunks } := by
  refine ⟨?_, fun s hs => (h s hs).nullEmpty, ?_, fun s hs => (h s hs).noHidden, hty⟩
  · unfold PCol.WF
    rw [List.all_eq_true]
    intro s hs
    simp only [Bool.and_eq_true, decide_eq_true_eq]
    exact ⟨(h s hs).wf, (h s hs).ty_eq⟩
  · unfold PCol.validate
    exact forM_ok_of_forall _ (fun s hs => (h s hs).validated)

/-- filtering one clean chunk by a mask of its length gives a clean chunk -/
theorem PStruct.filter_chunkClean (ty : List (String × String)) (s : PStruct α) (h : ChunkClean ty s) (m : List Bool)
    (hm : m.length = s.len) : ChunkClean ty (s.filter m) := by
  have hal : s.aligned := PStruct.aligned_of_validate s h.wf h.nullEmpty h.validated
  have hkl : ∀ k ∈ s.kids, k.list.rows.length = s.len := fun k hk => PStruct.kid_rows_length h.wf hk
  rw [PStruct.filter_eq_take s h.wf m hm]
  let idx := (nonzeroFrom 0 m).map some
  have hslen : (s.take idx).len = idx.length := by simp [PStruct.take, PStruct.len, gather]
  have hkl' : ∀ k ∈ (s.take idx).kids, k.list.rows.length = (s.take idx).len := by
    intro k hk
    rw [hslen]
    exact PStruct.take_kid_rows_length s idx k hk
  have ⟨hw', hne'⟩ := canonical_WF (s.take idx) (PStruct.take_canonical s idx) hkl'
  exact ⟨hw', by rw [PStruct.take_ty, h.ty_eq], hne', PStruct.take_validate s hal idx,
    PStruct.take_noHidden s h.noHidden hkl idx⟩

theorem filter_go_chunkClean (ty : List (String × String)) : ∀ (chunks : List (PStruct α)) (m : List Bool),
    (∀ s ∈ chunks, ChunkClean ty s) → m.length = sumNat (chunks.map PStruct.len) →
    ∀ s' ∈ PCol.filter.go chunks m, ChunkClean ty s' := by
  intro chunks
  induction chunks with
  | nil => intro m _ _ s' hs'; simp [PCol.filter.go] at hs'
  | cons s rest ih =>
    intro m h hm s' hs'
    simp only [List.map_cons, sumNat, List.foldr_cons] at hm
    simp only [PCol.filter.go, List.mem_cons] at hs'
    rcases hs' with rfl | hs'
    · exact PStruct.filter_chunkClean ty s (h s List.mem_cons_self) _ (by rw [List.length_take]; omega)
    · exact ih (m.drop s.len) (fun x hx => h x (List.mem_cons_of_mem _ hx)) (by
        rw [List.length_drop]
        show m.length - s.len = sumNat (rest.map PStruct.len)
        unfold sumNat
        omega) s' hs'

/-- **selecting rows with a boolean mask keeps storage clean** -/
theorem getItem_mask_clean (c : PCol α) (hc : c.Clean) (hch : c.chunks ≠ []) (m : List Bool) (c' : PCol α)
    (h : NArr.getItem c (.mask m) = .ok (.col c')) : c'.Clean ∧ c'.chunks ≠ [] ∧ c'.rows = filterBy m c.rows := by
  unfold NArr.getItem at h
  simp only at h
  split at h
  · cases h
  · rename_i hlen
    have hml : m.length = c.len := by
      simpa using hlen
    split at h
    · -- a column without rows
      rename_i h0
      simp only [NArr.init, List.isEmpty_nil, if_true, Bool.false_eq_true, if_false, bind, Except.bind, pure, Except.pure] at h
      have he : c' = { c with chunks := [emptyChunk c.ty] } := by
        injection h with h1; injection h1 with h2; exact h2.symm
      subst he
      have hrows : c.rows = [] := by
        apply List.eq_nil_of_length_eq_zero
        rw [PCol.rows_length, ← hml, h0]
      have hm0 : m = [] := List.eq_nil_of_length_eq_zero h0
      refine ⟨?_, List.cons_ne_nil _ _, ?_⟩
      · apply clean_of_chunks c.ty _ hc.fields
        intro s hs
        simp only [List.mem_cons, List.not_mem_nil, or_false] at hs
        subst hs
        refine ⟨?_, ?_, ?_, emptyChunk_validate c.ty, ?_⟩
        · simp [PStruct.WF, emptyChunk, PList.WF, PList.len, PStruct.len, monotone]
        · simp only [PStruct.ty, emptyChunk, List.map_map]
          conv => rhs; rw [← List.map_id c.ty]
          apply List.map_congr_left
          intro p _
          rfl
        · simp [PStruct.nullEmpty, emptyChunk, PList.nullEmpty, diffs]
        · intro i hi; simp [emptyChunk, PStruct.len] at hi
      · rw [hrows, hm0]
        simp [PCol.rows, PStruct.rows, emptyChunk, PStruct.len]
    · rename_i hn0
      have hfilter_ne : (c.filter m).chunks ≠ [] := by
        unfold PCol.filter
        cases hcc : c.chunks with
        | nil => exact absurd hcc hch
        | cons s rest => simp [PCol.filter.go]
      have hemp : (c.filter m).chunks.isEmpty = false := by
        cases hcc : (c.filter m).chunks with
        | nil => exact absurd hcc hfilter_ne
        | cons _ _ => rfl
      simp only [NArr.init, hemp, Bool.false_eq_true, if_false, bind, Except.bind, pure, Except.pure] at h
      have he : c' = c.filter m := by
        injection h with h1; injection h1 with h2; exact h2.symm
      subst he
      refine ⟨?_, hfilter_ne, PCol.filter_rows c hc.wf m hml⟩
      have := clean_of_chunks c.ty (PCol.filter.go c.chunks m) hc.fields
        (filter_go_chunkClean c.ty c.chunks m (PCol.Clean.chunkClean c hc) hml)
      exact this

end NP

namespace NP

theorem filterBy_length_le {β : Type} : ∀ (m : List Bool) (xs : List β), (filterBy m xs).length ≤ xs.length
  | [], xs => by simp
  | _ :: _, [] => by simp
  | b :: m, x :: xs => by
    cases b
    · simp only [filterBy_cons_false, List.length_cons]
      exact Nat.le_succ_of_le (filterBy_length_le m xs)
    · simp only [filterBy_cons_true, List.length_cons]
      exact Nat.succ_le_succ (filterBy_length_le m xs)

/-- **a base-layer row filter keeps frames sound**: every base column and the index are filtered by
    the same mask, every nested column is selected by it into clean storage -/
theorem filterRows_sound (F : NFrame Cell) (h : F.Sound) (keep : List Bool) (F' : NFrame Cell)
    (hok : F.filterRows keep = .ok F') : F'.Sound := by
  unfold NFrame.filterRows at hok
  simp only [bind, Except.bind, pure, Except.pure] at hok
  split at hok
  · cases hok
  · rename_i cols' hcols
    have he := (Except.ok.inj hok).symm
    subst he
    have ⟨hlen, hspec⟩ := mapM_ok_spec _ _ _ hcols
    have hsrc : ∀ p' ∈ cols', ∃ p ∈ F.cols, ∃ i : Nat, F.cols[i]? = some p ∧ cols'[i]? = some p' := by
      intro p' hp'
      obtain ⟨i, hi, rfl⟩ := List.getElem_of_mem hp'
      have hi' : i < F.cols.length := by rw [← hlen]; exact hi
      exact ⟨F.cols[i], List.getElem_mem hi', i, List.getElem?_eq_getElem hi', List.getElem?_eq_getElem hi⟩
    constructor
    · intro n t v hm
      obtain ⟨p, hp, i, hpi, hci⟩ := hsrc _ hm
      obtain ⟨c, hc1, hc2⟩ := hspec i p hpi
      rw [hci] at hc2
      have hcc : c = (n, ColData.base t v) := (Option.some.inj hc2).symm
      subst hcc
      obtain ⟨pn, pd⟩ := p
      cases pd with
      | base t' v' =>
        simp only [pure, Except.pure] at hc1
        have := Except.ok.inj hc1
        injection this with _ h2
        injection h2 with _ h3
        subst h3
        exact filterBy_length_eq keep v' F.index (h.base pn t' v' hp)
      | nest c0 =>
        simp only [bind, Except.bind, pure, Except.pure, throw, throwThe, MonadExceptOf.throw] at hc1
        repeat' split at hc1
        all_goals first
          | (cases hc1; done)
          | (have := Except.ok.inj hc1; injection this with _ h2; cases h2)
    · intro n c' hm
      obtain ⟨p, hp, i, hpi, hci⟩ := hsrc _ hm
      obtain ⟨c, hc1, hc2⟩ := hspec i p hpi
      rw [hci] at hc2
      have hcc : c = (n, ColData.nest c') := (Option.some.inj hc2).symm
      subst hcc
      obtain ⟨pn, pd⟩ := p
      cases pd with
      | base t' v' =>
        simp only [pure, Except.pure] at hc1
        have := Except.ok.inj hc1
        injection this with _ h2
        cases h2
      | nest c0 =>
        have ⟨hcl, hch, hl0⟩ := h.nest pn c0 hp
        simp only [bind, Except.bind, pure, Except.pure, throw, throwThe, MonadExceptOf.throw] at hc1
        split at hc1
        · cases hc1
        · rename_i r hget
          split at hc1
          · rename_i c'' 
            have := Except.ok.inj hc1
            injection this with _ h2
            injection h2 with h3
            subst h3
            have ⟨hcl', hch', hrows⟩ := getItem_mask_clean c0 hcl hch keep c'' hget
            refine ⟨hcl', hch', ?_⟩
            rw [← PCol.rows_length, hrows]
            exact filterBy_length_eq keep c0.rows F.index (by rw [PCol.rows_length, hl0])
          · cases hc1

/-- **base-layer queries keep frames sound** -/
theorem queryBase_sound (F : NFrame Cell) (h : F.Sound) (e : Expr) (hl : e.layers = [] ∨ e.layers = [none])
    (F' : NFrame Cell) (hok : F.query e = .ok F') : F'.Sound := by
  unfold NFrame.query at hok
  rcases hl with hl | hl
  all_goals
    simp only [hl, List.length_cons, List.length_nil, Nat.zero_add, gt_iff_lt, Nat.lt_irrefl, if_false, bind,
      Except.bind, pure, Except.pure, throw, throwThe, MonadExceptOf.throw, Nat.not_lt_zero] at hok
    split at hok
    · cases hok
    · exact filterRows_sound F h _ F' hok

end NP

namespace NP

/-- every operation of the chains: rebuilds, joins and base-layer queries -/
inductive AnyOp where
  | frame (op : FrameOp)
  | baseQuery (e : Expr)

def AnyOp.run (F : NFrame Cell) : AnyOp → R (NFrame Cell)
  | .frame op => op.run F
  | .baseQuery e => if e.layers = [] ∨ e.layers = [none] then F.query e else .error .valueError

def runAnyChain (F : NFrame Cell) : List AnyOp → R (NFrame Cell)
  | [] => .ok F
  | op :: ops => match op.run F with
    | .ok F' => runAnyChain F' ops
    | .error e => .error e

theorem runAnyChain_sound : ∀ (ops : List AnyOp) (F : NFrame Cell), F.Sound → ∀ F', runAnyChain F ops = .ok F' → F'.Sound
  | [], F, h, F', hok => by
    have := (Except.ok.inj hok).symm
    subst this
    exact h
  | op :: ops, F, h, F', hok => by
    unfold runAnyChain at hok
    cases hr : op.run F with
    | error e => rw [hr] at hok; cases hok
    | ok F₁ =>
      rw [hr] at hok
      have h₁ : F₁.Sound := by
        cases op with
        | frame o =>
          cases o with
          | rebuild o' => exact (NestOp.run_sound F h o' F₁ hr).1
          | join flat name how => exact addNested_sound F h flat name how none F₁ hr
        | baseQuery e =>
          simp only [AnyOp.run] at hr
          by_cases hl : e.layers = [] ∨ e.layers = [none]
          · rw [if_pos hl] at hr
            exact queryBase_sound F h e hl F₁ hr
          · rw [if_neg hl] at hr; cases hr
      exact runAnyChain_sound ops F₁ h₁ F' hok

end NP
