/-
  NPModel.Refine.ViewTrips — the list view and the element view round trips of C02 on the
  implementation model: `pack_lists ∘ to_lists` and `pack_seq ∘ list(series)`.
-/
import NPModel.Refine.Observers
import NPModel.Refine.RoundTrip
import NPModel.Refine.CleanTake
import NPModel.Refine.CleanFilter
import NPModel.Refine.SetItem
import NPModel.Refine.Select
import NPModel.Impl.Accessor
namespace NP
variable {α : Type}

theorem find_of_nodup_keys {β : Type} (t : List (String × β)) (hn : (t.map (·.1)).Nodup) :
    ∀ x ∈ t, t.find? (·.1 == x.1) = some x := by
  induction t with
  | nil => intro x hx; cases hx
  | cons a t ih =>
    intro x hx
    simp only [List.map_cons, List.nodup_cons] at hn
    rw [List.find?_cons]
    rcases List.mem_cons.mp hx with rfl | hx'
    · simp
    · have hne : (a.1 == x.1) = false := by
        rw [beq_eq_false_iff_ne]
        intro e
        exact hn.1 (e ▸ List.mem_map.mpr ⟨x, hx', rfl⟩)
      rw [hne]
      exact ih hn.2 x hx'

/-- a table that lists exactly the dtype's field names, each once, is what the dtype sees of it -/
theorem normRow_id (ty : List (String × String)) (t : Table α) (hnames : t.map (·.1) = ty.map (·.1))
    (hn : (ty.map (·.1)).Nodup) : normRow ty (some t) = some t := by
  unfold normRow
  simp only [Option.map_some, Option.some.injEq]
  have hlen : t.length = ty.length := by simpa using congrArg List.length hnames
  apply List.ext_getElem (by simp [hlen])
  intro j h1 h2
  simp only [List.getElem_map]
  have hj : j < ty.length := by simpa using h1
  have hnj : (ty[j]).1 = (t[j]).1 := by
    have := congrArg (fun l => l[j]?) hnames
    simp only [List.getElem?_map, List.getElem?_eq_getElem h2, List.getElem?_eq_getElem hj, Option.map_some,
      Option.some.injEq] at this
    exact this.symm
  rw [hnj, find_of_nodup_keys t (hnames ▸ hn) t[j] (List.getElem_mem h2)]
  rfl

/-- **`pack_seq` stores what the dtype sees of every row offered**, whenever each of them is
    rectangular under the dtype (and refuses otherwise: `packSeq_ragged`). -/
theorem packSeq_rows (idx : List Label) (ty : List (String × String)) (rows : List (Row α))
    (hrect : ∀ r ∈ rows, Row.rect (normRow ty r) = true) :
    ∃ s, packSeq idx ty rows = .ok s ∧ s.index = idx ∧ s.col.ty = ty ∧ s.col.rows = rows.map (normRow ty) := by
  let S : PStruct α := PStruct.ofScalars ty (rows.map (boxScalar ty))
  have hcan : S.canonical := by
    intro k hk
    simp only [S, PStruct.ofScalars, List.mem_map] at hk
    obtain ⟨j, _, rfl⟩ := hk
    exact ⟨_, rfl⟩
  have hl : ∀ k ∈ S.kids, k.list.rows.length = rows.length := by
    intro k hk
    simp only [S, PStruct.ofScalars, List.mem_map] at hk
    obtain ⟨j, _, rfl⟩ := hk
    simp [PList.ofRows_rows]
  have hval : S.validate = .ok () := by
    rw [PStruct.canonical_validate_iff S hcan, PStruct.aligned_iff_rows S rows.length hl]
    intro i hi
    have hi' : i < (rows.map (boxScalar ty)).length := by simpa using hi
    rw [ofScalars_allEq ty _ i hi']
    have : (rows.map (boxScalar ty)).getD i none = boxScalar ty rows[i] := by
      simp [List.getD_eq_getElem?_getD, List.getElem?_map, List.getElem?_eq_getElem hi]
    rw [this, unbox_box]
    exact hrect _ (List.getElem_mem hi)
  refine ⟨⟨idx, ⟨ty, [S]⟩⟩, ?_, rfl, rfl, ?_⟩
  · unfold packSeq NArr.init
    simp only [List.isEmpty_cons, Bool.false_eq_true, if_false, if_true, bind, Except.bind, pure, Except.pure]
    have hv : PCol.validate (⟨ty, [S]⟩ : PCol α) = .ok () := by
      unfold PCol.validate
      apply forM_ok_of_forall
      intro s hs
      simp only [List.mem_cons, List.not_mem_nil, or_false] at hs
      subst hs; exact hval
    rw [hv]
  · simp only [PCol.rows, List.flatMap_cons, List.flatMap_nil, List.append_nil, S]
    rw [PStruct.ofScalars_rows, List.map_map]
    apply List.map_congr_left
    intro r _
    exact unbox_box ty r

theorem row_names (c : PCol α) (hw : c.WF = true) : ∀ r ∈ c.rows, ∀ t, r = some t → t.map (·.1) = c.ty.map (·.1) := by
  intro r hr t ht
  unfold PCol.rows at hr
  obtain ⟨s, hs, hrs⟩ := List.mem_flatMap.mp hr
  have ⟨_, hty⟩ := PCol.chunk_facts c hw s hs
  unfold PStruct.rows at hrs
  obtain ⟨i, _, hri⟩ := List.mem_map.mp hrs
  subst ht
  unfold PStruct.rowAt at hri
  split at hri
  · cases hri
    rw [← hty]
    simp [PStruct.ty, List.map_map, Function.comp_def]
  · cases hri

/-- **the element view round trip on the implementation model**: packing the per-row tables of a
    validated column (field names distinct) under its own dtype gives back the very same rows. -/
theorem iter_packSeq (s : NSeries α) (hw : s.col.WF = true) (hne : ∀ ch ∈ s.col.chunks, ch.nullEmpty = true)
    (hv : s.col.validate = .ok ()) (hn : (s.col.ty.map (·.1)).Nodup) :
    ∃ s', packSeq s.index s.col.ty (NArr.iter s.col) = .ok s' ∧ s'.index = s.index ∧ s'.col.ty = s.col.ty ∧
      s'.col.rows = s.col.rows := by
  have hrect := PCol.validate_rect s.col hw hne hv
  have hnorm : ∀ r ∈ s.col.rows, normRow s.col.ty r = r := by
    intro r hr
    cases r with
    | none => rfl
    | some t => exact normRow_id s.col.ty t (row_names s.col hw _ hr t rfl) hn
  obtain ⟨s', h1, h2, h3, h4⟩ := packSeq_rows s.index s.col.ty s.col.rows (by
    intro r hr
    rw [hnorm r hr]
    unfold rectRows at hrect
    exact (List.all_eq_true.mp hrect) r hr)
  refine ⟨s', h1, h2, h3, ?_⟩
  rw [h4]
  conv => rhs; rw [← List.map_id s.col.rows]
  exact List.map_congr_left hnorm

/-- the lists `iter_field_lists(f)` yields, as a total function of the storage -/
def listsOf (c : PCol α) (f : String) : List (Option (List α)) :=
  (c.chunks.map fun s => ((s.kid? f).map (·.list.rows)).getD []).flatten

theorem kid_of_field (c : PCol α) (hw : c.WF = true) (f : String) (hf : c.ty.any (·.1 == f) = true)
    (s : PStruct α) (hs : s ∈ c.chunks) : ∃ k, s.kid? f = some k ∧ k ∈ s.kids := by
  have ⟨_, hty⟩ := PCol.chunk_facts c hw s hs
  unfold PStruct.kid?
  have : s.kids.any (·.name == f) = true := by
    have := hf
    rw [← hty] at this
    simpa [PStruct.ty, List.any_map, Function.comp] using this
  rw [List.any_eq_true] at this
  obtain ⟨k, hk, hn⟩ := this
  cases hfind : s.kids.find? (·.name == f) with
  | none =>
    rw [List.find?_eq_none] at hfind
    exact absurd hn (by simpa using hfind k hk)
  | some k' => exact ⟨k', rfl, List.mem_of_find?_eq_some hfind⟩

theorem iterFieldLists_eq (c : PCol α) (hw : c.WF = true) (f : String) (hf : c.ty.any (·.1 == f) = true) :
    NArr.iterFieldLists c f = .ok (listsOf c f) := by
  unfold NArr.iterFieldLists listsOf
  have : c.chunks.mapM (iterOfChunk f) = .ok (c.chunks.map fun s => ((s.kid? f).map (·.list.rows)).getD []) := by
    apply mapM_ok_of_forall
    intro s hs
    obtain ⟨k, hk, _⟩ := kid_of_field c hw f hf s hs
    simp [iterOfChunk, hk, pure, Except.pure]
  simp only [this, bind, Except.bind, pure, Except.pure]

theorem listsOf_lens (c : PCol α) (h : c.Clean) (f f' : String)
    (hf : c.ty.any (·.1 == f) = true) (hf' : c.ty.any (·.1 == f') = true) :
    (listsOf c f).map len0 = (listsOf c f').map len0 := by
  have ha := PCol.aligned_of_validate c h.wf h.nullEmpty h.validated
  unfold listsOf
  simp only [List.map_flatten, List.map_map]
  congr 1
  apply List.map_congr_left
  intro s hs
  obtain ⟨k, hk, hm⟩ := kid_of_field c h.wf f hf s hs
  obtain ⟨k', hk', hm'⟩ := kid_of_field c h.wf f' hf' s hs
  simp only [Function.comp, hk, hk', Option.map_some, Option.getD_some]
  exact ha s hs k hm k' hm'

theorem listsOf_spec (c : PCol α) (h : c.Clean) (f : String) (hf : c.ty.any (·.1 == f) = true) :
    (listsOf c f).map (fun r => r.getD []) = Spec.fieldLists c.rows f ∧ (listsOf c f).length = c.len := by
  obtain ⟨ls, hls, h1, h2⟩ := iterFieldLists_refines c h f hf
  rw [iterFieldLists_eq c h.wf f hf] at hls
  cases hls
  exact ⟨h1, h2⟩

/-- how `pack_lists` is handed the frame `to_lists` returned: every column one list array -/
def ListDF.asChunks (df : ListDF α) : List (String × String × List (PList α)) :=
  df.cols.map fun (n, t, ls) => (n, t, [PList.ofRows ls])

/-- `pack_lists` on one list array per column, all of one length and with equal list lengths -/
theorem packLists_single (idx : List Label) (f0 : String) (fr : List String) (T : String → String)
    (L : String → List (Option (List α))) (n : Nat)
    (hlen : ∀ f ∈ f0 :: fr, (L f).length = n)
    (hal : ∀ f ∈ f0 :: fr, (L f).map len0 = (L f0).map len0) :
    packLists idx ((f0 :: fr).map fun f => (f, T f, [PList.ofRows (L f)])) true =
      .ok { index := idx,
            col := { ty := (f0 :: fr).map fun f => (f, T f),
                     chunks := [{ valid := List.replicate n true,
                                  kids := (f0 :: fr).map fun f => { name := f, ty := T f, list := PList.ofRows (L f) } }] } } := by
  unfold packLists
  simp only [List.map_cons, List.map_map, Function.comp_def, ofRows_len, List.map_nil]
  have hall : (fr.map fun f => [(L f).length]).all (· == [(L f0).length]) = true := by
    rw [List.all_eq_true]
    intro x hx
    obtain ⟨f, hf, rfl⟩ := List.mem_map.mp hx
    simp [hlen f (List.mem_cons_of_mem _ hf), hlen f0 List.mem_cons_self]
  simp only [hall, if_true]
  simp only [List.length_cons, List.length_nil, Nat.zero_add, List.range_one,
    List.mapM_cons, List.mapM_nil, List.getD_cons_zero]
  have hsf : structFromArrays
      (({ name := f0, ty := T f0, list := PList.ofRows (L f0) } : PField α) ::
        (fr.map fun x => ({ name := x, ty := T x, list := PList.ofRows (L x) } : PField α))) none
      = .ok ⟨List.replicate n true,
              ({ name := f0, ty := T f0, list := PList.ofRows (L f0) } : PField α) ::
                (fr.map fun x => ({ name := x, ty := T x, list := PList.ofRows (L x) } : PField α))⟩ := by
    unfold structFromArrays
    have : (fr.map fun x => ({ name := x, ty := T x, list := PList.ofRows (L x) } : PField α)).all
        (fun k' => decide (k'.list.len = (PList.ofRows (L f0)).len)) = true := by
      rw [List.all_eq_true]
      intro k hk
      obtain ⟨f, hf, rfl⟩ := List.mem_map.mp hk
      simp [ofRows_len, hlen f (List.mem_cons_of_mem _ hf), hlen f0 List.mem_cons_self]
    simp only [ofRows_len, hlen f0 List.mem_cons_self] at this ⊢
    simp only [this, if_true, Option.getD_none]
  simp only [hsf, bind, Except.bind, pure, Except.pure]
  unfold NArr.init
  simp only [List.isEmpty_cons, Bool.false_eq_true, if_false, if_true, bind, Except.bind, pure, Except.pure]
  have hv : PCol.validate (⟨(f0, T f0) :: (fr.map fun x => (x, T x)),
      [⟨List.replicate n true,
        ({ name := f0, ty := T f0, list := PList.ofRows (L f0) } : PField α) ::
          (fr.map fun x => ({ name := x, ty := T x, list := PList.ofRows (L x) } : PField α))⟩]⟩ : PCol α)
      = .ok () := by
    unfold PCol.validate
    apply forM_ok_of_forall
    intro s hs
    simp only [List.mem_cons, List.not_mem_nil, or_false] at hs
    subst hs
    unfold PStruct.validate
    have : (fr.map fun x => ({ name := x, ty := T x, list := PList.ofRows (L x) } : PField α)).all
        (fun k' => rebased k'.list.offs == rebased (PList.ofRows (L f0)).offs) = true := by
      rw [List.all_eq_true]
      intro k hk
      obtain ⟨f, hf, rfl⟩ := List.mem_map.mp hk
      simp only [ofRows_offs, hal f (List.mem_cons_of_mem _ hf), beq_self_eq_true]
    simp only [this, if_true]
  rw [hv]

theorem field_of_ty (c : PCol α) (p : String × String) (hp : p ∈ c.ty) : c.ty.any (·.1 == p.1) = true :=
  List.any_eq_true.mpr ⟨p, hp, by simp⟩

/-- **the list view round trip on the implementation model.** -/
theorem toLists_packLists (s : NSeries α) (h : s.col.Clean) (hne : s.col.chunks ≠ []) :
    ∃ df s', s.toLists none = .ok df ∧ packLists df.index df.asChunks true = .ok s' ∧
      s'.index = s.index ∧ s'.col.ty.map (·.1) = s.col.ty.map (·.1) ∧
      s'.col.rows = (List.range s.col.len).map fun i =>
        some (s.col.ty.map fun p => (p.1, (Spec.fieldLists s.col.rows p.1).getD i [])) := by
  obtain ⟨idx, c⟩ := s
  simp only at h hne ⊢
  -- field names
  obtain ⟨s0, rest, hch⟩ := List.exists_cons_of_ne_nil hne
  have hs0 : s0 ∈ c.chunks := by rw [hch]; exact List.mem_cons_self
  have ⟨_, hty0⟩ := PCol.chunk_facts c h.wf s0 hs0
  have hnames : NArr.fieldNames c = .ok (c.ty.map (·.1)) := by
    unfold NArr.fieldNames
    rw [hch]
    simp only [pure, Except.pure]
    rw [← hty0]; simp [PStruct.ty]
  have htyne : c.ty ≠ [] := h.fields
  let colOf : String → String × String × List (Option (List α)) := fun f => (f, tyOf c f, listsOf c f)
  have hcols : (c.ty.map (·.1)).mapM (fun f => do pure (f, tyOf c f, ← NArr.iterFieldLists c f))
      = .ok ((c.ty.map (·.1)).map colOf) := by
    apply mapM_ok_of_forall
    intro f hf
    obtain ⟨p, hp, rfl⟩ := List.mem_map.mp hf
    rw [iterFieldLists_eq c h.wf p.1 (field_of_ty c p hp)]
    rfl
  let df : ListDF α := { index := idx, cols := (c.ty.map (·.1)).map colOf }
  have hto : NSeries.toLists ⟨idx, c⟩ none = .ok df := by
    unfold NSeries.toLists
    simp only [hnames, bind, Except.bind, pure, Except.pure]
    have : (c.ty.map (·.1)).isEmpty = false := by
      cases hc : c.ty with
      | nil => exact absurd hc htyne
      | cons _ _ => rfl
    simp only [this, Bool.false_eq_true, if_false]
    have hcols' := hcols
    simp only [bind, Except.bind, pure, Except.pure] at hcols'
    rw [hcols']
  -- the names as a cons
  obtain ⟨p0, pr, hcty⟩ := List.exists_cons_of_ne_nil htyne
  have hnm : c.ty.map (·.1) = p0.1 :: pr.map (·.1) := by rw [hcty]; rfl
  have hmemf : ∀ f ∈ p0.1 :: pr.map (·.1), c.ty.any (·.1 == f) = true := by
    intro f hf
    rw [← hnm] at hf
    obtain ⟨p, hp, rfl⟩ := List.mem_map.mp hf
    exact field_of_ty c p hp
  have hchunks : df.asChunks = (p0.1 :: pr.map (·.1)).map fun f => (f, tyOf c f, [PList.ofRows (listsOf c f)]) := by
    show ((c.ty.map (·.1)).map colOf).map _ = _
    rw [hnm, List.map_map]
    rfl
  have hpack := packLists_single idx p0.1 (pr.map (·.1)) (tyOf c) (listsOf c) c.len
    (fun f hf => (listsOf_spec c h f (hmemf f hf)).2)
    (fun f hf => listsOf_lens c h f p0.1 (hmemf f hf) (hmemf p0.1 List.mem_cons_self))
  rw [← hchunks] at hpack
  refine ⟨df, _, hto, hpack, rfl, ?_, ?_⟩
  · simp only [← hnm, List.map_map, Function.comp_def]
  · simp only [PCol.rows, List.flatMap_cons, List.flatMap_nil, List.append_nil, PStruct.rows, PStruct.len,
      List.length_replicate]
    apply List.map_congr_left
    intro i hi
    have hi' : i < c.len := by simpa using hi
    unfold PStruct.rowAt
    simp only [List.getD_eq_getElem?_getD, List.getElem?_replicate, hi', if_true, Option.getD_some]
    congr 1
    rw [← hnm, List.map_map, List.map_map]
    apply List.map_congr_left
    intro p hp
    simp only [Function.comp, PList.ofRows_rows]
    congr 1
    show _ = ((Spec.fieldLists c.rows p.1)[i]?).getD []
    have := (listsOf_spec c h p.1 (field_of_ty c p hp)).1
    rw [← this]
    simp [List.getElem?_map]
    cases (listsOf c p.1)[i]? <;> rfl

/-- with distinct field names, "under every field name the list that field has in row i" IS row i —
    and a table of empty lists where row i is missing -/
theorem lists_of_row (ty : List (String × String)) (rows : List (Row α)) (hn : (ty.map (·.1)).Nodup)
    (hnames : ∀ r ∈ rows, ∀ t, r = some t → t.map (·.1) = ty.map (·.1)) (i : Nat) (hi : i < rows.length) :
    (ty.map fun p => (p.1, (Spec.fieldLists rows p.1).getD i [])) =
      (rows[i]).getD (ty.map fun p => (p.1, [])) := by
  have hget : ∀ f, (Spec.fieldLists rows f).getD i [] =
      (match rows[i] with | none => [] | some t => ((t.find? (·.1 == f)).map (·.2)).getD []) := by
    intro f
    unfold Spec.fieldLists
    simp only [List.getD_eq_getElem?_getD, List.getElem?_map, List.getElem?_eq_getElem hi, Option.map_some,
      Option.getD_some]
    cases rows[i] <;> rfl
  simp only [hget]
  cases hr : rows[i] with
  | none => rfl
  | some t =>
    have hm : rows[i] ∈ rows := List.getElem_mem hi
    have hnm := hnames _ hm t hr
    simp only [Option.getD_some]
    have := normRow_id ty t hnm hn
    unfold normRow at this
    simpa using this

/-- **the list view round trip, row by row** (field names distinct): every row comes back present;
    a row that held a table holds the same table, a missing row a table of lists without elements. -/
theorem toLists_packLists_rows (s : NSeries α) (h : s.col.Clean) (hne : s.col.chunks ≠ [])
    (hn : (s.col.ty.map (·.1)).Nodup) :
    ∃ df s', s.toLists none = .ok df ∧ packLists df.index df.asChunks true = .ok s' ∧
      s'.index = s.index ∧
      s'.col.rows = s.col.rows.map fun r => some (r.getD (s.col.ty.map fun p => (p.1, []))) := by
  obtain ⟨df, s', h1, h2, h3, _, h5⟩ := toLists_packLists s h hne
  refine ⟨df, s', h1, h2, h3, ?_⟩
  rw [h5]
  have hlen := PCol.rows_length s.col
  apply List.ext_getElem (by simp [hlen])
  intro i h1 h2
  have hi : i < s.col.rows.length := by simpa using h2
  simp only [List.getElem_map, List.getElem_range]
  rw [lists_of_row s.col.ty s.col.rows hn (row_names s.col h.wf) i hi]

end NP
