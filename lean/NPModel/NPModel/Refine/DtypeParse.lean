/-
  NPModel.Refine.DtypeParse — the parser of nested dtype names inverts the name function.
  Helper lemmas about Python's `str.split` on two-character separators.
-/
import NPModel.Impl.Dtype
namespace NP

/-- no adjacent pair `a b` inside `s` -/
def noPair (a b : Char) : Str → Bool
  | c :: d :: rest => !(c == a && d == b) && noPair a b (d :: rest)
  | _ => true

@[simp] theorem noPair_nil (a b : Char) : noPair a b [] = true := rfl
@[simp] theorem noPair_single (a b c : Char) : noPair a b [c] = true := rfl
@[simp] theorem noPair_cons₂ (a b c d : Char) (rest : Str) :
    noPair a b (c :: d :: rest) = (!(c == a && d == b) && noPair a b (d :: rest)) := rfl

/-- a part without the separator, followed by the separator: `split` cuts exactly there -/
theorem split2_part_sep (a b : Char) (hab : a ≠ b) (p rest cur : Str) (hp : noPair a b p = true) :
    split2 a b (p ++ a :: b :: rest) cur = (cur.reverse ++ p) :: split2 a b rest [] := by
  induction p generalizing cur with
  | nil => simp [split2]
  | cons c p ih =>
    cases p with
    | nil =>
      have : ¬ (c = a ∧ a = b) := fun h => hab h.2
      simp only [List.cons_append, List.nil_append, split2, this, if_false]
      simp [split2]
    | cons d p' =>
      have hcd : ¬ (c = a ∧ d = b) := by
        simp only [noPair_cons₂, Bool.and_eq_true, Bool.not_eq_true', Bool.and_eq_false_iff] at hp
        intro h
        rcases hp.1 with h1 | h1
        · simp [h.1] at h1
        · simp [h.2] at h1
      have hp' : noPair a b (d :: p') = true := by
        simp only [noPair_cons₂, Bool.and_eq_true] at hp
        exact hp.2
      simp only [List.cons_append, split2, hcd, if_false]
      have := ih (c :: cur) hp'
      simp only [List.cons_append] at this
      rw [this]
      simp

/-- a last part without the separator -/
theorem split2_last (a b : Char) (p cur : Str) (hp : noPair a b p = true) :
    split2 a b p cur = [cur.reverse ++ p] := by
  induction p generalizing cur with
  | nil => simp [split2]
  | cons c p ih =>
    cases p with
    | nil => simp [split2]
    | cons d p' =>
      have hcd : ¬ (c = a ∧ d = b) := by
        simp only [noPair_cons₂, Bool.and_eq_true, Bool.not_eq_true', Bool.and_eq_false_iff] at hp
        intro h
        rcases hp.1 with h1 | h1
        · simp [h.1] at h1
        · simp [h.2] at h1
      have hp' : noPair a b (d :: p') = true := by
        simp only [noPair_cons₂, Bool.and_eq_true] at hp
        exact hp.2
      simp only [split2, hcd, if_false]
      rw [ih (c :: cur) hp']
      simp

/-- **`split` inverts `join`** for parts that do not contain the separator -/
theorem split2_intercalate (a b : Char) (hab : a ≠ b) :
    ∀ (parts : List Str), parts ≠ [] → (∀ p ∈ parts, noPair a b p = true) →
      split2 a b (intercalateStr [a, b] parts) [] = parts := by
  intro parts
  induction parts with
  | nil => intro h; exact absurd rfl h
  | cons p rest ih =>
    intro _ hall
    cases rest with
    | nil =>
      simp only [intercalateStr]
      rw [split2_last a b p [] (hall p List.mem_cons_self)]
      simp
    | cons q rest' =>
      simp only [intercalateStr]
      have : p ++ [a, b] ++ intercalateStr [a, b] (q :: rest') = p ++ a :: b :: intercalateStr [a, b] (q :: rest') := by simp
      rw [this, split2_part_sep a b hab p _ [] (hall p List.mem_cons_self)]
      rw [ih (by simp) (fun x hx => hall x (List.mem_cons_of_mem _ hx))]
      simp

/-- `split(sep, maxsplit=1)` cuts at the first occurrence -/
theorem splitOnce2_part_sep (a b : Char) (hab : a ≠ b) (p rest cur : Str) (hp : noPair a b p = true) :
    splitOnce2 a b (p ++ a :: b :: rest) cur = some (cur.reverse ++ p, rest) := by
  induction p generalizing cur with
  | nil => simp [splitOnce2]
  | cons c p ih =>
    cases p with
    | nil =>
      have : ¬ (c = a ∧ a = b) := fun h => hab h.2
      simp only [List.cons_append, List.nil_append, splitOnce2, this, if_false]
      simp [splitOnce2]
    | cons d p' =>
      have hcd : ¬ (c = a ∧ d = b) := by
        simp only [noPair_cons₂, Bool.and_eq_true, Bool.not_eq_true', Bool.and_eq_false_iff] at hp
        intro h
        rcases hp.1 with h1 | h1
        · simp [h.1] at h1
        · simp [h.2] at h1
      have hp' : noPair a b (d :: p') = true := by
        simp only [noPair_cons₂, Bool.and_eq_true] at hp
        exact hp.2
      simp only [List.cons_append, splitOnce2, hcd, if_false]
      have := ih (c :: cur) hp'
      simp only [List.cons_append] at this
      rw [this]
      simp

theorem stripPrefix?_append (p s : Str) : stripPrefix? p (p ++ s) = some s := by
  induction p with
  | nil => rfl
  | cons c p ih => simp [stripPrefix?, ih]

theorem stripSuffix?_append (suf s : Str) : stripSuffix? suf (s ++ suf) = some s := by
  unfold stripSuffix?
  rw [List.reverse_append, stripPrefix?_append]
  simp

/-- no separator straddles a junction whose left side does not end with `a` or whose right side
    does not start with `b` -/
theorem noPair_append (a b : Char) (x y : Str) (hx : noPair a b x = true) (hy : noPair a b y = true)
    (hj : x.getLast? ≠ some a ∨ y.head? ≠ some b) : noPair a b (x ++ y) = true := by
  induction x with
  | nil => simpa using hy
  | cons c x ih =>
    cases x with
    | nil =>
      cases y with
      | nil => simp
      | cons d y' =>
        simp only [List.cons_append, List.nil_append, noPair_cons₂, Bool.and_eq_true, Bool.not_eq_true',
          Bool.and_eq_false_iff]
        refine ⟨?_, hy⟩
        simp only [List.getLast?_singleton, ne_eq, Option.some.injEq, List.head?_cons] at hj
        rcases hj with h | h
        · left; simpa using h
        · right; simpa using h
    | cons d x' =>
      simp only [noPair_cons₂, Bool.and_eq_true] at hx
      simp only [List.cons_append, noPair_cons₂, Bool.and_eq_true]
      refine ⟨hx.1, ?_⟩
      have hj' : (d :: x').getLast? ≠ some a ∨ y.head? ≠ some b := by
        simpa [List.getLast?_cons_cons] using hj
      simpa using ih hx.2 hj'

variable {τ : Type}

/-- hypotheses of the round trip: names and rendered types free of the separators, aliases sound,
    field names distinct, at least one field -/
structure NameOK (render : τ → Str) (alias? : Str → Option τ) (d : List (Str × τ)) : Prop where
  nonempty : d ≠ []
  names_comma : ∀ f ∈ d, noPair ',' ' ' f.1 = true
  names_colon : ∀ f ∈ d, noPair ':' ' ' f.1 = true
  render_comma : ∀ f ∈ d, noPair ',' ' ' (render f.2) = true
  alias_sound : ∀ f ∈ d, alias? (render f.2) = some f.2
  nodup : (d.map (·.1)).Pairwise (· ≠ ·)

theorem fieldString_noComma (render : τ → Str) (f : Str × τ) (hn : noPair ',' ' ' f.1 = true)
    (hr : noPair ',' ' ' (render f.2) = true) : noPair ',' ' ' (fieldString render f) = true := by
  unfold fieldString
  have h1 : noPair ',' ' ' (render f.2 ++ [']']) = true :=
    noPair_append _ _ _ _ hr (by decide) (Or.inr (by simp))
  have h2 : noPair ',' ' ' ([':', ' ', '['] ++ (render f.2 ++ [']'])) = true :=
    noPair_append _ _ _ _ (by decide) h1 (Or.inl (by decide))
  have h3 : noPair ',' ' ' (f.1 ++ ([':', ' ', '['] ++ (render f.2 ++ [']']))) = true :=
    noPair_append _ _ _ _ hn h2 (Or.inr (by simp))
  simpa [List.append_assoc] using h3

theorem parseField_fieldString (render : τ → Str) (alias? : Str → Option τ) (f : Str × τ)
    (hn : noPair ':' ' ' f.1 = true) (ha : alias? (render f.2) = some f.2) :
    parseField alias? (fieldString render f) = .ok f := by
  unfold parseField fieldString
  have e : f.1 ++ [':', ' ', '['] ++ render f.2 ++ [']'] = f.1 ++ ':' :: ' ' :: (['['] ++ (render f.2 ++ [']'])) := by
    simp
  rw [e, splitOnce2_part_sep ':' ' ' (by decide) f.1 _ [] hn]
  simp only [List.reverse_nil, List.nil_append]
  rw [stripPrefix?_append]
  simp only
  rw [stripSuffix?_append]
  simp only [ha]

theorem dictSet_fresh (d : List (Str × τ)) (n : Str) (t : τ) (h : ∀ p ∈ d, p.1 ≠ n) :
    dictSet d n t = d ++ [(n, t)] := by
  unfold dictSet
  have : d.any (fun p => p.1 == n) = false := by
    rw [List.any_eq_false]
    intro p hp
    simpa using h p hp
  simp [this]

theorem foldlM_parse (render : τ → Str) (alias? : Str → Option τ) :
    ∀ (fs acc : List (Str × τ)),
      (∀ f ∈ fs, parseField alias? (fieldString render f) = .ok f) →
      ((acc ++ fs).map (·.1)).Pairwise (· ≠ ·) →
      (fs.map (fieldString render)).foldlM (fun acc s => do
          let (n, t) ← parseField alias? s
          pure (dictSet acc n t)) acc = .ok (acc ++ fs) := by
  intro fs
  induction fs with
  | nil => intro acc _ _; simp [pure, Except.pure]
  | cons f fs ih =>
    intro acc hp hd
    simp only [List.map_cons, List.foldlM_cons]
    rw [hp f List.mem_cons_self]
    simp only [bind, Except.bind, pure, Except.pure]
    have hfresh : ∀ p ∈ acc, p.1 ≠ f.1 := by
      intro p hpm
      rw [List.map_append, List.pairwise_append] at hd
      exact hd.2.2 p.1 (List.mem_map_of_mem hpm) f.1 (by simp)
    rw [dictSet_fresh acc f.1 f.2 hfresh]
    have := ih (acc ++ [(f.1, f.2)]) (fun g hg => hp g (List.mem_cons_of_mem _ hg)) (by simpa using hd)
    simpa [bind, Except.bind, pure, Except.pure] using this

/-- **The string name of a nested dtype parses back to the same dtype.** -/
theorem parse_name (render : τ → Str) (alias? : Str → Option τ) (d : List (Str × τ)) (h : NameOK render alias? d) :
    constructFromString alias? (dtypeName render d) = .ok d := by
  unfold constructFromString dtypeName
  rw [List.append_assoc, stripPrefix?_append]
  simp only
  rw [stripSuffix?_append]
  simp only
  rw [split2_intercalate ',' ' ' (by decide) (d.map (fieldString render)) (by simpa using h.nonempty)
        (by
          intro p hp
          rw [List.mem_map] at hp
          obtain ⟨f, hf, rfl⟩ := hp
          exact fieldString_noComma render f (h.names_comma f hf) (h.render_comma f hf))]
  have := foldlM_parse render alias? d [] (fun f hf => parseField_fieldString render alias? f (h.names_colon f hf) (h.alias_sound f hf))
    (by simpa using h.nodup)
  simpa using this

end NP
