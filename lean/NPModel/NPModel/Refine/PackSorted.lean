/-
  NPModel.Refine.PackSorted — `pack_sorted_df_into_struct` (packer.py:142-167) as a function of the
  flat table: the list views over the flat columns cut by the offsets of the label runs.
  Connects the implementation model of the packer with the run-level theorems of Refine.Runs
  (C02, C07, C11, C12).
-/
import NPModel.Refine.RoundTrip
import NPModel.Refine.Runs
namespace NP
variable {α : Type}

theorem packOffsets_last {β : Type} [BEq β] (labels : List β) : (packOffsets labels).getLast? = some labels.length := by
  simp [packOffsets]

theorem packOffsets_head_le {β : Type} [BEq β] (labels : List β) : (packOffsets labels).head?.getD 0 ≤ labels.length := by
  unfold packOffsets
  cases h : nonzeroFrom 0 ((dupFirstGen labels).map (!·)) with
  | nil => simp
  | cons a rest =>
    simp only [List.cons_append, List.head?_cons, Option.getD_some]
    have hmem : a ∈ nonzeroFrom 0 ((dupFirstGen labels).map (!·)) := by rw [h]; exact List.mem_cons_self
    -- a set position of a mask of length `labels.length`
    have : ∀ (m : List Bool) (s x : Nat), x ∈ nonzeroFrom s m → x < s + m.length := by
      intro m
      induction m with
      | nil => intro s x hx; simp [nonzeroFrom] at hx
      | cons b m ih =>
        intro s x hx
        cases b with
        | true =>
          simp only [nonzeroFrom, if_true, List.mem_cons] at hx
          rcases hx with rfl | hx
          · simp
          · have := ih (s + 1) x hx; simp only [List.length_cons]; omega
        | false =>
          simp only [nonzeroFrom, Bool.false_eq_true, if_false] at hx
          have := ih (s + 1) x hx; simp only [List.length_cons]; omega
    have hl := this _ 0 a hmem
    have hdl : ∀ (seen ls : List β), (dupFirstGo seen ls).length = ls.length := by
      intro seen ls
      induction ls generalizing seen with
      | nil => rfl
      | cons l ls ih => simp [dupFirstGo, ih]
    simp only [List.length_map, dupFirstGen, hdl, Nat.zero_add] at hl
    omega

/-- the chunk the packer builds: every flat column viewed through the same offsets, all lists
    valid, every row present -/
def packedChunk (offs : List Nat) (cols : List (String × String × List α)) : PStruct α :=
  { valid := List.replicate (offs.length - 1) true
    kids := cols.map fun col => { name := col.1, ty := col.2.1
                                  list := { offs := offs, valid := List.replicate (offs.length - 1) true, vals := col.2.2 } } }

/-- **`pack_sorted_df_into_struct` succeeds on a table with a monotone index and returns the list
    views**: the unique labels read at the run offsets, and one chunk of views over the flat
    columns (zero copy: the columns' own buffers, the same offsets for every field). -/
theorem packSortedDf_ok (df : FlatDF α) (hm : isMonotone df.index = true)
    (hc : ∀ col ∈ df.cols, df.index.length ≤ col.2.2.length) (hne : df.cols ≠ []) :
    packSortedDf df = .ok
      { index := ((packOffsets df.index).dropLast).map fun o => df.index.getD o (.int 0)
        col := { ty := df.cols.map fun col => (col.1, col.2.1)
                 chunks := [packedChunk (packOffsets df.index) df.cols] } } := by
  unfold packSortedDf calculateSortedIndexOffsets
  simp only [hm, not_true_eq_false, if_false, bind, Except.bind, pure, Except.pure]
  have hmap := mapM_ok_of_forall
    (fun (col : String × String × List α) => (match col with
      | (n, t, vals) => (do
        let la ← listFromArrays (packOffsets df.index) vals
        pure ({ name := n, ty := t, list := la } : PField α) : R (PField α))))
    (fun col => ({ name := col.1, ty := col.2.1
                   list := { offs := packOffsets df.index
                             valid := List.replicate ((packOffsets df.index).length - 1) true, vals := col.2.2 } } : PField α))
    df.cols (by
      intro col hcol
      obtain ⟨n, t, vals⟩ := col
      have hlen := hc _ hcol
      simp only at hlen ⊢
      unfold listFromArrays
      have hh := packOffsets_head_le df.index
      simp only [packOffsets_last, hlen, true_and, bind, Except.bind, pure, Except.pure]
      rw [if_pos (by omega)])
  simp only [bind, Except.bind, pure, Except.pure] at hmap
  rw [hmap]
  simp only
  cases hcols : df.cols with
  | nil => exact absurd hcols hne
  | cons c0 rest =>
    unfold structFromArrays
    simp only [List.map_cons, PList.len, List.length_replicate, List.all_map, Function.comp, decide_true,
      List.all_eq_true, implies_true, if_true, Option.getD_none]
    unfold NArr.init
    simp only [List.isEmpty_cons, Bool.false_eq_true, if_false, bind, Except.bind, pure, Except.pure]
    unfold packedChunk
    simp only [List.map_cons]

/-- rows of the packed chunk: row `i` holds, for every column, the `i`-th extent cut by the offsets -/
theorem packedChunk_rows (offs : List Nat) (cols : List (String × String × List α)) :
    (packedChunk offs cols).rows = (List.range (offs.length - 1)).map fun i =>
      some (cols.map fun col => (col.1, (segs offs col.2.2).getD i [])) := by
  unfold PStruct.rows
  have hlen : (packedChunk offs cols).len = offs.length - 1 := by simp [packedChunk, PStruct.len]
  rw [hlen]
  apply List.map_congr_left
  intro i hi
  have hi' : i < offs.length - 1 := List.mem_range.mp hi
  unfold PStruct.rowAt packedChunk
  simp only [List.getD_eq_getElem?_getD, List.getElem?_replicate, hi', if_true, Option.getD_some, List.map_map,
    Option.some.injEq]
  apply List.map_congr_left
  intro col _
  simp only [Function.comp, rows_allValid, List.getElem?_map]
  cases (segs offs col.2.2)[i]? <;> rfl

end NP
