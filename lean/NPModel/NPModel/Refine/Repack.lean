/-
  NPModel.Refine.Repack — the "filter the flat view, keep the ordinal index, re-pack" pipeline
  shared by `query`, `dropna` and `sort_values` on a nested layer (`_set_filtered_flat_df`).
-/
import NPModel.Refine.Runs
import NPModel.Refine.Fields
namespace NP
variable {α γ : Type}

@[simp] theorem filterBy_nil_left (xs : List γ) : filterBy [] xs = [] := by cases xs <;> rfl
@[simp] theorem filterBy_nil_right (m : List Bool) : filterBy m ([] : List γ) = [] := by cases m <;> rfl
@[simp] theorem filterBy_cons_true (m : List Bool) (x : γ) (xs : List γ) :
    filterBy (true :: m) (x :: xs) = x :: filterBy m xs := by simp [filterBy]
@[simp] theorem filterBy_cons_false (m : List Bool) (x : γ) (xs : List γ) :
    filterBy (false :: m) (x :: xs) = filterBy m xs := by simp [filterBy]

theorem filterBy_append (m₁ m₂ : List Bool) (x₁ x₂ : List γ) (h : m₁.length = x₁.length) :
    filterBy (m₁ ++ m₂) (x₁ ++ x₂) = filterBy m₁ x₁ ++ filterBy m₂ x₂ := by
  induction m₁ generalizing x₁ with
  | nil =>
    cases x₁ with
    | nil => simp
    | cons _ _ => simp at h
  | cons b m₁ ih =>
    cases x₁ with
    | nil => simp at h
    | cons x x₁ =>
      have h' : m₁.length = x₁.length := by simpa using h
      cases b <;> simp [ih x₁ h']

/-- filtering a constant block keeps as many copies as the mask keeps of anything of that length -/
theorem filterBy_replicate (m : List Bool) (k : γ) (xs : List α) (h : m.length = xs.length) :
    filterBy m (List.replicate xs.length k) = List.replicate (filterBy m xs).length k := by
  induction m generalizing xs with
  | nil => simp
  | cons b m ih =>
    cases xs with
    | nil => simp at h
    | cons x xs =>
      have h' : m.length = xs.length := by simpa using h
      cases b <;> simp [List.replicate_succ, ih xs h']

/-- row `i` (ordinal `s + i`) with the records its mask keeps -/
def rowRuns (s : Nat) : List (List Bool) → List (List α) → List (Nat × List α)
  | m :: ms, l :: ls => (s, filterBy m l) :: rowRuns (s + 1) ms ls
  | _, _ => []

@[simp] theorem repeatEach_cons {β : Type} (x : β) (xs : List β) (c : Nat) (cs : List Nat) :
    repeatEach (x :: xs) (c :: cs) = List.replicate c x ++ repeatEach xs cs := rfl

/-- **Filtering the flat view is filtering inside every row.**  With the ordinal index
    (`get_list_index`) as labels, the filtered flat table is the run-length form of the rows'
    kept records. -/
theorem filter_flat_is_runs :
    ∀ (masks : List (List Bool)) (lists : List (List α)), All2 (fun m l => m.length = l.length) masks lists →
      ∀ s : Nat,
        filterBy masks.flatten (repeatEach (List.range' s lists.length) (lists.map List.length))
            = runLabels (rowRuns s masks lists) ∧
        filterBy masks.flatten lists.flatten = runVals (rowRuns s masks lists) := by
  intro masks lists h
  induction h with
  | nil => intro s; simp [rowRuns, runLabels, runVals, repeatEach]
  | @cons m l ms ls hml _ ih =>
    intro s
    have ⟨ih1, ih2⟩ := ih (s + 1)
    simp only [List.length_cons, List.range'_succ, List.map_cons, repeatEach_cons, List.flatten_cons, rowRuns,
      runLabels_cons, runVals_cons]
    constructor
    · rw [filterBy_append _ _ _ _ (by simpa using hml), ih1, filterBy_replicate m s l hml]
    · rw [filterBy_append _ _ _ _ hml, ih2]

theorem rowRuns_keys (masks : List (List Bool)) (lists : List (List α))
    (h : All2 (fun m l => m.length = l.length) masks lists) (s : Nat) :
    (rowRuns s masks lists).map (·.1) = List.range' s lists.length := by
  induction h generalizing s with
  | nil => rfl
  | cons _ _ ih => simp [rowRuns, List.range'_succ, ih]

theorem rowRuns_keys_distinct (masks : List (List Bool)) (lists : List (List α))
    (h : All2 (fun m l => m.length = l.length) masks lists) (s : Nat) :
    ((rowRuns s masks lists).map (·.1)).Pairwise (· ≠ ·) := by
  rw [rowRuns_keys masks lists h s]
  exact List.Pairwise.imp (fun hlt => Nat.ne_of_lt hlt) (List.pairwise_lt_range' (s := s) (n := lists.length))

theorem rowRuns_mem (masks : List (List Bool)) (lists : List (List α))
    (h : All2 (fun m l => m.length = l.length) masks lists) (s i : Nat) (m : List Bool) (l : List α)
    (hm : masks[i]? = some m) (hl : lists[i]? = some l) : (s + i, filterBy m l) ∈ rowRuns s masks lists := by
  induction h generalizing s i with
  | nil => simp at hm
  | cons _ _ ih =>
    cases i with
    | zero =>
      simp at hm hl
      subst hm; subst hl
      simp [rowRuns]
    | succ i =>
      simp at hm hl
      have := ih (s + 1) i hm hl
      simp only [rowRuns, List.mem_cons]
      right
      have e : s + (i + 1) = s + 1 + i := by omega
      rw [e]; exact this

/-- **The re-packed column.**  After filtering the flat view of a field with any per-record mask
    and re-packing it by the ordinal index:
    * the packed rows are exactly the non-empty filtered rows, in row order;
    * the packed unique index holds exactly the ordinals of the rows that keep a record
      (every other row is absent, hence becomes missing when the packed column is aligned);
    * for every row `i`, the records carrying ordinal `i` in the filtered table are the records
      of row `i` that the mask keeps, in their original order. -/
theorem repack_filtered (masks : List (List Bool)) (lists : List (List α))
    (h : All2 (fun m l => m.length = l.length) masks lists) :
    let keep := masks.flatten
    let ords := repeatEach (List.range lists.length) (lists.map List.length)
    let ords' := filterBy keep ords
    let flat' := filterBy keep lists.flatten
    segs (packOffsets ords') flat' = (nonemptyRuns (rowRuns 0 masks lists)).map (·.2) ∧
    ((packOffsets ords').dropLast).map (fun o => ords'.getD o 0) = (nonemptyRuns (rowRuns 0 masks lists)).map (·.1) ∧
    ∀ i m l, masks[i]? = some m → lists[i]? = some l → valsOfLabel i ords' flat' = filterBy m l := by
  intro keep ords ords' flat'
  have ⟨h1, h2⟩ := filter_flat_is_runs masks lists h 0
  have hd := rowRuns_keys_distinct masks lists h 0
  have e1 : ords' = runLabels (rowRuns 0 masks lists) := by
    show filterBy masks.flatten (repeatEach (List.range lists.length) (lists.map List.length)) = _
    rw [List.range_eq_range']; exact h1
  have e2 : flat' = runVals (rowRuns 0 masks lists) := h2
  refine ⟨?_, ?_, ?_⟩
  · rw [e1, e2]; exact packed_rows_are_runs _ hd
  · rw [e1]; exact packed_index_is_run_keys 0 _ hd
  · intro i m l hm hl
    rw [e1, e2]
    have := rowRuns_mem masks lists h 0 i m l hm hl
    simp only [Nat.zero_add] at this
    exact valsOfLabel_run _ hd i _ this

end NP
