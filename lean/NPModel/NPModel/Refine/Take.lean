/-
  NPModel.Refine.Take — `NestedExtensionArray.take`, `_concat_same_type`, `dropna` refine the list operations.
-/
import NPModel.Refine.Aligned
import NPModel.Refine.GetItem
namespace NP
variable {α : Type}

theorem normPos_none_of_ge (n : Nat) (i : Int) (h : i ≥ (n : Int)) : normPos n i = none := by
  unfold normPos
  simp only
  have : ¬ (i < 0) := by omega
  simp only [this, if_false]
  split
  · omega
  · rfl

theorem normPos_none_of_empty (i : Int) : normPos 0 i = none := by
  unfold normPos
  simp only
  have : ¬ (0 ≤ (if i < 0 then i + ((0 : Nat) : Int) else i) ∧ (if i < 0 then i + ((0 : Nat) : Int) else i) < ((0 : Nat) : Int)) := by
    split <;> omega
  simp only [this, if_false]

theorem take_refines_nofill (c : PCol α) (hw : c.WF = true) (ha : c.aligned) (indices : List Int) (fill : Row α) :
    (NArr.take c indices false fill).map PCol.rows = Spec.take c.rows indices false fill := by
  have hn : c.rows.length = c.len := PCol.rows_length c
  unfold NArr.take Spec.take
  simp only [hn, Bool.false_eq_true, if_false]
  by_cases hnone : (indices.map (normPos c.len)).any Option.isNone = true
  · -- the specification raises IndexError; so does the implementation, at one of its three checks
    simp only [hnone, if_true]
    simp only [bind, Except.bind, pure, Except.pure, throw, throwThe, MonadExceptOf.throw]
    repeat' split
    all_goals first
      | rfl
      | simp_all [Except.map]
  · simp only [hnone, Bool.false_eq_true, if_false]
    have h1 : ¬ (c.len = 0 ∧ indices.any (· ≥ 0) = true) := by
      rintro ⟨h0, hany⟩
      apply hnone
      rw [List.any_eq_true] at hany ⊢
      obtain ⟨i, hi, _⟩ := hany
      exact ⟨normPos c.len i, List.mem_map_of_mem hi, by rw [h0, normPos_none_of_empty]; rfl⟩
    have h2 : ¬ (indices.any (fun i => decide (i ≥ (c.len : Int))) = true) := by
      intro hany
      apply hnone
      rw [List.any_eq_true] at hany ⊢
      obtain ⟨i, hi, hge⟩ := hany
      exact ⟨normPos c.len i, List.mem_map_of_mem hi, by rw [normPos_none_of_ge _ _ (by simpa using hge)]; rfl⟩
    simp only [h1, h2, bind, Except.bind, pure, Except.pure, if_false, hnone, Bool.false_eq_true]
    -- the constructor validates the taken storage: accepted
    have hv := PCol.take_validate c hw ha (indices.map (normPos c.len))
    unfold NArr.init
    have hne : (c.take (indices.map (normPos c.len))).chunks.isEmpty = false := rfl
    simp only [hne, Bool.false_eq_true, if_false, if_true, hv, bind, Except.bind, pure, Except.pure, Except.map]
    rw [PCol.take_rows c hw]
    congr 1
    apply List.map_congr_left
    intro o ho
    cases o with
    | none =>
      exfalso; apply hnone
      rw [List.any_eq_true]; exact ⟨none, ho, rfl⟩
    | some j => simp [pickRow_some]

/-! ### `_concat_same_type` -/

theorem forM_append_ok {β : Type} (f : β → R Unit) (l₁ l₂ : List β) (h₁ : l₁.forM f = .ok ()) (h₂ : l₂.forM f = .ok ()) :
    (l₁ ++ l₂).forM f = .ok () := by
  induction l₁ with
  | nil => simpa using h₂
  | cons a l₁ ih =>
    change (f a >>= fun _ => List.forM l₁ f) = _ at h₁
    cases hfa : f a with
    | error e => simp [hfa, bind, Except.bind] at h₁
    | ok u =>
      simp only [hfa, bind, Except.bind] at h₁
      show (f a >>= fun _ => List.forM (l₁ ++ l₂) f) = _
      simp only [hfa, bind, Except.bind]
      exact ih h₁

/-- concatenation of validated columns: the chunks of all inputs in order, rows = `++` -/
theorem concat_refines (ty : List (String × String)) (cs : List (PCol α)) (hv : ∀ c ∈ cs, c.validate = .ok ())
    (hne : cs.flatMap (·.chunks) ≠ []) :
    (NArr.concat ty cs).map PCol.rows = .ok (Spec.concat (cs.map PCol.rows)) := by
  unfold NArr.concat NArr.init
  have he : (cs.flatMap (·.chunks)).isEmpty = false := by
    cases h : cs.flatMap (·.chunks) with
    | nil => exact absurd h hne
    | cons _ _ => rfl
  simp only [he, Bool.false_eq_true, if_false, if_true]
  have hval : PCol.validate ({ ty := ty, chunks := cs.flatMap (·.chunks) } : PCol α) = .ok () := by
    unfold PCol.validate
    simp only
    induction cs with
    | nil => rfl
    | cons c cs ih =>
      simp only [List.flatMap_cons]
      apply forM_append_ok
      · exact hv c List.mem_cons_self
      · by_cases hr : cs.flatMap (·.chunks) = []
        · rw [hr]; rfl
        · exact ih (fun c' hc' => hv c' (List.mem_cons_of_mem _ hc')) hr (by
            cases h : cs.flatMap (·.chunks) with
            | nil => exact absurd h hr
            | cons _ _ => rfl)
  simp only [hval, bind, Except.bind, pure, Except.pure, Except.map, Spec.concat]
  congr 1
  unfold PCol.rows
  simp only
  clear hv hne he hval
  induction cs with
  | nil => rfl
  | cons c cs ih => simp [List.flatMap_append, ih]

end NP
