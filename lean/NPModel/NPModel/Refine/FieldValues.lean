/-
  NPModel.Refine.FieldValues — after `set_list_field` the edited field holds exactly the supplied
  lists, chunk by chunk, and its flat view is the flat view of the supplied list array (C06:
  "the edited field holds exactly the supplied values in flat order").
-/
import NPModel.Refine.Fields
import NPModel.Refine.Views
namespace NP
variable {α : Type}

/-- the windows `pa_array[sl]` of the supplied list array, one per chunk -/
def windows (value : PList α) : List (PStruct α) → Nat → List (PList α)
  | [], _ => []
  | s :: rest, start => value.slice start s.len :: windows value rest (start + s.len)

theorem setListField_go_windows (f ty : String) (value : PList α) :
    ∀ (chunks : List (PStruct α)) (start : Nat) (out : List (PStruct α)),
      NArr.setListField.go f ty value chunks start = .ok out →
      out.map (fun s' => (s'.kid? f).map (·.list)) = (windows value chunks start).map some := by
  intro chunks
  induction chunks with
  | nil =>
    intro start out h
    simp [NArr.setListField.go, pure, Except.pure] at h
    subst h; rfl
  | cons s rest ih =>
    intro start out h
    simp only [NArr.setListField.go] at h
    obtain ⟨s', hs', h⟩ := except_bind_ok h
    obtain ⟨rest', hr', h⟩ := except_bind_ok h
    simp [pure, Except.pure] at h
    subst h
    have ⟨_, hk⟩ := structFromArrays_ok hs'
    simp only [List.map_cons, windows]
    rw [ih _ _ hr']
    congr 1
    unfold PStruct.kid?
    rw [hk, upsertKid_find_self s.kids { name := f, ty := ty, list := value.slice start s.len }]
    rfl

/-- rows of the consecutive windows, concatenated, are the rows from `start` on -/
theorem windows_rows (value : PList α) :
    ∀ (chunks : List (PStruct α)) (start : Nat),
      start + sumNat (chunks.map PStruct.len) = value.rows.length →
      (windows value chunks start).flatMap PList.rows = value.rows.drop start := by
  intro chunks
  induction chunks with
  | nil =>
    intro start h
    simp only [List.map_nil, sumNat, List.foldr_nil, Nat.add_zero] at h
    simp [windows, h]
  | cons s rest ih =>
    intro start h
    have hs : sumNat ((s :: rest).map PStruct.len) = s.len + sumNat (rest.map PStruct.len) := rfl
    rw [hs] at h
    simp only [windows, List.flatMap_cons]
    rw [PList.slice_rows, ih (start + s.len) (by omega)]
    rw [← List.drop_drop]
    exact List.take_append_drop s.len (value.rows.drop start)

theorem flatten_of_rows (l : PList α) : l.flatten = (l.rows.map fun r => r.getD []).flatten := rfl

/-- **The edited field holds exactly the supplied lists**: after `set_list_field` the flat view
    of field `f` over all chunks is the flat view of the supplied list array, and chunk `i` holds
    the `i`-th window of it. -/
theorem setListField_field_is_value {c c' : PCol α} {f ty : String} {value : PList α} {keep : Bool}
    (h : NArr.setListField c f ty value keep = .ok c') (hvl : value.rows.length = c.len) :
    c'.chunks.map (fun s' => (s'.kid? f).map (·.list)) = (windows value c.chunks 0).map some ∧
    (c'.chunks.flatMap fun s' => ((s'.kid? f).map (·.list.flatten)).getD []) = value.flatten := by
  have hgo : ∃ chunks, NArr.setListField.go f ty value c.chunks 0 = .ok chunks ∧ c'.chunks = chunks := by
    unfold NArr.setListField at h
    cases hn : NArr.fieldNames c with
    | error e => simp [hn, bind, Except.bind] at h
    | ok names =>
      cases hg : NArr.setListField.go f ty value c.chunks 0 with
      | error e =>
        simp only [hn, hg, bind, Except.bind, pure, Except.pure, throw, throwThe, MonadExceptOf.throw] at h
        repeat' split at h
        all_goals simp at h
      | ok chunks =>
        simp only [hn, hg, bind, Except.bind, pure, Except.pure, throw, throwThe, MonadExceptOf.throw] at h
        repeat' split at h
        all_goals first
          | (simp at h; done)
          | (simp only [Except.ok.injEq] at h; subst h; exact ⟨chunks, rfl, rfl⟩)
  obtain ⟨chunks, hg, hc⟩ := hgo
  have hw := setListField_go_windows f ty value c.chunks 0 chunks hg
  rw [hc]
  refine ⟨hw, ?_⟩
  -- flat view: concatenate the windows
  have e : (chunks.flatMap fun s' => ((s'.kid? f).map (·.list.flatten)).getD [])
      = ((chunks.map fun s' => (s'.kid? f).map (·.list)).flatMap fun o => (o.map PList.flatten).getD []) := by
    rw [List.flatMap_def, List.flatMap_def, List.map_map]
    congr 1
    apply List.map_congr_left
    intro s' _
    simp only [Function.comp]
    cases s'.kid? f <;> rfl
  rw [e, hw]
  have e2 : ((windows value c.chunks 0).map some).flatMap (fun o => (o.map PList.flatten).getD [])
      = (windows value c.chunks 0).flatMap PList.flatten := by
    rw [List.flatMap_def, List.flatMap_def, List.map_map]
    rfl
  rw [e2]
  have e3 : (windows value c.chunks 0).flatMap PList.flatten
      = (((windows value c.chunks 0).flatMap PList.rows).map fun r => r.getD []).flatten := by
    generalize windows value c.chunks 0 = ws
    induction ws with
    | nil => rfl
    | cons w ws ih => simp [List.flatMap_cons, flatten_of_rows, ih]
  rw [e3, windows_rows value c.chunks 0 (by rw [hvl]; simp [PCol.len]), List.drop_zero]
  rfl

end NP
