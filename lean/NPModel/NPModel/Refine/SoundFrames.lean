/-
  NPModel.Refine.SoundFrames — the storage invariant of a whole frame (`NFrame.Sound`: base
  columns of the index's length, nested columns stored cleanly with one row per frame row) is
  preserved by the operations of the implementation model that rebuild a nested column.
  Helper lemmas only; the property theorems live in NPModel.Props.C18.
-/
import NPModel.Refine.CleanTake
import NPModel.Refine.DropnaNested
import NPModel.Refine.FrameLemmas
namespace NP
variable {α : Type}

/-! ### what a successful `pack_sorted_df_into_struct` implies about its argument -/

theorem packSortedDf_inv (df : FlatDF α) (packed : NSeries α) (h : packSortedDf df = .ok packed) :
    isMonotone df.index = true ∧ (∀ col ∈ df.cols, df.index.length ≤ col.2.2.length) ∧ df.cols ≠ [] := by
  unfold packSortedDf calculateSortedIndexOffsets at h
  by_cases hm : isMonotone df.index = true
  · simp only [hm, not_true_eq_false, if_false, bind, Except.bind, pure, Except.pure] at h
    split at h
    · cases h
    · rename_i kids hk
      have ⟨hlen, hspec⟩ := mapM_ok_spec _ _ _ hk
      refine ⟨hm, ?_, ?_⟩
      · intro col hcol
        obtain ⟨i, hi, rfl⟩ := List.getElem_of_mem hcol
        obtain ⟨fld, hf, _⟩ := hspec i _ (List.getElem?_eq_getElem hi)
        unfold listFromArrays at hf
        rw [packOffsets_last] at hf
        simp only at hf
        by_cases hcond : df.index.length ≤ df.cols[i].2.2.length ∧
            (packOffsets df.index).head?.getD 0 ≤ df.cols[i].2.2.length
        · exact hcond.1
        · rw [if_neg hcond] at hf
          cases hf
      · intro hnil
        rw [hnil] at hk
        have : kids = [] := by
          simp only [List.mapM_nil, pure, Except.pure] at hk
          exact (Except.ok.inj hk).symm
        rw [this] at h
        simp only [structFromArrays] at h
        cases h
  · simp only [hm, Bool.false_eq_true, not_false_eq_true, if_true, bind, Except.bind] at h
    cases h

end NP

namespace NP
variable {α : Type}

theorem monotone_of_pairwise_le : ∀ (l : List Nat), l.Pairwise (· ≤ ·) → monotone l = true
  | [], _ => rfl
  | [_], _ => rfl
  | a :: b :: rest, h => by
    have ⟨h1, h2⟩ := List.pairwise_cons.mp h
    simp only [monotone, Bool.and_eq_true, decide_eq_true_eq]
    exact ⟨h1 b List.mem_cons_self, monotone_of_pairwise_le (b :: rest) h2⟩

theorem packOffsets_monotone {β : Type} [BEq β] (labels : List β) : monotone (packOffsets labels) = true := by
  apply monotone_of_pairwise_le
  unfold packOffsets
  rw [List.pairwise_append]
  refine ⟨(nonzeroFrom_pairwise _ 0).imp (fun h => Nat.le_of_lt h), List.pairwise_singleton _ _, ?_⟩
  intro a ha b hb
  simp only [List.mem_singleton] at hb
  subst hb
  obtain ⟨j, hj, _, rfl⟩ := (mem_nonzeroFrom _ 0 a).mp ha
  simp only [List.length_map] at hj
  have : (dupFirstGen labels).length = labels.length := by
    unfold dupFirstGen
    have : ∀ (seen ls : List β), (dupFirstGo seen ls).length = ls.length := by
      intro seen ls
      induction ls generalizing seen with
      | nil => rfl
      | cons l ls ih => simp [dupFirstGo, ih]
    exact this [] labels
  omega

/-- **whatever `pack_sorted_df_into_struct` returns is clean storage** with one row per packed label -/
theorem packSortedDf_clean (df : FlatDF α) (packed : NSeries α) (h : packSortedDf df = .ok packed) :
    packed.col.Clean ∧ packed.col.chunks ≠ [] ∧ packed.index.length = packed.col.len := by
  have ⟨hm, hc, hne⟩ := packSortedDf_inv df packed h
  rw [packSortedDf_ok df hm hc hne] at h
  have he := (Except.ok.inj h).symm
  subst he
  have hone : packOffsets df.index ≠ [] := by
    unfold packOffsets
    simp
  have hlast : ∀ c ∈ df.cols, (packOffsets df.index).getLast?.getD 0 ≤ c.2.2.length := by
    intro c hcm
    rw [packOffsets_last]
    exact hc c hcm
  refine ⟨packedCol_clean _ _ hone (packOffsets_monotone _) hlast hne, List.cons_ne_nil _ _, ?_⟩
  simp only [PCol.len, List.map_cons, List.map_nil, sumNat, List.foldr_cons, List.foldr_nil, Nat.add_zero,
    packedChunk_len, List.length_map, List.length_dropLast]

end NP

namespace NP
variable {α : Type}

/-! ### the frame invariant -/

/-- a frame whose storage is sound: every base column has one cell per row, every nested column
    is clean storage (well formed, validated, nothing hidden under missing rows, at least one
    field, at least one chunk) with one row per frame row -/
structure NFrame.Sound (F : NFrame α) : Prop where
  base : ∀ n t v, (n, ColData.base t v) ∈ F.cols → v.length = F.index.length
  nest : ∀ n c, (n, ColData.nest c) ∈ F.cols → c.Clean ∧ c.chunks ≠ [] ∧ c.len = F.index.length

theorem NFrame.Sound.consistent {F : NFrame α} (h : F.Sound) : F.Consistent :=
  ⟨h.base, fun n c hm =>
    have ⟨hc, _, hl⟩ := h.nest n c hm
    ⟨hc.wf, PCol.aligned_of_validate c hc.wf hc.nullEmpty hc.validated, hl⟩⟩

theorem setCol_index (F : NFrame α) (n : String) (d : ColData α) : (F.setCol n d).index = F.index := by
  unfold NFrame.setCol
  split <;> rfl

theorem mem_setCol (F : NFrame α) (n : String) (d : ColData α) (p : String × ColData α)
    (hp : p ∈ (F.setCol n d).cols) : p ∈ F.cols ∨ p = (n, d) := by
  unfold NFrame.setCol at hp
  split at hp
  · simp only [List.mem_map] at hp
    obtain ⟨q, hq, rfl⟩ := hp
    split
    · right; rfl
    · left; exact hq
  · simp only [List.mem_append, List.mem_singleton] at hp
    exact hp

/-- replacing (or adding) a nested column by clean storage of the frame's length keeps a frame sound -/
theorem setCol_sound (F : NFrame α) (h : F.Sound) (n : String) (c : PCol α) (hc : c.Clean) (hch : c.chunks ≠ [])
    (hl : c.len = F.index.length) : (F.setCol n (.nest c)).Sound := by
  constructor
  · intro m t v hm
    rw [setCol_index]
    rcases mem_setCol F n _ _ hm with h1 | h1
    · exact h.base m t v h1
    · cases h1
  · intro m c' hm
    rw [setCol_index]
    rcases mem_setCol F n _ _ hm with h1 | h1
    · exact h.nest m c' h1
    · have : c' = c := by injection h1 with _ h2; injection h2
      subst this
      exact ⟨hc, hch, hl⟩

/-- **`_set_filtered_flat_df` keeps a frame sound**: whatever flat table it is handed, if it
    succeeds the frame it returns is sound again — the rebuilt nested column is clean storage with
    one row per frame row. -/
theorem setFilteredFlatDf_sound (F : NFrame α) (h : F.Sound) (nest : String) (flat : FlatDF α) (F' : NFrame α)
    (hok : F.setFilteredFlatDf nest flat = .ok F') : F'.Sound := by
  unfold NFrame.setFilteredFlatDf at hok
  cases hp : packSortedDf flat with
  | error e => simp [hp, bind, Except.bind] at hok
  | ok packed =>
    have ⟨hcl, hch, hlen⟩ := packSortedDf_clean flat packed hp
    simp only [hp, bind, Except.bind, pure, Except.pure] at hok
    by_cases hall : (packed.index == (List.range F.index.length).map fun (i : Nat) => Label.int (i : Int)) = true
    · simp only [hall, if_true] at hok
      have he := (Except.ok.inj hok).symm
      subst he
      apply setCol_sound F h nest packed.col hcl hch
      have : packed.index = (List.range F.index.length).map fun (i : Nat) => Label.int (i : Int) := by
        simpa using hall
      rw [← hlen, this]
      simp
    · simp only [hall, Bool.false_eq_true, if_false] at hok
      cases ht : NArr.take packed.col (ordinalIndexer packed.index F.index.length) true none with
      | error e => simp [ht] at hok
      | ok col =>
        simp only [ht] at hok
        have he := (Except.ok.inj hok).symm
        subst he
        have ⟨hc', hl', _, hch'⟩ := take_none_clean packed.col hcl _ col ht
        apply setCol_sound F h nest col hc' hch'
        rw [hl']
        simp [ordinalIndexer]

end NP

namespace NP
variable {α : Type}

/-! ### the operations that rebuild a nested column keep frames sound -/

theorem sortNested_sound [Inhabited α] (lt : α → α → Bool) (isNull : α → Bool) (F : NFrame α) (h : F.Sound)
    (nest : String) (keys : List (String × Bool)) (naFirst : Bool) (F' : NFrame α)
    (hok : F.sortNested lt isNull nest keys naFirst = .ok F') : F'.Sound := by
  unfold NFrame.sortNested at hok
  simp only [bind, Except.bind] at hok
  split at hok
  · cases hok
  · split at hok
    · cases hok
    · exact setFilteredFlatDf_sound F h nest _ F' hok

theorem dropnaNested_sound (isNull : α → Bool) (F : NFrame α) (h : F.Sound) (nest : String) (how : How)
    (thresh : Option Nat) (subset : Option (List String)) (F' : NFrame α)
    (hok : F.dropnaNested isNull nest how thresh subset = .ok F') : F'.Sound := by
  unfold NFrame.dropnaNested at hok
  simp only [bind, Except.bind] at hok
  split at hok
  · cases hok
  · split at hok
    · cases hok
    · exact setFilteredFlatDf_sound F h nest _ F' hok

theorem queryNested_sound (F : NFrame Cell) (h : F.Sound) (e : Expr) (nest : String) (hl : e.layers = [some nest])
    (F' : NFrame Cell) (hok : F.query e = .ok F') : F'.Sound := by
  unfold NFrame.query at hok
  simp only [hl, List.length_cons, List.length_nil, Nat.zero_add, gt_iff_lt, Nat.lt_irrefl, if_false, bind,
    Except.bind, pure, Except.pure, throw, throwThe, MonadExceptOf.throw] at hok
  split at hok
  · cases hok
  · split at hok
    · cases hok
    · split at hok
      · cases hok
      · exact setFilteredFlatDf_sound F h nest _ F' hok

end NP

namespace NP
variable {α : Type}

/-! ### chains of operations -/

theorem setFilteredFlatDf_replaces (F : NFrame α) (nest : String) (flat : FlatDF α) (F' : NFrame α)
    (hok : F.setFilteredFlatDf nest flat = .ok F') : ∃ col, F' = F.setCol nest (.nest col) := by
  unfold NFrame.setFilteredFlatDf at hok
  simp only [bind, Except.bind, pure, Except.pure] at hok
  split at hok
  · cases hok
  · split at hok
    · cases hok
    · exact ⟨_, (Except.ok.inj hok).symm⟩

/-- the operations of the property list that rebuild ONE nested column from its flat view -/
inductive NestOp where
  | query (e : Expr) (nest : String)
  | dropna (nest : String) (how : How) (thresh : Option Nat) (subset : Option (List String))
  | sort (nest : String) (keys : List (String × Bool)) (naFirst : Bool)

/-- the nested column an operation aims at -/
def NestOp.target : NestOp → String
  | .query _ nest => nest
  | .dropna nest _ _ _ => nest
  | .sort nest _ _ => nest

/-- one step of the implementation model (with the model's own cell order and null test) -/
def NestOp.run (F : NFrame Cell) : NestOp → R (NFrame Cell)
  | .query e nest => if e.layers = [some nest] then F.query e else .error .valueError
  | .dropna nest how thresh subset => F.dropnaNested cellIsNull nest how thresh subset
  | .sort nest keys naFirst => F.sortNested cellLt cellIsNull nest keys naFirst

/-- a chain: every step runs on the result of the previous one; the first failure ends it -/
def runChain (F : NFrame Cell) : List NestOp → R (NFrame Cell)
  | [] => .ok F
  | op :: ops => match op.run F with
    | .ok F' => runChain F' ops
    | .error e => .error e

/-- one step: the result is the frame with that one column replaced, and it is sound again -/
theorem NestOp.run_sound (F : NFrame Cell) (h : F.Sound) (op : NestOp) (F' : NFrame Cell) (hok : op.run F = .ok F') :
    F'.Sound ∧ ∃ col, F' = F.setCol op.target (.nest col) := by
  cases op with
  | query e nest =>
    simp only [NestOp.run] at hok
    by_cases hl : e.layers = [some nest]
    · rw [if_pos hl] at hok
      refine ⟨queryNested_sound F h e nest hl F' hok, ?_⟩
      unfold NFrame.query at hok
      simp only [hl, List.length_cons, List.length_nil, Nat.zero_add, gt_iff_lt, Nat.lt_irrefl, if_false, bind,
        Except.bind, pure, Except.pure, throw, throwThe, MonadExceptOf.throw] at hok
      split at hok
      · cases hok
      · split at hok
        · cases hok
        · split at hok
          · cases hok
          · exact setFilteredFlatDf_replaces F nest _ F' hok
    · rw [if_neg hl] at hok; cases hok
  | dropna nest how thresh subset =>
    simp only [NestOp.run] at hok
    refine ⟨dropnaNested_sound cellIsNull F h nest how thresh subset F' hok, ?_⟩
    unfold NFrame.dropnaNested at hok
    simp only [bind, Except.bind] at hok
    split at hok
    · cases hok
    · split at hok
      · cases hok
      · exact setFilteredFlatDf_replaces F nest _ F' hok
  | sort nest keys naFirst =>
    simp only [NestOp.run] at hok
    refine ⟨sortNested_sound cellLt cellIsNull F h nest keys naFirst F' hok, ?_⟩
    unfold NFrame.sortNested at hok
    simp only [bind, Except.bind] at hok
    split at hok
    · cases hok
    · split at hok
      · cases hok
      · exact setFilteredFlatDf_replaces F nest _ F' hok

/-- **chains of any length stay sound and never move, add or drop a frame row** -/
theorem runChain_sound : ∀ (ops : List NestOp) (F : NFrame Cell), F.Sound → ∀ F', runChain F ops = .ok F' →
    F'.Sound ∧ F'.index = F.index
  | [], F, h, F', hok => by
    have := (Except.ok.inj hok).symm
    subst this
    exact ⟨h, rfl⟩
  | op :: ops, F, h, F', hok => by
    unfold runChain at hok
    cases hr : op.run F with
    | error e => rw [hr] at hok; cases hok
    | ok F₁ =>
      rw [hr] at hok
      have ⟨h₁, col, he⟩ := NestOp.run_sound F h op F₁ hr
      have ⟨h₂, hi⟩ := runChain_sound ops F₁ h₁ F' hok
      refine ⟨h₂, ?_⟩
      rw [hi, he, NFrame.setCol_index]

end NP

namespace NP
variable {α : Type}

/-! ### joins keep frames sound -/

theorem optIndexer_length (idx : List (Option Nat)) : (optIndexer idx).length = idx.length := by
  simp [optIndexer]

/-- moving / repeating / dropping rows of a sound frame (`take` on every column, missing where there
    is no source row) gives a sound frame -/
theorem takeRows_sound (F : NFrame α) (h : F.Sound) (idx : List (Option Nat)) (dflt : α) (newIndex : List Label)
    (hl : idx.length = newIndex.length) (F₁ : NFrame α) (hok : F.takeRows idx dflt newIndex = .ok F₁) : F₁.Sound := by
  unfold NFrame.takeRows at hok
  simp only [bind, Except.bind, pure, Except.pure] at hok
  split at hok
  · cases hok
  · rename_i cols' hcols
    have he := (Except.ok.inj hok).symm
    subst he
    have ⟨_, hspec⟩ := mapM_ok_spec _ _ _ hcols
    -- every produced column comes from a column of F
    have hsrc : ∀ p' ∈ cols', ∃ p ∈ F.cols, takeColData idx dflt p = .ok p' := by
      intro p' hp'
      obtain ⟨i, hi, rfl⟩ := List.getElem_of_mem hp'
      have hlen : cols'.length = F.cols.length := (mapM_ok_spec _ _ _ hcols).1
      have hi' : i < F.cols.length := by rw [← hlen]; exact hi
      obtain ⟨c, hc1, hc2⟩ := hspec i _ (List.getElem?_eq_getElem hi')
      rw [List.getElem?_eq_getElem hi] at hc2
      have : cols'[i] = c := Option.some.inj hc2
      rw [this]
      exact ⟨F.cols[i], List.getElem_mem hi', hc1⟩
    constructor
    · intro n t v hm
      obtain ⟨p, hp, htk⟩ := hsrc _ hm
      obtain ⟨pn, pd⟩ := p
      cases pd with
      | base t' v' =>
        simp only [takeColData, pure, Except.pure] at htk
        have := Except.ok.inj htk
        injection this with _ h2
        injection h2 with _ h3
        subst h3
        simp only [takeBase, List.length_map]
        exact hl
      | nest c =>
        simp only [takeColData, bind, Except.bind, pure, Except.pure] at htk
        split at htk
        · cases htk
        · have := Except.ok.inj htk
          injection this with _ h2
          cases h2
    · intro n c' hm
      obtain ⟨p, hp, htk⟩ := hsrc _ hm
      obtain ⟨pn, pd⟩ := p
      cases pd with
      | base t' v' =>
        simp only [takeColData, pure, Except.pure] at htk
        have := Except.ok.inj htk
        injection this with _ h2
        cases h2
      | nest c =>
        simp only [takeColData, bind, Except.bind, pure, Except.pure] at htk
        split at htk
        · cases htk
        · rename_i c'' htake
          have := Except.ok.inj htk
          injection this with _ h2
          injection h2 with h3
          subst h3
          have ⟨hc, _, _⟩ := h.nest pn c hp
          have ⟨hcl, hlen, _, hch⟩ := take_none_clean c hc _ c'' htake
          refine ⟨hcl, hch, ?_⟩
          rw [hlen, optIndexer_length]
          exact hl

/-- **`add_nested` keeps frames sound, whatever the join**: a successful `add_nested` of ANY flat
    table onto a sound frame, with any `how`, returns a sound frame (every old column re-gathered,
    the new column clean storage with one row per result row). -/
theorem addNested_sound [Inhabited α] (F : NFrame α) (h : F.Sound) (flat : FlatDF α) (name : String) (how : JoinHow)
    (na : α) (F' : NFrame α) (hok : F.addNested flat name how na = .ok F') : F'.Sound := by
  unfold NFrame.addNested at hok
  simp only [bind, Except.bind, pure, Except.pure] at hok
  split at hok
  · cases hok
  · rename_i packed hpk
    split at hok
    · cases hok
    · rename_i F₁ htr
      split at hok
      · cases hok
      · rename_i col htake
        have he := (Except.ok.inj hok).symm
        subst he
        have hF₁ : F₁.Sound := takeRows_sound F h _ na _ (by simp) F₁ htr
        have ⟨hcl, hch, _⟩ := packSortedDf_clean _ packed hpk
        have ⟨hc', hlen, _, hch'⟩ := take_none_clean packed.col hcl _ col htake
        apply setCol_sound F₁ hF₁ name col hc' hch'
        rw [hlen]
        -- the index of the gathered frame is the plan's labels
        unfold NFrame.takeRows at htr
        simp only [bind, Except.bind, pure, Except.pure] at htr
        split at htr
        · cases htr
        · have := (Except.ok.inj htr).symm
          subst this
          simp

end NP

namespace NP

/-- rebuilding operations and joins, mixed -/
inductive FrameOp where
  | rebuild (op : NestOp)
  | join (flat : FlatDF Cell) (name : String) (how : JoinHow)

def FrameOp.run (F : NFrame Cell) : FrameOp → R (NFrame Cell)
  | .rebuild op => op.run F
  | .join flat name how => F.addNested flat name how none

def runFrameChain (F : NFrame Cell) : List FrameOp → R (NFrame Cell)
  | [] => .ok F
  | op :: ops => match op.run F with
    | .ok F' => runFrameChain F' ops
    | .error e => .error e

/-- **chains mixing nested queries, dropnas, sorts and joins of any kind stay sound** -/
theorem runFrameChain_sound : ∀ (ops : List FrameOp) (F : NFrame Cell), F.Sound → ∀ F', runFrameChain F ops = .ok F' →
    F'.Sound
  | [], F, h, F', hok => by
    have := (Except.ok.inj hok).symm
    subst this
    exact h
  | op :: ops, F, h, F', hok => by
    unfold runFrameChain at hok
    cases hr : op.run F with
    | error e => rw [hr] at hok; cases hok
    | ok F₁ =>
      rw [hr] at hok
      have h₁ : F₁.Sound := by
        cases op with
        | rebuild o => exact (NestOp.run_sound F h o F₁ hr).1
        | join flat name how => exact addNested_sound F h flat name how none F₁ hr
      exact runFrameChain_sound ops F₁ h₁ F' hok

end NP
