/-
  NPModel.Refine.FieldRows — field edits at the level of rows: after `set_list_field` /
  `set_flat_field` / `fill_field_lists` every row's table is the old table with field `f` set to
  the supplied list (replaced in place, or appended as the last field); missing rows stay missing.
  (C06, and the assignment half of C13.)
-/
import NPModel.Refine.Fields
import NPModel.Refine.Observers
namespace NP
variable {α : Type}

/-- `upsertKid` at the level of what row `i` shows -/
theorem rowOfKids_upsert (kids : List (PField α)) (k : PField α) (i : Nat) :
    rowOfKids (upsertKid kids k) i = Spec.Table.upsert (rowOfKids kids i) k.name ((k.list.rows.getD i none).getD []) := by
  unfold upsertKid Spec.Table.upsert rowOfKids
  have hany : (kids.map fun k' => (k'.name, (k'.list.rows.getD i none).getD [])).any (·.1 == k.name)
      = kids.any (·.name == k.name) := by
    rw [List.any_map]; rfl
  rw [hany]
  by_cases h : kids.any (·.name == k.name) = true
  · simp only [h, if_true, List.map_map]
    apply List.map_congr_left
    intro k' _
    simp only [Function.comp]
    by_cases hn : (k'.name == k.name) = true
    · simp [hn]
    · have hn' : (k'.name == k.name) = false := by simpa using hn
      simp [hn']
  · have h' : kids.any (·.name == k.name) = false := by simpa using h
    simp only [h', Bool.false_eq_true, if_false, List.map_append, List.map_cons, List.map_nil]

/-- one chunk of `set_list_field`: same validity, every row's table upserted with the row's list -/
theorem setListField_chunk_rows (s s' : PStruct α) (kid : PField α)
    (h : structFromArrays (upsertKid s.kids kid) (some s.valid) = .ok s') :
    s'.rows = (List.range s.len).map fun i =>
      (s.rowAt i).map fun t => Spec.Table.upsert t kid.name ((kid.list.rows.getD i none).getD []) := by
  unfold structFromArrays at h
  cases hk : upsertKid s.kids kid with
  | nil => simp [hk] at h
  | cons k0 ks =>
    simp only [hk] at h
    split at h
    · simp only [Except.ok.injEq, Option.getD_some] at h
      subst h
      unfold PStruct.rows
      have hlen : PStruct.len { valid := s.valid, kids := k0 :: ks } = s.len := rfl
      rw [hlen]
      apply List.map_congr_left
      intro i _
      rw [PStruct.rowAt_eq, PStruct.rowAt_eq]
      simp only [← hk, rowOfKids_upsert]
      cases s.valid.getD i false <;> simp
    · cases h

theorem zipWith_map_range {β γ δ : Type} (F : β → γ → δ) (g : Nat → β) (d : γ) (n : Nat) (L : List γ) (hL : L.length = n) :
    List.zipWith F ((List.range n).map g) L = (List.range n).map fun i => F (g i) (L.getD i d) := by
  apply List.ext_getElem?
  intro i
  simp only [List.getElem?_zipWith, List.getElem?_map]
  by_cases hi : i < n
  · have hLi : L[i]? = some L[i] := List.getElem?_eq_getElem (by omega)
    simp [List.getElem?_range hi, hLi, List.getD_eq_getElem?_getD]
  · have h1 : (List.range n)[i]? = none := List.getElem?_eq_none (by simpa using Nat.le_of_not_lt hi)
    simp [h1]

/-- the chunk loop of `set_list_field`, row by row: chunk `j` takes the window of the supplied
    lists that starts where the previous chunks end -/
theorem setListField_go_rows (f ty : String) (value : PList α) :
    ∀ (chunks : List (PStruct α)) (start : Nat) (out : List (PStruct α)),
      NArr.setListField.go f ty value chunks start = .ok out →
      start + sumNat (chunks.map PStruct.len) ≤ value.rows.length →
      out.flatMap PStruct.rows =
        List.zipWith (fun r l => r.map fun t => Spec.Table.upsert t f (l.getD []))
          (chunks.flatMap PStruct.rows) ((value.rows.drop start).take (sumNat (chunks.map PStruct.len))) := by
  intro chunks
  induction chunks with
  | nil =>
    intro start out h _
    simp [NArr.setListField.go, pure, Except.pure] at h
    subst h
    rfl
  | cons s rest ih =>
    intro start out h hlen
    simp only [NArr.setListField.go, bind, Except.bind, pure, Except.pure] at h
    cases hs : structFromArrays (upsertKid s.kids { name := f, ty := ty, list := value.slice start s.len }) (some s.valid) with
    | error e => simp [hs] at h
    | ok s' =>
      cases hr : NArr.setListField.go f ty value rest (start + s.len) with
      | error e => simp [hs, hr] at h
      | ok rest' =>
        simp only [hs, hr, Except.ok.injEq] at h
        subst h
        simp only [List.map_cons, sumNat_cons] at hlen
        have hrows := setListField_chunk_rows s s' _ hs
        have ihr := ih (start + s.len) rest' hr (by omega)
        simp only [List.flatMap_cons, hrows, ihr, List.map_cons, sumNat_cons]
        -- split the supplied lists at the chunk boundary
        have hsplit : (value.rows.drop start).take (s.len + sumNat (rest.map PStruct.len)) =
            (value.rows.drop start).take s.len ++ (value.rows.drop (start + s.len)).take (sumNat (rest.map PStruct.len)) := by
          rw [List.take_add, List.drop_drop]
        have hfirst : ((value.rows.drop start).take s.len).length = s.len := by
          simp only [List.length_take, List.length_drop]; omega
        rw [hsplit, show s.rows = (List.range s.len).map s.rowAt from rfl,
          List.zipWith_append (by simp [hfirst]),
          zipWith_map_range _ s.rowAt none s.len _ hfirst]
        congr 1
        apply List.map_congr_left
        intro i _
        simp only [PList.slice_rows]

/-- **`set_list_field` row by row**: whenever the call succeeds, the result has the same number of
    rows, missing rows stay missing, and the table of every other row is the old table with field
    `f` set to that row's supplied list (a null list reading as no elements) — replaced in its
    place, or appended as the last field — every other field untouched.  For every column (any
    layout, no invariant assumed) and every supplied list array (any offsets and buffers). -/
theorem setListField_len {c c' : PCol α} {f ty : String} {value : PList α} {keep : Bool}
    (h : NArr.setListField c f ty value keep = .ok c') : value.len = c.len := by
  apply Classical.byContradiction
  intro hne
  unfold NArr.setListField at h
  cases hn : NArr.fieldNames c with
  | error e => simp [hn, bind, Except.bind] at h
  | ok names =>
    simp only [hn, hne, bind, Except.bind, pure, Except.pure, throw, throwThe, MonadExceptOf.throw, ne_eq,
      not_false_eq_true, if_true] at h
    repeat' split at h
    all_goals simp at h

theorem setListField_rows {c c' : PCol α} {f ty : String} {value : PList α} {keep : Bool}
    (h : NArr.setListField c f ty value keep = .ok c') (hvl : value.rows.length = value.len) :
    c'.rows = List.zipWith (fun r l => r.map fun t => Spec.Table.upsert t f (l.getD [])) c.rows value.rows ∧
    c'.ty = Spec.tyUpsert c.ty f ty := by
  have hl := setListField_len h
  unfold NArr.setListField at h
  cases hn : NArr.fieldNames c with
  | error e => simp [hn, bind, Except.bind] at h
  | ok names =>
    cases hgo : NArr.setListField.go f ty value c.chunks 0 with
    | error e =>
      simp only [hn, hgo, bind, Except.bind, pure, Except.pure, throw, throwThe, MonadExceptOf.throw] at h
      repeat' split at h
      all_goals simp at h
    | ok chunks =>
      have hgr := setListField_go_rows f ty value c.chunks 0 chunks hgo (by
        rw [Nat.zero_add, hvl, hl]; exact Nat.le_refl _)
      have htake : value.rows.take (sumNat (c.chunks.map PStruct.len)) = value.rows := by
        apply List.take_of_length_le
        rw [hvl, hl]; exact Nat.le_refl _
      simp only [hn, hgo, bind, Except.bind, pure, Except.pure, throw, throwThe, MonadExceptOf.throw] at h
      repeat' split at h
      all_goals first
        | (simp at h; done)
        | (simp only [Except.ok.injEq] at h
           subst h
           refine ⟨?_, ?_⟩
           · show chunks.flatMap PStruct.rows = _
             rw [hgr, List.drop_zero, htake]; rfl
           · simp_all [Spec.tyUpsert])


/-! ### flat values -/

/-- cutting a flat array by cumulative offsets = splitting it by the lengths -/
theorem segs_offsetsFrom_splitBy : ∀ (lens : List Nat) (b : Nat) (xs : List α),
    segs (offsetsFrom b lens) xs = Spec.splitBy lens (xs.drop b)
  | [], _, _ => rfl
  | l :: ls, b, xs => by
    rw [offsetsFrom_cons, offsetsFrom_eq_cons (b + l) ls, segs_cons₂, ← offsetsFrom_eq_cons]
    simp only [Spec.splitBy, Nat.add_sub_cancel_left, List.drop_drop]
    rw [segs_offsetsFrom_splitBy ls (b + l) xs]

theorem listFromArrays_ok (offs : List Nat) (xs : List α) (la : PList α) (h : listFromArrays offs xs = .ok la) :
    la = { offs := offs, valid := List.replicate (offs.length - 1) true, vals := xs } := by
  unfold listFromArrays at h
  cases hl : offs.getLast? with
  | none => simp [hl] at h
  | some last =>
    simp only [hl] at h
    split at h
    · simp only [Except.ok.injEq] at h; exact h.symm
    · cases h

/-- **`set_flat_field` row by row** (`with_flat_field`, `.nest[f] = values`, `frame['n.f'] = values`):
    on cleanly stored columns, whenever the call succeeds row `i` keeps its table with field `f`
    set to the `i`-th piece of the flat values cut by the rows' record counts (missing and empty
    rows take no values; missing rows stay missing); every other field is untouched. -/
theorem setFlatField_rows {c c' : PCol α} {f ty : String} {xs : List α} {keep : Bool} (hc : c.Clean)
    (h : NArr.setFlatField c f ty (.array xs) keep = .ok c') :
    c'.rows = List.zipWith (fun r l => r.map fun t => Spec.Table.upsert t f l) c.rows
                (Spec.splitBy (c.rows.map Row.len) xs) ∧
    c'.ty = Spec.tyUpsert c.ty f ty ∧ xs.length = Spec.flatLength c.rows := by
  unfold NArr.setFlatField at h
  cases hn : NArr.fieldNames c with
  | error e => simp [hn, bind, Except.bind] at h
  | ok names =>
    simp only [hn, flatLength_refines c hc, listOffsets_refines c hc, bind, Except.bind, pure, Except.pure, throw,
      throwThe, MonadExceptOf.throw] at h
    by_cases hxl : xs.length = Spec.flatLength c.rows
    · cases hla : listFromArrays (offsetsFrom 0 (c.rows.map Row.len)) xs with
      | error e =>
        simp only [hla, hxl, ne_eq, not_true_eq_false, if_false] at h
        repeat' split at h
        all_goals simp at h
      | ok la =>
        have hlaeq := listFromArrays_ok _ _ _ hla
        simp only [hla, hxl, ne_eq, not_true_eq_false, if_false] at h
        have hset : NArr.setListField c f ty la keep = .ok c' := by
          repeat' split at h
          all_goals first
            | (simp at h; done)
            | exact h
        have hlarows : la.rows = (Spec.splitBy (c.rows.map Row.len) xs).map some := by
          rw [hlaeq, rows_allValid, segs_offsetsFrom_splitBy, List.drop_zero]
        have hvl : la.rows.length = la.len := by
          rw [hlarows, hlaeq]
          simp only [List.length_map, PList.len, List.length_replicate, offsetsFrom_length]
          -- splitBy has one piece per length
          have : ∀ (lens : List Nat) (ys : List α), (Spec.splitBy lens ys).length = lens.length := by
            intro lens
            induction lens with
            | nil => intro _; rfl
            | cons l ls ih => intro ys; simp [Spec.splitBy, ih]
          rw [this]; simp
        have ⟨hr, hty⟩ := setListField_rows hset hvl
        refine ⟨?_, hty, hxl⟩
        rw [hr, hlarows]
        -- `some l` reads as `l`
        apply List.ext_getElem?
        intro i
        simp only [List.getElem?_zipWith, List.getElem?_map]
        cases c.rows[i]? <;> cases (Spec.splitBy (c.rows.map Row.len) xs)[i]? <;> simp
    · exfalso
      simp only [hxl, ne_eq, not_false_eq_true, if_true] at h
      repeat' split at h
      all_goals simp at h


/-! ### one value per row -/

theorem splitBy_repeatEach : ∀ (vs : List α) (lens : List Nat), vs.length = lens.length →
    Spec.splitBy lens (repeatEach vs lens) = List.zipWith (fun v n => List.replicate n v) vs lens
  | [], [], _ => rfl
  | [], _ :: _, h => by simp at h
  | _ :: _, [], h => by simp at h
  | v :: vs, n :: ns, h => by
    simp only [repeatEach, Spec.splitBy, List.zipWith_cons_cons]
    rw [List.take_left' (by simp), List.drop_left' (by simp), splitBy_repeatEach vs ns (by simpa using h)]

/-- **`fill_field_lists` row by row** (`with_filled_field`, a base-aligned Series assigned to
    `frame['n.f']`): row `i` keeps its table with field `f` set to the row's value repeated once per
    record of the row. -/
theorem fillFieldLists_rows {c c' : PCol α} {f ty : String} {vs : List α} {keep : Bool} (hc : c.Clean)
    (h : NArr.fillFieldLists c f ty vs keep = .ok c') :
    c'.rows = List.zipWith (fun r v => r.map fun t => Spec.Table.upsert t f (List.replicate (Row.len r) v)) c.rows vs ∧
    c'.ty = Spec.tyUpsert c.ty f ty := by
  unfold NArr.fillFieldLists at h
  by_cases hl : vs.length = c.len
  · simp only [hl, ne_eq, not_true_eq_false, if_false, listLengths_refines c hc, bind, Except.bind, pure, Except.pure] at h
    have ⟨hr, hty, _⟩ := setFlatField_rows hc h
    refine ⟨?_, hty⟩
    rw [hr, splitBy_repeatEach vs (c.rows.map Row.len) (by rw [List.length_map, PCol.rows_length, hl])]
    apply List.ext_getElem?
    intro i
    simp only [List.getElem?_zipWith, List.getElem?_map]
    cases c.rows[i]? <;> cases vs[i]? <;> simp
  · simp only [hl, ne_eq, not_false_eq_true, if_true, throw, throwThe, MonadExceptOf.throw, bind, Except.bind] at h
    cases h

end NP
