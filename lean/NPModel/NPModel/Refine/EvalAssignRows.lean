/-
  NPModel.Refine.EvalAssignRows — `eval("nest.f = expr")` / `frame['nest.f'] = flat values` at the
  level of rows, through the implementation model (C13, C06).
-/
import NPModel.Refine.FieldRows
import NPModel.Impl.Frame
namespace NP

/-- **Assignment of flat values to a field of an existing nest, row by row.**  For a frame whose
    nested column `nest` is stored cleanly (any chunking), a successful
    `setField nest field ty (.array vals) (some idx)` replaces only that column, and
    * when `idx` is not the frame's own index (the flat index of a column whose rows do not all
      hold exactly one record): row `i` gets the `i`-th piece of `vals` cut by the rows' record
      counts — values are stored positionally, record by record;
    * when `idx` equals the frame's index (one value per frame row): row `i` gets its value
      repeated once per record (the two coincide when every row holds exactly one record; when
      they do not, this is finding K5). -/
theorem setField_rows {α : Type} [Inhabited α] (F F' : NFrame α) (nest field ty : String) (vals : List α)
    (idx : List Label) (na : α) (c : PCol α)
    (hn : F.nestedColumns.contains nest = true) (hc : F.nest? nest = .ok c) (hclean : c.Clean)
    (h : F.setField nest field ty (.array vals) (some idx) na = .ok F') :
    ∃ c', F' = F.setCol nest (.nest c') ∧ c'.ty = Spec.tyUpsert c.ty field ty ∧
      c'.rows = if (idx == F.index) = true
        then List.zipWith (fun r v => r.map fun t => Spec.Table.upsert t field (List.replicate (Row.len r) v)) c.rows vals
        else List.zipWith (fun r l => r.map fun t => Spec.Table.upsert t field l) c.rows
              (Spec.splitBy (c.rows.map Row.len) vals) := by
  unfold NFrame.setField at h
  simp only [hn, if_true, hc, bind, Except.bind, pure, Except.pure] at h
  by_cases hidx : (idx == F.index) = true
  · simp only [hidx, if_true, NSeries.withFilledField, NArr.copy, bind, Except.bind, pure, Except.pure] at h ⊢
    cases hf : NArr.fillFieldLists c field ty vals false with
    | error e => simp [hf] at h
    | ok c' =>
      simp only [hf, Except.ok.injEq] at h
      have ⟨hr, hty⟩ := fillFieldLists_rows hclean hf
      exact ⟨c', h.symm, hty, hr⟩
  · have hidx' : (idx == F.index) = false := by simpa using hidx
    simp only [hidx', Bool.false_eq_true, if_false, NSeries.withFlatField, NArr.copy, bind, Except.bind, pure,
      Except.pure] at h ⊢
    cases hf : NArr.setFlatField c field ty (.array vals) false with
    | error e => simp [hf] at h
    | ok c' =>
      simp only [hf, Except.ok.injEq] at h
      have ⟨hr, hty, _⟩ := setFlatField_rows hclean hf
      exact ⟨c', h.symm, hty, hr⟩

/-- **`eval("nest.f = expr")`**: the values the expression computes on the flat view are stored
    record by record into field `f` of the rows they were computed from (the flat-values branch of
    `setField_rows`), only that column changes. -/
theorem evalAssign_rows (F F' : NFrame Cell) (nest field : String) (e : Expr) (c : PCol Cell)
    (hn : F.nestedColumns.contains nest = true) (hc : F.nest? nest = .ok c) (hclean : c.Clean)
    (idx : List Label) (ty : String) (vals : List Cell) (hev : F.evalExpr e = .ok (idx, ty, vals))
    (h : F.evalAssign nest field e = .ok F') :
    ∃ c', F' = F.setCol nest (.nest c') ∧ c'.ty = Spec.tyUpsert c.ty field ty ∧
      c'.rows = if (idx == F.index) = true
        then List.zipWith (fun r v => r.map fun t => Spec.Table.upsert t field (List.replicate (Row.len r) v)) c.rows vals
        else List.zipWith (fun r l => r.map fun t => Spec.Table.upsert t field l) c.rows
              (Spec.splitBy (c.rows.map Row.len) vals) := by
  unfold NFrame.evalAssign at h
  simp only [hev, bind, Except.bind] at h
  exact setField_rows F F' nest field ty vals idx none c hn hc hclean h

end NP
