/-
  NPModel.Refine.JoinRows — `pack_flat` and `add_nested(how="left")` end to end on the
  implementation model: from the flat table's index and columns to the rows of the new nested
  column of the frame.  Helper lemmas only; the property theorems live in NPModel.Props.C09.
-/
import NPModel.Refine.PackFlat
import NPModel.Refine.Repacked
import NPModel.Refine.TakeFill
import NPModel.Refine.Observers
namespace NP
variable {α : Type}

/-- positions of the flat records labelled `l`, ascending -/
def recordsOf (index : List Label) (l : Label) : List Nat := valsOfLabel l index (List.range index.length)

/-- labels of the packed column: the distinct labels of the flat table -/
def packedKeys (index : List Label) : List Label := (toRuns (sortedByLabel index.zipIdx)).map (·.1)

/-- the nested row a label gets: for every flat column, its cells at the label's records -/
def packedRow [Inhabited α] (df : FlatDF α) (l : Label) : Row α :=
  some (df.cols.map fun c => (c.1, (recordsOf df.index l).map fun j => c.2.2.getD j default))

/-! ### generic helpers -/

theorem toRuns_nonempty {β γ : Type} [DecidableEq β] (ps : List (β × γ)) : ∀ r ∈ toRuns ps, r.2 ≠ [] := by
  induction ps with
  | nil => intro r hr; simp [toRuns] at hr
  | cons p ps ih =>
    obtain ⟨k, v⟩ := p
    intro r hr
    unfold toRuns at hr
    cases h : toRuns ps with
    | nil =>
      rw [h] at hr
      simp at hr
      subst hr; simp
    | cons r' runs =>
      obtain ⟨k', vs⟩ := r'
      rw [h] at hr ih
      simp only at hr
      split at hr
      · rcases List.mem_cons.mp hr with rfl | hr
        · simp
        · exact ih r (List.mem_cons_of_mem _ hr)
      · rcases List.mem_cons.mp hr with rfl | hr
        · simp
        · exact ih r hr

theorem nonemptyRuns_toRuns {β γ : Type} [DecidableEq β] (ps : List (β × γ)) : nonemptyRuns (toRuns ps) = toRuns ps := by
  unfold nonemptyRuns
  rw [List.filter_eq_self]
  intro r hr
  have := toRuns_nonempty ps r hr
  cases h : r.2 with
  | nil => exact absurd h this
  | cons _ _ => rfl

theorem toRuns_keys_cover {β γ : Type} [DecidableEq β] (ps : List (β × γ)) :
    ∀ k ∈ ps.map (·.1), k ∈ (toRuns ps).map (·.1) := by
  intro k hk
  rw [← (toRuns_labels_vals ps).1] at hk
  obtain ⟨r, hr, he⟩ := mem_runLabels hk
  exact List.mem_map.mpr ⟨r, hr, he⟩

theorem segs_map {β : Type} (g : α → β) : ∀ (offs : List Nat) (vals : List α),
    segs offs (vals.map g) = (segs offs vals).map (List.map g) := by
  intro offs
  induction offs with
  | nil => intro _; rfl
  | cons a rest ih =>
    intro vals
    cases rest with
    | nil => rfl
    | cons b rest =>
      rw [segs_cons₂, segs_cons₂, ih vals, List.map_cons, List.map_take, List.map_drop]

theorem isMonotone_of_pairwise : ∀ (l : List Label), l.Pairwise (fun a b => a.le b = true) → isMonotone l = true := by
  intro l
  induction l with
  | nil => intro _; rfl
  | cons a l ih =>
    intro h
    have ⟨h1, h2⟩ := List.pairwise_cons.mp h
    exact isMonotone_cons_of_le a l h1 (ih h2)

theorem mapM_ok_all2 {β γ : Type} (f : β → R γ) (P : β → γ → Prop) :
    ∀ (l : List β), (∀ x ∈ l, ∃ y, f x = .ok y ∧ P x y) → ∃ out, l.mapM f = .ok out ∧ All2 P l out := by
  intro l
  induction l with
  | nil => intro _; exact ⟨[], rfl, All2.nil⟩
  | cons a l ih =>
    intro h
    obtain ⟨y, hy, hp⟩ := h a List.mem_cons_self
    obtain ⟨out, ho, hall⟩ := ih (fun x hx => h x (List.mem_cons_of_mem _ hx))
    refine ⟨y :: out, ?_, All2.cons hp hall⟩
    rw [List.mapM_cons, hy]
    simp only [bind, Except.bind, ho]
    rfl

/-! ### the sorted flat table -/

/-- every sorted (label, position) pair reads its own label back from the index -/
theorem sorted_pairs_read (index : List Label) :
    ∀ p ∈ sortedByLabel index.zipIdx, index.getD p.2 (.int 0) = p.1 := by
  intro p hp
  have hm : p ∈ index.zipIdx := (sortedByLabel_perm _).mem_iff.mp hp
  have := List.mem_zipIdx_iff_getElem?.mp hm
  rw [List.getD_eq_getElem?_getD, this]
  rfl

theorem stableSortPerm_eq (index : List Label) : stableSortPerm index = (sortedByLabel index.zipIdx).map (·.2) := rfl

theorem reorder_index (index : List Label) :
    (stableSortPerm index).map (fun i => index.getD i (.int 0)) = (sortedByLabel index.zipIdx).map (·.1) := by
  rw [stableSortPerm_eq, List.map_map]
  apply List.map_congr_left
  intro p hp
  exact sorted_pairs_read index p hp

theorem zipIdx_fst (index : List Label) : index.zipIdx.map (·.1) = index := List.zipIdx_map_fst 0 index

theorem zipIdx_snd (index : List Label) : index.zipIdx.map (·.2) = List.range index.length := by
  have := List.zipIdx_map_snd 0 index
  rw [this, List.range_eq_range']

/-- **the run of a label is the list of its records** -/
theorem runs_are_records (index : List Label) :
    ∀ r ∈ toRuns (sortedByLabel index.zipIdx), r.2 = recordsOf index r.1 := by
  intro r hr
  obtain ⟨k, l⟩ := r
  have h := (packFlat_rows index.zipIdx k l hr).1
  rw [zipIdx_fst, zipIdx_snd] at h
  exact h

theorem mem_packedKeys (index : List Label) (l : Label) : l ∈ packedKeys index ↔ l ∈ index := by
  unfold packedKeys
  constructor
  · intro h
    have := toRuns_keys_mem _ l h
    have hp : ((sortedByLabel index.zipIdx).map (·.1)).Perm (index.zipIdx.map (·.1)) := (sortedByLabel_perm _).map _
    rw [zipIdx_fst] at hp
    exact hp.mem_iff.mp this
  · intro h
    apply toRuns_keys_cover
    have hp : ((sortedByLabel index.zipIdx).map (·.1)).Perm (index.zipIdx.map (·.1)) := (sortedByLabel_perm _).map _
    rw [zipIdx_fst] at hp
    exact hp.mem_iff.mpr h

theorem recordsOf_eq_nil_iff (index : List Label) (l : Label) : recordsOf index l = [] ↔ l ∉ index := by
  unfold recordsOf valsOfLabel
  rw [List.map_eq_nil_iff, List.filter_eq_nil_iff]
  constructor
  · intro h hl
    obtain ⟨i, hi, he⟩ := List.getElem_of_mem hl
    have hz : (index[i], i) ∈ index.zip (List.range index.length) := by
      rw [List.mem_iff_getElem]
      refine ⟨i, by simp [hi], ?_⟩
      simp
    have := h _ hz
    simp [he] at this
  · intro h p hp
    have := (List.of_mem_zip hp).1
    intro he
    have e : p.1 = l := by simpa using he
    exact h (e ▸ this)

theorem packedKeys_strict (index : List Label) :
    (packedKeys index).Pairwise (fun a b => a.le b = true ∧ a ≠ b) := packFlat_index_strictly_ascending _

end NP

namespace NP
variable {α : Type}

/-! ### `pack_flat` end to end -/

theorem reorder_cols [Inhabited α] (df : FlatDF α) :
    (df.reorder (stableSortPerm df.index) default).cols =
      df.cols.map fun c => (c.1, c.2.1, ((sortedByLabel df.index.zipIdx).map (·.2)).map fun i => c.2.2.getD i default) := by
  unfold FlatDF.reorder
  simp only [stableSortPerm_eq]

theorem sortedByLabel_length {β : Type} (xs : List (Label × β)) : (sortedByLabel xs).length = xs.length :=
  (sortedByLabel_perm xs).length_eq

theorem packedCol_clean (offs : List Nat) (cols : List (String × String × List α)) (hne : offs ≠ [])
    (hm : monotone offs = true) (hl : ∀ c ∈ cols, offs.getLast?.getD 0 ≤ c.2.2.length) (hc : cols ≠ []) :
    PCol.Clean { ty := cols.map fun c => (c.1, c.2.1), chunks := [packedChunk offs cols] } := by
  constructor
  · unfold PCol.WF
    simp only [List.all_cons, List.all_nil, Bool.and_true, Bool.and_eq_true, decide_eq_true_eq]
    exact ⟨packedChunk_WF offs _ hne hm hl, by rw [packedChunk_ty]⟩
  · intro s hs
    simp only [List.mem_cons, List.not_mem_nil, or_false] at hs
    subst hs
    unfold PStruct.nullEmpty packedChunk
    rw [List.all_eq_true]
    intro k hk
    simp only [List.mem_map] at hk
    obtain ⟨c, _, rfl⟩ := hk
    unfold PList.nullEmpty
    rw [List.all_eq_true]
    intro p hp
    have := (List.of_mem_zip hp).1
    simp only [List.mem_replicate] at this
    simp [this.2]
  · unfold PCol.validate
    obtain ⟨c0, cs, rfl⟩ := List.exists_cons_of_ne_nil hc
    simp [PStruct.validate, packedChunk, pure, Except.pure, bind, Except.bind]
  · intro s hs
    simp only [List.mem_cons, List.not_mem_nil, or_false] at hs
    subst hs
    intro i hi hv
    rw [packedChunk_len] at hi
    simp [packedChunk, List.getD_eq_getElem?_getD, List.getElem?_replicate, hi] at hv
  · simpa using hc

/-- **`pack_flat` end to end.**  For ANY flat table with at least one column (any labels in any
    order, repeated or not): the call succeeds; the packed index lists the distinct labels of the
    table (ascending, each once — `packedKeys_strict`, `mem_packedKeys`); the packed column is
    well formed, aligned, has the table's columns as its fields, and the row of label `k` holds,
    for every field at once, the cells of the records that carried `k`, in their original
    order. -/
theorem packFlat_spec [Inhabited α] (df : FlatDF α) (hne : df.cols ≠ []) :
    ∃ packed, packFlat df = .ok packed ∧ packed.index = packedKeys df.index ∧
      packed.col.WF = true ∧ packed.col.aligned ∧
      packed.col.ty = df.cols.map (fun c => (c.1, c.2.1)) ∧
      packed.col.rows = (packedKeys df.index).map (packedRow df) ∧
      packed.col.Clean ∧ packed.col.chunks ≠ [] := by
  let s := sortedByLabel df.index.zipIdx
  let runs := toRuns s
  let df' := df.reorder (stableSortPerm df.index) default
  have hidx : df'.index = s.map (·.1) := reorder_index df.index
  have hcols : df'.cols = df.cols.map fun c => (c.1, c.2.1, (s.map (·.2)).map fun i => c.2.2.getD i default) :=
    reorder_cols df
  have hlab : runLabels runs = s.map (·.1) := (toRuns_labels_vals s).1
  have hval : runVals runs = s.map (·.2) := (toRuns_labels_vals s).2
  have hd : (runs.map (·.1)).Pairwise (· ≠ ·) := (packedKeys_strict df.index).imp (fun h => h.2)
  have hruns : runs.map (·.2) = (packedKeys df.index).map (recordsOf df.index) := by
    show runs.map (·.2) = (runs.map (·.1)).map _
    rw [List.map_map]
    apply List.map_congr_left
    intro r hr
    exact runs_are_records df.index r hr
  let offs := packOffsets df'.index
  have hoffs : offs = offsetsFrom 0 (runs.map (·.2.length)) := by
    show packOffsets df'.index = _
    rw [hidx, ← hlab, packOffsets_runs runs hd, nonemptyRuns_toRuns]
  have hoffs_len : offs.length - 1 = (packedKeys df.index).length := by
    rw [hoffs, offsetsFrom_length, List.length_map]
    show runs.length + 1 - 1 = (runs.map (·.1)).length
    simp
  have hoffs_ne : offs ≠ [] := by rw [hoffs]; exact offsetsFrom_ne_nil _ _
  have hoffs_mono : monotone offs = true := by rw [hoffs]; exact monotone_offsetsFrom _ _
  have hslen : s.length = df.index.length := by
    show (sortedByLabel df.index.zipIdx).length = _
    rw [sortedByLabel_length, List.length_zipIdx]
  have hoffs_last : offs.getLast?.getD 0 = s.length := by
    show (packOffsets df'.index).getLast?.getD 0 = _
    rw [packOffsets_last, hidx, List.length_map]; rfl
  have hlast : ∀ c ∈ df'.cols, offs.getLast?.getD 0 ≤ c.2.2.length := by
    intro c hc
    rw [hcols] at hc
    simp only [List.mem_map] at hc
    obtain ⟨c', _, rfl⟩ := hc
    simp only [List.length_map]
    rw [hoffs_last]
  have hmono : isMonotone df'.index = true := by
    rw [hidx]; exact isMonotone_of_pairwise _ (sortedByLabel_sorted _)
  have hok := packSortedDf_ok df' hmono
    (by
      intro c hc
      rw [hcols] at hc
      simp only [List.mem_map] at hc
      obtain ⟨c', _, rfl⟩ := hc
      simp only [List.length_map]
      rw [hidx, List.length_map])
    (by rw [hcols]; simpa using hne)
  refine ⟨_, hok, ?_, ?_, ?_, ?_, ?_, ?_, ?_⟩
  · show ((packOffsets df'.index).dropLast).map (fun o => df'.index.getD o (.int 0)) = _
    rw [hidx, ← hlab, packed_index_is_run_keys (Label.int 0) runs hd, nonemptyRuns_toRuns]
    rfl
  · unfold PCol.WF
    simp only [List.all_cons, List.all_nil, Bool.and_true, Bool.and_eq_true, decide_eq_true_eq]
    refine ⟨packedChunk_WF offs _ hoffs_ne hoffs_mono hlast, ?_⟩
    rw [packedChunk_ty]
  · intro c hc
    simp only [List.mem_cons, List.not_mem_nil, or_false] at hc
    subst hc
    exact packedChunk_aligned offs _ hoffs_mono hlast
  · show df'.cols.map (fun c => (c.1, c.2.1)) = _
    rw [hcols, List.map_map]
    rfl
  · show PCol.rows { ty := _, chunks := [packedChunk offs df'.cols] } = _
    simp only [PCol.rows, List.flatMap_cons, List.flatMap_nil, List.append_nil, packedChunk_rows, hoffs_len]
    apply List.ext_getElem
    · simp
    · intro p hp1 hp2
      have hp : p < (packedKeys df.index).length := by simpa using hp1
      simp only [List.getElem_map, List.getElem_range, packedRow, Option.some.injEq]
      rw [hcols, List.map_map]
      apply List.map_congr_left
      intro c _
      simp only [Function.comp, Prod.mk.injEq, true_and]
      have hsegs : segs offs ((s.map (·.2)).map fun i => c.2.2.getD i default) =
          (packedKeys df.index).map fun k => (recordsOf df.index k).map fun i => c.2.2.getD i default := by
        rw [segs_map]
        show (segs (packOffsets df'.index) (s.map (·.2))).map _ = _
        rw [hidx, ← hlab, ← hval, packed_rows_are_runs runs hd, nonemptyRuns_toRuns, hruns, List.map_map]
        rfl
      rw [hsegs]
      simp only [List.getD_eq_getElem?_getD, List.getElem?_map, List.getElem?_eq_getElem hp, Option.map_some,
        Option.getD_some]
  · exact packedCol_clean offs df'.cols hoffs_ne hoffs_mono hlast (by rw [hcols]; simpa using hne)
  · exact List.cons_ne_nil _ _

end NP


namespace NP
variable {α : Type}

/-! ### `add_nested(how="left")` end to end -/

theorem labelPos_mem (keys : List Label) (l : Label) (h : l ∈ keys) :
    ∃ p, p < keys.length ∧ labelPos keys l = (p : Int) ∧ keys[p]? = some l := by
  unfold labelPos
  cases hf : keys.findIdx? (· == l) with
  | none =>
    rw [List.findIdx?_eq_none_iff] at hf
    have := hf l h
    simp at this
  | some p =>
    have ⟨hp, heq, _⟩ := List.findIdx?_eq_some_iff_getElem.mp hf
    refine ⟨p, hp, rfl, ?_⟩
    rw [List.getElem?_eq_getElem hp]
    simp only [beq_iff_eq] at heq
    rw [heq]

theorem labelPos_not_mem (keys : List Label) (l : Label) (h : l ∉ keys) : labelPos keys l = -1 := by
  unfold labelPos
  have : keys.findIdx? (· == l) = none := by
    rw [List.findIdx?_eq_none_iff]
    intro x hx
    simp only [beq_iff_eq, Bool.not_eq_true, beq_eq_false_iff_ne, ne_eq]
    intro e
    exact h (e ▸ hx)
  rw [this]

theorem range_getD_self {β : Type} (l : List β) (d : β) : (List.range l.length).map (fun i => l.getD i d) = l := by
  apply List.ext_getElem
  · simp
  · intro i h1 h2
    have hi : i < l.length := by simpa using h1
    simp [List.getD_eq_getElem?_getD, List.getElem?_eq_getElem hi]

theorem joinPlan_left_fst (left keys : List Label) :
    (joinPlan .left left keys).map (·.1) = (List.range left.length).map some := by
  simp only [joinPlan, List.map_map]
  rfl

theorem joinPlan_left_lab (left keys : List Label) : (joinPlan .left left keys).map (·.2.2) = left := by
  simp only [joinPlan, List.map_map]
  exact range_getD_self left (.int 0)

theorem joinPlan_left_pos (left keys : List Label) :
    (joinPlan .left left keys).map (·.2.1) = left.map (labelPos keys) := by
  simp only [joinPlan, List.map_map]
  conv => rhs; rw [← range_getD_self left (.int 0)]
  rw [List.map_map]
  rfl

/-- what a consistent frame is, as far as a join needs: every base column has one cell per row,
    every nested column is validated storage with one row per frame row -/
structure NFrame.Consistent (F : NFrame α) : Prop where
  base : ∀ n t v, (n, ColData.base t v) ∈ F.cols → v.length = F.index.length
  nest : ∀ n c, (n, ColData.nest c) ∈ F.cols → c.WF = true ∧ c.aligned ∧ c.len = F.index.length

/-- the same column content: base cells equal, nested rows equal -/
def ColData.same : ColData α → ColData α → Prop
  | .base t v, .base t' v' => t' = t ∧ v' = v
  | .nest c, .nest c' => c'.rows = c.rows
  | _, _ => False

theorem spec_take_identity (rows : List (Row α)) (fill : Row α) :
    Spec.take rows ((List.range rows.length).map fun (i : Nat) => (i : Int)) true fill = .ok rows := by
  unfold Spec.take
  have h1 : ((List.range rows.length).map fun (i : Nat) => (i : Int)).any (fun i => decide (i ≥ (rows.length : Int))) = false := by
    rw [List.any_eq_false]
    intro x hx
    simp only [List.mem_map, List.mem_range] at hx
    obtain ⟨i, hi, rfl⟩ := hx
    simp only [ge_iff_le, decide_eq_true_eq]
    omega
  have h2 : ((List.range rows.length).map fun (i : Nat) => (i : Int)).any (· < -1) = false := by
    rw [List.any_eq_false]
    intro x hx
    simp only [List.mem_map, List.mem_range] at hx
    obtain ⟨i, _, rfl⟩ := hx
    simp only [decide_eq_true_eq]
    omega
  simp only [if_true, h1, h2, Bool.false_eq_true, if_false, pure, Except.pure, List.map_map]
  congr 1
  apply List.ext_getElem
  · simp
  · intro i hi1 hi2
    have hi : i < rows.length := by simpa using hi1
    simp only [List.getElem_map, List.getElem_range, Function.comp]
    have : ¬ ((i : Int) < 0) := by omega
    simp [this, List.getD_eq_getElem?_getD, List.getElem?_eq_getElem hi]

theorem takeColData_identity (F : NFrame α) (hF : F.Consistent) (na : α) :
    ∀ p ∈ F.cols, ∃ p', takeColData ((List.range F.index.length).map some) na p = .ok p' ∧
      (p'.1 = p.1 ∧ ColData.same p.2 p'.2) := by
  intro p hp
  obtain ⟨n, d⟩ := p
  cases d with
  | base t v =>
    refine ⟨(n, .base t v), ?_, rfl, rfl, rfl⟩
    unfold takeColData takeBase
    simp only [pure, Except.pure, List.map_map]
    have hv := hF.base n t v hp
    rw [← hv]
    congr 3
    exact range_getD_self v na
  | nest c =>
    have ⟨hw, ha, hl⟩ := hF.nest n c hp
    have hidx : optIndexer ((List.range F.index.length).map some) =
        (List.range c.rows.length).map fun (i : Nat) => (i : Int) := by
      unfold optIndexer
      rw [List.map_map, PCol.rows_length, hl]
      rfl
    have h := take_refines_fill c hw ha (optIndexer ((List.range F.index.length).map some)) none rfl
    rw [hidx, spec_take_identity] at h
    obtain ⟨c', hc', hr⟩ := except_map_ok h
    refine ⟨(n, .nest c'), ?_, rfl, hr⟩
    unfold takeColData
    simp only [hidx, hc', bind, Except.bind, pure, Except.pure]

/-- **`add_nested(how="left")` end to end.**  For every consistent frame and ANY flat table with
    at least one column: the call succeeds; the frame keeps its index and the content of every
    column it had; and row `i` of the new nested column is MISSING when no flat record carries
    the label of row `i`, and otherwise holds — for every field at once — the cells of exactly
    the flat records that carry that label, in their original order.  Flat records whose label
    is not in the frame appear nowhere. -/
theorem addNested_left_rows [Inhabited α] (F : NFrame α) (hF : F.Consistent) (flat : FlatDF α)
    (hne : flat.cols ≠ []) (name : String) (na : α) :
    ∃ cols' col, F.addNested flat name .left na =
        .ok (NFrame.setCol { index := F.index, cols := cols' } name (.nest col)) ∧
      All2 (fun p p' => p'.1 = p.1 ∧ ColData.same p.2 p'.2) F.cols cols' ∧
      col.rows = F.index.map fun l => if l ∈ flat.index then packedRow flat l else none := by
  obtain ⟨packed, hpk, hkeys, hwf, hal, _, hrows, _, _⟩ := packFlat_spec flat hne
  obtain ⟨cols', hcols', hall⟩ := mapM_ok_all2 (takeColData ((List.range F.index.length).map some) na) _ F.cols
    (takeColData_identity F hF na)
  -- the lookup of the frame's labels in the packed index
  have htake := take_refines_fill packed.col hwf hal (F.index.map (labelPos packed.index)) none rfl
  have hlen : packed.col.rows.length = packed.index.length := by rw [hrows, hkeys, List.length_map]
  have h1 : (F.index.map (labelPos packed.index)).any (fun i => decide (i ≥ (packed.col.rows.length : Int))) = false := by
    rw [List.any_eq_false]
    intro x hx
    simp only [List.mem_map] at hx
    obtain ⟨l, _, rfl⟩ := hx
    simp only [ge_iff_le, decide_eq_true_eq]
    by_cases hl : l ∈ packed.index
    · obtain ⟨p, hp, he, _⟩ := labelPos_mem packed.index l hl
      rw [he, hlen]; omega
    · rw [labelPos_not_mem packed.index l hl]; omega
  have h2 : (F.index.map (labelPos packed.index)).any (· < -1) = false := by
    rw [List.any_eq_false]
    intro x hx
    simp only [List.mem_map] at hx
    obtain ⟨l, _, rfl⟩ := hx
    simp only [decide_eq_true_eq]
    by_cases hl : l ∈ packed.index
    · obtain ⟨p, _, he, _⟩ := labelPos_mem packed.index l hl
      rw [he]; omega
    · rw [labelPos_not_mem packed.index l hl]; omega
  unfold Spec.take at htake
  simp only [if_true, h1, h2, Bool.false_eq_true, if_false, pure, Except.pure, List.map_map] at htake
  obtain ⟨col, hcol, hcr⟩ := except_map_ok htake
  refine ⟨cols', col, ?_, hall, ?_⟩
  · unfold NFrame.addNested NFrame.takeRows
    simp only [hpk, bind, Except.bind, pure, Except.pure, joinPlan_left_fst, joinPlan_left_lab, joinPlan_left_pos,
      hcols', hcol]
  · rw [hcr]
    apply List.map_congr_left
    intro l _
    simp only [Function.comp]
    by_cases hl : l ∈ flat.index
    · have hk : l ∈ packed.index := by rw [hkeys]; exact (mem_packedKeys flat.index l).mpr hl
      obtain ⟨p, hp, he, hget⟩ := labelPos_mem packed.index l hk
      have hneg : ¬ ((p : Int) < 0) := by omega
      rw [he, if_neg hneg, if_pos hl, hrows]
      rw [hkeys] at hget
      simp [List.getD_eq_getElem?_getD, List.getElem?_map, hget]
    · have hk : l ∉ packed.index := by rw [hkeys]; exact fun h => hl ((mem_packedKeys flat.index l).mp h)
      rw [labelPos_not_mem packed.index l hk, if_neg hl]
      rfl

end NP


namespace NP
variable {α : Type}

/-! ### `from_flat` end to end -/

theorem filterBy_length_eq {β γ : Type} : ∀ (m : List Bool) (xs : List β) (ys : List γ), xs.length = ys.length →
    (filterBy m xs).length = (filterBy m ys).length := by
  intro m
  induction m with
  | nil => intro xs ys _; simp
  | cons b m ih =>
    intro xs ys h
    cases xs with
    | nil =>
      cases ys with
      | nil => rfl
      | cons _ _ => cases h
    | cons x xs =>
      cases ys with
      | nil => cases h
      | cons y ys =>
        have h' : xs.length = ys.length := by simpa using h
        cases b
        · simpa using ih xs ys h'
        · simpa using ih xs ys h'

theorem mem_of_mem_filterBy {β : Type} : ∀ (m : List Bool) (xs : List β) (x : β), x ∈ filterBy m xs → x ∈ xs := by
  intro m
  induction m with
  | nil => intro xs x h; simp at h
  | cons b m ih =>
    intro xs x h
    cases xs with
    | nil => simp at h
    | cons y ys =>
      cases b
      · rw [filterBy_cons_false] at h
        exact List.mem_cons_of_mem _ (ih ys x h)
      · rw [filterBy_cons_true] at h
        rcases List.mem_cons.mp h with rfl | h
        · exact List.mem_cons_self
        · exact List.mem_cons_of_mem _ (ih ys x h)

/-- labels of the base rows `from_flat` makes: the first occurrence of every label -/
def firstLabels (index : List Label) : List Label := filterBy ((duplicatedFirst index).map (!·)) index

/-- **`from_flat` end to end.**  For ANY flat table (base columns of the index's length, at least
    one nested column): the call succeeds, the frame has one row per first occurrence of a label,
    the base columns hold the cells of those first occurrences, and EVERY row of the nested column
    is present and holds — for every field at once — the cells of exactly the records carrying
    the row's label, in their original order. -/
theorem fromFlat_rows [Inhabited α] (index : List Label) (base nested : List (String × String × List α))
    (hb : ∀ c ∈ base, c.2.2.length = index.length) (hne : nested ≠ []) (name : String) (na : α) :
    ∃ cols' col, NFrame.fromFlat index base nested name na =
        .ok (NFrame.setCol { index := firstLabels index, cols := cols' } name (.nest col)) ∧
      All2 (fun p p' => p'.1 = p.1 ∧ ColData.same p.2 p'.2)
        (base.map fun c => (c.1, ColData.base c.2.1 (filterBy ((duplicatedFirst index).map (!·)) c.2.2))) cols' ∧
      col.rows = (firstLabels index).map (packedRow { index := index, cols := nested }) := by
  let keep := (duplicatedFirst index).map (!·)
  let F : NFrame α := { index := filterBy keep index
                        cols := base.map fun c => (c.1, ColData.base c.2.1 (filterBy keep c.2.2)) }
  have hF : F.Consistent := by
    constructor
    · intro n t v h
      obtain ⟨c, hc, he⟩ := List.mem_map.mp h
      have e : filterBy keep c.2.2 = v := by
        have := (Prod.mk.inj he).2
        injection this
      rw [← e]
      exact filterBy_length_eq keep _ _ (hb c hc)
    · intro n c h
      obtain ⟨c', _, he⟩ := List.mem_map.mp h
      have := (Prod.mk.inj he).2
      cases this
  obtain ⟨cols', col, hok, hall, hrows⟩ := addNested_left_rows F hF { index := index, cols := nested } hne name na
  refine ⟨cols', col, ?_, hall, ?_⟩
  · unfold NFrame.fromFlat
    have hcols : (base.map fun (x : String × String × List α) => match x with
        | (n, t, v) => (n, ColData.base t (filterBy ((duplicatedFirst index).map (!·)) v))) = F.cols := by
      apply List.map_congr_left
      intro c _
      obtain ⟨n, t, v⟩ := c
      rfl
    simp only [hcols]
    exact hok
  · rw [hrows]
    apply List.map_congr_left
    intro l hl
    have : l ∈ index := mem_of_mem_filterBy keep index l hl
    simp only [this, if_true]

end NP


namespace NP
variable {α : Type}

/-! ### flattening the packed column gives the stably sorted table back -/

theorem repeatEach_runs {β γ : Type} : ∀ (runs : List (β × List γ)),
    repeatEach (runs.map (·.1)) (runs.map (·.2.length)) = runLabels runs := by
  intro runs
  induction runs with
  | nil => rfl
  | cons r rest ih =>
    obtain ⟨k, l⟩ := r
    rw [runLabels_cons, ← ih]
    rfl

theorem runVals_flatten {β γ : Type} (runs : List (β × List γ)) : runVals runs = (runs.map (·.2)).flatten := by
  unfold runVals
  rw [List.flatMap_def]

theorem packed_runs (index : List Label) :
    (toRuns (sortedByLabel index.zipIdx)).map (·.2) = (packedKeys index).map (recordsOf index) := by
  show _ = ((toRuns (sortedByLabel index.zipIdx)).map (·.1)).map _
  rw [List.map_map]
  apply List.map_congr_left
  intro r hr
  exact runs_are_records index r hr

/-- the records of all packed labels, label after label, are the stable sort permutation -/
theorem records_flatten (index : List Label) :
    ((packedKeys index).map (recordsOf index)).flatten = stableSortPerm index := by
  rw [← packed_runs, ← runVals_flatten, (toRuns_labels_vals _).2]
  rfl

/-- every packed label repeated once per record is the sorted label column -/
theorem labels_repeat (index : List Label) :
    repeatEach (packedKeys index) ((packedKeys index).map fun k => (recordsOf index k).length) =
      (sortedByLabel index.zipIdx).map (·.1) := by
  have h : ((packedKeys index).map fun k => (recordsOf index k).length) =
      (toRuns (sortedByLabel index.zipIdx)).map (·.2.length) := by
    have := congrArg (List.map List.length) (packed_runs index)
    rw [List.map_map, List.map_map] at this
    exact this.symm
  rw [h]
  show repeatEach ((toRuns (sortedByLabel index.zipIdx)).map (·.1)) _ = _
  rw [repeatEach_runs, (toRuns_labels_vals _).1]

theorem find_named {β γ : Type} (g : String × β → γ) : ∀ (cols : List (String × β)),
    (cols.map (·.1)).Pairwise (· ≠ ·) → ∀ c ∈ cols,
    (cols.map fun c' => (c'.1, g c')).find? (·.1 == c.1) = some (c.1, g c) := by
  intro cols
  induction cols with
  | nil => intro _ c hc; cases hc
  | cons c0 cs ih =>
    intro hd c hc
    have ⟨h0, hd'⟩ := List.pairwise_cons.mp hd
    rw [List.map_cons, List.find?_cons]
    rcases List.mem_cons.mp hc with rfl | hc'
    · simp
    · have hne : c0.1 ≠ c.1 := h0 c.1 (List.mem_map_of_mem hc')
      have : (c0.1 == c.1) = false := by simpa using hne
      simp only [this]
      exact ih hd' c hc'

theorem packedRow_len [Inhabited α] (df : FlatDF α) (hne : df.cols ≠ []) (k : Label) :
    Row.len (packedRow df k) = (recordsOf df.index k).length := by
  obtain ⟨c0, cs, hc⟩ := List.exists_cons_of_ne_nil hne
  unfold packedRow
  rw [hc]
  simp [Row.len]

/-- **Packing then flattening is the stable sort by label.**  For ANY flat table with at least one
    column and pairwise distinct column names: `pack_flat` succeeds, and `to_flat()` of the packed
    series is the table stably sorted by label — the same records (cell for cell, in every column),
    grouped by ascending label, original relative order kept inside every label; nothing lost,
    duplicated or invented. -/
theorem packFlat_toFlat [Inhabited α] (df : FlatDF α) (hne : df.cols ≠ [])
    (hd : (df.cols.map (·.1)).Pairwise (· ≠ ·)) :
    ∃ packed, packFlat df = .ok packed ∧
      packed.toFlat none = .ok (df.reorder (stableSortPerm df.index) default) := by
  obtain ⟨packed, hpk, hkeys, _, _, hty, hrows, hclean, hch⟩ := packFlat_spec df hne
  refine ⟨packed, hpk, ?_⟩
  have hidx : packed.index.length = packed.col.len := by
    rw [← PCol.rows_length, hrows, hkeys, List.length_map]
  have h := toFlat_refines packed.index packed.col hclean hch hidx
  show NSeries.toFlat { index := packed.index, col := packed.col } none = _
  rw [h]
  unfold Spec.toFlat PCol.abs
  simp only [Option.getD_none, hty, List.map_map]
  have h1 : ((df.cols.map ((fun x => x.1) ∘ fun c => (c.1, c.2.1))).isEmpty) = false := by
    obtain ⟨c0, cs, hc⟩ := List.exists_cons_of_ne_nil hne
    rw [hc]; rfl
  have h2 : (df.cols.map ((fun x => x.1) ∘ fun c => (c.1, c.2.1))).all
      (fun f => (df.cols.map fun c => (c.1, c.2.1)).any (·.1 == f)) = true := by
    rw [List.all_eq_true]
    intro f hf
    simp only [List.mem_map, Function.comp] at hf
    obtain ⟨c, hc, rfl⟩ := hf
    rw [List.any_eq_true]
    exact ⟨(c.1, c.2.1), List.mem_map.mpr ⟨c, hc, rfl⟩, by simp⟩
  simp only [h1, h2, Bool.false_eq_true, if_false, not_true_eq_false, pure, Except.pure]
  congr 1
  have hlens : Spec.lens packed.col.rows = (packedKeys df.index).map fun k => (recordsOf df.index k).length := by
    unfold Spec.lens
    rw [hrows, List.map_map]
    apply List.map_congr_left
    intro k _
    exact packedRow_len df hne k
  unfold FlatDF.reorder
  congr 1
  · unfold Spec.flatIndex
    rw [hlens, hkeys, labels_repeat, reorder_index]
  · apply List.map_congr_left
    intro c hc
    obtain ⟨n, t, v⟩ := c
    simp only [Function.comp, Prod.mk.injEq, true_and]
    constructor
    · have := find_named (fun (c' : String × String × List α) => c'.2.1) df.cols hd (n, t, v) hc
      simp only at this
      rw [this]
      rfl
    · unfold Spec.flatField Spec.fieldLists
      rw [hrows, List.map_map, ← records_flatten, List.map_flatten, List.map_map]
      congr 1
      apply List.map_congr_left
      intro k _
      simp only [Function.comp, packedRow]
      have := find_named (fun (c' : String × String × List α) => (recordsOf df.index k).map fun j => c'.2.2.getD j default)
        df.cols hd (n, t, v) hc
      simp only at this
      rw [this]
      rfl

end NP

namespace NP
variable {α : Type}

/-! ### `add_nested(how="inner")` end to end -/

/-- the content of a column at the rows `ps`, in that order -/
def ColData.selected (ps : List Nat) (na : α) : ColData α → ColData α → Prop
  | .base t v, .base t' v' => t' = t ∧ v' = ps.map fun i => v.getD i na
  | .nest c, .nest c' => c'.rows = ps.map fun i => c.rows.getD i none
  | _, _ => False

theorem spec_take_positions (rows : List (Row α)) (ps : List Nat) (hps : ∀ p ∈ ps, p < rows.length) (fill : Row α) :
    Spec.take rows (ps.map fun (i : Nat) => (i : Int)) true fill = .ok (ps.map fun i => rows.getD i none) := by
  unfold Spec.take
  have h1 : (ps.map fun (i : Nat) => (i : Int)).any (fun i => decide (i ≥ (rows.length : Int))) = false := by
    rw [List.any_eq_false]
    intro x hx
    simp only [List.mem_map] at hx
    obtain ⟨i, hi, rfl⟩ := hx
    have := hps i hi
    simp only [ge_iff_le, decide_eq_true_eq]
    omega
  have h2 : (ps.map fun (i : Nat) => (i : Int)).any (· < -1) = false := by
    rw [List.any_eq_false]
    intro x hx
    simp only [List.mem_map] at hx
    obtain ⟨i, _, rfl⟩ := hx
    simp only [decide_eq_true_eq]
    omega
  simp only [if_true, h1, h2, Bool.false_eq_true, if_false, pure, Except.pure, List.map_map]
  congr 1

theorem takeColData_positions (F : NFrame α) (hF : F.Consistent) (na : α) (ps : List Nat)
    (hps : ∀ p ∈ ps, p < F.index.length) :
    ∀ p ∈ F.cols, ∃ p', takeColData (ps.map some) na p = .ok p' ∧ (p'.1 = p.1 ∧ ColData.selected ps na p.2 p'.2) := by
  intro p hp
  obtain ⟨n, d⟩ := p
  cases d with
  | base t v =>
    refine ⟨(n, .base t (ps.map fun i => v.getD i na)), ?_, rfl, rfl, rfl⟩
    unfold takeColData takeBase
    simp only [pure, Except.pure, List.map_map]
    rfl
  | nest c =>
    have ⟨hw, ha, hl⟩ := hF.nest n c hp
    have hidx : optIndexer (ps.map some) = ps.map fun (i : Nat) => (i : Int) := by
      unfold optIndexer
      rw [List.map_map]
      rfl
    have h := take_refines_fill c hw ha (optIndexer (ps.map some)) none rfl
    rw [hidx, spec_take_positions c.rows ps (by rw [PCol.rows_length, hl]; exact hps)] at h
    obtain ⟨c', hc', hr⟩ := except_map_ok h
    refine ⟨(n, .nest c'), ?_, rfl, hr⟩
    unfold takeColData
    simp only [hidx, hc', bind, Except.bind, pure, Except.pure]

/-- the frame rows an inner join keeps: those whose label carries at least one flat record -/
def innerKept (left flatIndex : List Label) : List Nat :=
  (List.range left.length).filter fun i => decide (left.getD i (.int 0) ∈ flatIndex)

theorem labelPos_nonneg_iff (keys : List Label) (l : Label) : (labelPos keys l ≥ 0) ↔ l ∈ keys := by
  by_cases h : l ∈ keys
  · obtain ⟨p, _, he, _⟩ := labelPos_mem keys l h
    rw [he]
    exact ⟨fun _ => h, fun _ => by omega⟩
  · rw [labelPos_not_mem keys l h]
    exact ⟨fun hh => by omega, fun hh => absurd hh h⟩

/-- **`add_nested(how="inner")` end to end.**  For every consistent frame and ANY flat table with
    at least one column: the call succeeds; the result keeps exactly the frame rows whose label
    carries at least one flat record, in their original order, with the content of every column
    they had; and every kept row holds — for every field at once — the cells of exactly the flat
    records that carry its label, in their original order (no kept row is missing). -/
theorem addNested_inner_rows [Inhabited α] (F : NFrame α) (hF : F.Consistent) (flat : FlatDF α)
    (hne : flat.cols ≠ []) (name : String) (na : α) :
    let kept := innerKept F.index flat.index
    ∃ cols' col, F.addNested flat name .inner na =
        .ok (NFrame.setCol { index := kept.map fun i => F.index.getD i (.int 0), cols := cols' } name (.nest col)) ∧
      All2 (fun p p' => p'.1 = p.1 ∧ ColData.selected kept na p.2 p'.2) F.cols cols' ∧
      col.rows = kept.map fun i => packedRow flat (F.index.getD i (.int 0)) := by
  intro kept
  obtain ⟨packed, hpk, hkeys, hwf, hal, _, hrows, _, _⟩ := packFlat_spec flat hne
  -- the plan of the join
  have hfilter : ((List.range F.index.length).filter fun i => decide (labelPos packed.index (F.index.getD i (.int 0)) ≥ 0)) = kept := by
    apply List.filter_congr
    intro i _
    by_cases hm : F.index.getD i (.int 0) ∈ flat.index
    · have : labelPos packed.index (F.index.getD i (.int 0)) ≥ 0 := by
        rw [hkeys]; exact (labelPos_nonneg_iff _ _).mpr ((mem_packedKeys _ _).mpr hm)
      show decide (labelPos packed.index (F.index.getD i (.int 0)) ≥ 0) = decide (F.index.getD i (.int 0) ∈ flat.index)
      rw [decide_eq_true this, decide_eq_true hm]
    · have : ¬ labelPos packed.index (F.index.getD i (.int 0)) ≥ 0 := by
        rw [hkeys]; exact fun hh => hm ((mem_packedKeys _ _).mp ((labelPos_nonneg_iff _ _).mp hh))
      show decide (labelPos packed.index (F.index.getD i (.int 0)) ≥ 0) = decide (F.index.getD i (.int 0) ∈ flat.index)
      rw [decide_eq_false this, decide_eq_false hm]
  have hplan : joinPlan .inner F.index packed.index =
      kept.map fun i => (some i, labelPos packed.index (F.index.getD i (.int 0)), F.index.getD i (.int 0)) := by
    simp only [joinPlan, hfilter]
  have hkept_lt : ∀ p ∈ kept, p < F.index.length := by
    intro p hp
    exact List.mem_range.mp (List.mem_filter.mp hp).1
  have hkept_mem : ∀ p ∈ kept, F.index.getD p (.int 0) ∈ flat.index := by
    intro p hp
    simpa using (List.mem_filter.mp hp).2
  obtain ⟨cols', hcols', hall⟩ := mapM_ok_all2 (takeColData (kept.map some) na) _ F.cols
    (takeColData_positions F hF na kept hkept_lt)
  -- the lookup of the kept labels in the packed index
  let indexer := kept.map fun i => labelPos packed.index (F.index.getD i (.int 0))
  have htake := take_refines_fill packed.col hwf hal indexer none rfl
  have hlen : packed.col.rows.length = packed.index.length := by rw [hrows, hkeys, List.length_map]
  have h1 : indexer.any (fun i => decide (i ≥ (packed.col.rows.length : Int))) = false := by
    rw [List.any_eq_false]
    intro x hx
    simp only [indexer, List.mem_map] at hx
    obtain ⟨i, hi, rfl⟩ := hx
    have hl : F.index.getD i (.int 0) ∈ packed.index := by rw [hkeys]; exact (mem_packedKeys _ _).mpr (hkept_mem i hi)
    obtain ⟨p, hp, he, _⟩ := labelPos_mem packed.index _ hl
    simp only [ge_iff_le, decide_eq_true_eq]
    rw [he, hlen]; omega
  have h2 : indexer.any (· < -1) = false := by
    rw [List.any_eq_false]
    intro x hx
    simp only [indexer, List.mem_map] at hx
    obtain ⟨i, hi, rfl⟩ := hx
    have hl : F.index.getD i (.int 0) ∈ packed.index := by rw [hkeys]; exact (mem_packedKeys _ _).mpr (hkept_mem i hi)
    obtain ⟨p, _, he, _⟩ := labelPos_mem packed.index _ hl
    simp only [decide_eq_true_eq]
    rw [he]; omega
  unfold Spec.take at htake
  simp only [if_true, h1, h2, Bool.false_eq_true, if_false, pure, Except.pure] at htake
  obtain ⟨col, hcol, hcr⟩ := except_map_ok htake
  refine ⟨cols', col, ?_, hall, ?_⟩
  · unfold NFrame.addNested NFrame.takeRows
    simp only [hpk, bind, Except.bind, pure, Except.pure, hplan, List.map_map]
    have e1 : (kept.map ((fun x => x.1) ∘ fun i => (some i, labelPos packed.index (F.index.getD i (.int 0)), F.index.getD i (.int 0))))
        = kept.map some := rfl
    have e2 : (kept.map ((fun x => x.2.1) ∘ fun i => (some i, labelPos packed.index (F.index.getD i (.int 0)), F.index.getD i (.int 0))))
        = indexer := rfl
    have e3 : (kept.map ((fun x => x.2.2) ∘ fun i => (some i, labelPos packed.index (F.index.getD i (.int 0)), F.index.getD i (.int 0))))
        = kept.map fun i => F.index.getD i (.int 0) := rfl
    rw [e1, e2, e3]
    simp only [hcols', hcol]
  · rw [hcr]
    simp only [indexer, List.map_map]
    apply List.map_congr_left
    intro i hi
    simp only [Function.comp]
    have hm := hkept_mem i hi
    have hk : F.index.getD i (.int 0) ∈ packed.index := by rw [hkeys]; exact (mem_packedKeys _ _).mpr hm
    obtain ⟨p, hp, he, hget⟩ := labelPos_mem packed.index _ hk
    have hneg : ¬ ((p : Int) < 0) := by omega
    rw [he, if_neg hneg, hrows]
    rw [hkeys] at hget
    simp [List.getD_eq_getElem?_getD, List.getElem?_map, hget]

end NP
