/-
  NPModel.Refine.Select — column-level (chunked) refinement of selection: `take`, `filter`,
  `ChunkedArray.slice`, and `NestedExtensionArray.__getitem__` as a whole.
-/
import NPModel.Refine.Combine
import NPModel.Refine.Repack
namespace NP
variable {α : Type}

/-- positions of the `true`s, as a gather -/
theorem gather_nonzero {β : Type} (m : List Bool) :
    ∀ (pre xs : List β), xs.length = m.length →
      gather ((nonzeroFrom pre.length m).map some) (pre ++ xs) = (filterBy m xs).map some := by
  induction m with
  | nil => intro pre xs h; simp [nonzeroFrom, gather]
  | cons b m ih =>
    intro pre xs h
    cases xs with
    | nil => simp at h
    | cons x xs =>
      have h' : xs.length = m.length := by simpa using h
      have key := ih (pre ++ [x]) xs h'
      simp only [List.length_append, List.length_singleton, List.append_assoc, List.singleton_append] at key
      cases b
      · simp only [nonzeroFrom_false, filterBy_cons_false]
        exact key
      · simp only [nonzeroFrom_true, filterBy_cons_true, List.map_cons, gather]
        simp only [gather] at key
        rw [key]
        simp [List.getElem?_append_right]

theorem filterBy_eq_gather {β : Type} (m : List Bool) (xs : List β) (h : xs.length = m.length) :
    gather ((nonzeroFrom 0 m).map some) xs = (filterBy m xs).map some := by
  simpa using gather_nonzero m [] xs h

theorem map_comp_some_id {β : Type} (f : Option β → β) (hf : ∀ x, f (some x) = x) (l : List β) :
    l.map (f ∘ some) = l := by
  induction l with
  | nil => rfl
  | cons a l ih => simp [hf, ih]

/-- struct-level `filter` is `take` at the positions of the `true`s -/
theorem PStruct.filter_eq_take (s : PStruct α) (hw : s.WF = true) (m : List Bool) (hm : m.length = s.len) :
    s.filter m = s.take ((nonzeroFrom 0 m).map some) := by
  unfold PStruct.filter PStruct.take
  congr 1
  · rw [filterBy_eq_gather m s.valid (by simpa [PStruct.len] using hm.symm)]
    rw [List.map_map, map_comp_some_id _ (fun _ => rfl)]
  · apply List.map_congr_left
    intro k hk
    congr 1
    unfold PList.take
    rw [filterBy_eq_gather m k.list.rows (by rw [PStruct.kid_rows_length hw hk]; exact hm.symm)]
    rw [List.map_map, map_comp_some_id _ (fun _ => rfl)]

theorem PStruct.filter_rows (s : PStruct α) (hw : s.WF = true) (m : List Bool) (hm : m.length = s.len) :
    (s.filter m).rows = filterBy m s.rows := by
  rw [PStruct.filter_eq_take s hw m hm, PStruct.take_rows]
  have h := filterBy_eq_gather m s.rows (by rw [PStruct.rows_length]; exact hm.symm)
  unfold gather at h
  have e : ∀ (l : List (Option Nat)),
      l.map (pickRow s.rows) = (l.map fun o => o.bind fun i => s.rows[i]?).map Option.join := by
    intro l
    rw [List.map_map]
    apply List.map_congr_left
    intro o _
    cases o <;> rfl
  rw [e, h, List.map_map, map_comp_some_id _ (fun _ => rfl)]

/-! ### `ChunkedArray.slice` -/

theorem chunkedSlice_rows : ∀ (chunks : List (PStruct α)) (st n : Nat),
    (chunkedSlice chunks st n).flatMap PStruct.rows = ((chunks.flatMap PStruct.rows).drop st).take n := by
  intro chunks
  induction chunks with
  | nil => intro st n; simp [chunkedSlice]
  | cons ch rest ih =>
    intro st n
    simp only [chunkedSlice, List.flatMap_cons]
    have hl : ch.rows.length = ch.len := PStruct.rows_length ch
    split
    · rename_i hge
      rw [ih, List.drop_append]
      have : ch.rows.drop st = [] := List.drop_eq_nil_of_le (by omega)
      rw [this, hl]
      simp
    · rename_i hlt
      have hlt' : st < ch.len := Nat.lt_of_not_le hlt
      simp only [List.flatMap_cons]
      rw [PStruct.slice_rows ch st (min n (ch.len - st)) (by omega), ih, List.drop_append]
      have h0 : st - ch.rows.length = 0 := by omega
      rw [h0, List.drop_zero, List.take_append]
      congr 1
      · have hlen : (ch.rows.drop st).length = ch.len - st := by simp [hl]
        by_cases hn : n ≤ ch.len - st
        · rw [Nat.min_eq_left hn]
        · rw [Nat.min_eq_right (by omega), List.take_of_length_le (by omega), List.take_of_length_le (by omega)]
      · simp only [List.length_drop, hl]
        congr 1
        omega

end NP

namespace NP
variable {α : Type}

theorem PCol.take_rows (c : PCol α) (hw : c.WF = true) (idx : List (Option Nat)) :
    (c.take idx).rows = idx.map (pickRow c.rows) := by
  unfold PCol.take PCol.rows
  simp only [List.flatMap_cons, List.flatMap_nil, List.append_nil]
  rw [PStruct.take_rows, PCol.combine_rows c hw]
  rfl

theorem PCol.filter_go_rows : ∀ (chunks : List (PStruct α)) (m : List Bool),
    (∀ s ∈ chunks, s.WF = true) → m.length = sumNat (chunks.map PStruct.len) →
    (PCol.filter.go chunks m).flatMap PStruct.rows = filterBy m (chunks.flatMap PStruct.rows) := by
  intro chunks
  induction chunks with
  | nil => intro m _ _; simp [PCol.filter.go]
  | cons s rest ih =>
    intro m hw hm
    simp only [PCol.filter.go, List.flatMap_cons]
    simp only [List.map_cons, sumNat, List.foldr_cons] at hm
    have hms : (m.take s.len).length = s.len := by
      rw [List.length_take]; omega
    rw [PStruct.filter_rows s (hw s List.mem_cons_self) _ hms,
        ih (m.drop s.len) (fun s' hs' => hw s' (List.mem_cons_of_mem _ hs')) (by
          rw [List.length_drop]
          show m.length - s.len = sumNat (rest.map PStruct.len)
          unfold sumNat
          omega)]
    have : filterBy m (s.rows ++ rest.flatMap PStruct.rows)
        = filterBy (m.take s.len ++ m.drop s.len) (s.rows ++ rest.flatMap PStruct.rows) := by
      rw [List.take_append_drop]
    rw [this, filterBy_append _ _ _ _ (by rw [hms, PStruct.rows_length])]

theorem PCol.filter_rows (c : PCol α) (hw : c.WF = true) (m : List Bool) (hm : m.length = c.len) :
    (c.filter m).rows = filterBy m c.rows := by
  unfold PCol.filter PCol.rows
  exact PCol.filter_go_rows c.chunks m (by
    intro s hs
    unfold PCol.WF at hw
    have := (List.all_eq_true.mp hw) s hs
    simp at this
    exact this.1) hm

theorem NArr.init_rows (c c' : PCol α) (h : NArr.init c false = .ok c') : c'.rows = c.rows := by
  unfold NArr.init at h
  simp only [Bool.false_eq_true, if_false, pure, Except.pure, bind, Except.bind] at h
  simp only [Except.ok.injEq] at h
  subst h
  split
  · rename_i he
    have : c.chunks = [] := by simpa using he
    simp [PCol.rows, this, PStruct.rows, PStruct.len, emptyChunk]
  · rfl

theorem PCol.rows_length (c : PCol α) : c.rows.length = c.len := by
  unfold PCol.rows PCol.len
  induction c.chunks with
  | nil => rfl
  | cons s rest ih => simp [sumNat, PStruct.rows_length, ih] at *

end NP

namespace NP
variable {α : Type}

theorem pickRow_some (rows : List (Row α)) (j : Nat) : pickRow rows (some j) = rows.getD j none := by
  unfold pickRow
  simp only [List.getD_eq_getElem?_getD]
  cases rows[j]? <;> rfl

theorem sliceIndices_bounds (n : Nat) (s e st : Option Int) (a b st' : Int)
    (h : sliceIndices n s e st = .ok (a, b, st')) (hpos : st' > 0) :
    0 ≤ a ∧ a ≤ n ∧ 0 ≤ b ∧ b ≤ n := by
  unfold sliceIndices at h
  simp only at h
  split at h
  · cases h
  · simp only [Except.ok.injEq, Prod.mk.injEq] at h
    obtain ⟨ha, hb, hst⟩ := h
    subst hst
    simp only [hpos, if_true] at ha hb
    have hneg : ¬ (st.getD 1 < 0) := by omega
    simp only [hneg, if_false] at ha hb
    constructor
    · rw [← ha]; cases s <;> simp <;> (try split) <;> omega
    constructor
    · rw [← ha]; cases s <;> simp <;> (try split) <;> omega
    constructor
    · rw [← hb]; cases e <;> simp <;> (try split) <;> omega
    · rw [← hb]; cases e <;> simp <;> (try split) <;> omega

theorem drop_take_eq_map_getD {β : Type} (l : List β) (a k : Nat) (d : β) (h : a + k ≤ l.length) :
    (l.drop a).take k = (List.range k).map fun i => l.getD (a + i) d := by
  apply List.ext_getElem?
  intro i
  simp only [List.getElem?_take, List.getElem?_drop, List.getElem?_map]
  by_cases hi : i < k
  · have : a + i < l.length := by omega
    simp [hi, List.getElem?_range hi, List.getD_eq_getElem?_getD, List.getElem?_eq_getElem this]
  · have : (List.range k)[i]? = none := List.getElem?_eq_none (by simpa using Nat.le_of_not_lt hi)
    simp [hi, this]

theorem rangeList_step_one (a b : Int) (ha : 0 ≤ a) (hb : 0 ≤ b) :
    rangeList a b 1 = (List.range (b.toNat - a.toNat)).map fun i => a.toNat + i := by
  unfold rangeList
  simp only [show (1 : Int) > 0 by decide, if_true]
  by_cases hab : a < b
  · simp only [hab, if_true]
    have hc : ((b - a + 1 - 1) / 1).toNat = b.toNat - a.toNat := by
      simp only [Int.add_sub_cancel, Int.ediv_one]
      omega
    rw [hc]
    apply List.map_congr_left
    intro k _
    simp only [Int.mul_one]
    omega
  · simp only [hab, if_false]
    have : b.toNat - a.toNat = 0 := by omega
    simp [this]

end NP
