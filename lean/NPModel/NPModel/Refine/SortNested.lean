/-
  NPModel.Refine.SortNested — `sort_values` on a nested layer end to end on the implementation
  model: from a cleanly stored nested column to the rows of the sorted column.
  Helper lemmas only; the property theorems live in NPModel.Props.C11.
-/
import NPModel.Refine.SortOrder
import NPModel.Refine.QueryRows
import NPModel.Refine.JoinRows
namespace NP
variable {α : Type}

/-! ### generic helpers -/

theorem splitBy_flatten' {β : Type} : ∀ (lens : List Nat) (xs : List β), xs.length = sumNat lens →
    (Spec.splitBy lens xs).flatten = xs ∧ (Spec.splitBy lens xs).map List.length = lens
  | [], xs, h => by
    have : xs = [] := List.length_eq_zero_iff.mp (by simpa [sumNat] using h)
    subst this
    exact ⟨rfl, rfl⟩
  | n :: ns, xs, h => by
    rw [sumNat_cons] at h
    have ⟨h1, h2⟩ := splitBy_flatten' ns (xs.drop n) (by simp; omega)
    constructor
    · simp only [Spec.splitBy, List.flatten_cons, h1, List.take_append_drop]
    · simp only [Spec.splitBy, List.map_cons, h2, List.length_take]
      congr 1
      omega

theorem splitBy_map {β γ : Type} (g : β → γ) : ∀ (lens : List Nat) (xs : List β),
    Spec.splitBy lens (xs.map g) = (Spec.splitBy lens xs).map (List.map g)
  | [], _ => rfl
  | n :: ns, xs => by
    simp only [Spec.splitBy, List.map_cons, List.map_take, ← List.map_drop, splitBy_map g ns]

theorem ordIndex_pairwise : ∀ (s : Nat) (lens : List Nat), (ordIndex s lens).Pairwise (fun a b => a.le b = true)
  | _, [] => List.Pairwise.nil
  | s, n :: ns => by
    simp only [ordIndex]
    rw [List.pairwise_append]
    refine ⟨?_, ordIndex_pairwise (s + 1) ns, ?_⟩
    · rw [List.pairwise_replicate]
      right
      simp [Label.le]
    · intro a ha b hb
      have ea := List.eq_of_mem_replicate ha
      obtain ⟨i, hi, hle⟩ := ordIndex_ge (s + 1) ns b hb
      subst ea; subst hi
      simp only [Label.le, decide_eq_true_eq]
      omega

theorem mem_ordRuns : ∀ (s : Nat) (lists : List (List α)) (i : Nat), i < lists.length →
    (Label.int ((s + i : Nat) : Int), lists.getD i []) ∈ ordRuns s lists
  | _, [], i, h => by simp at h
  | s, l :: ls, 0, _ => by simp [ordRuns]
  | s, l :: ls, i + 1, h => by
    have := mem_ordRuns (s + 1) ls i (by simpa using h)
    simp only [ordRuns, List.mem_cons]
    right
    have e : s + 1 + i = s + (i + 1) := by omega
    rw [e] at this
    simpa using this

/-! ### the sorted flat table -/

section
variable [Inhabited α]

/-- the permutation `sort_values` reads the flat table through -/
def sortPerm (lt : α → α → Bool) (isNull : α → Bool) (naFirst : Bool) (ords : List Label)
    (kcols : List (Bool × List α)) : List Nat :=
  (List.range ords.length).mergeSort (sortLe lt isNull naFirst ords kcols)

theorem sortPerm_perm (lt : α → α → Bool) (isNull : α → Bool) (naFirst : Bool) (ords : List Label)
    (kcols : List (Bool × List α)) : (sortPerm lt isNull naFirst ords kcols).Perm (List.range ords.length) :=
  List.mergeSort_perm _ _

theorem sortPerm_sorted (lt : α → α → Bool) (isNull : α → Bool) (naFirst : Bool)
    (ords : List Label) (kcols : List (Bool × List α)) (h : KeysOrdered lt isNull kcols) :
    (sortPerm lt isNull naFirst ords kcols).Pairwise (fun p q => sortLe lt isNull naFirst ords kcols p q = true) :=
  List.pairwise_mergeSort (fun a b c => sortLe_trans lt isNull naFirst ords kcols h a b c)
    (fun a b => sortLe_total lt isNull naFirst ords kcols h a b) _

/-- **the sort never moves a record to another row**: read through the permutation, a
    non-decreasing ordinal index is unchanged -/
theorem sortPerm_keeps_ordinals (lt : α → α → Bool) (isNull : α → Bool) (naFirst : Bool)
    (ords : List Label) (hs : ords.Pairwise (fun a b => a.le b = true)) (kcols : List (Bool × List α))
    (h : KeysOrdered lt isNull kcols) :
    (sortPerm lt isNull naFirst ords kcols).map (fun p => ords.getD p (.int 0)) = ords := by
  have hperm : ((sortPerm lt isNull naFirst ords kcols).map (fun p => ords.getD p (.int 0))).Perm ords := by
    have := (sortPerm_perm lt isNull naFirst ords kcols).map (fun p => ords.getD p (.int 0))
    rw [range_getD_self] at this
    exact this
  have hsorted : ((sortPerm lt isNull naFirst ords kcols).map (fun p => ords.getD p (.int 0))).Pairwise
      (fun a b => a.le b = true) := by
    rw [List.pairwise_map]
    exact (sortPerm_sorted lt isNull naFirst ords kcols h).imp (fun hpq => sortLe_ordinal lt isNull naFirst ords kcols _ _ hpq)
  exact List.Perm.eq_of_pairwise (fun a b _ _ h1 h2 => Label.le_antisymm a b h1 h2) hsorted hs hperm

end

end NP

namespace NP
variable {α : Type}

section
variable [Inhabited α]

/-- the key columns of the flat table, with their directions -/
def sortKeyCols (flat : FlatDF α) (keys : List (String × Bool)) : List (Bool × List α) :=
  keys.map fun k => (k.2, ((flat.cols.find? (·.1 == k.1)).map (·.2.2)).getD [])

theorem sortKeyCol_ok (flat : FlatDF α) (keys : List (String × Bool))
    (h : ∀ k ∈ keys, flat.cols.any (·.1 == k.1) = true) :
    keys.mapM (sortKeyCol flat) = .ok (sortKeyCols flat keys) := by
  apply mapM_ok_of_forall
  intro k hk
  unfold sortKeyCol
  cases hf : flat.cols.find? (·.1 == k.1) with
  | none =>
    rw [List.find?_eq_none] at hf
    have := h k hk
    rw [List.any_eq_true] at this
    obtain ⟨x, hx, hxe⟩ := this
    exact absurd hxe (hf x hx)
  | some c => rfl

/-- reading the ordinal flat table through a permutation that keeps the ordinal index gives the
    ordinal flat table of the per-row blocks of the permutation -/
theorem reorder_ordFlat (cols : List (String × String × List (List α))) (lens : List Nat) (perm : List Nat)
    (hlen : perm.length = sumNat lens)
    (hidx : perm.map (fun p => (ordIndex 0 lens).getD p (.int 0)) = ordIndex 0 lens) :
    (ordFlat cols lens).reorder perm default =
      ordFlat (cols.map fun c => (c.1, c.2.1,
        (Spec.splitBy lens perm).map fun b => b.map fun p => c.2.2.flatten.getD p default)) lens := by
  unfold FlatDF.reorder ordFlat
  simp only [List.map_map]
  congr 1
  · apply List.map_congr_left
    intro c _
    simp only [Function.comp]
    congr 2
    rw [← splitBy_map, (splitBy_flatten' lens _ (by rw [List.length_map]; exact hlen)).1]

/-- **`sort_values` on a nested layer, end to end.** -/
theorem sortNested_rows (lt : α → α → Bool) (isNull : α → Bool) (F : NFrame α)
    (nest : String) (c : PCol α) (hc : F.nest? nest = .ok c) (hclean : c.Clean) (hch : c.chunks ≠ [])
    (hidx : F.index.length = c.len) (keys : List (String × Bool))
    (hkeys : ∀ k ∈ keys, c.ty.any (·.1 == k.1) = true) (naFirst : Bool)
    (hlt : KeysOrdered lt isNull (sortKeyCols (ordFlat (colLists c) (c.rows.map Row.len)) keys)) :
    let lens := c.rows.map Row.len
    let flat := ordFlat (colLists c) lens
    let kcols := sortKeyCols flat keys
    ∃ (blocks : List (List Nat)) (col : PCol α),
      F.sortNested lt isNull nest keys naFirst = .ok (F.setCol nest (.nest col)) ∧
      col.rows = repackedRows ((colLists c).map fun f => (f.1, f.2.1,
        blocks.map fun b => b.map fun p => f.2.2.flatten.getD p default)) lens ∧
      blocks.map List.length = lens ∧
      (∀ i, i < lens.length → (blocks.getD i []).Perm
        ((List.range flat.index.length).filter fun p => flat.index.getD p (.int 0) == Label.int (i : Int))) ∧
      (∀ b ∈ blocks, b.Pairwise fun p q => lexLe lt isNull naFirst (sortKeysAt kcols p q) = true) ∧
      blocks = Spec.splitBy lens (sortPerm lt isNull naFirst flat.index kcols) := by
  intro lens flat kcols
  have hflat : F.ordinalFlat nest = .ok flat := ordinalFlat_refines F nest c hc hclean hch hidx
  have hkc : keys.mapM (sortKeyCol flat) = .ok kcols := by
    apply sortKeyCol_ok
    intro k hk
    have := hkeys k hk
    rw [List.any_eq_true] at this ⊢
    obtain ⟨p, hp, hpe⟩ := this
    refine ⟨(p.1, tyOf c p.1, (Spec.fieldLists c.rows p.1).flatten), ?_, hpe⟩
    show _ ∈ (ordFlat (colLists c) lens).cols
    unfold ordFlat colLists
    simp only [List.map_map, List.mem_map, Function.comp]
    exact ⟨p, hp, rfl⟩
  let perm := sortPerm lt isNull naFirst flat.index kcols
  have hords : flat.index = ordIndex 0 lens := rfl
  have hplen : perm.length = sumNat lens := by
    rw [(sortPerm_perm lt isNull naFirst flat.index kcols).length_eq, List.length_range, hords, ordIndex_length]
  have hpidx : perm.map (fun p => (ordIndex 0 lens).getD p (.int 0)) = ordIndex 0 lens :=
    sortPerm_keeps_ordinals lt isNull naFirst (ordIndex 0 lens) (ordIndex_pairwise 0 lens) kcols hlt
  let blocks := Spec.splitBy lens perm
  have ⟨hbflat, hblens⟩ := splitBy_flatten' lens perm hplen
  let cols' : List (String × String × List (List α)) := (colLists c).map fun f => (f.1, f.2.1,
    blocks.map fun b => b.map fun p => f.2.2.flatten.getD p default)
  have hreorder : flat.reorder perm default = ordFlat cols' lens := reorder_ordFlat (colLists c) lens perm hplen hpidx
  have hn : lens.length = F.index.length := by
    show (c.rows.map Row.len).length = _
    rw [List.length_map, PCol.rows_length, hidx]
  have hcols' : ∀ f ∈ cols', f.2.2.map List.length = lens := by
    intro f hf
    simp only [cols', List.mem_map] at hf
    obtain ⟨f0, _, rfl⟩ := hf
    simp only [List.map_map]
    rw [← hblens]
    apply List.map_congr_left
    intro b _
    simp
  have hne' : cols' ≠ [] := by
    have : colLists c ≠ [] := by
      unfold colLists
      cases hty : c.ty with
      | nil => exact absurd hty hclean.fields
      | cons _ _ => simp
    simpa [cols'] using this
  obtain ⟨col, hcol, hrows⟩ := setFilteredFlatDf_rows F nest cols' lens hn hcols' hne'
  refine ⟨blocks, col, ?_, hrows, hblens, ?_, ?_, rfl⟩
  · unfold NFrame.sortNested
    simp only [hflat, hkc, bind, Except.bind]
    show F.setFilteredFlatDf nest (flat.reorder perm default) = _
    rw [hreorder]
    exact hcol
  · -- every block is a permutation of the positions of its row
    intro i hi
    have hmem := mem_ordRuns 0 blocks i (by
      have := congrArg List.length hblens
      rw [List.length_map] at this
      rw [this]; exact hi)
    have hrun := valsOfLabel_run (ordRuns 0 blocks) (ordRuns_keys_distinct 0 blocks) _ _ hmem
    rw [runLabels_ordRuns, runVals_ordRuns, hblens, hbflat] at hrun
    have hrun' : valsOfLabel (Label.int ((0 + i : Nat) : Int)) (perm.map fun p => (ordIndex 0 lens).getD p (.int 0))
        (perm.map id) = blocks.getD i [] := by
      rw [hpidx, List.map_id]; exact hrun
    rw [valsOfLabel_map, List.map_id] at hrun'
    rw [← hrun']
    have := (sortPerm_perm lt isNull naFirst flat.index kcols).filter
      (fun p => (ordIndex 0 lens).getD p (.int 0) == Label.int ((0 + i : Nat) : Int))
    simp only [Nat.zero_add] at this ⊢
    exact this
  · -- every block is sorted by the keys
    intro b hb
    obtain ⟨i, hi, hbi⟩ := List.getElem_of_mem hb
    have hi' : i < lens.length := by
      have := congrArg List.length hblens
      rw [List.length_map] at this
      rw [← this]; exact hi
    have hmem := mem_ordRuns 0 blocks i hi
    have hrun := valsOfLabel_run (ordRuns 0 blocks) (ordRuns_keys_distinct 0 blocks) _ _ hmem
    rw [runLabels_ordRuns, runVals_ordRuns, hblens, hbflat] at hrun
    have hrun' : valsOfLabel (Label.int ((0 + i : Nat) : Int)) (perm.map fun p => (ordIndex 0 lens).getD p (.int 0))
        (perm.map id) = blocks.getD i [] := by
      rw [hpidx, List.map_id]; exact hrun
    rw [valsOfLabel_map, List.map_id] at hrun'
    have hbe : b = blocks.getD i [] := by
      rw [List.getD_eq_getElem?_getD, List.getElem?_eq_getElem hi]; exact hbi.symm
    rw [hbe, ← hrun']
    have hsub := List.filter_sublist (l := perm)
      (p := fun p => (ordIndex 0 lens).getD p (.int 0) == Label.int ((0 + i : Nat) : Int))
    have hsorted := (sortPerm_sorted lt isNull naFirst flat.index kcols hlt).sublist hsub
    rw [List.pairwise_iff_forall_sublist] at hsorted ⊢
    intro p q hpq
    have hle := hsorted hpq
    have hp : p ∈ perm.filter (fun p => (ordIndex 0 lens).getD p (.int 0) == Label.int ((0 + i : Nat) : Int)) :=
      hpq.subset (by simp)
    have hq : q ∈ perm.filter (fun p => (ordIndex 0 lens).getD p (.int 0) == Label.int ((0 + i : Nat) : Int)) :=
      hpq.subset (by simp)
    have ep := (List.mem_filter.mp hp).2
    have eq := (List.mem_filter.mp hq).2
    have ep' : (ordIndex 0 lens).getD p (.int 0) = Label.int ((0 + i : Nat) : Int) := by simpa using ep
    have eq' : (ordIndex 0 lens).getD q (.int 0) = Label.int ((0 + i : Nat) : Int) := by simpa using eq
    unfold sortLe at hle
    rw [hords, ep', eq'] at hle
    simpa using hle

end

end NP

namespace NP
variable {α : Type}

/-! ### rows in terms of their own records -/

/-- flat position of the first record of row `i` -/
def rowStart (lens : List Nat) (i : Nat) : Nat := sumNat (lens.take i)

theorem splitBy_range' : ∀ (lens : List Nat) (s i : Nat), i < lens.length →
    (Spec.splitBy lens (List.range' s (sumNat lens))).getD i [] = List.range' (s + rowStart lens i) (lens.getD i 0)
  | [], _, _, h => by simp at h
  | n :: ns, s, 0, _ => by
    simp only [Spec.splitBy, sumNat_cons, rowStart, List.take_zero]
    rw [List.take_range'_of_length_ge (by omega)]
    simp [sumNat]
  | n :: ns, s, i + 1, h => by
    have ih := splitBy_range' ns (s + n) i (by simpa using h)
    simp only [Spec.splitBy, sumNat_cons]
    rw [List.drop_range']
    have e : n + sumNat ns - n = sumNat ns := by omega
    simp only [Nat.mul_one, e]
    have hs : rowStart (n :: ns) (i + 1) = n + rowStart ns i := by
      simp [rowStart, sumNat_cons]
    rw [hs]
    have e2 : s + (n + rowStart ns i) = s + n + rowStart ns i := by omega
    rw [e2]
    simpa using ih

/-- the flat positions whose ordinal is `i` are the extent of row `i` -/
theorem ordinal_positions (lens : List Nat) (i : Nat) (hi : i < lens.length) :
    ((List.range (ordIndex 0 lens).length).filter fun p => (ordIndex 0 lens).getD p (.int 0) == Label.int (i : Int)) =
      List.range' (rowStart lens i) (lens.getD i 0) := by
  have hN : (ordIndex 0 lens).length = sumNat lens := ordIndex_length 0 lens
  let rblocks := Spec.splitBy lens (List.range (sumNat lens))
  have ⟨hflat, hlens⟩ := splitBy_flatten' lens (List.range (sumNat lens)) (by simp)
  have hmem := mem_ordRuns 0 rblocks i (by
    have := congrArg List.length hlens
    rw [List.length_map] at this
    rw [this]; exact hi)
  have hrun := valsOfLabel_run (ordRuns 0 rblocks) (ordRuns_keys_distinct 0 rblocks) _ _ hmem
  rw [runLabels_ordRuns, runVals_ordRuns, hlens, hflat] at hrun
  have h1 : (List.range (sumNat lens)).map (fun p => (ordIndex 0 lens).getD p (.int 0)) = ordIndex 0 lens := by
    rw [← hN]; exact range_getD_self _ _
  have hrun' : valsOfLabel (Label.int ((0 + i : Nat) : Int))
      ((List.range (sumNat lens)).map fun p => (ordIndex 0 lens).getD p (.int 0))
      ((List.range (sumNat lens)).map id) = rblocks.getD i [] := by
    rw [h1, List.map_id]; exact hrun
  rw [valsOfLabel_map, List.map_id] at hrun'
  simp only [Nat.zero_add] at hrun'
  rw [hN, hrun']
  have := splitBy_range' lens 0 i hi
  rw [← List.range_eq_range'] at this
  simpa using this

theorem flatten_getD_block {β : Type} (d : β) : ∀ (lists : List (List β)) (i q : Nat), q < (lists.getD i []).length →
    lists.flatten.getD (rowStart (lists.map List.length) i + q) d = (lists.getD i []).getD q d
  | [], i, q, h => by simp at h
  | l :: ls, 0, q, h => by
    have hq : q < l.length := by simpa using h
    simp [rowStart, sumNat, List.getD_eq_getElem?_getD, List.getElem?_append_left hq]
  | l :: ls, i + 1, q, h => by
    have ih := flatten_getD_block d ls i q (by simpa using h)
    have hs : rowStart ((l :: ls).map List.length) (i + 1) = l.length + rowStart (ls.map List.length) i := by
      simp [rowStart, sumNat_cons]
    rw [hs]
    simp only [List.flatten_cons, List.getD_eq_getElem?_getD] at ih ⊢
    rw [List.getElem?_append_right (by omega)]
    have e : l.length + rowStart (ls.map List.length) i + q - l.length = rowStart (ls.map List.length) i + q := by omega
    rw [e, ih]
    simp

end NP

namespace NP
variable {α : Type}

section
variable [Inhabited α]

/-- **`sort_values` on a nested layer permutes the records of every row, and only those.**
    In terms of each row's own records: row `i` of the result is missing when row `i` had no
    records, and otherwise is, for EVERY field at once, the old lists of row `i` read through one
    permutation `σ` of `0..len-1` (whole records move together; none lost, duplicated or taken
    from another row), and `σ` is ordered by the requested keys, directions and null placement. -/
theorem sortNested_permutes_rows (lt : α → α → Bool) (isNull : α → Bool) (F : NFrame α)
    (nest : String) (c : PCol α) (hc : F.nest? nest = .ok c) (hclean : c.Clean) (hch : c.chunks ≠ [])
    (hidx : F.index.length = c.len) (keys : List (String × Bool))
    (hkeys : ∀ k ∈ keys, c.ty.any (·.1 == k.1) = true) (naFirst : Bool)
    (hlt : KeysOrdered lt isNull (sortKeyCols (ordFlat (colLists c) (c.rows.map Row.len)) keys)) :
    let lens := c.rows.map Row.len
    let kcols := sortKeyCols (ordFlat (colLists c) lens) keys
    ∃ col : PCol α, F.sortNested lt isNull nest keys naFirst = .ok (F.setCol nest (.nest col)) ∧
      col.rows.length = F.index.length ∧
      ∀ i, i < F.index.length → ∃ σ : List Nat, σ.Perm (List.range (lens.getD i 0)) ∧
        col.rows.getD i none = (if lens.getD i 0 = 0 then none else
          some ((colLists c).map fun f => (f.1, σ.map fun q => (f.2.2.getD i []).getD q default))) ∧
        σ.Pairwise (fun q r => lexLe lt isNull naFirst
          (sortKeysAt kcols (rowStart lens i + q) (rowStart lens i + r)) = true) := by
  intro lens kcols
  obtain ⟨blocks, col, hok, hrows, hblens, hperm, hsorted, _⟩ :=
    sortNested_rows lt isNull F nest c hc hclean hch hidx keys hkeys naFirst hlt
  have hn : lens.length = F.index.length := by
    show (c.rows.map Row.len).length = _
    rw [List.length_map, PCol.rows_length, hidx]
  have hbl : blocks.length = lens.length := by
    have := congrArg List.length hblens
    rwa [List.length_map] at this
  refine ⟨col, hok, ?_, ?_⟩
  · rw [hrows]; unfold repackedRows; simp only [List.length_map, List.length_range]; rw [PCol.rows_length, hidx]
  · intro i hi
    have hi' : i < lens.length := by rw [hn]; exact hi
    let st := rowStart lens i
    let b := blocks.getD i []
    have hb : b.Perm (List.range' st (lens.getD i 0)) := by
      have := hperm i hi'
      rw [show (ordFlat (colLists c) lens).index = ordIndex 0 lens from rfl, ordinal_positions lens i hi'] at this
      exact this
    have hbmem : ∀ p ∈ b, st ≤ p ∧ p < st + lens.getD i 0 := by
      intro p hp
      have := hb.mem_iff.mp hp
      rw [List.mem_range'_1] at this
      exact this
    refine ⟨b.map (· - st), ?_, ?_, ?_⟩
    · have := hb.map (· - st)
      rw [List.map_sub_range' (Nat.le_refl st), Nat.sub_self, ← List.range_eq_range'] at this
      exact this
    · rw [hrows]
      unfold repackedRows
      rw [List.getD_eq_getElem?_getD, List.getElem?_map, List.getElem?_range hi']
      simp only [Option.map_some, Option.getD_some]
      split
      · rfl
      · simp only [Option.some.injEq, List.map_map]
        apply List.map_congr_left
        intro f hf
        simp only [Function.comp, Prod.mk.injEq, true_and]
        have hflen : f.2.2.map List.length = lens := colLists_lengths c hclean f hf
        have hfi : (f.2.2.getD i []).length = lens.getD i 0 := by
          rw [← hflen]
          simp [List.getD_eq_getElem?_getD, List.getElem?_map]
          cases f.2.2[i]? <;> rfl
        rw [List.getD_eq_getElem?_getD, List.getElem?_map]
        have hbi : blocks[i]? = some b := by
          rw [List.getElem?_eq_getElem (by rw [hbl]; exact hi')]
          simp [b, List.getD_eq_getElem?_getD, List.getElem?_eq_getElem (show i < blocks.length by rw [hbl]; exact hi')]
        rw [hbi]
        simp only [Option.map_some, Option.getD_some, List.map_map]
        apply List.map_congr_left
        intro p hp
        have ⟨h1, h2⟩ := hbmem p hp
        simp only [Function.comp]
        have := flatten_getD_block (default : α) f.2.2 i (p - st) (by rw [hfi]; omega)
        rw [hflen] at this
        have e : rowStart lens i + (p - st) = p := by show st + (p - st) = p; omega
        rw [e] at this
        exact this
    · rw [List.pairwise_map]
      have hs := hsorted b (by
        have hbi : i < blocks.length := by rw [hbl]; exact hi'
        have : b = blocks[i] := by simp [b, List.getD_eq_getElem?_getD, List.getElem?_eq_getElem hbi]
        rw [this]; exact List.getElem_mem hbi)
      rw [List.pairwise_iff_forall_sublist] at hs ⊢
      intro p q hpq
      have hp : p ∈ b := hpq.subset (by simp)
      have hq : q ∈ b := hpq.subset (by simp)
      have ⟨hp1, _⟩ := hbmem p hp
      have ⟨hq1, _⟩ := hbmem q hq
      have e1 : rowStart lens i + (p - st) = p := by show st + (p - st) = p; omega
      have e2 : rowStart lens i + (q - st) = q := by show st + (q - st) = q; omega
      rw [e1, e2]
      exact hs hpq

end

end NP
