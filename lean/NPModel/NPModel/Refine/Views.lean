/-
  NPModel.Refine.Views — the summary and flat views of a chunk agree with its element view (C03),
  under the invariants validated storage has (well-formed, null ⇒ empty extent, aligned fields)
  and the absence of hidden child lists under missing rows.
-/
import NPModel.Refine.Aligned
namespace NP
variable {α : Type}

/-- no hidden child lists: under a missing row every field's list reads as empty -/
def PStruct.noHidden (s : PStruct α) : Prop :=
  ∀ i, i < s.len → s.valid.getD i false = false → ∀ k ∈ s.kids, len0 (k.list.rows.getD i none) = 0

theorem sumNat_append (a b : List Nat) : sumNat (a ++ b) = sumNat a + sumNat b := by
  induction a with
  | nil => simp [sumNat]
  | cons x a ih => simp only [List.cons_append, sumNat, List.foldr_cons] at *; omega

/-- the last offset is the first plus the sum of the differences -/
theorem last_eq_head_add_sum (offs : List Nat) (hm : monotone offs = true) (hne : offs ≠ []) :
    offs.getLast?.getD 0 = offs.headD 0 + sumNat (diffs offs) := by
  induction offs with
  | nil => exact absurd rfl hne
  | cons a rest ih =>
    cases rest with
    | nil => simp [sumNat]
    | cons b rest =>
      simp only [monotone_cons₂, Bool.and_eq_true, decide_eq_true_eq] at hm
      have := ih hm.2 (by simp)
      simp only [List.getLast?_cons_cons, List.headD_cons, diffs_cons₂] at this ⊢
      rw [this]
      have e : sumNat ((b - a) :: diffs (b :: rest)) = (b - a) + sumNat (diffs (b :: rest)) := rfl
      rw [e]
      omega

theorem PList.windowVals_length (l : PList α) (hw : l.WF = true) :
    l.windowVals.length = sumNat (diffs l.offs) := by
  have ⟨h1, hm, hl⟩ := PList.WF_parts hw
  have hne : l.offs ≠ [] := by
    intro h; rw [h] at h1; simp at h1
  have hlast := last_eq_head_add_sum l.offs hm hne
  unfold PList.windowVals
  rw [List.length_take, List.length_drop]
  omega

theorem rebased_last (offs : List Nat) (hm : monotone offs = true) (hne : offs ≠ []) :
    (rebased offs).getLast?.getD 0 = sumNat (diffs offs) := by
  have hm' : monotone (rebased offs) = true := by
    unfold rebased
    -- subtracting a constant below every element keeps the order
    have hge := monotone_head_le hm
    generalize offs.headD 0 = h at hge
    induction offs with
    | nil => rfl
    | cons a rest ih =>
      cases rest with
      | nil => rfl
      | cons b rest =>
        simp only [monotone_cons₂, Bool.and_eq_true, decide_eq_true_eq] at hm
        have := ih hm.2 (by simp) (fun x hx => hge x (List.mem_cons_of_mem _ hx))
        simp only [List.map_cons, monotone_cons₂, Bool.and_eq_true, decide_eq_true_eq] at this ⊢
        exact ⟨by omega, this⟩
  have hne' : rebased offs ≠ [] := by unfold rebased; simpa using hne
  have := last_eq_head_add_sum (rebased offs) hm' hne'
  rw [this, diffs_rebased hm]
  have hh : (rebased offs).headD 0 = 0 := by
    unfold rebased
    cases offs with
    | nil => exact absurd rfl hne
    | cons a rest => simp
  omega

/-- **The list-struct transposition of validated storage succeeds** and its offsets are the
    re-based offsets of the first field. -/
theorem transposeSL_ok (s : PStruct α) (hw : s.WF = true) (hne : s.nullEmpty = true) (ha : s.aligned)
    (k0 : PField α) (ks : List (PField α)) (hk : s.kids = k0 :: ks) :
    transposeSL s false = .ok { offs := rebased k0.list.offs
                                valid := List.replicate ((rebased k0.list.offs).length - 1) true
                                fields := s.kids.map fun k' => (k'.name, k'.ty, k'.list.windowVals) } := by
  have hm0 : k0 ∈ s.kids := by rw [hk]; exact List.mem_cons_self
  have ⟨hw0, _⟩ := PStruct.WF_kid hw hm0
  have ⟨h10, hmon0, _⟩ := PList.WF_parts hw0
  have hne0 : k0.list.offs ≠ [] := by intro h; rw [h] at h10; simp at h10
  have hlens : ∀ k ∈ s.kids, k.list.windowVals.length = k0.list.windowVals.length := by
    intro k hkm
    have ⟨hwk, _⟩ := PStruct.WF_kid hw hkm
    rw [PList.windowVals_length _ hwk, PList.windowVals_length _ hw0,
        ← PList.lens_eq_diffs _ hwk ((List.all_eq_true.mp hne) k hkm),
        ← PList.lens_eq_diffs _ hw0 ((List.all_eq_true.mp hne) k0 hm0), ha k hkm k0 hm0]
  unfold transposeSL
  simp only [Bool.false_eq_true, if_false, hk, pure, Except.pure, bind, Except.bind]
  have c1 : ks.all (fun k' => decide (k'.list.windowVals.length = k0.list.windowVals.length)) = true := by
    rw [List.all_eq_true]
    intro k' hk'
    simpa using hlens k' (by rw [hk]; exact List.mem_cons_of_mem _ hk')
  have c2 : (rebased k0.list.offs).getLast?.getD 0 ≤ k0.list.windowVals.length := by
    rw [rebased_last _ hmon0 hne0, PList.windowVals_length _ hw0]
    exact Nat.le_refl _
  simp only [c1, if_true, c2]

end NP

namespace NP
variable {α : Type}

/-- **Per-row lengths** (`list_lengths`, `diff(list_offsets)`) are the lengths of the rows of the
    element view: a missing row counts zero (no hidden lists), an empty row counts zero and is
    not missing. -/
theorem chunk_lengths_are_row_lens (s : PStruct α) (hw : s.WF = true) (hne : s.nullEmpty = true)
    (hh : s.noHidden) (k0 : PField α) (ks : List (PField α)) (hk : s.kids = k0 :: ks) :
    diffs (rebased k0.list.offs) = s.rows.map Row.len := by
  have hm0 : k0 ∈ s.kids := by rw [hk]; exact List.mem_cons_self
  have ⟨hw0, hl0⟩ := PStruct.WF_kid hw hm0
  have ⟨h10, hmon0, _⟩ := PList.WF_parts hw0
  rw [diffs_rebased hmon0, ← PList.lens_eq_diffs _ hw0 ((List.all_eq_true.mp hne) k0 hm0)]
  have hrl : k0.list.rows.length = s.len := PStruct.kid_rows_length hw hm0
  apply List.ext_getElem?
  intro i
  simp only [List.getElem?_map, PStruct.rows]
  by_cases hi : i < s.len
  · rw [List.getElem?_eq_getElem (by omega : i < k0.list.rows.length), List.getElem?_range hi]
    simp only [Option.map_some, Option.some.injEq]
    have hg : k0.list.rows.getD i none = k0.list.rows[i]'(by omega) := by
      simp [List.getD_eq_getElem?_getD, List.getElem?_eq_getElem (by omega : i < k0.list.rows.length)]
    unfold PStruct.rowAt
    cases hv : s.valid.getD i false with
    | true =>
      simp only [if_true, hk, List.map_cons, Row.len]
      rw [hg]; rfl
    | false =>
      simp only [Bool.false_eq_true, if_false, Row.len]
      have := hh i hi hv k0 hm0
      rw [hg] at this
      exact this
  · have e1 : k0.list.rows[i]? = none := List.getElem?_eq_none (by omega)
    have e2 : (List.range s.len)[i]? = none := List.getElem?_eq_none (by simpa using Nat.le_of_not_lt hi)
    simp [e1, e2]

/-- **Flat view of one field** (`to_flat`, `get_flat_series`: `field(f).flatten()`) is the
    concatenation of the field's lists over the rows of the element view, a missing row
    contributing nothing. -/
theorem chunk_flat_is_concat_of_rows (s : PStruct α) (hw : s.WF = true) (hh : s.noHidden)
    (f : String) (k : PField α) (hk : s.kid? f = some k) :
    k.list.flatten = Spec.flatField s.rows f := by
  have hmem : k ∈ s.kids := List.mem_of_find?_eq_some hk
  have hname : (k.name == f) = true := by
    have := List.find?_some hk
    simpa using this
  have hrl : k.list.rows.length = s.len := PStruct.kid_rows_length hw hmem
  unfold PList.flatten Spec.flatField Spec.fieldLists PStruct.rows
  congr 1
  apply List.ext_getElem?
  intro i
  simp only [List.getElem?_map, List.map_map]
  by_cases hi : i < s.len
  · rw [List.getElem?_eq_getElem (by omega : i < k.list.rows.length), List.getElem?_range hi]
    simp only [Option.map_some, Option.some.injEq, Function.comp]
    have hg : k.list.rows.getD i none = k.list.rows[i]'(by omega) := by
      simp [List.getD_eq_getElem?_getD, List.getElem?_eq_getElem (by omega : i < k.list.rows.length)]
    unfold PStruct.rowAt
    cases hv : s.valid.getD i false with
    | true =>
      simp only [if_true]
      rw [List.find?_map]
      have : ((fun p : String × List α => p.1 == f) ∘ fun k : PField α => (k.name, (k.list.rows.getD i none).getD []))
          = fun k : PField α => k.name == f := by funext x; rfl
      unfold PStruct.kid? at hk
      rw [this, hk]
      simp [List.getElem?_eq_getElem (by omega : i < k.list.rows.length)]
    | false =>
      simp only [Bool.false_eq_true, if_false]
      have h0 := hh i hi hv k hmem
      rw [hg] at h0
      unfold len0 at h0
      exact List.eq_nil_of_length_eq_zero h0
  · have e1 : k.list.rows[i]? = none := List.getElem?_eq_none (by omega)
    have e2 : (List.range s.len)[i]? = none := List.getElem?_eq_none (by simpa using Nat.le_of_not_lt hi)
    simp [e1, e2]

end NP
