/-
  NPModel.Refine.Observers — the column-level observers of the implementation model
  (`list_lengths`, `flat_length`, `get_list_index`, `list_offsets`, `get_flat_index`, the flat
  values of a field) are the corresponding functions of the column's rows, on validated storage
  whose missing rows store nothing — any number of chunks, any slice offsets (C03).
-/
import NPModel.Refine.Views
import NPModel.Refine.SetItem
import NPModel.Refine.RoundTrip
namespace NP
variable {α : Type}

/-- the storage invariants the observers rely on, chunk by chunk -/
structure PCol.Clean (c : PCol α) : Prop where
  wf : c.WF = true
  nullEmpty : ∀ s ∈ c.chunks, s.nullEmpty = true
  validated : c.validate = .ok ()
  noHidden : ∀ s ∈ c.chunks, s.noHidden
  fields : c.ty ≠ []

theorem PCol.Clean.kids_ne (c : PCol α) (h : c.Clean) : ∀ s ∈ c.chunks, ∃ k0 ks, s.kids = k0 :: ks := by
  intro s hs
  have ⟨_, hty⟩ := PCol.chunk_facts c h.wf s hs
  cases hk : s.kids with
  | nil =>
    have : s.ty = [] := by simp [PStruct.ty, hk]
    rw [hty] at this
    exact absurd this h.fields
  | cons k0 ks => exact ⟨k0, ks, rfl⟩

/-- `_list_array` succeeds chunk by chunk; the offsets of chunk `s` are its first field's, re-based -/
theorem listArray_ok (c : PCol α) (h : c.Clean) :
    ∃ ls, NArr.listArray c = .ok ls ∧
      ls.flatMap (fun l => diffs l.offs) = c.rows.map Row.len := by
  unfold NArr.listArray PCol.rows
  have hal := PCol.aligned_of_validate c h.wf h.nullEmpty h.validated
  have key : ∀ (chunks : List (PStruct α)), (∀ s ∈ chunks, s ∈ c.chunks) →
      ∃ ls, chunks.mapM (fun s => transposeSL s false) = .ok ls ∧
        ls.flatMap (fun l => diffs l.offs) = (chunks.flatMap PStruct.rows).map Row.len := by
    intro chunks
    induction chunks with
    | nil => intro _; exact ⟨[], rfl, rfl⟩
    | cons s rest ih =>
      intro hsub
      have hs : s ∈ c.chunks := hsub s List.mem_cons_self
      obtain ⟨ls, hls, hd⟩ := ih (fun s' hs' => hsub s' (List.mem_cons_of_mem _ hs'))
      obtain ⟨k0, ks, hk⟩ := PCol.Clean.kids_ne c h s hs
      have ⟨hws, _⟩ := PCol.chunk_facts c h.wf s hs
      have hts := transposeSL_ok s hws (h.nullEmpty s hs) (hal s hs) k0 ks hk
      refine ⟨({ offs := rebased k0.list.offs, valid := List.replicate ((rebased k0.list.offs).length - 1) true,
                 fields := s.kids.map fun k' => (k'.name, k'.ty, k'.list.windowVals) } : PLS α) :: ls, ?_, ?_⟩
      · rw [List.mapM_cons, hts]
        simp only [bind, Except.bind, hls, pure, Except.pure]
      · simp only [List.flatMap_cons, List.map_append, hd]
        congr 1
        exact chunk_lengths_are_row_lens s hws (h.nullEmpty s hs) (h.noHidden s hs) k0 ks hk
  exact key c.chunks (fun s hs => hs)

/-- **`list_lengths`** are the lengths of the rows (missing and empty rows count zero). -/
theorem listLengths_refines (c : PCol α) (h : c.Clean) : NArr.listLengths c = .ok (c.rows.map Row.len) := by
  obtain ⟨ls, hls, hd⟩ := listArray_ok c h
  unfold NArr.listLengths
  simp only [hls, bind, Except.bind, pure, Except.pure, hd]

/-- **`flat_length`** is the total number of records. -/
theorem flatLength_refines (c : PCol α) (h : c.Clean) : NArr.flatLength c = .ok (Spec.flatLength c.rows) := by
  unfold NArr.flatLength
  simp only [listLengths_refines c h, bind, Except.bind, pure, Except.pure]
  rfl

/-- **`get_list_index`**: every record carries the ordinal of its row. -/
theorem getListIndex_refines (c : PCol α) (h : c.Clean) : NArr.getListIndex c = .ok (Spec.listIndex c.rows) := by
  unfold NArr.getListIndex Spec.listIndex Spec.lens
  rw [PCol.rows_length]
  by_cases h0 : c.len = 0
  · simp only [h0, if_true, pure, Except.pure]
    have : c.rows = [] := List.length_eq_zero_iff.mp (by rw [PCol.rows_length]; exact h0)
    rw [this]; rfl
  · simp only [h0, if_false, listLengths_refines c h, bind, Except.bind, pure, Except.pure]

/-- a monotone offsets list that starts at 0 is the cumulative sum of its differences -/
theorem offsets_eq_cumsum : ∀ (offs : List Nat), offs ≠ [] → monotone offs = true →
    offs = offsetsFrom (offs.headD 0) (diffs offs)
  | [], h, _ => absurd rfl h
  | [a], _, _ => rfl
  | a :: b :: rest, _, hm => by
    simp only [monotone, Bool.and_eq_true, decide_eq_true_eq] at hm
    simp only [diffs, offsetsFrom_cons, List.headD_cons]
    congr 1
    have ih := offsets_eq_cumsum (b :: rest) (by simp) hm.2
    simp only [List.headD_cons] at ih
    have e : a + (b - a) = b := by omega
    rw [e]
    exact ih

theorem monotone_map_sub (h : Nat) : ∀ (offs : List Nat), monotone offs = true → (∀ x ∈ offs, h ≤ x) →
    monotone (offs.map (· - h)) = true
  | [], _, _ => rfl
  | [_], _, _ => rfl
  | a :: b :: rest, hm, hge => by
    simp only [monotone, Bool.and_eq_true, decide_eq_true_eq] at hm
    simp only [List.map_cons, monotone, Bool.and_eq_true, decide_eq_true_eq]
    have ha := hge a List.mem_cons_self
    have hb := hge b (List.mem_cons_of_mem _ List.mem_cons_self)
    refine ⟨by omega, ?_⟩
    have := monotone_map_sub h (b :: rest) hm.2 (fun x hx => hge x (List.mem_cons_of_mem _ hx))
    simpa using this

theorem monotone_rebased (offs : List Nat) (hm : monotone offs = true) : monotone (rebased offs) = true :=
  monotone_map_sub _ offs hm (monotone_head_le hm)

/-- **`list_offsets`** (both the single-chunk and the multi-chunk path) are the cumulative row
    lengths from 0. -/
theorem listOffsets_refines (c : PCol α) (h : c.Clean) :
    NArr.listOffsets c = .ok (offsetsFrom 0 (c.rows.map Row.len)) := by
  unfold NArr.listOffsets
  have hmulti : (do pure (offsetsFrom 0 (← NArr.listLengths c)) : R (List Nat)) =
      .ok (offsetsFrom 0 (c.rows.map Row.len)) := by
    simp only [listLengths_refines c h, bind, Except.bind, pure, Except.pure]
  cases hc : c.chunks with
  | nil => exact hmulti
  | cons s rest =>
    cases rest with
    | cons s' rest' => exact hmulti
    | nil =>
      have hs : s ∈ c.chunks := by rw [hc]; exact List.mem_cons_self
      obtain ⟨k0, ks, hk⟩ := PCol.Clean.kids_ne c h s hs
      have ⟨hws, _⟩ := PCol.chunk_facts c h.wf s hs
      simp only [hk, pure, Except.pure]
      have hm0 : k0 ∈ s.kids := by rw [hk]; exact List.mem_cons_self
      have ⟨hw0, _⟩ := PStruct.WF_kid hws hm0
      have ⟨h10, hmon0, _⟩ := PList.WF_parts hw0
      have hne0 : k0.list.offs ≠ [] := by intro e; rw [e] at h10; simp at h10
      have hrne : rebased k0.list.offs ≠ [] := by unfold rebased; simpa using hne0
      have hmon' : monotone (rebased k0.list.offs) = true := monotone_rebased k0.list.offs hmon0
      have hhead : (rebased k0.list.offs).headD 0 = 0 := by
        unfold rebased
        cases k0.list.offs with
        | nil => rfl
        | cons a rest => simp
      have e := offsets_eq_cumsum (rebased k0.list.offs) hrne hmon'
      rw [hhead] at e
      rw [e, chunk_lengths_are_row_lens s hws (h.nullEmpty s hs) (h.noHidden s hs) k0 ks hk]
      simp [PCol.rows, hc]

/-- **`get_flat_index`**: the row's label, once per record. -/
theorem getFlatIndex_refines (index : List Label) (c : PCol α) (h : c.Clean) :
    NSeries.getFlatIndex { index := index, col := c } = .ok (Spec.flatIndex index c.rows) := by
  unfold NSeries.getFlatIndex Spec.flatIndex Spec.lens
  simp only [listOffsets_refines c h, bind, Except.bind, pure, Except.pure, diffs_offsetsFrom]

theorem flatField_append (r₁ r₂ : List (Row α)) (f : String) :
    Spec.flatField (r₁ ++ r₂) f = Spec.flatField r₁ f ++ Spec.flatField r₂ f := by
  simp [Spec.flatField, Spec.fieldLists]

/-- **The flat values of a field** (`to_flat`, `get_flat_series`) are the concatenation of the
    field's lists over the rows; a missing row contributes nothing. -/
theorem flatField_refines (c : PCol α) (h : c.Clean) (f : String) (hf : c.ty.any (·.1 == f) = true) :
    NArr.flatField c f = .ok (Spec.flatField c.rows f) := by
  unfold NArr.flatField PCol.rows
  have key : ∀ (chunks : List (PStruct α)), (∀ s ∈ chunks, s ∈ c.chunks) →
      ∃ per, chunks.mapM (flatOfChunk f) = .ok per ∧ per.flatten = Spec.flatField (chunks.flatMap PStruct.rows) f := by
    intro chunks
    induction chunks with
    | nil => intro _; exact ⟨[], rfl, rfl⟩
    | cons s rest ih =>
      intro hsub
      have hs : s ∈ c.chunks := hsub s List.mem_cons_self
      obtain ⟨per, hper, hflat⟩ := ih (fun s' hs' => hsub s' (List.mem_cons_of_mem _ hs'))
      have ⟨hws, hty⟩ := PCol.chunk_facts c h.wf s hs
      -- the chunk has the field
      have hkid : ∃ k, s.kid? f = some k := by
        unfold PStruct.kid?
        have : s.kids.any (·.name == f) = true := by
          have := hf
          rw [← hty] at this
          simpa [PStruct.ty, List.any_map, Function.comp] using this
        rw [List.any_eq_true] at this
        obtain ⟨k, hk, hn⟩ := this
        cases hfind : s.kids.find? (·.name == f) with
        | none =>
          rw [List.find?_eq_none] at hfind
          exact absurd hn (by simpa using hfind k hk)
        | some k' => exact ⟨k', rfl⟩
      obtain ⟨k, hk⟩ := hkid
      refine ⟨k.list.flatten :: per, ?_, ?_⟩
      · rw [List.mapM_cons]
        simp only [flatOfChunk, hk, bind, Except.bind, pure, Except.pure, hper]
      · simp only [List.flatten_cons, List.flatMap_cons, flatField_append, hflat]
        congr 1
        exact chunk_flat_is_concat_of_rows s hws (h.noHidden s hs) f k hk
  obtain ⟨per, hper, hflat⟩ := key c.chunks (fun s hs => hs)
  simp only [hper, bind, Except.bind, pure, Except.pure, hflat]


/-! ### `to_flat` -/

theorem repeatEach_length {β : Type} : ∀ (xs : List β) (cs : List Nat), xs.length = cs.length →
    (repeatEach xs cs).length = sumNat cs
  | [], [], _ => rfl
  | [], _ :: _, h => by simp at h
  | _ :: _, [], h => by simp at h
  | x :: xs, c :: cs, h => by
    simp only [repeatEach, List.length_append, List.length_replicate, sumNat_cons,
      repeatEach_length xs cs (by simpa using h)]

theorem length_flatten_sumNat' (ls : List (List α)) : ls.flatten.length = sumNat (ls.map List.length) := by
  induction ls with
  | nil => rfl
  | cons l ls ih => simp [sumNat, ih] at *

/-- every present row of the column has the dtype's field names -/
theorem PCol.row_names (c : PCol α) (hw : c.WF = true) : ∀ r ∈ c.rows, ∀ t, r = some t → t.map (·.1) = c.ty.map (·.1) := by
  intro r hr t ht
  unfold PCol.rows at hr
  rw [List.mem_flatMap] at hr
  obtain ⟨s, hs, hrs⟩ := hr
  have ⟨_, hty⟩ := PCol.chunk_facts c hw s hs
  unfold PStruct.rows at hrs
  rw [List.mem_map] at hrs
  obtain ⟨i, _, rfl⟩ := hrs
  rw [PStruct.rowAt_eq] at ht
  split at ht
  · simp only [Option.some.injEq] at ht
    subst ht
    rw [← PStruct.names_of_ty hty]
    simp [rowOfKids, Function.comp]
  · cases ht

/-- in a rectangular row every field has the row's number of records -/
theorem field_length_eq_row_len (t : Table α) (f : String) (hr : Table.rect t = true) (hf : t.any (·.1 == f) = true) :
    (((t.find? (·.1 == f)).map (·.2)).getD []).length = Row.len (some t) := by
  cases t with
  | nil => simp at hf
  | cons p rest =>
    obtain ⟨n, l⟩ := p
    simp only [Row.len]
    simp only [List.find?_cons]
    by_cases hn : (n == f) = true
    · simp [hn]
    · have hn' : (n == f) = false := by simpa using hn
      simp only [hn', Bool.false_eq_true]
      simp only [List.any_cons, hn', Bool.false_or] at hf
      rw [List.any_eq_true] at hf
      obtain ⟨q, hq, hqf⟩ := hf
      cases hfind : rest.find? (·.1 == f) with
      | none =>
        rw [List.find?_eq_none] at hfind
        exact absurd hqf (by simpa using hfind q hq)
      | some q' =>
        simp only [Option.map_some, Option.getD_some]
        have hq'm := List.mem_of_find?_eq_some hfind
        simp only [Table.rect, List.all_eq_true, decide_eq_true_eq] at hr
        exact hr q' hq'm

theorem flatField_length (c : PCol α) (h : c.Clean) (f : String) (hf : c.ty.any (·.1 == f) = true) :
    (Spec.flatField c.rows f).length = sumNat (c.rows.map Row.len) := by
  have hrect := PCol.validate_rect c h.wf h.nullEmpty h.validated
  unfold Spec.flatField
  rw [length_flatten_sumNat']
  congr 1
  unfold Spec.fieldLists
  rw [List.map_map]
  apply List.map_congr_left
  intro r hr
  cases hrt : r with
  | none => rfl
  | some t =>
    simp only [Function.comp]
    have hn := PCol.row_names c h.wf r hr t hrt
    have hrr : Row.rect r = true := (List.all_eq_true.mp hrect) r hr
    rw [hrt] at hrr
    apply field_length_eq_row_len t f hrr
    have : (t.map (·.1)).any (· == f) = true := by
      rw [hn]; simpa [List.any_map, Function.comp] using hf
    simpa [List.any_map, Function.comp] using this

/-- **`to_flat()`** of a series (all fields) is the flat table of the rows: the flat index repeats
    every label once per record, every column is the concatenation of the field's lists. -/
theorem toFlat_refines (index : List Label) (c : PCol α) (h : c.Clean) (hch : c.chunks ≠ [])
    (hidx : index.length = c.len) :
    NSeries.toFlat { index := index, col := c } none = Spec.toFlat index c.abs none := by
  unfold Spec.toFlat PCol.abs
  simp only [Option.getD_none]
  unfold NSeries.toFlat
  obtain ⟨s0, rest, hc⟩ : ∃ s0 rest, c.chunks = s0 :: rest := by
    cases hc : c.chunks with
    | nil => exact absurd hc hch
    | cons s0 rest => exact ⟨s0, rest, rfl⟩
  have ⟨_, hty0⟩ := PCol.chunk_facts c h.wf s0 (by rw [hc]; exact List.mem_cons_self)
  have hnames : NArr.fieldNames c = .ok (c.ty.map (·.1)) := by
    unfold NArr.fieldNames
    simp only [hc, pure, Except.pure]
    rw [PStruct.names_of_ty hty0]
  have hne : (c.ty.map (·.1)).isEmpty = false := by
    cases hty : c.ty with
    | nil => exact absurd hty h.fields
    | cons _ _ => rfl
  simp only [hnames, bind, Except.bind, pure, Except.pure, hne, Bool.false_eq_true, if_false,
    getFlatIndex_refines index c h]
  have hil : (Spec.flatIndex index c.rows).length = sumNat (c.rows.map Row.len) := by
    unfold Spec.flatIndex Spec.lens
    rw [repeatEach_length _ _ (by rw [List.length_map, PCol.rows_length, hidx])]
  have hmap := mapM_ok_of_forall
    (fun f => (do
      let v ← NArr.flatField c f
      if v.length ≠ (Spec.flatIndex index c.rows).length then throw .valueError
      pure (f, tyOf c f, v) : R (String × String × List α)))
    (fun f => (f, tyOf c f, Spec.flatField c.rows f))
    (c.ty.map (·.1)) (by
      intro f hf
      have hany : c.ty.any (·.1 == f) = true := by
        rw [List.mem_map] at hf
        obtain ⟨p, hp, rfl⟩ := hf
        rw [List.any_eq_true]
        exact ⟨p, hp, by simp⟩
      simp only [flatField_refines c h f hany, bind, Except.bind, pure, Except.pure,
        flatField_length c h f hany, hil, ne_eq, not_true_eq_false, if_false])
  simp only [bind, Except.bind, pure, Except.pure] at hmap
  rw [hmap]
  have hall : (c.ty.map (·.1)).all (fun f => c.ty.any (·.1 == f)) = true := by
    rw [List.all_eq_true]
    intro f hf
    rw [List.mem_map] at hf
    obtain ⟨p, hp, rfl⟩ := hf
    rw [List.any_eq_true]
    exact ⟨p, hp, by simp⟩
  simp only [hne, Bool.false_eq_true, if_false, hall, not_true_eq_false, pure, Except.pure]
  rfl


/-! ### `iter_field_lists` (what `reduce` iterates over) -/

/-- in a chunk, the field's lists row by row (a null list reading as no elements) are the field's
    lists in the element view; a missing row contributes an empty list -/
theorem chunk_field_lists (s : PStruct α) (hw : s.WF = true) (hh : s.noHidden)
    (f : String) (k : PField α) (hk : s.kid? f = some k) :
    k.list.rows.map (fun r => r.getD []) = Spec.fieldLists s.rows f := by
  have hmem : k ∈ s.kids := List.mem_of_find?_eq_some hk
  have hrl : k.list.rows.length = s.len := PStruct.kid_rows_length hw hmem
  unfold Spec.fieldLists PStruct.rows
  apply List.ext_getElem?
  intro i
  simp only [List.getElem?_map, List.map_map]
  by_cases hi : i < s.len
  · rw [List.getElem?_eq_getElem (by omega : i < k.list.rows.length), List.getElem?_range hi]
    simp only [Option.map_some, Option.some.injEq, Function.comp]
    have hg : k.list.rows.getD i none = k.list.rows[i]'(by omega) := by
      simp [List.getD_eq_getElem?_getD, List.getElem?_eq_getElem (by omega : i < k.list.rows.length)]
    unfold PStruct.rowAt
    cases hv : s.valid.getD i false with
    | true =>
      simp only [if_true]
      rw [List.find?_map]
      have : ((fun p : String × List α => p.1 == f) ∘ fun k : PField α => (k.name, (k.list.rows.getD i none).getD []))
          = fun k : PField α => k.name == f := by funext x; rfl
      unfold PStruct.kid? at hk
      rw [this, hk]
      simp [List.getElem?_eq_getElem (by omega : i < k.list.rows.length)]
    | false =>
      simp only [Bool.false_eq_true, if_false]
      have h0 := hh i hi hv k hmem
      rw [hg] at h0
      unfold len0 at h0
      exact List.eq_nil_of_length_eq_zero h0
  · have e1 : k.list.rows[i]? = none := List.getElem?_eq_none (by omega)
    have e2 : (List.range s.len)[i]? = none := List.getElem?_eq_none (by simpa using Nat.le_of_not_lt hi)
    simp [e1, e2]

theorem fieldLists_append (r₁ r₂ : List (Row α)) (f : String) :
    Spec.fieldLists (r₁ ++ r₂) f = Spec.fieldLists r₁ f ++ Spec.fieldLists r₂ f := by
  simp [Spec.fieldLists]

/-- **`iter_field_lists(f)`** yields, row by row over all chunks, the list field `f` has in that
    row of the element view (no elements for a missing row). -/
theorem iterFieldLists_refines (c : PCol α) (h : c.Clean) (f : String) (hf : c.ty.any (·.1 == f) = true) :
    ∃ ls, NArr.iterFieldLists c f = .ok ls ∧ ls.map (fun r => r.getD []) = Spec.fieldLists c.rows f ∧
      ls.length = c.len := by
  unfold NArr.iterFieldLists PCol.rows
  have key : ∀ (chunks : List (PStruct α)), (∀ s ∈ chunks, s ∈ c.chunks) →
      ∃ per, chunks.mapM (iterOfChunk f) = .ok per ∧
        per.flatten.map (fun r => r.getD []) = Spec.fieldLists (chunks.flatMap PStruct.rows) f ∧
        per.flatten.length = sumNat (chunks.map PStruct.len) := by
    intro chunks
    induction chunks with
    | nil => intro _; exact ⟨[], rfl, rfl, rfl⟩
    | cons s rest ih =>
      intro hsub
      have hs : s ∈ c.chunks := hsub s List.mem_cons_self
      obtain ⟨per, hper, hflat, hlen⟩ := ih (fun s' hs' => hsub s' (List.mem_cons_of_mem _ hs'))
      have ⟨hws, hty⟩ := PCol.chunk_facts c h.wf s hs
      have hkid : ∃ k, s.kid? f = some k := by
        unfold PStruct.kid?
        have : s.kids.any (·.name == f) = true := by
          have := hf
          rw [← hty] at this
          simpa [PStruct.ty, List.any_map, Function.comp] using this
        rw [List.any_eq_true] at this
        obtain ⟨k, hk, hn⟩ := this
        cases hfind : s.kids.find? (·.name == f) with
        | none =>
          rw [List.find?_eq_none] at hfind
          exact absurd hn (by simpa using hfind k hk)
        | some k' => exact ⟨k', rfl⟩
      obtain ⟨k, hk⟩ := hkid
      have hmem : k ∈ s.kids := List.mem_of_find?_eq_some hk
      refine ⟨k.list.rows :: per, ?_, ?_, ?_⟩
      · rw [List.mapM_cons]
        simp only [iterOfChunk, hk, bind, Except.bind, pure, Except.pure, hper]
      · simp only [List.flatten_cons, List.map_append, List.flatMap_cons, fieldLists_append, hflat]
        congr 1
        exact chunk_field_lists s hws (h.noHidden s hs) f k hk
      · simp only [List.flatten_cons, List.length_append, List.map_cons, sumNat_cons, hlen,
          PStruct.kid_rows_length hws hmem]
  obtain ⟨per, hper, hflat, hlen⟩ := key c.chunks (fun s hs => hs)
  refine ⟨per.flatten, ?_, hflat, ?_⟩
  · simp only [hper, bind, Except.bind, pure, Except.pure]
  · rw [hlen]; rfl

end NP
