/-
  NPModel.Refine.Validate — the equal-lengths validator (series/utils.py) is sound:
  what it accepts is rectangular.  Helper lemmas.
-/
import NPModel.Refine.Struct
namespace NP
variable {α : Type}

/-- every null list has an empty extent (true of all arrays pyarrow kernels and `pa.array` build) -/
def PList.nullEmpty (l : PList α) : Bool :=
  (List.zip l.valid (diffs l.offs)).all fun p => p.1 || p.2 == 0

def PStruct.nullEmpty (s : PStruct α) : Bool := s.kids.all fun k => k.list.nullEmpty

/-- all offsets of a monotone list are at least the first one -/
theorem monotone_head_le {offs : List Nat} (hm : monotone offs = true) : ∀ x ∈ offs, offs.headD 0 ≤ x := by
  induction offs with
  | nil => intro x hx; cases hx
  | cons a rest ih =>
    cases rest with
    | nil => intro x hx; simp at hx; simp [hx]
    | cons b rest =>
      simp at hm
      intro x hx
      rcases List.mem_cons.mp hx with rfl | hx
      · simp
      · have := ih hm.2 x hx
        simp at this ⊢
        omega

theorem diffs_map_sub (offs : List Nat) (h : Nat) (hh : ∀ x ∈ offs, h ≤ x) :
    diffs (offs.map (· - h)) = diffs offs := by
  induction offs with
  | nil => rfl
  | cons a rest ih =>
    cases rest with
    | nil => rfl
    | cons b rest =>
      have ha := hh a List.mem_cons_self
      have hb := hh b (List.mem_cons_of_mem _ List.mem_cons_self)
      have := ih (fun x hx => hh x (List.mem_cons_of_mem _ hx))
      simp only [List.map_cons, diffs_cons₂] at this ⊢
      rw [this]
      congr 1
      omega

/-- re-basing does not change the differences -/
theorem diffs_rebased {offs : List Nat} (hm : monotone offs = true) : diffs (rebased offs) = diffs offs :=
  diffs_map_sub offs _ (monotone_head_le hm)

theorem zipWith_getElem?_some {β γ δ : Type} (f : β → γ → δ) (l₁ : List β) (l₂ : List γ) (i : Nat)
    (a : β) (b : γ) (h1 : l₁[i]? = some a) (h2 : l₂[i]? = some b) : (List.zipWith f l₁ l₂)[i]? = some (f a b) := by
  simp [List.getElem?_zipWith, h1, h2]

/-- the number of elements row `i` of a list array contributes is the `i`-th offset difference -/
theorem PList.row_length (l : PList α) (hw : l.WF = true) (hne : l.nullEmpty = true) (i : Nat)
    (hi : i < l.valid.length) :
    ((l.rows.getD i none).getD []).length = (diffs l.offs).getD i 0 := by
  have ⟨h1, hm, hl⟩ := PList.WF_parts hw
  have hsl : (segs l.offs l.vals).length = l.valid.length := by simp [segs_length, h1]
  have hdl : (diffs l.offs).length = l.valid.length := by simp [diffs_length, h1]
  have hv : l.valid[i]? = some l.valid[i] := List.getElem?_eq_getElem hi
  have hs : (segs l.offs l.vals)[i]? = some (segs l.offs l.vals)[i] := List.getElem?_eq_getElem (by omega)
  have hd : (diffs l.offs)[i]? = some (diffs l.offs)[i] := List.getElem?_eq_getElem (by omega)
  have hlen : (segs l.offs l.vals)[i].length = (diffs l.offs)[i] := by
    have := segs_lengths hm hl
    have h2 : ((segs l.offs l.vals).map List.length)[i]? = (diffs l.offs)[i]? := by rw [this]
    simp only [List.getElem?_map, hs, hd, Option.map_some, Option.some.injEq] at h2
    exact h2
  unfold PList.rows
  rw [List.getD_eq_getElem?_getD, zipWith_getElem?_some _ _ _ i _ _ hv hs, List.getD_eq_getElem?_getD, hd]
  simp only [Option.getD_some]
  cases hvi : l.valid[i] with
  | true => simp [hlen]
  | false =>
    simp only [Bool.false_eq_true, if_false, Option.getD_none, List.length_nil]
    -- null list ⇒ empty extent
    unfold PList.nullEmpty at hne
    have hz : (List.zip l.valid (diffs l.offs))[i]? = some (l.valid[i], (diffs l.offs)[i]) := by
      simp [List.zip, List.getElem?_zipWith, hv, hd]
    have := (List.all_eq_true.mp hne) _ (List.mem_of_getElem? hz)
    simp [hvi] at this
    omega

end NP

namespace NP
variable {α : Type}

theorem PStruct.validate_kids {s : PStruct α} {k : PField α} {ks : List (PField α)} (hk : s.kids = k :: ks)
    (hv : s.validate = .ok ()) : ∀ k' ∈ ks, rebased k'.list.offs = rebased k.list.offs := by
  unfold PStruct.validate at hv
  rw [hk] at hv
  simp only at hv
  split at hv
  · rename_i h
    intro k' hk'
    have := (List.all_eq_true.mp h) k' hk'
    simpa using this
  · simp at hv

/-- soundness of the validator: every row of an accepted chunk is rectangular -/
theorem PStruct.validate_sound (s : PStruct α) (hw : s.WF = true) (hne : s.nullEmpty = true)
    (hv : s.validate = .ok ()) (i : Nat) (hi : i < s.len) : Row.rect (s.rowAt i) = true := by
  unfold PStruct.rowAt
  split
  · -- valid row
    cases hk : s.kids with
    | nil => simp [Row.rect, Table.rect]
    | cons k ks =>
      simp only [List.map_cons, Row.rect, Table.rect, List.all_map]
      rw [List.all_eq_true]
      intro k' hk'
      have hmem : k' ∈ s.kids := by rw [hk]; exact List.mem_cons_of_mem _ hk'
      have hmem0 : k ∈ s.kids := by rw [hk]; exact List.mem_cons_self
      have ⟨hw', hl'⟩ := PStruct.WF_kid hw hmem
      have ⟨hw0, hl0⟩ := PStruct.WF_kid hw hmem0
      have hne' : k'.list.nullEmpty = true := (List.all_eq_true.mp hne) k' hmem
      have hne0 : k.list.nullEmpty = true := (List.all_eq_true.mp hne) k hmem0
      have hi' : i < k'.list.valid.length := by simp [PList.len] at hl'; omega
      have hi0 : i < k.list.valid.length := by simp [PList.len] at hl0; omega
      have e := PStruct.validate_kids hk hv k' hk'
      have ⟨_, hm', _⟩ := PList.WF_parts hw'
      have ⟨_, hm0, _⟩ := PList.WF_parts hw0
      have d : diffs k'.list.offs = diffs k.list.offs := by
        rw [← diffs_rebased hm', ← diffs_rebased hm0, e]
      simp only [Function.comp, decide_eq_true_eq]
      rw [PList.row_length _ hw' hne' i hi', PList.row_length _ hw0 hne0 i hi0, d]
  · rfl

theorem PStruct.validate_rect (s : PStruct α) (hw : s.WF = true) (hne : s.nullEmpty = true)
    (hv : s.validate = .ok ()) : rectRows s.rows = true := by
  unfold rectRows PStruct.rows
  rw [List.all_map, List.all_eq_true]
  intro i hi
  exact PStruct.validate_sound s hw hne hv i (by simpa using hi)

theorem forM_ok {β : Type} {f : β → R Unit} {l : List β} (h : l.forM f = .ok ()) : ∀ x ∈ l, f x = .ok () := by
  induction l with
  | nil => intro x hx; cases hx
  | cons a rest ih =>
    change (f a >>= fun _ => List.forM rest f) = _ at h
    obtain ⟨u, hu, h⟩ := except_bind_ok' h
    intro x hx
    rcases List.mem_cons.mp hx with rfl | hx
    · cases u; exact hu
    · exact ih h x hx
where
  except_bind_ok' {ε β γ : Type} {x : Except ε β} {f : β → Except ε γ} {c : γ}
      (h : (x >>= f) = .ok c) : ∃ b, x = .ok b ∧ f b = .ok c := by
    cases x with
    | error e => simp [bind, Except.bind] at h
    | ok b => exact ⟨b, rfl, by simpa [bind, Except.bind] using h⟩

/-- column level: a validated column is rectangular in every row of every chunk -/
theorem PCol.validate_rect (c : PCol α) (hw : c.WF = true) (hne : ∀ s ∈ c.chunks, s.nullEmpty = true)
    (hv : c.validate = .ok ()) : rectRows c.rows = true := by
  unfold rectRows PCol.rows
  rw [List.all_flatMap, List.all_eq_true]
  intro s hs
  have hws : s.WF = true := by
    unfold PCol.WF at hw
    have := (List.all_eq_true.mp hw) s hs
    simp at this
    exact this.1
  exact PStruct.validate_rect s hws (hne s hs) (forM_ok hv s hs)

end NP
