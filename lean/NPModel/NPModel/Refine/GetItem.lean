/-
  NPModel.Refine.GetItem — `NestedExtensionArray.__getitem__` refines list indexing, for every key.
-/
import NPModel.Refine.Select
namespace NP
variable {α : Type}

def absGet : GetRes α → Sum (Row α) (List (Row α))
  | .row r => .inl r
  | .col c => .inr c.rows

theorem init_ok_rows (c : PCol α) : ∃ c', NArr.init c false = .ok c' ∧ c'.rows = c.rows := by
  cases h : NArr.init c false with
  | ok c' => exact ⟨c', rfl, NArr.init_rows c c' h⟩
  | error e =>
    unfold NArr.init at h
    simp [pure, Except.pure, bind, Except.bind] at h

theorem getItem_refines (c : PCol α) (hw : c.WF = true) (k : Key) :
    (NArr.getItem c k).map absGet = Spec.getItem c.rows k := by
  have hn : c.rows.length = c.len := PCol.rows_length c
  cases k with
  | int i =>
    simp only [NArr.getItem, Spec.getItem, hn]
    cases normPos c.len i <;> simp [Except.map, absGet, pure, Except.pure]
  | mask m =>
    simp only [NArr.getItem, Spec.getItem, hn]
    by_cases h1 : m.length ≠ c.len
    · simp [h1, Except.map]
    · have h1' : m.length = c.len := by simpa using h1
      simp only [h1, if_false]
      by_cases h2 : m.length = 0
      · obtain ⟨c', hc', hr⟩ := init_ok_rows ({ c with chunks := [] } : PCol α)
        have hm : m = [] := List.eq_nil_of_length_eq_zero h2
        have hr' : c'.rows = [] := by rw [hr]; rfl
        simp [h2, hc', Except.map, bind, Except.bind, pure, Except.pure, absGet, hr', hm]
      · obtain ⟨c', hc', hr⟩ := init_ok_rows (c.filter m)
        simp [h2, hc', Except.map, bind, Except.bind, pure, Except.pure, absGet, hr, PCol.filter_rows c hw m h1']
  | ints is =>
    simp only [NArr.getItem, Spec.getItem, hn]
    by_cases h0 : is.length = 0
    · obtain ⟨c', hc', hr⟩ := init_ok_rows ({ c with chunks := [] } : PCol α)
      have : is = [] := List.eq_nil_of_length_eq_zero h0
      have hr' : c'.rows = [] := by rw [hr]; rfl
      simp [h0, hc', Except.map, bind, Except.bind, pure, Except.pure, absGet, hr', this]
    · simp only [h0, if_false]
      by_cases ha : (is.map (normPos c.len)).any Option.isNone = true
      · simp [ha, Except.map]
      · simp only [ha, Bool.false_eq_true, if_false]
        obtain ⟨c', hc', hr⟩ := init_ok_rows (c.take (is.map (normPos c.len)))
        simp only [hc', Except.map, bind, Except.bind, pure, Except.pure, absGet, hr, PCol.take_rows c hw]
        congr 2
        apply List.map_congr_left
        intro o ho
        cases o with
        | none =>
          exfalso; apply ha
          rw [List.any_eq_true]; exact ⟨none, ho, rfl⟩
        | some j => simp [pickRow_some]
  | slice a b st =>
    simp only [NArr.getItem, Spec.getItem, hn]
    cases hs : sliceIndices c.len a b st with
    | error e => simp [hs, Except.map, bind, Except.bind]
    | ok r =>
      obtain ⟨a', b', st'⟩ := r
      simp only [hs, bind, Except.bind]
      by_cases h1 : st' = 1
      · subst h1
        have ⟨h0a, han, h0b, hbn⟩ := sliceIndices_bounds c.len a b st a' b' 1 hs (by decide)
        obtain ⟨c', hc', hr⟩ := init_ok_rows ({ c with chunks := chunkedSlice c.chunks a'.toNat (b' - a').toNat } : PCol α)
        simp only [if_true, hc', Except.map, pure, Except.pure, absGet, hr]
        congr 2
        show (chunkedSlice c.chunks a'.toNat (b' - a').toNat).flatMap PStruct.rows = _
        rw [chunkedSlice_rows, rangeList_step_one a' b' h0a h0b, List.map_map]
        have hk : (b' - a').toNat = b'.toNat - a'.toNat := by omega
        rw [hk]
        by_cases hab : a'.toNat ≤ b'.toNat
        · exact drop_take_eq_map_getD c.rows a'.toNat (b'.toNat - a'.toNat) none (by rw [hn]; omega)
        · have : b'.toNat - a'.toNat = 0 := by omega
          simp [this]
      · obtain ⟨c', hc', hr⟩ := init_ok_rows (c.take ((rangeList a' b' st').map some))
        simp only [h1, if_false, hc', Except.map, pure, Except.pure, absGet, hr, PCol.take_rows c hw, List.map_map]
        congr 2
        apply List.map_congr_left
        intro j _
        simp [pickRow_some]

end NP
