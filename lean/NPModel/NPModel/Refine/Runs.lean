/-
  NPModel.Refine.Runs — the packing algorithm of `pack_sorted_df_into_struct`
  (offsets = first occurrences of each label, extents = `ListArray.from_arrays(offsets, values)`)
  applied to a label sequence in run-length form with pairwise distinct keys yields exactly the
  non-empty runs: their keys as the unique index, their values as the rows.
  This is the combinatorial core of C02, C07, C09, C11, C12, C13.
-/
import NPModel.Refine.Segs
namespace NP
variable {α β : Type}

def runLabels (runs : List (β × List α)) : List β := runs.flatMap fun r => List.replicate r.2.length r.1
def runVals (runs : List (β × List α)) : List α := runs.flatMap (·.2)
def nonemptyRuns (runs : List (β × List α)) : List (β × List α) := runs.filter fun r => !r.2.isEmpty

@[simp] theorem nonzeroFrom_nil (b : Nat) : nonzeroFrom b [] = [] := rfl
@[simp] theorem nonzeroFrom_true (b : Nat) (bs : List Bool) : nonzeroFrom b (true :: bs) = b :: nonzeroFrom (b + 1) bs := by
  simp [nonzeroFrom]
@[simp] theorem nonzeroFrom_false (b : Nat) (bs : List Bool) : nonzeroFrom b (false :: bs) = nonzeroFrom (b + 1) bs := by
  simp [nonzeroFrom]

theorem nonzeroFrom_replicate_false (b n : Nat) (X : List Bool) :
    nonzeroFrom b (List.replicate n false ++ X) = nonzeroFrom (b + n) X := by
  induction n generalizing b with
  | zero => simp
  | succ n ih =>
    simp only [List.replicate_succ, List.cons_append, nonzeroFrom_false]
    rw [ih]; congr 1; omega

section
variable [BEq β] [LawfulBEq β]

/-- only membership in `seen` matters -/
theorem dupFirstGo_congr (ls : List β) :
    ∀ seen seen' : List β, (∀ x ∈ ls, seen.contains x = seen'.contains x) →
      dupFirstGo seen ls = dupFirstGo seen' ls := by
  induction ls with
  | nil => intros; rfl
  | cons l ls ih =>
    intro seen seen' h
    simp only [dupFirstGo]
    rw [h l List.mem_cons_self]
    congr 1
    apply ih
    intro x hx
    simp only [List.contains_cons]
    rw [h x (List.mem_cons_of_mem _ hx)]

/-- copies of a key that was already seen are all duplicates -/
theorem dupFirstGo_dups (k : β) (m : Nat) (rest : List β) :
    ∀ seen : List β, seen.contains k = true →
      dupFirstGo seen (List.replicate m k ++ rest) = List.replicate m true ++ dupFirstGo seen rest := by
  induction m with
  | zero => intro seen _; simp
  | succ m ih =>
    intro seen hs
    rw [List.replicate_succ, List.cons_append, dupFirstGo, hs]
    rw [ih (k :: seen) (by simp)]
    simp only [List.replicate_succ, List.cons_append]
    congr 2
    apply dupFirstGo_congr
    intro x _
    simp only [List.contains_cons]
    by_cases hx : x == k
    · have : x = k := by simpa using hx
      subst this
      have : x ∈ seen := by simpa using hs
      simp [this]
    · simp [hx]

/-- one run of a key that was not seen before: first occurrence, then duplicates -/
theorem dupFirstGo_run (k : β) (n : Nat) (rest seen : List β) (h : seen.contains k = false) :
    dupFirstGo seen (List.replicate (n + 1) k ++ rest)
      = false :: (List.replicate n true ++ dupFirstGo (k :: seen) rest) := by
  rw [List.replicate_succ, List.cons_append, dupFirstGo, h]
  rw [dupFirstGo_dups k n rest (k :: seen) (by simp)]

end
end NP

namespace NP
variable {α β : Type}

theorem runLabels_cons (k : β) (l : List α) (rest : List (β × List α)) :
    runLabels ((k, l) :: rest) = List.replicate l.length k ++ runLabels rest := by
  simp [runLabels]

theorem runVals_cons (k : β) (l : List α) (rest : List (β × List α)) :
    runVals ((k, l) :: rest) = l ++ runVals rest := by
  simp [runVals]

theorem mem_runLabels {runs : List (β × List α)} {x : β} (h : x ∈ runLabels runs) : ∃ r ∈ runs, r.1 = x := by
  unfold runLabels at h
  rw [List.mem_flatMap] at h
  obtain ⟨r, hr, hx⟩ := h
  exact ⟨r, hr, (List.eq_of_mem_replicate hx).symm⟩

section
variable [BEq β] [LawfulBEq β]

/-- The offsets computed by the packer on a run-length label sequence with pairwise distinct
    keys are the cumulative lengths of the non-empty runs. -/
theorem nonzero_runs (runs : List (β × List α)) :
    ∀ (seen : List β) (b : Nat), (runs.map (·.1)).Pairwise (· ≠ ·) → (∀ r ∈ runs, seen.contains r.1 = false) →
      nonzeroFrom b ((dupFirstGo seen (runLabels runs)).map (!·)) ++ [b + (runLabels runs).length]
        = offsetsFrom b ((nonemptyRuns runs).map (·.2.length)) := by
  induction runs with
  | nil => intro seen b _ _; simp [runLabels, nonemptyRuns, dupFirstGo]
  | cons r rest ih =>
    intro seen b hd hs
    obtain ⟨k, l⟩ := r
    have hd' : (rest.map (·.1)).Pairwise (· ≠ ·) := (List.pairwise_cons.mp hd).2
    have hk : ∀ r' ∈ rest, k ≠ r'.1 := by
      intro r' hr'
      exact (List.pairwise_cons.mp hd).1 r'.1 (List.mem_map_of_mem hr')
    rw [runLabels_cons]
    cases l with
    | nil =>
      have : nonemptyRuns ((k, ([] : List α)) :: rest) = nonemptyRuns rest := by simp [nonemptyRuns]
      rw [this]
      simpa using ih seen b hd' (fun r' hr' => hs r' (List.mem_cons_of_mem _ hr'))
    | cons a l =>
      have hne : nonemptyRuns ((k, a :: l) :: rest) = (k, a :: l) :: nonemptyRuns rest := by simp [nonemptyRuns]
      rw [hne]
      have hsk : seen.contains k = false := hs (k, a :: l) List.mem_cons_self
      simp only [List.length_cons]
      rw [dupFirstGo_run k l.length (runLabels rest) seen hsk]
      simp only [List.map_cons, Bool.not_false, List.map_append, List.map_replicate, Bool.not_true,
        nonzeroFrom_true, List.cons_append, offsetsFrom_cons]
      rw [nonzeroFrom_replicate_false]
      have hs' : ∀ r' ∈ rest, (k :: seen).contains r'.1 = false := by
        intro r' hr'
        simp only [List.contains_cons, Bool.or_eq_false_iff]
        refine ⟨?_, hs r' (List.mem_cons_of_mem _ hr')⟩
        have := hk r' hr'
        simp [Ne.symm this]
      have := ih (k :: seen) (b + 1 + l.length) hd' hs'
      simp only [List.length_append, List.length_replicate] at this ⊢
      have e1 : b + 1 + l.length + (runLabels rest).length = b + (l.length + 1 + (runLabels rest).length) := by omega
      have e2 : b + 1 + l.length = b + (l.length + 1) := by omega
      rw [e1, e2] at this
      rw [e2, this]
      simp

/-- `packOffsets` on a run-length label sequence with pairwise distinct keys -/
theorem packOffsets_runs (runs : List (β × List α)) (hd : (runs.map (·.1)).Pairwise (· ≠ ·)) :
    packOffsets (runLabels runs) = offsetsFrom 0 ((nonemptyRuns runs).map (·.2.length)) := by
  have := nonzero_runs runs [] 0 hd (by intro r _; rfl)
  simpa [packOffsets, dupFirstGen] using this

end

theorem runVals_nonempty (runs : List (β × List α)) : runVals runs = ((nonemptyRuns runs).map (·.2)).flatten := by
  induction runs with
  | nil => rfl
  | cons r rest ih =>
    obtain ⟨k, l⟩ := r
    rw [runVals_cons, ih]
    cases l with
    | nil => simp [nonemptyRuns]
    | cons a l => simp [nonemptyRuns]

theorem runLabels_nonempty (runs : List (β × List α)) : runLabels runs = runLabels (nonemptyRuns runs) := by
  induction runs with
  | nil => rfl
  | cons r rest ih =>
    obtain ⟨k, l⟩ := r
    cases l with
    | nil => simpa [runLabels_cons, nonemptyRuns] using ih
    | cons a l =>
      have : nonemptyRuns ((k, a :: l) :: rest) = (k, a :: l) :: nonemptyRuns rest := by simp [nonemptyRuns]
      rw [this, runLabels_cons, runLabels_cons, ih]

/-- **Rows of the packed column**: the extents cut by the packer's offsets out of the run values
    are exactly the value lists of the non-empty runs, in order. -/
theorem packed_rows_are_runs [BEq β] [LawfulBEq β] (runs : List (β × List α))
    (hd : (runs.map (·.1)).Pairwise (· ≠ ·)) :
    segs (packOffsets (runLabels runs)) (runVals runs) = (nonemptyRuns runs).map (·.2) := by
  rw [packOffsets_runs runs hd, runVals_nonempty]
  have := segs_canonical ((nonemptyRuns runs).map (·.2))
  rw [List.map_map] at this
  exact this

/-- keys read at the offsets are the keys of the non-empty runs -/
theorem keys_at_offsets (d : β) :
    ∀ (runs : List (β × List α)) (pre : List β), (∀ r ∈ runs, r.2 ≠ []) →
      ((offsetsFrom pre.length (runs.map (·.2.length))).dropLast).map (fun o => (pre ++ runLabels runs).getD o d)
        = runs.map (·.1) := by
  intro runs
  induction runs with
  | nil => intro pre _; simp [runLabels]
  | cons r rest ih =>
    intro pre hne
    obtain ⟨k, l⟩ := r
    cases l with
    | nil => exact absurd rfl (hne (k, []) List.mem_cons_self)
    | cons a l =>
      have hrest := ih (pre ++ List.replicate (l.length + 1) k) (fun r hr => hne r (List.mem_cons_of_mem _ hr))
      simp only [List.map_cons, offsetsFrom_cons, List.length_cons]
      have hnn : offsetsFrom (pre.length + (l.length + 1)) (rest.map (·.2.length)) ≠ [] := offsetsFrom_ne_nil _ _
      rw [List.dropLast_cons_of_ne_nil hnn, List.map_cons]
      congr 1
      · rw [runLabels_cons]
        simp [List.getD_eq_getElem?_getD, List.getElem?_append_right, List.replicate_succ]
      · simp only [List.length_append, List.length_replicate] at hrest
        rw [runLabels_cons]
        simpa [List.append_assoc] using hrest

/-- **Unique index of the packed column**: the labels found at the packer's offsets are the keys
    of the non-empty runs. -/
theorem packed_index_is_run_keys [BEq β] [LawfulBEq β] (d : β) (runs : List (β × List α))
    (hd : (runs.map (·.1)).Pairwise (· ≠ ·)) :
    ((packOffsets (runLabels runs)).dropLast).map (fun o => (runLabels runs).getD o d)
      = (nonemptyRuns runs).map (·.1) := by
  rw [packOffsets_runs runs hd, runLabels_nonempty]
  have h := keys_at_offsets d (nonemptyRuns runs) [] (by
    intro r hr
    have := (List.mem_filter.mp hr).2
    intro he
    simp [he] at this)
  simpa using h

end NP

namespace NP
variable {α β : Type}

/-! ### a packed row is the subsequence of values carrying its label -/

/-- values whose label is `k`, in order -/
def valsOfLabel [BEq β] (k : β) (labels : List β) (vals : List α) : List α :=
  ((labels.zip vals).filter fun p => p.1 == k).map (·.2)

theorem valsOfLabel_append [BEq β] (k : β) (l₁ l₂ : List β) (v₁ v₂ : List α) (h : l₁.length = v₁.length) :
    valsOfLabel k (l₁ ++ l₂) (v₁ ++ v₂) = valsOfLabel k l₁ v₁ ++ valsOfLabel k l₂ v₂ := by
  unfold valsOfLabel
  rw [List.zip_append h, List.filter_append, List.map_append]

theorem valsOfLabel_replicate_self [BEq β] [LawfulBEq β] (k : β) (v : List α) :
    valsOfLabel k (List.replicate v.length k) v = v := by
  induction v with
  | nil => rfl
  | cons a v ih =>
    simp only [List.length_cons, List.replicate_succ]
    unfold valsOfLabel at *
    simp [ih]

theorem valsOfLabel_replicate_other [BEq β] [LawfulBEq β] (k k' : β) (hk : k' ≠ k) (v : List α) :
    valsOfLabel k (List.replicate v.length k') v = [] := by
  induction v with
  | nil => rfl
  | cons a v ih =>
    simp only [List.length_cons, List.replicate_succ]
    unfold valsOfLabel at *
    simp [ih, hk]

theorem runLabels_length (runs : List (β × List α)) : (runLabels runs).length = (runVals runs).length := by
  induction runs with
  | nil => rfl
  | cons r rest ih =>
    obtain ⟨k, l⟩ := r
    simp [runLabels_cons, runVals_cons, ih]

theorem valsOfLabel_absent [BEq β] [LawfulBEq β] (k : β) (runs : List (β × List α)) (h : ∀ r ∈ runs, r.1 ≠ k) :
    valsOfLabel k (runLabels runs) (runVals runs) = [] := by
  induction runs with
  | nil => rfl
  | cons r rest ih =>
    obtain ⟨k', l⟩ := r
    rw [runLabels_cons, runVals_cons, valsOfLabel_append _ _ _ _ _ (by simp),
        valsOfLabel_replicate_other k k' (h (k', l) List.mem_cons_self),
        ih (fun r hr => h r (List.mem_cons_of_mem _ hr))]
    rfl

/-- **Every run is the subsequence of its label**: with pairwise distinct keys, the values
    carrying label `k` are exactly the values of `k`'s run. -/
theorem valsOfLabel_run [BEq β] [LawfulBEq β] (runs : List (β × List α)) (hd : (runs.map (·.1)).Pairwise (· ≠ ·))
    (k : β) (l : List α) (hm : (k, l) ∈ runs) :
    valsOfLabel k (runLabels runs) (runVals runs) = l := by
  induction runs with
  | nil => cases hm
  | cons r rest ih =>
    obtain ⟨k', l'⟩ := r
    have hd' := (List.pairwise_cons.mp hd).2
    have hk' : ∀ r ∈ rest, k' ≠ r.1 := fun r hr => (List.pairwise_cons.mp hd).1 r.1 (List.mem_map_of_mem hr)
    rw [runLabels_cons, runVals_cons, valsOfLabel_append _ _ _ _ _ (by simp)]
    rcases List.mem_cons.mp hm with heq | hin
    · have h1 : k = k' := (Prod.mk.inj heq).1
      have h2 : l = l' := (Prod.mk.inj heq).2
      subst h1; subst h2
      rw [valsOfLabel_replicate_self, valsOfLabel_absent k rest (fun r hr => (hk' r hr).symm)]
      simp
    · have hne : k' ≠ k := hk' (k, l) hin
      rw [valsOfLabel_replicate_other k k' hne, ih hd' hin]
      rfl

end NP
