/-
  NPModel.Refine.Fields — field edits: what `upsertKid`, `structFromArrays` and the chunk loop of
  `set_list_field` / `pop_fields` / `view_fields` preserve.  Helper lemmas only.
-/
import NPModel.Refine.Struct
namespace NP
variable {α : Type}

theorem structFromArrays_ok {kids : List (PField α)} {v : List Bool} {s : PStruct α}
    (h : structFromArrays kids (some v) = .ok s) : s.valid = v ∧ s.kids = kids := by
  unfold structFromArrays at h
  cases kids with
  | nil => simp at h
  | cons k ks =>
    simp only at h
    split at h
    · simp only [Except.ok.injEq] at h
      subst h
      simp
    · simp at h

theorem find_map_replace_other (kids : List (PField α)) (k : PField α) (g : String) (hg : (k.name == g) = false) :
    (kids.map fun k' => if k'.name == k.name then k else k').find? (fun x => x.name == g)
      = kids.find? (fun x => x.name == g) := by
  induction kids with
  | nil => rfl
  | cons a rest ih =>
    simp only [List.map_cons, List.find?_cons]
    by_cases ha : (a.name == k.name) = true
    · have hag : (a.name == g) = false := by
        have : a.name = k.name := by simpa using ha
        rw [this]; exact hg
      simp only [ha, if_true, hg, hag]
      exact ih
    · have ha' : (a.name == k.name) = false := by simpa using ha
      simp only [ha', Bool.false_eq_true, if_false]
      cases hag : (a.name == g)
      · exact ih
      · rfl

/-- editing field `f` leaves every other field's list array untouched — the very same buffers -/
theorem upsertKid_find_other (kids : List (PField α)) (k : PField α) (g : String) (hg : (k.name == g) = false) :
    (upsertKid kids k).find? (fun x => x.name == g) = kids.find? (fun x => x.name == g) := by
  unfold upsertKid
  split
  · exact find_map_replace_other kids k g hg
  · rw [List.find?_append]
    simp [hg]

/-- and the edited field is exactly the supplied list array -/
theorem upsertKid_find_self (kids : List (PField α)) (k : PField α) :
    (upsertKid kids k).find? (fun x => x.name == k.name) = some k := by
  unfold upsertKid
  split
  · rename_i h
    induction kids with
    | nil => simp at h
    | cons a rest ih =>
      simp only [List.map_cons, List.find?_cons]
      by_cases ha : (a.name == k.name) = true
      · simp [ha]
      · have ha' : (a.name == k.name) = false := by simpa using ha
        simp only [ha', Bool.false_eq_true, if_false]
        have : rest.any (fun x => x.name == k.name) = true := by
          simpa [List.any_cons, ha'] using h
        exact ih this
  · rename_i h
    rw [List.find?_append]
    have : kids.find? (fun x => x.name == k.name) = none := by
      rw [List.find?_eq_none]
      intro x hx hxn
      apply h
      exact List.any_eq_true.mpr ⟨x, hx, hxn⟩
    simp [this]

end NP

namespace NP
variable {α : Type}

/-- what one chunk looks like after `set_list_field`: same validity, other fields identical,
    field `f` is the window of the supplied list array -/
def FieldSet (f ty : String) (s s' : PStruct α) : Prop :=
  s'.valid = s.valid ∧
  (∀ g, (f == g) = false → s'.kid? g = s.kid? g) ∧
  ∃ l, s'.kid? f = some { name := f, ty := ty, list := l }

/-- pointwise relation between two lists of equal length (core Lean has no `Forall₂`) -/
inductive All2 {β γ : Type} (r : β → γ → Prop) : List β → List γ → Prop
  | nil : All2 r [] []
  | cons {a b as bs} : r a b → All2 r as bs → All2 r (a :: as) (b :: bs)

theorem All2.length_eq {β γ : Type} {r : β → γ → Prop} {l₁ : List β} {l₂ : List γ} (h : All2 r l₁ l₂) :
    l₁.length = l₂.length := by
  induction h with
  | nil => rfl
  | cons _ _ ih => simp [ih]

theorem All2.get {β γ : Type} {r : β → γ → Prop} {l₁ : List β} {l₂ : List γ} (h : All2 r l₁ l₂) :
    ∀ (i : Nat) (a : β) (b : γ), l₁[i]? = some a → l₂[i]? = some b → r a b := by
  induction h with
  | nil => intro i a b h1; simp at h1
  | cons hr _ ih =>
    intro i a b h1 h2
    cases i with
    | zero => simp at h1 h2; subst h1; subst h2; exact hr
    | succ i => simp at h1 h2; exact ih i a b h1 h2

theorem except_bind_ok {ε β γ : Type} {x : Except ε β} {f : β → Except ε γ} {c : γ}
    (h : (x >>= f) = .ok c) : ∃ b, x = .ok b ∧ f b = .ok c := by
  cases x with
  | error e => simp [bind, Except.bind] at h
  | ok b => exact ⟨b, rfl, by simpa [bind, Except.bind] using h⟩

/-- what a successful `mapM` computed, element by element -/
theorem mapM_ok_spec {β γ : Type} (f : β → R γ) :
    ∀ (l : List β) (out : List γ), l.mapM f = .ok out →
      out.length = l.length ∧ ∀ (i : Nat) (a : β), l[i]? = some a → ∃ c, f a = .ok c ∧ out[i]? = some c := by
  intro l
  induction l with
  | nil =>
    intro out ho
    simp [pure, Except.pure] at ho
    subst ho
    exact ⟨rfl, fun i a h => by simp at h⟩
  | cons x l ih =>
    intro out ho
    rw [List.mapM_cons] at ho
    obtain ⟨c, hc, ho⟩ := except_bind_ok ho
    obtain ⟨rest, hr, ho⟩ := except_bind_ok ho
    simp only [pure, Except.pure, Except.ok.injEq] at ho
    subst ho
    have ⟨hl, hi⟩ := ih rest hr
    refine ⟨by simp [hl], ?_⟩
    intro i a ha
    cases i with
    | zero =>
      simp at ha
      subst ha
      exact ⟨c, hc, by simp⟩
    | succ i =>
      simp at ha
      have := hi i a ha
      simpa using this

theorem setListField_go_spec (f ty : String) (value : PList α) :
    ∀ (chunks : List (PStruct α)) (start : Nat) (out : List (PStruct α)),
      NArr.setListField.go f ty value chunks start = .ok out →
      All2 (FieldSet f ty) chunks out := by
  intro chunks
  induction chunks with
  | nil =>
    intro start out h
    simp [NArr.setListField.go, pure, Except.pure] at h
    subst h
    exact All2.nil
  | cons s rest ih =>
    intro start out h
    simp only [NArr.setListField.go] at h
    obtain ⟨s', hs', h⟩ := except_bind_ok h
    obtain ⟨rest', hr', h⟩ := except_bind_ok h
    simp [pure, Except.pure] at h
    subst h
    have ⟨hv, hk⟩ := structFromArrays_ok hs'
    refine All2.cons ⟨hv, ?_, ?_⟩ (ih _ _ hr')
    · intro g hg
      unfold PStruct.kid?
      rw [hk]
      exact upsertKid_find_other s.kids _ g hg
    · refine ⟨value.slice start s.len, ?_⟩
      unfold PStruct.kid?
      rw [hk]
      exact upsertKid_find_self s.kids { name := f, ty := ty, list := value.slice start s.len }

end NP

namespace NP
variable {α : Type}

/-- `set_list_field` as a whole: whatever it accepts, chunk by chunk the validity and all other
    fields are untouched and field `f` is a window of the supplied list array -/
theorem setListField_chunks {c c' : PCol α} {f ty : String} {value : PList α} {keep : Bool}
    (h : NArr.setListField c f ty value keep = .ok c') :
    All2 (FieldSet f ty) c.chunks c'.chunks := by
  unfold NArr.setListField at h
  cases hn : NArr.fieldNames c with
  | error e => simp [hn, bind, Except.bind] at h
  | ok names =>
    cases hgo : NArr.setListField.go f ty value c.chunks 0 with
    | error e =>
      simp only [hn, hgo, bind, Except.bind, pure, Except.pure, throw, throwThe, MonadExceptOf.throw] at h
      repeat' split at h
      all_goals simp at h
    | ok chunks =>
      simp only [hn, hgo, bind, Except.bind, pure, Except.pure, throw, throwThe, MonadExceptOf.throw] at h
      repeat' split at h
      all_goals first
        | (simp at h; done)
        | (simp only [Except.ok.injEq] at h; subst h; exact setListField_go_spec f ty value c.chunks 0 chunks hgo)

end NP

namespace NP
variable {α : Type}

theorem setFlatField_chunks {c c' : PCol α} {f ty : String} {value : FlatVal α} {keep : Bool}
    (h : NArr.setFlatField c f ty value keep = .ok c') :
    All2 (FieldSet f ty) c.chunks c'.chunks := by
  unfold NArr.setFlatField at h
  cases hn : NArr.fieldNames c with
  | error e => simp [hn, bind, Except.bind] at h
  | ok names =>
    cases hfl : NArr.flatLength c with
    | error e =>
      simp only [hn, hfl, bind, Except.bind, pure, Except.pure, throw, throwThe, MonadExceptOf.throw] at h
      repeat' split at h
      all_goals simp at h
    | ok fl =>
      cases hlo : NArr.listOffsets c with
      | error e =>
        simp only [hn, hfl, hlo, bind, Except.bind, pure, Except.pure, throw, throwThe, MonadExceptOf.throw] at h
        repeat' split at h
        all_goals simp at h
      | ok lo =>
        simp only [hn, hfl, hlo, bind, Except.bind, pure, Except.pure, throw, throwThe, MonadExceptOf.throw] at h
        repeat' split at h
        all_goals first
          | (simp at h; done)
          | exact setListField_chunks h

theorem fillFieldLists_chunks {c c' : PCol α} {f ty : String} {value : List α} {keep : Bool}
    (h : NArr.fillFieldLists c f ty value keep = .ok c') :
    All2 (FieldSet f ty) c.chunks c'.chunks := by
  unfold NArr.fillFieldLists at h
  cases hl : NArr.listLengths c with
  | error e =>
    simp only [hl, bind, Except.bind, pure, Except.pure, throw, throwThe, MonadExceptOf.throw] at h
    repeat' split at h
    all_goals simp at h
  | ok ls =>
    simp only [hl, bind, Except.bind, pure, Except.pure, throw, throwThe, MonadExceptOf.throw] at h
    repeat' split at h
    all_goals first
      | (simp at h; done)
      | exact setFlatField_chunks h

/-- consequences of the chunk-wise relation that the property statement names -/
theorem All2_valid_eq {r : PStruct α → PStruct α → Prop} (hr : ∀ s s', r s s' → s'.valid = s.valid)
    {l₁ l₂ : List (PStruct α)} (h : All2 r l₁ l₂) : l₂.map (·.valid) = l₁.map (·.valid) := by
  induction h with
  | nil => rfl
  | cons hab _ ih => simp [hr _ _ hab, ih]

theorem isna_of_valid_eq {c c' : PCol α} (h : c'.chunks.map (·.valid) = c.chunks.map (·.valid)) :
    NArr.isna c' = NArr.isna c := by
  unfold NArr.isna
  rw [List.flatMap_def, List.flatMap_def]
  have : c'.chunks.map (fun s => s.valid.map (!·)) = c.chunks.map (fun s => s.valid.map (!·)) := by
    have := congrArg (List.map (fun v : List Bool => v.map (!·))) h
    simp only [List.map_map] at this
    exact this
  rw [this]

theorem len_of_valid_eq {c c' : PCol α} (h : c'.chunks.map (·.valid) = c.chunks.map (·.valid)) :
    c'.len = c.len := by
  unfold PCol.len PStruct.len
  have := congrArg (List.map List.length) h
  simp only [List.map_map] at this
  have e : ∀ l : List (PStruct α), l.map (fun s => s.valid.length) = l.map (List.length ∘ fun s => s.valid) := by
    intro l; rfl
  rw [e, e, this]

end NP
