/-
  NPModel.Refine.Slices — the positions a Python slice selects (`slice.indices(n)` then `range`)
  are distinct and lie inside the column.  Used by slice assignment (C05).
-/
import NPModel.Refine.Positions
namespace NP
variable {α : Type}

/-- `k < ⌈x / d⌉` implies `k · d < x` -/
theorem lt_ceil_mul (x d : Int) (hd : 0 < d) (hx : 0 < x) (k : Nat) (hk : k < ((x + d - 1) / d).toNat) :
    (k : Int) * d < x := by
  have hq : (k : Int) ≤ (x + d - 1) / d - 1 := by omega
  have h1 : (k : Int) * d ≤ ((x + d - 1) / d - 1) * d := Int.mul_le_mul_of_nonneg_right hq (Int.le_of_lt hd)
  have h2 : ((x + d - 1) / d - 1) * d = (x + d - 1) / d * d - d := by rw [Int.sub_mul, Int.one_mul]
  have h3 : (x + d - 1) / d * d ≤ x + d - 1 := Int.ediv_mul_le _ (by omega)
  omega

/-- what `slice.indices` returns -/
theorem sliceIndices_bounds_all (n : Nat) (s e t : Option Int) (a b st : Int) (h : sliceIndices n s e t = .ok (a, b, st)) :
    st ≠ 0 ∧ (0 < st → 0 ≤ a ∧ a ≤ n ∧ 0 ≤ b ∧ b ≤ n) ∧ (st < 0 → -1 ≤ a ∧ a ≤ (n : Int) - 1 ∧ -1 ≤ b ∧ b ≤ (n : Int) - 1) := by
  unfold sliceIndices at h
  simp only at h
  split at h
  · cases h
  · rename_i hst
    simp only [Except.ok.injEq, Prod.mk.injEq] at h
    obtain ⟨ha, hb, hs⟩ := h
    subst hs
    refine ⟨hst, ?_, ?_⟩
    · intro hpos
      have hneg : ¬ (t.getD 1 < 0) := by omega
      simp only [hpos, hneg, if_true, if_false] at ha hb
      cases s <;> cases e <;> simp only at ha hb <;> (try split at ha) <;> (try split at hb) <;> omega
    · intro hneg
      have hpos : ¬ (t.getD 1 > 0) := by omega
      simp only [hpos, hneg, if_true, if_false] at ha hb
      cases s <;> cases e <;> simp only at ha hb <;> (try split at ha) <;> (try split at hb) <;> omega

/-- every position of the range is inside `[0, n)` -/
theorem rangeList_elem (n : Nat) (a b st : Int) (hst : st ≠ 0)
    (hp : 0 < st → 0 ≤ a ∧ a ≤ n ∧ 0 ≤ b ∧ b ≤ n)
    (hn : st < 0 → -1 ≤ a ∧ a ≤ (n : Int) - 1 ∧ -1 ≤ b ∧ b ≤ (n : Int) - 1)
    (k : Nat)
    (hk : k < (if st > 0 then (if a < b then ((b - a + st - 1) / st).toNat else 0)
               else (if a > b then ((a - b - st - 1) / (-st)).toNat else 0))) :
    0 ≤ a + (k : Int) * st ∧ a + (k : Int) * st < n := by
  by_cases hpos : st > 0
  · simp only [hpos, if_true] at hk
    have ⟨h1, h2, h3, h4⟩ := hp hpos
    by_cases hab : a < b
    · simp only [hab, if_true] at hk
      have := lt_ceil_mul (b - a) st hpos (by omega) k hk
      have hk0 : 0 ≤ (k : Int) * st := Int.mul_nonneg (Int.natCast_nonneg k) (Int.le_of_lt hpos)
      omega
    · simp only [hab, if_false] at hk; omega
  · simp only [hpos, if_false] at hk
    have hneg : st < 0 := by omega
    have ⟨h1, h2, h3, h4⟩ := hn hneg
    by_cases hab : a > b
    · simp only [hab, if_true] at hk
      have e : a - b - st - 1 = (a - b) + (-st) - 1 := by omega
      rw [e] at hk
      have := lt_ceil_mul (a - b) (-st) (by omega) (by omega) k hk
      have hk0 : 0 ≤ (k : Int) * (-st) := Int.mul_nonneg (Int.natCast_nonneg k) (by omega)
      have e2 : (k : Int) * (-st) = -((k : Int) * st) := Int.mul_neg _ _
      omega
    · simp only [hab, if_false] at hk; omega

theorem rangeList_lt (n : Nat) (s e t : Option Int) (a b st : Int) (h : sliceIndices n s e t = .ok (a, b, st)) :
    ∀ p ∈ rangeList a b st, p < n := by
  have ⟨hst, hp, hn⟩ := sliceIndices_bounds_all n s e t a b st h
  intro p hp'
  unfold rangeList at hp'
  simp only [List.mem_map, List.mem_range] at hp'
  obtain ⟨k, hk, rfl⟩ := hp'
  have := rangeList_elem n a b st hst hp hn k hk
  omega

theorem rangeList_nodup (n : Nat) (s e t : Option Int) (a b st : Int) (h : sliceIndices n s e t = .ok (a, b, st)) :
    (rangeList a b st).Nodup := by
  have ⟨hst, hp, hn⟩ := sliceIndices_bounds_all n s e t a b st h
  unfold rangeList
  simp only
  rw [List.Nodup, List.pairwise_map]
  apply List.Pairwise.imp_of_mem (R := (· < ·)) _ List.pairwise_lt_range
  intro k k' hk hk' hlt
  have h1 := rangeList_elem n a b st hst hp hn k (List.mem_range.mp hk)
  have h2 := rangeList_elem n a b st hst hp hn k' (List.mem_range.mp hk')
  have hkk : (k : Int) < (k' : Int) := by omega
  by_cases hpos : 0 < st
  · have := Int.mul_lt_mul_of_pos_right hkk hpos
    omega
  · have hneg : 0 < -st := by omega
    have := Int.mul_lt_mul_of_pos_right hkk hneg
    have e1 : (k : Int) * (-st) = -((k : Int) * st) := Int.mul_neg _ _
    have e2 : (k' : Int) * (-st) = -((k' : Int) * st) := Int.mul_neg _ _
    omega


/-- **`column[a:b:s] = value`**: slice assignment, any start/stop/step incl. negative steps
    (values in key order) and a zero step (ValueError). -/
theorem setItem_slice_refines (c : PCol α) (hw : c.WF = true) (ha : c.aligned) (s e t : Option Int) (v : SetVal α) :
    (NArr.setItem c (.slice s e t) v).map PCol.rows = Spec.setItem c.ty c.rows (.slice s e t) v := by
  unfold NArr.setItem Spec.setItem setItemMask Spec.keyPositions
  rw [PCol.rows_length]
  cases hsl : sliceIndices c.len s e t with
  | error err => simp only [hsl, bind, Except.bind]; rfl
  | ok r =>
    obtain ⟨a, b, st⟩ := r
    have hlt := rangeList_lt c.len s e t a b st hsl
    have hnd := rangeList_nodup c.len s e t a b st hsl
    simp only [hsl, bind, Except.bind, pure, Except.pure]
    by_cases hne : rangeList a b st = []
    · have hany : (fromPositions c.len []).1.any id = false := setAt_nil_any c.len
      rw [hne]
      simp only [hany, Bool.false_eq_true, not_false_eq_true, decide_true, if_true]
      simp [Spec.assignAt, Except.map, pure, Except.pure]
    · obtain ⟨p, hp⟩ := List.exists_mem_of_ne_nil _ hne
      have hany : (fromPositions c.len (rangeList a b st)).1.any id = true :=
        setAt_any c.len _ p hp (hlt p hp)
      simp only [hany, not_true_eq_false, decide_false, Bool.false_eq_true, if_false]
      exact setItemApply_positions c hw ha _ hlt hnd hne v

/-- the targets of a key are distinct (always true except for an integer array with repeats) -/
def Key.distinct (n : Nat) : Key → Prop
  | .ints is => ((is.map (normPos n)).filterMap id).Nodup
  | _ => True

/-- **`column[key] = value` is `rows[key] = value`** — the whole of
    `NestedExtensionArray.__setitem__`: every validated column in any physical layout, every key
    with distinct targets (integer, slice, boolean mask, integer array), every value. -/
theorem setItem_refines (c : PCol α) (hw : c.WF = true) (ha : c.aligned) (k : Key) (v : SetVal α)
    (hd : k.distinct c.len) :
    (NArr.setItem c k v).map PCol.rows = Spec.setItem c.ty c.rows k v := by
  cases k with
  | int i => exact setItem_int_refines c hw ha i v
  | slice s e t => exact setItem_slice_refines c hw ha s e t v
  | mask m => exact setItem_mask_refines c hw ha m v
  | ints is => exact setItem_ints_refines c hw ha is v hd

end NP
