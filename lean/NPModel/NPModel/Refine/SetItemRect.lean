/-
  NPModel.Refine.SetItemRect — whatever element assignment stores has passed the validator, hence
  is rectangular: for every column, key and value, with no side condition (C01).
-/
import NPModel.Refine.TakeFill
namespace NP
variable {α : Type}

/-- aligned storage reads as rectangular rows (no side condition on lengths: beyond a field's
    last row every field reads as empty) -/
theorem PStruct.aligned_rect (s : PStruct α) (ha : s.aligned) : rectRows s.rows = true := by
  unfold rectRows
  rw [List.all_eq_true]
  intro r hr
  unfold PStruct.rows at hr
  rw [List.mem_map] at hr
  obtain ⟨i, _, rfl⟩ := hr
  rw [PStruct.rowAt_eq]
  split
  · simp only [Row.rect, Table.rect_eq_allEq, ← lensAt_eq_map]
    rw [allEq_iff]
    intro x hx y hy
    unfold lensAt at hx hy
    obtain ⟨k, hk, rfl⟩ := List.mem_map.mp hx
    obtain ⟨k', hk', rfl⟩ := List.mem_map.mp hy
    have := congrArg (fun l => l.getD i 0) (ha k hk k' hk')
    simp only [List.getD_eq_getElem?_getD, List.getElem?_map] at this ⊢
    cases h1 : k.list.rows[i]? <;> cases h2 : k'.list.rows[i]? <;> simp [h1, h2, len0] at this ⊢ <;> exact this
  · rfl

theorem replaceWithMask_canonical (arr : PStruct α) (mask : List Bool) (ty : List (String × String))
    (value : List (PScalar α)) (res : PStruct α) (h : replaceWithMask arr mask ty value = .ok res) : res.canonical := by
  unfold replaceWithMask at h
  simp only [bind, Except.bind, pure, Except.pure, throw, throwThe, MonadExceptOf.throw] at h
  split at h
  · cases h
  · simp only [Except.ok.injEq] at h
    subst h
    exact ifElse_canonical _ _ _

/-- what the last step of an assignment returns has one validated, canonical chunk -/
theorem setItemFinish_validated (c : PCol α) (mask : List Bool) (vals : List (PScalar α)) (out : PCol α)
    (h : setItemFinish c mask vals = .ok out) :
    ∃ res, out.chunks = [res] ∧ res.validate = .ok () ∧ res.canonical := by
  unfold setItemFinish at h
  simp only [bind, Except.bind, pure, Except.pure] at h
  cases hr : replaceWithMask c.combine mask c.ty vals with
  | error e => simp [hr] at h
  | ok res =>
    simp only [hr] at h
    cases hv : PCol.validate { c with chunks := [res] } with
    | error e => simp [hv] at h
    | ok u =>
      simp only [hv, Except.ok.injEq] at h
      subst h
      refine ⟨res, rfl, ?_, replaceWithMask_canonical _ _ _ _ _ hr⟩
      have := forM_ok (by unfold PCol.validate at hv; cases u; exact hv) res List.mem_cons_self
      exact this

/-- **Element assignment never stores a ragged row**: whatever `__setitem__` returns — for every
    column (any layout, no well-formedness assumed), every key of any kind (repeats included)
    and every value — is the unchanged column or has passed the validator on fresh storage; if the
    column's rows were rectangular, so are the new ones. -/
theorem setItem_rect (c c' : PCol α) (k : Key) (v : SetVal α) (h : NArr.setItem c k v = .ok c')
    (hr : rectRows c.rows = true) : rectRows c'.rows = true := by
  have hfin : ∀ mask vals out, setItemFinish c mask vals = .ok out → rectRows out.rows = true := by
    intro mask vals out ho
    obtain ⟨res, hc, hv, hcan⟩ := setItemFinish_validated c mask vals out ho
    unfold PCol.rows
    rw [hc]
    simp only [List.flatMap_cons, List.flatMap_nil, List.append_nil]
    exact PStruct.aligned_rect res ((PStruct.canonical_validate_iff res hcan).mp hv)
  have happly : ∀ mask argsort, setItemApply c mask argsort v = .ok c' → rectRows c'.rows = true := by
    intro mask argsort ha
    unfold setItemApply at ha
    simp only [bind, Except.bind, pure, Except.pure] at ha
    repeat' split at ha
    all_goals first
      | (simp only [Except.ok.injEq] at ha; subst ha; exact hr)
      | (cases ha; done)
      | exact hfin _ _ _ ha
  unfold NArr.setItem at h
  simp only [bind, Except.bind, pure, Except.pure] at h
  repeat' split at h
  all_goals first
    | (simp only [Except.ok.injEq] at h; subst h; exact hr)
    | (cases h; done)
    | exact happly _ _ h

end NP
