/-
  NPModel.Refine.Struct — the logical reading of chunks (`PStruct.rows`) under the kernels.
-/
import NPModel.Refine.Rows
namespace NP
variable {α : Type}

theorem PStruct.rows_length (s : PStruct α) : s.rows.length = s.len := by
  simp [PStruct.rows]

theorem PStruct.rows_getElem? (s : PStruct α) (i : Nat) :
    s.rows[i]? = if i < s.len then some (s.rowAt i) else none := by
  unfold PStruct.rows
  by_cases h : i < s.len
  · simp [h]
  · simp [h]

/-- well-formedness as propositions (what `PStruct.WF = true` gives) -/
theorem PStruct.WF_kid {s : PStruct α} (h : s.WF = true) {k : PField α} (hk : k ∈ s.kids) :
    k.list.WF = true ∧ k.list.len = s.len := by
  unfold PStruct.WF at h
  have := (List.all_eq_true.mp h) k hk
  simpa using this

theorem PList.WF_parts {l : PList α} (h : l.WF = true) :
    l.offs.length = l.valid.length + 1 ∧ monotone l.offs = true ∧ l.offs.getLast?.getD 0 ≤ l.vals.length := by
  unfold PList.WF at h
  simp at h
  exact ⟨h.1.1, h.1.2, h.2⟩

theorem PStruct.kid_rows_length {s : PStruct α} (h : s.WF = true) {k : PField α} (hk : k ∈ s.kids) :
    k.list.rows.length = s.len := by
  have ⟨hw, hl⟩ := PStruct.WF_kid h hk
  have ⟨h1, _, _⟩ := PList.WF_parts hw
  rw [PList.rows_length _ h1]
  exact hl

/-! ### slice -/

theorem getD_drop_take {β : Type} (l : List β) (st n i : Nat) (d : β) (h : i < n) :
    ((l.drop st).take n).getD i d = l.getD (st + i) d := by
  simp [List.getD_eq_getElem?_getD, h, List.getElem?_drop]

theorem PStruct.slice_rowAt (s : PStruct α) (st n i : Nat) (h : i < n) :
    (s.slice st n).rowAt i = s.rowAt (st + i) := by
  unfold PStruct.rowAt PStruct.slice
  simp only [getD_drop_take _ _ _ _ _ h, List.map_map]
  congr 1
  congr 1
  apply List.map_congr_left
  intro k _
  simp only [Function.comp, PList.slice_rows, getD_drop_take _ _ _ _ _ h]

theorem PStruct.slice_len (s : PStruct α) (st n : Nat) (h : st + n ≤ s.len) : (s.slice st n).len = n := by
  simp [PStruct.slice, PStruct.len] at *
  omega

/-- a window of a chunk reads as the window of its rows -/
theorem PStruct.slice_rows (s : PStruct α) (st n : Nat) (h : st + n ≤ s.len) :
    (s.slice st n).rows = (s.rows.drop st).take n := by
  apply List.ext_getElem?
  intro i
  rw [PStruct.rows_getElem?, PStruct.slice_len s st n h, List.getElem?_take, List.getElem?_drop,
      PStruct.rows_getElem?]
  by_cases hi : i < n
  · have : st + i < s.len := by omega
    simp [hi, this, PStruct.slice_rowAt s st n i hi]
  · simp [hi]

/-! ### struct-level `take` and `filter` -/

theorem gather_length {β : Type} (idx : List (Option Nat)) (xs : List β) : (gather idx xs).length = idx.length := by
  simp [gather]

theorem gather_getElem? {β : Type} (idx : List (Option Nat)) (xs : List β) (i : Nat) :
    (gather idx xs)[i]? = idx[i]?.map fun o => o.bind fun j => xs[j]? := by
  simp only [gather, List.getElem?_map]

theorem PStruct.take_len (s : PStruct α) (idx : List (Option Nat)) : (s.take idx).len = idx.length := by
  simp [PStruct.take, PStruct.len, gather_length]

/-- row `i` of a taken chunk is the row the index points to (missing for a masked index or an
    index outside the chunk) -/
theorem PStruct.take_rowAt (s : PStruct α) (idx : List (Option Nat)) (i : Nat) (hi : i < idx.length) :
    (s.take idx).rowAt i = match idx[i]?.join with
      | none => none
      | some j => if j < s.len then s.rowAt j else none := by
  unfold PStruct.rowAt PStruct.take
  have hidx : idx[i]? = some idx[i] := List.getElem?_eq_getElem hi
  simp only [List.map_map, List.getD_eq_getElem?_getD, List.getElem?_map, gather_getElem?, hidx,
    Option.map_some, Option.join_some]
  cases hj : idx[i] with
  | none => simp
  | some j =>
    simp only [Option.bind_some]
    by_cases hjl : j < s.len
    · simp only [hjl, if_true]
      have e1 : (s.valid[j]?).getD false = (s.valid[j]?).getD false := rfl
      congr 1
      congr 1
      apply List.map_congr_left
      intro k _
      simp only [Function.comp, PList.take_rows, List.getElem?_map, gather_getElem?, hidx, hj,
        Option.map_some, Option.bind_some]
      cases h : k.list.rows[j]? <;> simp
    · have : s.valid[j]? = none := by
        apply List.getElem?_eq_none
        simp [PStruct.len] at hjl; omega
      simp [this, hjl]

/-- the row an optional position points to: missing for a masked or out-of-range position -/
def pickRow (rows : List (Row α)) (o : Option Nat) : Row α :=
  match o with
  | none => none
  | some j => (rows[j]?).join

theorem PStruct.take_rows (s : PStruct α) (idx : List (Option Nat)) :
    (s.take idx).rows = idx.map (pickRow s.rows) := by
  show (s.take idx).rows = idx.map fun o => match o with
      | none => none
      | some j => (s.rows[j]?).join
  apply List.ext_getElem?
  intro i
  rw [PStruct.rows_getElem?, PStruct.take_len]
  by_cases hi : i < idx.length
  · simp only [hi, if_true, List.getElem?_map, List.getElem?_eq_getElem hi, Option.map_some]
    rw [PStruct.take_rowAt s idx i hi, List.getElem?_eq_getElem hi]
    cases hj : idx[i] with
    | none => simp
    | some j =>
      simp only [Option.join_some, PStruct.rows_getElem?]
      by_cases hjl : j < s.len <;> simp [hjl]
  · simp [hi]

end NP
