/-
  NPModel.Refine.CleanFields — `set_flat_field` / `fill_field_lists` keep storage clean.
  Helper lemmas only.
-/
import NPModel.Refine.CleanFilter
import NPModel.Refine.FieldRows
namespace NP
variable {α : Type}

/-! ### windows of monotone offsets -/

theorem pairwise_of_monotone : ∀ (l : List Nat), monotone l = true → l.Pairwise (· ≤ ·)
  | [], _ => List.Pairwise.nil
  | [_], _ => List.pairwise_singleton _ _
  | a :: b :: rest, h => by
    simp only [monotone, Bool.and_eq_true, decide_eq_true_eq] at h
    have ih := pairwise_of_monotone (b :: rest) h.2
    refine List.pairwise_cons.mpr ⟨?_, ih⟩
    intro x hx
    rcases List.mem_cons.mp hx with rfl | hx
    · exact h.1
    · exact Nat.le_trans h.1 ((List.pairwise_cons.mp ih).1 x hx)

theorem monotone_window (l : List Nat) (h : monotone l = true) (st n : Nat) : monotone ((l.drop st).take n) = true :=
  monotone_of_pairwise_le _ (((pairwise_of_monotone l h).sublist (List.drop_sublist st l)).sublist (List.take_sublist n _))

theorem mem_window {β : Type} (l : List β) (st n : Nat) : ∀ x ∈ (l.drop st).take n, x ∈ l :=
  fun x hx => (List.drop_sublist st l).subset ((List.take_sublist n _).subset hx)

/-- a window of a well-formed list array is well formed -/
theorem PList.slice_WF (l : PList α) (hw : l.WF = true) (st n : Nat) (hb : st + n ≤ l.len) : (l.slice st n).WF = true := by
  have ⟨h1, h2, h3⟩ := PList.WF_parts hw
  unfold PList.WF PList.slice
  simp only [Bool.and_eq_true, decide_eq_true_eq]
  have hlen : l.valid.length = l.len := rfl
  refine ⟨⟨?_, monotone_window l.offs h2 st (n + 1)⟩, ?_⟩
  · simp only [List.length_take, List.length_drop]
    omega
  · have hall := monotone_le_last h2 h3
    cases hg : ((l.offs.drop st).take (n + 1)).getLast? with
    | none => simp
    | some x =>
      simp only [Option.getD_some]
      exact hall x (mem_window l.offs st (n + 1) x (List.mem_of_getLast? hg))

theorem PList.slice_len (l : PList α) (st n : Nat) (hb : st + n ≤ l.len) : (l.slice st n).len = n := by
  unfold PList.slice PList.len at *
  simp only [List.length_take, List.length_drop]
  omega

theorem PList.slice_allValid (l : PList α) (hv : ∀ v ∈ l.valid, v = true) (st n : Nat) :
    ∀ v ∈ (l.slice st n).valid, v = true :=
  fun v hvm => hv v (mem_window l.valid st n v hvm)

theorem nullEmpty_of_allValid (l : PList α) (hv : ∀ v ∈ l.valid, v = true) : l.nullEmpty = true := by
  unfold PList.nullEmpty
  rw [List.all_eq_true]
  intro p hp
  have := hv p.1 (List.of_mem_zip hp).1
  simp [this]

end NP

namespace NP
variable {α : Type}

/-! ### the chunk loop of `set_list_field`, structurally -/

/-- what the chunk loop returns: the same validity, the field upserted to the window of the value
    that starts where the chunk starts -/
def GoShape (f ty : String) (value : PList α) : List (PStruct α) → Nat → List (PStruct α) → Prop
  | [], _, [] => True
  | s :: rest, start, s' :: out =>
    s'.valid = s.valid ∧ s'.kids = upsertKid s.kids { name := f, ty := ty, list := value.slice start s.len } ∧
    GoShape f ty value rest (start + s.len) out
  | _, _, _ => False

theorem setListField_go_shape (f ty : String) (value : PList α) :
    ∀ (chunks : List (PStruct α)) (start : Nat) (out : List (PStruct α)),
      NArr.setListField.go f ty value chunks start = .ok out → GoShape f ty value chunks start out := by
  intro chunks
  induction chunks with
  | nil =>
    intro start out h
    simp [NArr.setListField.go, pure, Except.pure] at h
    subst h
    trivial
  | cons s rest ih =>
    intro start out h
    simp only [NArr.setListField.go] at h
    obtain ⟨s', hs', h⟩ := except_bind_ok h
    obtain ⟨rest', hr', h⟩ := except_bind_ok h
    simp [pure, Except.pure] at h
    subst h
    have ⟨hv, hk⟩ := structFromArrays_ok hs'
    exact ⟨hv, hk, ih _ _ hr'⟩

theorem mem_upsertKid (kids : List (PField α)) (k k' : PField α) (h : k' ∈ upsertKid kids k) : k' ∈ kids ∨ k' = k := by
  unfold upsertKid at h
  split at h
  · simp only [List.mem_map] at h
    obtain ⟨q, hq, rfl⟩ := h
    split
    · right; rfl
    · left; exact hq
  · simp only [List.mem_append, List.mem_singleton] at h
    exact h

theorem upsertKid_ty (kids : List (PField α)) (f ty : String) (l : PList α) :
    (upsertKid kids { name := f, ty := ty, list := l }).map (fun k => (k.name, k.ty)) =
      Spec.tyUpsert (kids.map fun k => (k.name, k.ty)) f ty := by
  unfold upsertKid Spec.tyUpsert
  have hany : (kids.map fun k => (k.name, k.ty)).any (·.1 == f) = kids.any (·.name == f) := by
    rw [List.any_map]; rfl
  simp only [hany]
  split
  · simp only [List.map_map]
    apply List.map_congr_left
    intro k _
    simp only [Function.comp]
    split <;> rfl
  · simp

/-- the rows of a value under the missing rows of a column hold nothing -/
def HiddenFree (value : PList α) (rows : List (Row α)) (start : Nat) : Prop :=
  ∀ j, j < rows.length → rows.getD j none = none → len0 (value.rows.getD (start + j) none) = 0

theorem goShape_chunkClean (f ty : String) (value : PList α) (hvw : value.WF = true) (hvv : ∀ v ∈ value.valid, v = true)
    (cty : List (String × String)) :
    ∀ (chunks : List (PStruct α)) (start : Nat) (out : List (PStruct α)), GoShape f ty value chunks start out →
      (∀ s ∈ chunks, ChunkClean cty s) → start + sumNat (chunks.map PStruct.len) ≤ value.len →
      HiddenFree value (chunks.flatMap PStruct.rows) start → (∀ s' ∈ out, s'.validate = .ok ()) →
      ∀ s' ∈ out, ChunkClean (Spec.tyUpsert cty f ty) s' := by
  intro chunks
  induction chunks with
  | nil =>
    intro start out hs _ _ _ _ s' hs'
    cases out with
    | nil => cases hs'
    | cons _ _ => cases hs
  | cons s rest ih =>
    intro start out hsh hcl hb hh hval s' hs'
    cases out with
    | nil => cases hsh
    | cons s1 out' =>
      obtain ⟨hv, hk, hrest⟩ := hsh
      have hs := hcl s List.mem_cons_self
      have hb0 : start + (s.len + sumNat (rest.map PStruct.len)) ≤ value.len := by
        simpa [sumNat] using hb
      have hb1 : start + s.len ≤ value.len := by omega
      rcases List.mem_cons.mp hs' with rfl | hs''
      · -- the first chunk
        have hlen : s'.len = s.len := by unfold PStruct.len; rw [hv]
        have hnew_rows : ∀ i, i < s.len →
            (value.slice start s.len).rows.getD i none = value.rows.getD (start + i) none := by
          intro i hi
          rw [PList.slice_rows]
          have hvl : value.rows.length = value.len := by
            have ⟨h1, _, _⟩ := PList.WF_parts hvw
            rw [PList.rows_length _ h1]; rfl
          simp only [List.getD_eq_getElem?_getD, List.getElem?_take, hi, if_true, List.getElem?_drop]
        refine ⟨?_, ?_, ?_, hval s' List.mem_cons_self, ?_⟩
        · unfold PStruct.WF
          rw [List.all_eq_true]
          intro k hkm
          rw [hk] at hkm
          simp only [Bool.and_eq_true, decide_eq_true_eq]
          rcases mem_upsertKid _ _ _ hkm with hold | rfl
          · have ⟨hw1, hl1⟩ := PStruct.WF_kid hs.wf hold
            exact ⟨hw1, by rw [hl1, hlen]⟩
          · exact ⟨PList.slice_WF value hvw start s.len hb1, by rw [PList.slice_len value start s.len hb1, hlen]⟩
        · show s'.kids.map (fun k => (k.name, k.ty)) = _
          rw [hk, upsertKid_ty]
          have : (s.kids.map fun k => (k.name, k.ty)) = cty := hs.ty_eq
          rw [this]
        · unfold PStruct.nullEmpty
          rw [List.all_eq_true]
          intro k hkm
          rw [hk] at hkm
          rcases mem_upsertKid _ _ _ hkm with hold | rfl
          · exact (List.all_eq_true.mp hs.nullEmpty) k hold
          · exact nullEmpty_of_allValid _ (PList.slice_allValid value hvv start s.len)
        · intro i hi hvi k hkm
          rw [hlen] at hi
          rw [hv] at hvi
          rw [hk] at hkm
          rcases mem_upsertKid _ _ _ hkm with hold | rfl
          · exact hs.noHidden i hi hvi k hold
          · simp only
            rw [hnew_rows i hi]
            apply hh i (by simp [PStruct.rows_length]; omega)
            simp only [List.flatMap_cons]
            have hi' : i < s.rows.length := by rw [PStruct.rows_length]; exact hi
            rw [List.getD_eq_getElem?_getD, List.getElem?_append_left hi']
            unfold PStruct.rows
            simp only [List.getElem?_map, List.getElem?_range hi, Option.map_some, Option.getD_some]
            unfold PStruct.rowAt
            rw [hvi]
            simp
      · -- the remaining chunks
        apply ih (start + s.len) out' hrest (fun x hx => hcl x (List.mem_cons_of_mem _ hx)) (by omega) ?_
          (fun x hx => hval x (List.mem_cons_of_mem _ hx)) s' hs''
        intro j hj hnone
        have := hh (s.len + j) (by simp [PStruct.rows_length] at hj ⊢; omega) (by
          simp only [List.flatMap_cons]
          have hge : s.rows.length ≤ s.len + j := by rw [PStruct.rows_length]; omega
          rw [List.getD_eq_getElem?_getD, List.getElem?_append_right hge]
          rw [PStruct.rows_length]
          have e : s.len + j - s.len = j := by omega
          rw [e, ← List.getD_eq_getElem?_getD]
          exact hnone)
        have e : start + (s.len + j) = start + s.len + j := by omega
        rw [e] at this
        exact this

end NP

namespace NP
variable {α : Type}

/-! ### `set_list_field` / `set_flat_field` / `fill_field_lists` on clean storage -/

theorem goShape_ne (f ty : String) (value : PList α) : ∀ (chunks : List (PStruct α)) (start : Nat) (out : List (PStruct α)),
    GoShape f ty value chunks start out → chunks ≠ [] → out ≠ []
  | [], _, _, _, h => absurd rfl h
  | _ :: _, _, [], hs, _ => by cases hs
  | _ :: _, _, _ :: _, _, _ => List.cons_ne_nil _ _

theorem goShape_len (f ty : String) (value : PList α) : ∀ (chunks : List (PStruct α)) (start : Nat) (out : List (PStruct α)),
    GoShape f ty value chunks start out → sumNat (out.map PStruct.len) = sumNat (chunks.map PStruct.len)
  | [], _, [], _ => rfl
  | [], _, _ :: _, hs => by cases hs
  | _ :: _, _, [], hs => by cases hs
  | s :: rest, start, s' :: out, hs => by
    obtain ⟨hv, _, hr⟩ := hs
    have ih := goShape_len f ty value rest (start + s.len) out hr
    have : s'.len = s.len := by unfold PStruct.len; rw [hv]
    simp only [List.map_cons, sumNat, List.foldr_cons] at ih ⊢
    rw [this, ih]

theorem tyUpsert_ne_nil (ty : List (String × String)) (f t : String) : Spec.tyUpsert ty f t ≠ [] := by
  unfold Spec.tyUpsert
  split
  · rename_i h
    intro hn
    have : ty = [] := by simpa using hn
    rw [this] at h
    simp at h
  · simp

/-- **`set_list_field` keeps storage clean** when the supplied list array is well formed, has no
    null list, and holds nothing under the column's missing rows. -/
theorem setListField_clean (c : PCol α) (hc : c.Clean) (hch : c.chunks ≠ []) (f ty : String) (value : PList α)
    (keep : Bool) (c' : PCol α) (hvw : value.WF = true) (hvv : ∀ v ∈ value.valid, v = true)
    (hh : HiddenFree value c.rows 0) (h : NArr.setListField c f ty value keep = .ok c') :
    c'.Clean ∧ c'.chunks ≠ [] ∧ c'.len = c.len := by
  have hvl := setListField_len h
  unfold NArr.setListField at h
  cases hn : NArr.fieldNames c with
  | error e => simp [hn, bind, Except.bind] at h
  | ok names =>
    cases hgo : NArr.setListField.go f ty value c.chunks 0 with
    | error e =>
      simp only [hn, hgo, bind, Except.bind, pure, Except.pure, throw, throwThe, MonadExceptOf.throw] at h
      repeat' split at h
      all_goals simp at h
    | ok chunks =>
      simp only [hn, hgo, bind, Except.bind, pure, Except.pure, throw, throwThe, MonadExceptOf.throw] at h
      have hshape := setListField_go_shape f ty value c.chunks 0 chunks hgo
      by_cases hk : (keep = true ∧ ¬ names.contains f = true)
      · rw [if_pos hk] at h; cases h
      · rw [if_neg hk] at h
        by_cases hl : value.len ≠ c.len
        · rw [if_pos hl] at h; cases h
        · rw [if_neg hl] at h
          cases hvd : PCol.validate { ty := Spec.tyUpsert c.ty f ty, chunks := chunks } with
          | error e =>
            have hvd' : PCol.validate { ty := (if c.ty.any (·.1 == f) then c.ty.map fun p => if p.1 == f then (f, ty) else p
                else c.ty ++ [(f, ty)]), chunks := chunks } = .error e := hvd
            rw [hvd'] at h
            cases h
          | ok u =>
            have hvd' : PCol.validate { ty := (if c.ty.any (·.1 == f) then c.ty.map fun p => if p.1 == f then (f, ty) else p
                else c.ty ++ [(f, ty)]), chunks := chunks } = .ok u := hvd
            rw [hvd'] at h
            have he : c' = { ty := Spec.tyUpsert c.ty f ty, chunks := chunks } := (Except.ok.inj h).symm
            subst he
            have hvd0 : PCol.validate { ty := Spec.tyUpsert c.ty f ty, chunks := chunks } = .ok () := hvd
            have hchunks := goShape_chunkClean f ty value hvw hvv c.ty c.chunks 0 chunks hshape
              (PCol.Clean.chunkClean c hc) (by rw [Nat.zero_add]; exact Nat.le_of_eq hvl.symm)
              (by intro j hj hnone; exact hh j hj hnone) (fun s' hs' => forM_ok hvd0 s' hs')
            refine ⟨clean_of_chunks _ chunks (tyUpsert_ne_nil c.ty f ty) hchunks,
              goShape_ne f ty value c.chunks 0 chunks hshape hch, ?_⟩
            show sumNat (chunks.map PStruct.len) = sumNat (c.chunks.map PStruct.len)
            exact goShape_len f ty value c.chunks 0 chunks hshape

end NP

namespace NP
variable {α : Type}

theorem setFlatField_inv {c c' : PCol α} {f ty : String} {xs : List α} {keep : Bool} (hc : c.Clean)
    (h : NArr.setFlatField c f ty (.array xs) keep = .ok c') :
    ∃ la : PList α, la = { offs := offsetsFrom 0 (c.rows.map Row.len)
                           valid := List.replicate ((offsetsFrom 0 (c.rows.map Row.len)).length - 1) true, vals := xs } ∧
      xs.length = Spec.flatLength c.rows ∧ NArr.setListField c f ty la keep = .ok c' := by
  unfold NArr.setFlatField at h
  cases hn : NArr.fieldNames c with
  | error e => simp [hn, bind, Except.bind] at h
  | ok names =>
    simp only [hn, flatLength_refines c hc, listOffsets_refines c hc, bind, Except.bind, pure, Except.pure, throw,
      throwThe, MonadExceptOf.throw] at h
    by_cases hxl : xs.length = Spec.flatLength c.rows
    · cases hla : listFromArrays (offsetsFrom 0 (c.rows.map Row.len)) xs with
      | error e =>
        simp only [hla, hxl, ne_eq, not_true_eq_false, if_false] at h
        repeat' split at h
        all_goals simp at h
      | ok la =>
        have hlaeq := listFromArrays_ok _ _ _ hla
        simp only [hla, hxl, ne_eq, not_true_eq_false, if_false] at h
        have hset : NArr.setListField c f ty la keep = .ok c' := by
          repeat' split at h
          all_goals first
            | (simp at h; done)
            | exact h
        exact ⟨la, hlaeq, hxl, hset⟩
    · exfalso
      simp only [hxl, ne_eq, not_false_eq_true, if_true] at h
      repeat' split at h
      all_goals simp at h

/-- **`set_flat_field` keeps storage clean** (behind `with_flat_field`, `.nest[f] = values`,
    `frame['n.f'] = values`, eval assignment): the flat values are cut by the rows' record counts,
    so nothing ends up under a missing row. -/
theorem setFlatField_clean (c : PCol α) (hc : c.Clean) (hch : c.chunks ≠ []) (f ty : String) (xs : List α) (keep : Bool)
    (c' : PCol α) (h : NArr.setFlatField c f ty (.array xs) keep = .ok c') :
    c'.Clean ∧ c'.chunks ≠ [] ∧ c'.len = c.len := by
  obtain ⟨la, hla, hxl, hset⟩ := setFlatField_inv hc h
  let lens := c.rows.map Row.len
  have hsum : xs.length = sumNat lens := hxl
  have hlarows : la.rows = (Spec.splitBy lens xs).map some := by
    rw [hla, rows_allValid, segs_offsetsFrom_splitBy, List.drop_zero]
  have ⟨_, hpl⟩ := splitBy_flatten' lens xs hsum
  apply setListField_clean c hc hch f ty la keep c' ?_ ?_ ?_ hset
  · -- well formed
    rw [hla]
    unfold PList.WF
    simp only [offsetsFrom_length, List.length_replicate, Nat.add_sub_cancel, decide_true, Bool.true_and,
      monotone_offsetsFrom, offsetsFrom_last, Nat.zero_add, Bool.and_eq_true, decide_eq_true_eq, true_and]
    exact Nat.le_of_eq hsum.symm
  · rw [hla]
    intro v hv
    exact (List.mem_replicate.mp hv).2
  · intro j hj hnone
    rw [Nat.zero_add, hlarows]
    have hjl : j < lens.length := by simpa [lens] using hj
    have hpj : (Spec.splitBy lens xs).length = lens.length := by
      have := congrArg List.length hpl
      simpa using this
    have hget : (Spec.splitBy lens xs)[j]? = some ((Spec.splitBy lens xs)[j]'(by rw [hpj]; exact hjl)) :=
      List.getElem?_eq_getElem _
    simp only [List.getD_eq_getElem?_getD, List.getElem?_map, hget, Option.map_some, Option.getD_some, len0]
    -- the piece has the row's record count, which is 0 for a missing row
    have hlenj : ((Spec.splitBy lens xs)[j]'(by rw [hpj]; exact hjl)).length = lens[j] := by
      have := congrArg (fun l => l[j]?) hpl
      simp only [List.getElem?_map, hget, Option.map_some, List.getElem?_eq_getElem hjl] at this
      exact Option.some.inj this
    have hrow : c.rows[j]? = some none := by
      rw [List.getD_eq_getElem?_getD, List.getElem?_eq_getElem hj] at hnone
      rw [List.getElem?_eq_getElem hj]
      simpa using hnone
    have hl0 : lens[j] = 0 := by
      have : lens[j]? = some 0 := by
        simp only [lens, List.getElem?_map, hrow, Option.map_some]
        rfl
      rw [List.getElem?_eq_getElem hjl] at this
      exact Option.some.inj this
    rw [hlenj, hl0]

end NP

namespace NP
variable {α : Type}

theorem setFlatField_scalar (c : PCol α) (hc : c.Clean) (f ty : String) (x : α) (keep : Bool) :
    NArr.setFlatField c f ty (.scalar x) keep =
      NArr.setFlatField c f ty (.array (List.replicate (Spec.flatLength c.rows) x)) keep := by
  unfold NArr.setFlatField
  simp only [flatLength_refines c hc, bind, Except.bind]

/-- any flat value: an array, or one value for every record -/
theorem setFlatField_clean' (c : PCol α) (hc : c.Clean) (hch : c.chunks ≠ []) (f ty : String) (v : FlatVal α) (keep : Bool)
    (c' : PCol α) (h : NArr.setFlatField c f ty v keep = .ok c') : c'.Clean ∧ c'.chunks ≠ [] ∧ c'.len = c.len := by
  cases v with
  | array xs => exact setFlatField_clean c hc hch f ty xs keep c' h
  | scalar x =>
    rw [setFlatField_scalar c hc] at h
    exact setFlatField_clean c hc hch f ty _ keep c' h

theorem fillFieldLists_clean (c : PCol α) (hc : c.Clean) (hch : c.chunks ≠ []) (f ty : String) (vs : List α) (keep : Bool)
    (c' : PCol α) (h : NArr.fillFieldLists c f ty vs keep = .ok c') : c'.Clean ∧ c'.chunks ≠ [] ∧ c'.len = c.len := by
  unfold NArr.fillFieldLists at h
  simp only [bind, Except.bind, throw, throwThe, MonadExceptOf.throw] at h
  split at h
  · cases h
  · split at h
    · cases h
    · exact setFlatField_clean c hc hch f ty _ keep c' h

/-! ### field assignment and eval assignment keep frames sound -/

theorem nest?_mem (F : NFrame α) (nest : String) (c : PCol α) (h : F.nest? nest = .ok c) :
    ∃ n, (n, ColData.nest c) ∈ F.cols := by
  unfold NFrame.nest? NFrame.col? at h
  cases hf : F.cols.find? (·.1 == nest) with
  | none => simp [hf] at h
  | some p =>
    obtain ⟨n, d⟩ := p
    simp only [hf, Option.map_some] at h
    cases d with
    | base t v => simp at h
    | nest c0 =>
      simp only [pure, Except.pure] at h
      have : c0 = c := by injection h
      subst this
      exact ⟨n, List.mem_of_find?_eq_some hf⟩

/-- **`frame['nest.field'] = values` keeps frames sound** (flat values for an existing nest, one value
    per row, one value for all records, or a new nest joined from a flat series) -/
theorem setField_sound [Inhabited α] (F : NFrame α) (h : F.Sound) (nest field ty : String) (v : FlatVal α)
    (valueIndex : Option (List Label)) (na : α) (F' : NFrame α)
    (hok : F.setField nest field ty v valueIndex na = .ok F') : F'.Sound := by
  unfold NFrame.setField at hok
  by_cases hn : F.nestedColumns.contains nest = true
  · simp only [hn, if_true, bind, Except.bind, pure, Except.pure] at hok
    split at hok
    · cases hok
    · rename_i c hc
      obtain ⟨n, hmem⟩ := nest?_mem F nest c hc
      have ⟨hcl, hch, hlen⟩ := h.nest n c hmem
      split at hok
      · cases hok
      · rename_i s' hs'
        have he := (Except.ok.inj hok).symm
        subst he
        -- every branch edits a copy of the column through `set_flat_field`
        have key : s'.col.Clean ∧ s'.col.chunks ≠ [] ∧ s'.col.len = c.len := by
          unfold NSeries.withFilledField NSeries.withFlatField NArr.copy at hs'
          simp only [bind, Except.bind, pure, Except.pure] at hs'
          repeat' split at hs'
          all_goals first
            | (cases hs'; done)
            | (rename_i c2 hc2
               have := (Except.ok.inj hs').symm
               subst this
               first
                 | exact fillFieldLists_clean c hcl hch field ty _ false c2 hc2
                 | exact setFlatField_clean' c hcl hch field ty _ false c2 hc2)
        exact setCol_sound F h nest s'.col key.1 key.2.1 (by rw [key.2.2, hlen])
  · simp only [hn, Bool.false_eq_true, if_false] at hok
    split at hok
    · exact addNested_sound F h _ nest .left na F' hok
    · cases hok

theorem evalAssign_sound (F : NFrame Cell) (h : F.Sound) (nest field : String) (e : Expr) (F' : NFrame Cell)
    (hok : F.evalAssign nest field e = .ok F') : F'.Sound := by
  unfold NFrame.evalAssign at hok
  simp only [bind, Except.bind] at hok
  split at hok
  · cases hok
  · exact setField_sound F h nest field _ _ _ none F' hok

end NP

namespace NP

/-- every frame operation of the model: rebuilds, joins, base-layer queries, field and eval assignment -/
inductive AllOp where
  | any (op : AnyOp)
  | setField (nest field ty : String) (v : FlatVal Cell) (valueIndex : Option (List Label))
  | evalAssign (nest field : String) (e : Expr)

def AllOp.run (F : NFrame Cell) : AllOp → R (NFrame Cell)
  | .any op => op.run F
  | .setField nest field ty v vi => F.setField nest field ty v vi none
  | .evalAssign nest field e => F.evalAssign nest field e

def runAllChain (F : NFrame Cell) : List AllOp → R (NFrame Cell)
  | [] => .ok F
  | op :: ops => match op.run F with
    | .ok F' => runAllChain F' ops
    | .error e => .error e

theorem AnyOp.run_sound (F : NFrame Cell) (h : F.Sound) (op : AnyOp) (F₁ : NFrame Cell) (hr : op.run F = .ok F₁) :
    F₁.Sound := by
  have := runAnyChain_sound [op] F h F₁ (by
    unfold runAnyChain
    rw [hr]
    rfl)
  exact this

theorem runAllChain_sound : ∀ (ops : List AllOp) (F : NFrame Cell), F.Sound → ∀ F', runAllChain F ops = .ok F' → F'.Sound
  | [], F, h, F', hok => by
    have := (Except.ok.inj hok).symm
    subst this
    exact h
  | op :: ops, F, h, F', hok => by
    unfold runAllChain at hok
    cases hr : op.run F with
    | error e => rw [hr] at hok; cases hok
    | ok F₁ =>
      rw [hr] at hok
      have h₁ : F₁.Sound := by
        cases op with
        | any o => exact AnyOp.run_sound F h o F₁ hr
        | setField nest field ty v vi => exact setField_sound F h nest field ty v vi none F₁ hr
        | evalAssign nest field e => exact evalAssign_sound F h nest field e F₁ hr
      exact runAllChain_sound ops F₁ h₁ F' hok

end NP
