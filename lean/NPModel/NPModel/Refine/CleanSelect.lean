/-
  NPModel.Refine.CleanSelect — more operations that keep storage clean: positional `take` without
  fill, `dropna` of a column, `_concat_same_type`.  Helper lemmas only.
-/
import NPModel.Refine.CleanFilter
namespace NP
variable {α : Type}

/-- gathering rows of a clean column at any positions gives one clean chunk -/
theorem PCol.take_clean (c : PCol α) (hc : c.Clean) (idx : List (Option Nat)) :
    (c.take idx).Clean ∧ (c.take idx).len = idx.length ∧ (c.take idx).chunks ≠ [] := by
  have hal : c.aligned := PCol.aligned_of_validate c hc.wf hc.nullEmpty hc.validated
  let s := c.combine.take idx
  have hslen : s.len = idx.length := by simp [s, PStruct.take, PStruct.len, gather]
  have hkl : ∀ k ∈ s.kids, k.list.rows.length = s.len := by
    intro k hk
    rw [hslen]
    exact PStruct.take_kid_rows_length c.combine idx k hk
  have ⟨hws, hnes⟩ := canonical_WF s (PStruct.take_canonical c.combine idx) hkl
  have hty : s.ty = c.ty := by rw [PStruct.take_ty, PCol.combine_ty]
  have hcc : ChunkClean c.ty s := ⟨hws, hty, hnes, PStruct.take_validate c.combine (PCol.combine_aligned c hc.wf hal) idx,
    PStruct.take_noHidden c.combine (PCol.combine_noHidden c hc.wf hc.noHidden)
      (fun k hk => by rw [PCol.combine_kid_rows_length c hc.wf k hk, PCol.combine_len]) idx⟩
  refine ⟨?_, ?_, List.cons_ne_nil _ _⟩
  · show PCol.Clean { ty := c.ty, chunks := [s] }
    apply clean_of_chunks c.ty [s] hc.fields
    intro s' hs'
    simp only [List.mem_cons, List.not_mem_nil, or_false] at hs'
    subst hs'
    exact hcc
  · show PCol.len { c with chunks := [s] } = _
    simp only [PCol.len, List.map_cons, List.map_nil, sumNat, List.foldr_cons, List.foldr_nil, Nat.add_zero, hslen]

/-- **`take` in both modes keeps storage clean** (without fill: positions, negatives from the end;
    with a missing fill value: `-1` ↦ missing) -/
theorem take_clean (c : PCol α) (hc : c.Clean) (indices : List Int) (allowFill : Bool) (c' : PCol α)
    (h : NArr.take c indices allowFill none = .ok c') : c'.Clean ∧ c'.len = indices.length ∧ c'.chunks ≠ [] := by
  cases allowFill with
  | true =>
    have ⟨h1, h2, _, h4⟩ := take_none_clean c hc indices c' h
    exact ⟨h1, h2, h4⟩
  | false =>
    unfold NArr.take at h
    simp only [bind, Except.bind, pure, Except.pure, throw, throwThe, MonadExceptOf.throw, Bool.false_eq_true,
      if_false] at h
    repeat' split at h
    all_goals first
      | (cases h; done)
      | (have ⟨k1, k2, k3⟩ := PCol.take_clean c hc (indices.map (normPos c.len))
         have hemp : (c.take (indices.map (normPos c.len))).chunks.isEmpty = false := by
           cases hcc : (c.take (indices.map (normPos c.len))).chunks with
           | nil => exact absurd hcc k3
           | cons _ _ => rfl
         unfold NArr.init at h
         simp only [hemp, Bool.false_eq_true, if_false, if_true, bind, Except.bind, pure, Except.pure] at h
         split at h
         · cases h
         · have := (Except.ok.inj h).symm
           subst this
           exact ⟨k1, by rw [k2, List.length_map], k3⟩)

/-- **`_concat_same_type` keeps storage clean**: the chunks of clean inputs that declare `ty` -/
theorem concat_clean (ty : List (String × String)) (hty : ty ≠ []) (cs : List (PCol α))
    (hcs : ∀ c ∈ cs, c.Clean ∧ c.ty = ty) (hne : cs.flatMap (·.chunks) ≠ []) (c' : PCol α)
    (h : NArr.concat ty cs = .ok c') : c'.Clean ∧ c'.chunks ≠ [] := by
  unfold NArr.concat NArr.init at h
  have hemp : (cs.flatMap (·.chunks)).isEmpty = false := by
    cases hcc : cs.flatMap (·.chunks) with
    | nil => exact absurd hcc hne
    | cons _ _ => rfl
  simp only [hemp, Bool.false_eq_true, if_false, if_true, bind, Except.bind, pure, Except.pure] at h
  split at h
  · cases h
  · have := (Except.ok.inj h).symm
    subst this
    refine ⟨clean_of_chunks ty _ hty ?_, hne⟩
    intro s hs
    rw [List.mem_flatMap] at hs
    obtain ⟨c, hc, hsc⟩ := hs
    have ⟨hcl, hct⟩ := hcs c hc
    have := PCol.Clean.chunkClean c hcl s hsc
    rw [hct] at this
    exact this

end NP
