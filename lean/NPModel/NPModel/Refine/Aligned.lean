/-
  NPModel.Refine.Aligned — completeness of the validator on fresh (canonical) outputs: when all
  fields of a chunk have the same per-row lengths (null = 0) — which validated storage has, in
  every row including missing ones — `take`, `filter` and their relatives produce storage the
  validator accepts.  Needed wherever the code validates a result (`take`, `_concat_same_type`,
  `__setitem__`, `dropna`).
-/
import NPModel.Refine.Validate
import NPModel.Refine.Select
namespace NP
variable {α : Type}

def len0 (r : Option (List α)) : Nat := (r.getD []).length

/-- all fields have the same per-row lengths, row by row (missing rows included) -/
def PStruct.aligned (s : PStruct α) : Prop :=
  ∀ k ∈ s.kids, ∀ k' ∈ s.kids, k.list.rows.map len0 = k'.list.rows.map len0

theorem ofRows_offs (rows : List (Option (List α))) : (PList.ofRows rows).offs = offsetsFrom 0 (rows.map len0) := rfl

/-- per-row lengths are the offset differences (well-formed, null ⇒ empty extent) -/
theorem PList.lens_eq_diffs (l : PList α) (hw : l.WF = true) (hne : l.nullEmpty = true) :
    l.rows.map len0 = diffs l.offs := by
  have ⟨h1, _, _⟩ := PList.WF_parts hw
  apply List.ext_getElem?
  intro i
  have hrl : l.rows.length = l.valid.length := PList.rows_length l h1
  have hdl : (diffs l.offs).length = l.valid.length := by simp [diffs_length, h1]
  by_cases hi : i < l.valid.length
  · have h := PList.row_length l hw hne i hi
    simp only [List.getElem?_map]
    rw [List.getElem?_eq_getElem (by omega : i < l.rows.length), List.getElem?_eq_getElem (by omega : i < (diffs l.offs).length)]
    simp only [Option.map_some, Option.some.injEq, len0]
    simp only [List.getD_eq_getElem?_getD, List.getElem?_eq_getElem (by omega : i < l.rows.length),
      List.getElem?_eq_getElem (by omega : i < (diffs l.offs).length), Option.getD_some] at h
    exact h
  · have e1 : (l.rows.map len0)[i]? = none := List.getElem?_eq_none (by simp; omega)
    have e2 : (diffs l.offs)[i]? = none := List.getElem?_eq_none (by omega)
    rw [e1, e2]

/-- validated storage is aligned in every row -/
theorem PStruct.aligned_of_validate (s : PStruct α) (hw : s.WF = true) (hne : s.nullEmpty = true)
    (hv : s.validate = .ok ()) : s.aligned := by
  have key : ∀ k0 ks, s.kids = k0 :: ks → ∀ k ∈ s.kids, k.list.rows.map len0 = k0.list.rows.map len0 := by
    intro k0 ks hk k hkm
    have hm0 : k0 ∈ s.kids := by rw [hk]; exact List.mem_cons_self
    have ⟨hw0, _⟩ := PStruct.WF_kid hw hm0
    have ⟨hwk, _⟩ := PStruct.WF_kid hw hkm
    have hne0 : k0.list.nullEmpty = true := (List.all_eq_true.mp hne) k0 hm0
    have hnek : k.list.nullEmpty = true := (List.all_eq_true.mp hne) k hkm
    rw [PList.lens_eq_diffs _ hwk hnek, PList.lens_eq_diffs _ hw0 hne0]
    have ⟨_, hmk, _⟩ := PList.WF_parts hwk
    have ⟨_, hm0', _⟩ := PList.WF_parts hw0
    rw [hk] at hkm
    rcases List.mem_cons.mp hkm with rfl | hk'
    · rfl
    · rw [← diffs_rebased hmk, ← diffs_rebased hm0', PStruct.validate_kids hk hv k hk']
  intro k hkm k' hkm'
  cases hk : s.kids with
  | nil => rw [hk] at hkm; cases hkm
  | cons k0 ks => rw [key k0 ks hk k hkm, key k0 ks hk k' hkm']

theorem gather_map_len0 (idx : List (Option Nat)) (rows rows' : List (Option (List α)))
    (h : rows.map len0 = rows'.map len0) :
    ((gather idx rows).map Option.join).map len0 = ((gather idx rows').map Option.join).map len0 := by
  unfold gather
  simp only [List.map_map]
  apply List.map_congr_left
  intro o _
  cases o with
  | none => rfl
  | some j =>
    simp only [Function.comp, Option.bind_some]
    have := congrArg (fun l => l[j]?) h
    simp only [List.getElem?_map] at this
    cases h1 : rows[j]? <;> cases h2 : rows'[j]? <;> simp [h1, h2, len0] at this ⊢
    exact this

/-- **`take` of aligned storage is accepted by the validator** -/
theorem PStruct.take_validate (s : PStruct α) (ha : s.aligned) (idx : List (Option Nat)) :
    (s.take idx).validate = .ok () := by
  unfold PStruct.validate PStruct.take
  cases hk : s.kids with
  | nil => rfl
  | cons k ks =>
    simp only [List.map_cons]
    have hall : (ks.map fun k' => ({ k' with list := k'.list.take idx } : PField α)).all
        (fun k' => rebased k'.list.offs == rebased (k.list.take idx).offs) = true := by
      rw [List.all_map, List.all_eq_true]
      intro k' hk'
      have hmem : k' ∈ s.kids := by rw [hk]; exact List.mem_cons_of_mem _ hk'
      have hmem0 : k ∈ s.kids := by rw [hk]; exact List.mem_cons_self
      simp only [Function.comp, PList.take, ofRows_offs]
      rw [gather_map_len0 idx _ _ (ha k' hmem k hmem0)]
      simp
    simp only [hall, if_true]

end NP

namespace NP
variable {α : Type}

def PCol.aligned (c : PCol α) : Prop := ∀ s ∈ c.chunks, s.aligned

theorem PCol.aligned_of_validate (c : PCol α) (hw : c.WF = true) (hne : ∀ s ∈ c.chunks, s.nullEmpty = true)
    (hv : c.validate = .ok ()) : c.aligned := by
  intro s hs
  have hws : s.WF = true := by
    unfold PCol.WF at hw
    have := (List.all_eq_true.mp hw) s hs
    simp at this
    exact this.1
  exact PStruct.aligned_of_validate s hws (hne s hs) (forM_ok hv s hs)

theorem PCol.combine_aligned (c : PCol α) (hw : c.WF = true) (ha : c.aligned) : c.combine.aligned := by
  have hch : ∀ s ∈ c.chunks, s.WF = true ∧ s.ty = c.ty := by
    intro s hs
    unfold PCol.WF at hw
    have := (List.all_eq_true.mp hw) s hs
    simpa using this
  -- per-field rows of the combined chunk
  have hrows : ∀ k ∈ c.combine.kids, ∃ j, j < c.ty.length ∧ k.list.rows = c.chunks.flatMap (fun ch => ch.kidRows j) := by
    intro k hk
    unfold PCol.combine at hk
    simp only [List.mem_map, List.mem_range] at hk
    obtain ⟨j, hj, rfl⟩ := hk
    exact ⟨j, hj, by simp [PList.ofRows_rows]⟩
  have hpair : ∀ j j', j < c.ty.length → j' < c.ty.length →
      (c.chunks.flatMap fun ch => ch.kidRows j).map len0 = (c.chunks.flatMap fun ch => ch.kidRows j').map len0 := by
    intro j j' hj hj'
    rw [List.map_flatMap, List.map_flatMap, List.flatMap_def, List.flatMap_def]
    congr 1
    apply List.map_congr_left
    intro s hs
    have ⟨_, hty⟩ := hch s hs
    have hlen : s.kids.length = c.ty.length := by
      have := congrArg List.length (PStruct.names_of_ty hty)
      simpa using this
    have hk1 : s.kids[j]? = some s.kids[j] := List.getElem?_eq_getElem (by omega)
    have hk2 : s.kids[j']? = some s.kids[j'] := List.getElem?_eq_getElem (by omega)
    rw [s.kidRows_of_get j _ hk1, s.kidRows_of_get j' _ hk2]
    exact ha s hs _ (List.getElem_mem _) _ (List.getElem_mem _)
  intro k hk k' hk'
  obtain ⟨j, hj, e⟩ := hrows k hk
  obtain ⟨j', hj', e'⟩ := hrows k' hk'
  rw [e, e']
  exact hpair j j' hj hj'

/-- the result of a column-level `take` passes the constructor's validation -/
theorem PCol.take_validate (c : PCol α) (hw : c.WF = true) (ha : c.aligned) (idx : List (Option Nat)) :
    (c.take idx).validate = .ok () := by
  unfold PCol.validate PCol.take
  show ((c.combine.take idx).validate >>= fun _ => List.forM [] PStruct.validate) = _
  rw [PStruct.take_validate _ (PCol.combine_aligned c hw ha) idx]
  rfl

end NP
