/-
  NPModel.Refine.ReduceRows — `NestedFrame.reduce`: what the user function receives, end to end
  through the implementation model, for base columns and nested fields of cleanly stored columns
  (C10).
-/
import NPModel.Refine.Observers
import NPModel.Impl.Frame
namespace NP
variable {α : Type}

/-- what a requested column hands to the function at row `i` -/
def reduceArg (F : NFrame α) (col : Option String × String) (i : Nat) (d : α) : RArg α → Prop := fun a =>
  match col.1 with
  | none => ∃ t v, F.col? col.2 = some (.base t v) ∧ a = .scalar (v.getD i d)
  | some l => ∃ c r, F.nest? l = .ok c ∧ a = .array r ∧ r.getD [] = (Spec.fieldLists c.rows col.2).getD i []

/-- a request the theorem covers: a base column with one value per row, or a field of a cleanly
    stored nested column with one row per frame row -/
def reduceColOK (F : NFrame α) (col : Option String × String) : Prop :=
  match col.1 with
  | none => ∃ t v, F.col? col.2 = some (.base t v) ∧ v.length = F.index.length
  | some l => ∃ c, F.nest? l = .ok c ∧ c.Clean ∧ c.ty.any (·.1 == col.2) = true ∧ c.len = F.index.length

theorem foldl_min_eq (n : Nat) : ∀ (l : List Nat), (∀ x ∈ l, x = n) → l.foldl min n = n
  | [], _ => rfl
  | a :: l, h => by
    simp only [List.foldl_cons, h a List.mem_cons_self, Nat.min_self]
    exact foldl_min_eq n l (fun x hx => h x (List.mem_cons_of_mem _ hx))

/-- **`reduce`, call by call**: for any non-empty list of covered requests the call log has exactly
    one call per frame row, in row order; call `i` has one argument per request, in request order:
    the base value of row `i`, or — for a nested field — the list that field has in row `i` of the
    element view (no elements for a missing row; whether pyarrow shows that as a null or an empty
    list is not constrained). -/
theorem reduceCalls_rows (F : NFrame α) (cols : List (Option String × String)) (d : α)
    (hne : cols ≠ []) (hok : ∀ col ∈ cols, reduceColOK F col) :
    ∃ calls, F.reduceCalls cols d = .ok calls ∧ calls.length = F.index.length ∧
      ∀ i, i < F.index.length → ∀ (j : Nat) (col : Option String × String), cols[j]? = some col →
        ∃ a, (calls.getD i [])[j]? = some a ∧ reduceArg F col i d a := by
  unfold NFrame.reduceCalls
  have hemp : cols.isEmpty = false := by cases cols <;> simp at hne ⊢
  simp only [hemp, Bool.false_eq_true, if_false, bind, Except.bind, pure, Except.pure]
  -- every iterator succeeds, has one entry per row, and entry i is the covered argument
  have hiter : ∀ col ∈ cols, ∃ it, F.reduceIter col = .ok it ∧ it.length = F.index.length ∧
        ∀ i, i < F.index.length → reduceArg F col i d (it.getD i (.scalar d)) := by
    intro col hcol
    have h := hok col hcol
    obtain ⟨layer, name⟩ := col
    cases layer with
    | none =>
      obtain ⟨t, v, hv, hl⟩ := h
      refine ⟨v.map RArg.scalar, by simp only [NFrame.reduceIter, hv]; rfl, by simpa using hl, ?_⟩
      intro i hi
      refine ⟨t, v, hv, ?_⟩
      have hvi : v[i]? = some v[i] := List.getElem?_eq_getElem (by omega)
      simp [List.getD_eq_getElem?_getD, hvi]
    | some l =>
      obtain ⟨c, hc, hclean, hf, hl⟩ := h
      obtain ⟨ls, hls, hlists, hlen⟩ := iterFieldLists_refines c hclean name hf
      refine ⟨ls.map RArg.array, by simp only [NFrame.reduceIter, hc, hls, bind, Except.bind, pure, Except.pure],
        by simp [hlen, hl], ?_⟩
      intro i hi
      have hli : ls[i]? = some ls[i] := List.getElem?_eq_getElem (by omega)
      refine ⟨c, ls[i], hc, by simp [List.getD_eq_getElem?_getD, hli], ?_⟩
      have := congrArg (fun L => L.getD i []) hlists
      simp only [List.getD_eq_getElem?_getD, List.getElem?_map, hli, Option.map_some, Option.getD_some] at this
      simpa [List.getD_eq_getElem?_getD] using this
  -- assemble over the requested columns
  have hmapM : ∀ (cs : List (Option String × String)), (∀ col ∈ cs, col ∈ cols) →
      ∃ iters, cs.mapM F.reduceIter = .ok iters ∧ iters.length = cs.length ∧
        ∀ (j : Nat) (col : Option String × String), cs[j]? = some col → ∃ it, iters[j]? = some it ∧ it.length = F.index.length ∧
          ∀ i, i < F.index.length → reduceArg F col i d (it.getD i (.scalar d)) := by
    intro cs
    induction cs with
    | nil => intro _; exact ⟨[], rfl, rfl, by intro j col h; simp at h⟩
    | cons c0 rest ih =>
      intro hsub
      obtain ⟨it0, h0, hl0, ha0⟩ := hiter c0 (hsub c0 List.mem_cons_self)
      obtain ⟨iters, hr, hlr, har⟩ := ih (fun col hcol => hsub col (List.mem_cons_of_mem _ hcol))
      refine ⟨it0 :: iters, ?_, by simp [hlr], ?_⟩
      · rw [List.mapM_cons, h0]
        simp only [bind, Except.bind, hr, pure, Except.pure]
      · intro j col hj
        cases j with
        | zero =>
          simp only [List.getElem?_cons_zero, Option.some.injEq] at hj
          subst hj
          exact ⟨it0, rfl, hl0, ha0⟩
        | succ j =>
          simp only [List.getElem?_cons_succ] at hj ⊢
          exact har j col hj
  obtain ⟨iters, hit, hlen, hargs⟩ := hmapM cols (fun _ h => h)
  rw [hit]
  have hall : ∀ x ∈ iters.map List.length, x = F.index.length := by
    intro x hx
    rw [List.mem_map] at hx
    obtain ⟨it, hit', rfl⟩ := hx
    obtain ⟨j, hj, rfl⟩ := List.getElem_of_mem hit'
    have hjc : j < cols.length := by omega
    obtain ⟨it', hi', hl', _⟩ := hargs j cols[j] (List.getElem?_eq_getElem hjc)
    rw [List.getElem?_eq_getElem hj] at hi'
    simp only [Option.some.injEq] at hi'
    rw [hi']; exact hl'
  simp only [foldl_min_eq F.index.length _ hall]
  refine ⟨_, rfl, by simp, ?_⟩
  intro i hi j col hj
  obtain ⟨it, hitj, _, harg⟩ := hargs j col hj
  refine ⟨it.getD i (.scalar d), ?_, harg i hi⟩
  simp only [List.getD_eq_getElem?_getD, List.getElem?_map, List.getElem?_range hi, Option.map_some, Option.getD_some,
    hitj]

end NP
