/-
  NPModel.Refine.RoundTrip — exporting a validated chunk in the list-of-structs orientation and
  importing it again (`transpose_struct_list_array` then `transpose_list_struct_array`).
-/
import NPModel.Refine.Views
import NPModel.Refine.Transpose
namespace NP
variable {α : Type}

/-- a list array without nulls reads as its extents -/
theorem rows_allValid (offs : List Nat) (vals : List α) :
    (({ offs := offs, valid := List.replicate (offs.length - 1) true, vals := vals } : PList α)).rows
      = (segs offs vals).map some := by
  unfold PList.rows
  simp only
  have hl : (segs offs vals).length = offs.length - 1 := segs_length offs vals
  generalize segs offs vals = ss at hl
  generalize offs.length - 1 = n at hl
  induction ss generalizing n with
  | nil => simp at hl; subst hl; rfl
  | cons s ss ih =>
    cases n with
    | zero => simp at hl
    | succ n =>
      simp only [List.replicate_succ, List.zipWith_cons_cons, List.map_cons, if_true]
      rw [ih n (by simpa using hl)]

/-- the extent of row `i`: what the element view shows of a field under a valid row, given that
    null lists have empty extents -/
theorem PList.row_getD_eq_seg (l : PList α) (hw : l.WF = true) (hne : l.nullEmpty = true) (i : Nat)
    (hi : i < l.valid.length) :
    (l.rows.getD i none).getD [] = (segs l.offs l.vals).getD i [] := by
  have ⟨h1, hm, hl⟩ := PList.WF_parts hw
  have hsl : (segs l.offs l.vals).length = l.valid.length := by simp [segs_length, h1]
  have hv : l.valid[i]? = some l.valid[i] := List.getElem?_eq_getElem hi
  have hs : (segs l.offs l.vals)[i]? = some (segs l.offs l.vals)[i] := List.getElem?_eq_getElem (by omega)
  unfold PList.rows
  rw [List.getD_eq_getElem?_getD, zipWith_getElem?_some _ _ _ i _ _ hv hs, List.getD_eq_getElem?_getD, hs]
  simp only [Option.getD_some]
  cases hvi : l.valid[i] with
  | true => rfl
  | false =>
    simp only [Bool.false_eq_true, if_false, Option.getD_none]
    -- a null list has an empty extent
    have hlen := PList.row_length l hw hne i hi
    have hd : (diffs l.offs).getD i 0 = 0 := by
      unfold PList.nullEmpty at hne
      have hdl : (diffs l.offs).length = l.valid.length := by simp [diffs_length, h1]
      have hdi : (diffs l.offs)[i]? = some (diffs l.offs)[i] := List.getElem?_eq_getElem (by omega)
      have hz : (List.zip l.valid (diffs l.offs))[i]? = some (l.valid[i], (diffs l.offs)[i]) := by
        simp [List.zip, List.getElem?_zipWith, hv, hdi]
      have := (List.all_eq_true.mp hne) _ (List.mem_of_getElem? hz)
      simp [hvi] at this
      simp [List.getD_eq_getElem?_getD, hdi, this]
    have hseg : (segs l.offs l.vals)[i].length = (diffs l.offs)[i]'(by simp [diffs_length, h1]; omega) := by
      have := segs_lengths hm hl
      have h2 : ((segs l.offs l.vals).map List.length)[i]? = (diffs l.offs)[i]? := by rw [this]
      have hdi : (diffs l.offs)[i]? = some ((diffs l.offs)[i]'(by simp [diffs_length, h1]; omega)) :=
        List.getElem?_eq_getElem (by simp [diffs_length, h1]; omega)
      simp only [List.getElem?_map, hs, hdi, Option.map_some, Option.some.injEq] at h2
      exact h2
    have hdi : (diffs l.offs)[i]? = some ((diffs l.offs)[i]'(by simp [diffs_length, h1]; omega)) :=
      List.getElem?_eq_getElem (by simp [diffs_length, h1]; omega)
    simp only [List.getD_eq_getElem?_getD, hdi, Option.getD_some] at hd
    rw [hd] at hseg
    exact (List.eq_nil_of_length_eq_zero hseg).symm

end NP

namespace NP
variable {α : Type}

theorem mapM_ok_of_forall {β γ : Type} (f : β → R γ) (g : β → γ) :
    ∀ (l : List β), (∀ x ∈ l, f x = .ok (g x)) → l.mapM f = .ok (l.map g) := by
  intro l
  induction l with
  | nil => intro _; rfl
  | cons a l ih =>
    intro h
    rw [List.mapM_cons, h a List.mem_cons_self]
    simp only [bind, Except.bind]
    rw [ih (fun x hx => h x (List.mem_cons_of_mem _ hx))]
    rfl

theorem mapM_map' {β γ δ : Type} (f : β → γ) (g : γ → R δ) (l : List β) :
    (l.map f).mapM g = l.mapM (fun x => g (f x)) := by
  induction l with
  | nil => rfl
  | cons a l ih => simp only [List.map_cons, List.mapM_cons, ih]

/-- the table of empty lists a missing row comes back as -/
def emptyTable (s : PStruct α) : Table α := s.kids.map fun k => (k.name, [])

/-- the chunk the list-struct orientation reads back as -/
def reimported (s : PStruct α) (k0 : PField α) : PStruct α :=
  { valid := List.replicate ((rebased k0.list.offs).length - 1) true
    kids := s.kids.map fun k => { name := k.name, ty := k.ty
                                  list := { offs := rebased k0.list.offs
                                            valid := List.replicate ((rebased k0.list.offs).length - 1) true
                                            vals := k.list.windowVals } } }

theorem rebased_length (offs : List Nat) : (rebased offs).length = offs.length := by simp [rebased]

/-- **Export as list-of-structs, import again**: both transpositions succeed on validated
    storage and the re-imported chunk is `reimported s k0`. -/
theorem transpose_twice_ok (s : PStruct α) (hw : s.WF = true) (hne : s.nullEmpty = true) (hv : s.validate = .ok ())
    (k0 : PField α) (ks : List (PField α)) (hk : s.kids = k0 :: ks) :
    (transposeSL s false >>= transposeLS) = .ok (reimported s k0) := by
  have ha := PStruct.aligned_of_validate s hw hne hv
  rw [transposeSL_ok s hw hne ha k0 ks hk]
  simp only [bind, Except.bind]
  have hm0 : k0 ∈ s.kids := by rw [hk]; exact List.mem_cons_self
  have ⟨hw0, _⟩ := PStruct.WF_kid hw hm0
  have ⟨h10, hmon0, _⟩ := PList.WF_parts hw0
  have hne0 : k0.list.offs ≠ [] := by intro h; rw [h] at h10; simp at h10
  have hrne : rebased k0.list.offs ≠ [] := by unfold rebased; simpa using hne0
  have hlast : (rebased k0.list.offs).getLast? = some (sumNat (diffs k0.list.offs)) := by
    have := rebased_last _ hmon0 hne0
    cases h : (rebased k0.list.offs).getLast? with
    | none => rw [List.getLast?_eq_none_iff] at h; exact absurd h hrne
    | some x => rw [h] at this; simp at this; rw [this]
  have hhead : (rebased k0.list.offs).head?.getD 0 = 0 := by
    unfold rebased
    cases k0.list.offs with
    | nil => rfl
    | cons a rest => simp
  have hlens : ∀ k ∈ s.kids, k.list.windowVals.length = sumNat (diffs k0.list.offs) := by
    intro k hkm
    have ⟨hwk, _⟩ := PStruct.WF_kid hw hkm
    rw [PList.windowVals_length _ hwk, ← PList.lens_eq_diffs _ hwk ((List.all_eq_true.mp hne) k hkm),
        ← PList.lens_eq_diffs _ hw0 ((List.all_eq_true.mp hne) k0 hm0), ha k hkm k0 hm0]
  unfold transposeLS
  simp only [bind, Except.bind]
  rw [mapM_map']
  have hmap := mapM_ok_of_forall
    (fun k : PField α => (do
        let la ← listFromArrays (rebased k0.list.offs) k.list.windowVals
        pure ({ name := k.name, ty := k.ty, list := la } : PField α) : R (PField α)))
    (fun k : PField α => ({ name := k.name, ty := k.ty
                            list := { offs := rebased k0.list.offs
                                      valid := List.replicate ((rebased k0.list.offs).length - 1) true
                                      vals := k.list.windowVals } } : PField α))
    s.kids (by
      intro k hkm
      unfold listFromArrays
      simp only [hlast, hhead, hlens k hkm, Nat.le_refl, Nat.zero_le, and_self, if_true, bind, Except.bind, pure, Except.pure])
  simp only [bind, Except.bind] at hmap
  rw [hmap]
  unfold structFromArrays reimported
  rw [hk]
  simp only [List.map_cons, PList.len, List.length_replicate, List.all_map, Function.comp, decide_true, List.all_eq_true,
    implies_true, if_true, Option.getD_none]


/-- what row `i` of the chunk holds in storage, whether or not the row is marked missing -/
def PStruct.storedAt (s : PStruct α) (i : Nat) : Table α :=
  s.kids.map fun k => (k.name, ((k.list.rows.getD i none).getD []))

/-- every row of the re-imported chunk is present and holds what the original chunk stored there -/
theorem reimported_rowAt (s : PStruct α) (hw : s.WF = true) (hne : s.nullEmpty = true) (hv : s.validate = .ok ())
    (k0 : PField α) (ks : List (PField α)) (hk : s.kids = k0 :: ks) (i : Nat) (hi : i < s.len) :
    (reimported s k0).rowAt i = some (s.storedAt i) := by
  have hm0 : k0 ∈ s.kids := by rw [hk]; exact List.mem_cons_self
  have ⟨hw0, hl0⟩ := PStruct.WF_kid hw hm0
  have ⟨h10, _, _⟩ := PList.WF_parts hw0
  have hlen : (rebased k0.list.offs).length - 1 = s.len := by
    rw [rebased_length, h10]; unfold PList.len at hl0; omega
  unfold PStruct.rowAt reimported PStruct.storedAt
  simp only [hlen, List.map_map]
  have hvi : (List.replicate s.len true).getD i false = true := by
    simp [List.getD_eq_getElem?_getD, List.getElem?_replicate, hi]
  rw [hvi]
  simp only [if_true, Option.some.injEq]
  apply List.map_congr_left
  intro k hkm
  simp only [Function.comp]
  have ⟨hwk, hlk⟩ := PStruct.WF_kid hw hkm
  have ⟨_, hmk, hllk⟩ := PList.WF_parts hwk
  have hreb : rebased k.list.offs = rebased k0.list.offs := by
    rw [hk] at hkm
    rcases List.mem_cons.mp hkm with rfl | hk'
    · rfl
    · exact PStruct.validate_kids hk hv k hk'
  have hrows := rows_allValid (rebased k0.list.offs) k.list.windowVals
  rw [hlen] at hrows
  rw [hrows, ← hreb, segs_rebased_window k.list hmk hllk]
  have hik : i < k.list.valid.length := by unfold PList.len at hlk; omega
  rw [PList.row_getD_eq_seg k.list hwk ((List.all_eq_true.mp hne) k hkm) i hik]
  have hsl : (segs k.list.offs k.list.vals).length = k.list.valid.length := by
    have ⟨h1, _, _⟩ := PList.WF_parts hwk
    simp [segs_length, h1]
  have hs : (segs k.list.offs k.list.vals)[i]? = some (segs k.list.offs k.list.vals)[i] :=
    List.getElem?_eq_getElem (by omega)
  simp [List.getD_eq_getElem?_getD, hs]

theorem reimported_len (s : PStruct α) (hw : s.WF = true) (k0 : PField α) (hm0 : k0 ∈ s.kids) :
    (reimported s k0).len = s.len := by
  have ⟨hw0, hl0⟩ := PStruct.WF_kid hw hm0
  have ⟨h10, _, _⟩ := PList.WF_parts hw0
  unfold reimported PStruct.len
  simp only [List.length_replicate]
  rw [rebased_length, h10]; unfold PList.len PStruct.len at hl0; omega

/-- under the storage invariant that a missing row stores nothing, storage at a missing row is the
    table of empty lists -/
theorem storedAt_missing (s : PStruct α) (hh : s.noHidden) (i : Nat) (hi : i < s.len)
    (hv : s.valid.getD i false = false) : s.storedAt i = emptyTable s := by
  unfold PStruct.storedAt emptyTable
  apply List.map_congr_left
  intro k hkm
  have := hh i hi hv k hkm
  unfold len0 at this
  rw [List.eq_nil_of_length_eq_zero this]

/-- **Round trip through the list-of-structs orientation, row by row**: present rows come back
    unchanged and missing rows come back as rows of empty lists. -/
theorem roundtrip_rows (s : PStruct α) (hw : s.WF = true) (hne : s.nullEmpty = true) (hv : s.validate = .ok ())
    (hh : s.noHidden) (k0 : PField α) (ks : List (PField α)) (hk : s.kids = k0 :: ks) :
    (reimported s k0).rows = s.rows.map fun r => some (r.getD (emptyTable s)) := by
  have hm0 : k0 ∈ s.kids := by rw [hk]; exact List.mem_cons_self
  unfold PStruct.rows
  rw [reimported_len s hw k0 hm0, List.map_map]
  apply List.map_congr_left
  intro i hi
  have hi' : i < s.len := List.mem_range.mp hi
  rw [reimported_rowAt s hw hne hv k0 ks hk i hi']
  simp only [Function.comp]
  cases hvi : s.valid.getD i false with
  | true =>
    have : s.rowAt i = some (s.storedAt i) := by unfold PStruct.rowAt PStruct.storedAt; rw [hvi]; rfl
    rw [this]; rfl
  | false =>
    have : s.rowAt i = none := by unfold PStruct.rowAt; rw [hvi]; rfl
    rw [this, storedAt_missing s hh i hi' hvi]; rfl

end NP
