/-
  NPModel.Refine.Rows — what the kernels do to the logical reading (`rows`) of list arrays,
  chunks and columns.  Helper lemmas only.
-/
import NPModel.Refine.Segs
namespace NP
variable {α : Type}

/-! ### list arrays -/

theorem PList.rows_length (l : PList α) (h : l.offs.length = l.valid.length + 1) :
    l.rows.length = l.valid.length := by
  simp [PList.rows, segs_length, h]

/-- the canonical layout reads back as the rows it was built from -/
theorem PList.ofRows_rows (rows : List (Option (List α))) : (PList.ofRows rows).rows = rows := by
  unfold PList.rows PList.ofRows
  simp only
  have h := segs_canonical (rows.map fun r => r.getD [])
  simp only [List.map_map] at h
  have e : (List.map (fun r => (Option.getD r ([] : List α)).length) rows)
      = List.map (List.length ∘ fun r => Option.getD r []) rows := by
    apply List.map_congr_left; intro a _; rfl
  rw [e, h]
  rw [List.zipWith_map]
  clear h e
  induction rows with
  | nil => rfl
  | cons r rs ih =>
    simp only [List.zipWith_cons_cons, ih]
    cases r <;> simp

/-- `slice` (and `.field()` of a sliced struct) shows the window of rows -/
theorem PList.slice_rows (l : PList α) (st n : Nat) :
    (l.slice st n).rows = (l.rows.drop st).take n := by
  unfold PList.rows PList.slice
  simp only [segs_window, List.take_zipWith, List.drop_zipWith]

theorem PList.take_rows (l : PList α) (idx : List (Option Nat)) :
    (l.take idx).rows = (gather idx l.rows).map Option.join := by
  simp [PList.take, PList.ofRows_rows]

/-- lengths of the rows of a well-formed list array whose null lists have empty extents
    are the differences of its offsets -/
theorem PList.valueLengths_eq_diffs (l : PList α) (hm : monotone l.offs = true)
    (hl : l.offs.getLast?.getD 0 ≤ l.vals.length) :
    (segs l.offs l.vals).map List.length = diffs l.offs := segs_lengths hm hl

theorem PList.flatten_allValid (l : PList α) (hv : ∀ v ∈ l.valid, v = true)
    (hlen : l.offs.length = l.valid.length + 1) :
    l.flatten = (segs l.offs l.vals).flatten := by
  unfold PList.flatten PList.rows
  congr 1
  have hl : l.valid.length = (segs l.offs l.vals).length := by simp [segs_length, hlen]
  generalize segs l.offs l.vals = ss at hl
  generalize l.valid = vs at hv hl
  induction vs generalizing ss with
  | nil => cases ss with
    | nil => rfl
    | cons _ _ => simp at hl
  | cons v vs ih =>
    cases ss with
    | nil => simp at hl
    | cons s ss =>
      have hv0 : v = true := hv v List.mem_cons_self
      subst hv0
      simp only [List.zipWith_cons_cons, List.map_cons, if_true, Option.getD_some]
      rw [ih ss (fun v hv' => hv v (List.mem_cons_of_mem _ hv')) (by simpa using hl)]

end NP
