/-
  NPModel.Refine.SetItem — element assignment (`NestedExtensionArray.__setitem__`) refines
  assignment into the plain list of rows.
-/
import NPModel.Refine.IfElse
import NPModel.Refine.Select
namespace NP
variable {α : Type}

/-! ### facts about the combined chunk -/

theorem PCol.chunk_facts (c : PCol α) (hw : c.WF = true) : ∀ s ∈ c.chunks, s.WF = true ∧ s.ty = c.ty := by
  intro s hs
  unfold PCol.WF at hw
  have := (List.all_eq_true.mp hw) s hs
  simpa using this

theorem sumNat_cons (a : Nat) (l : List Nat) : sumNat (a :: l) = a + sumNat l := by
  simp [sumNat]

theorem PCol.combine_len (c : PCol α) : c.combine.len = c.len := by
  unfold PCol.combine PStruct.len PCol.len
  simp only
  induction c.chunks with
  | nil => rfl
  | cons s rest ih =>
    simp only [List.flatMap_cons, List.length_append, List.map_cons, sumNat_cons, ih, PStruct.len]

theorem PCol.combine_ty (c : PCol α) : c.combine.ty = c.ty := by
  unfold PCol.combine PStruct.ty
  simp only [List.map_map]
  apply List.ext_getElem?
  intro j
  simp only [List.getElem?_map]
  by_cases hj : j < c.ty.length
  · simp [List.getElem?_range hj, List.getElem?_eq_getElem hj]
  · have h1 : (List.range c.ty.length)[j]? = none := List.getElem?_eq_none (by simpa using Nat.le_of_not_lt hj)
    have h2 : c.ty[j]? = none := List.getElem?_eq_none (Nat.le_of_not_lt hj)
    simp [h1, h2]

theorem PCol.combine_canonical (c : PCol α) : c.combine.canonical := by
  intro k hk
  unfold PCol.combine at hk
  simp only [List.mem_map] at hk
  obtain ⟨j, _, rfl⟩ := hk
  exact ⟨_, rfl⟩

theorem PCol.combine_kid_rows_length (c : PCol α) (hw : c.WF = true) :
    ∀ k ∈ c.combine.kids, k.list.rows.length = c.len := by
  intro k hk
  have hch := PCol.chunk_facts c hw
  unfold PCol.combine at hk
  simp only [List.mem_map, List.mem_range] at hk
  obtain ⟨j, hj, rfl⟩ := hk
  simp only [PList.ofRows_rows]
  unfold PCol.len
  have : ∀ (chunks : List (PStruct α)), (∀ s ∈ chunks, s.WF = true ∧ s.ty = c.ty) →
      (chunks.flatMap fun ch => ch.kidRows j).length = sumNat (chunks.map PStruct.len) := by
    intro chunks
    induction chunks with
    | nil => intro _; rfl
    | cons s rest ih =>
      intro h
      have ⟨hws, htys⟩ := h s List.mem_cons_self
      have hkl : s.kids.length = c.ty.length := by rw [← htys]; simp [PStruct.ty]
      simp only [List.flatMap_cons, List.length_append, List.map_cons, sumNat_cons,
        ih (fun s' hs' => h s' (List.mem_cons_of_mem _ hs')),
        PStruct.kidRows_length hws j (by omega), PStruct.len]
  exact this c.chunks hch

/-! ### the validator on the result of `replace_with_mask` -/

theorem lensAt_eq_map (kids : List (PField α)) (i : Nat) :
    lensAt kids i = (rowOfKids kids i).map (·.2.length) := by
  simp [lensAt, rowOfKids, len0]

theorem Table.rect_eq_allEq (t : Table α) : Table.rect t = allEq (t.map (·.2.length)) := by
  cases t with
  | nil => rfl
  | cons p rest =>
    obtain ⟨n, l⟩ := p
    simp only [Table.rect, allEq, List.map_cons, List.all_map]
    rfl

theorem allEq_replicate (n a : Nat) : allEq (List.replicate n a) = true := by
  rw [allEq_iff]
  intro x hx y hy
  rw [List.eq_of_mem_replicate hx, List.eq_of_mem_replicate hy]

/-- what a boxed scalar stores in row `i` of `pa.array(scalars)` is rectangular exactly when the
    scalar reads back as a rectangular row -/
theorem ofScalars_allEq (ty : List (String × String)) (xs : List (PScalar α)) (i : Nat) (hi : i < xs.length) :
    allEq (lensAt (PStruct.ofScalars ty xs).kids i) = Row.rect (unboxScalar ty (xs.getD i none)) := by
  have hxi : xs[i]? = some xs[i] := List.getElem?_eq_getElem hi
  unfold lensAt PStruct.ofScalars unboxScalar
  simp only [List.map_map, List.getD_eq_getElem?_getD, hxi, Option.getD_some]
  cases hx : xs[i] with
  | none =>
    simp only [Option.map_none, Row.rect]
    rw [allEq_iff]
    have hz : ∀ L : List Nat, (∀ x ∈ L, x = 0) → ∀ x ∈ L, ∀ y ∈ L, x = y := by
      intro L h x hx y hy; rw [h x hx, h y hy]
    apply hz
    intro x hx'
    simp only [List.mem_map, List.mem_range] at hx'
    obtain ⟨j, _, rfl⟩ := hx'
    simp [PList.ofRows_rows, hxi, hx, len0]
  | some fs =>
    simp only [Option.map_some, Row.rect, Table.rect_eq_allEq, List.map_map]
    congr 1
    apply List.map_congr_left
    intro j _
    simp only [Function.comp, PList.ofRows_rows, List.getElem?_map, hxi, hx, Option.map_some, Option.getD_some, len0]

/-- for the mask-selected chunk: row `i` is rectangular in storage iff the selected source row is -/
theorem ifElse_allEq (mask : List Bool) (a b : PStruct α)
    (hk : a.kids.length = b.kids.length)
    (hn : ∀ (j : Nat) (ka kb : PField α), a.kids[j]? = some ka → b.kids[j]? = some kb →
      ka.name = kb.name ∧ ka.list.rows.length = mask.length ∧ kb.list.rows.length = mask.length)
    (i : Nat) (hi : i < mask.length) :
    allEq (lensAt (PStruct.ifElse mask a b).kids i) =
      if mask.getD i false then allEq (lensAt a.kids i) else allEq (lensAt b.kids i) := by
  rw [lensAt_eq_map, PStruct.ifElse_rowOfKids mask a b hk hn i hi, lensAt_eq_map, lensAt_eq_map]
  cases mask.getD i false <;> simp

theorem place_all (P : Nat → Bool) : ∀ (s : Nat) (m : List Bool),
    (place P s m (List.replicate m.length true)).all id = (List.range' s (m.filter id).length).all P
  | _, [] => by simp [place]
  | s, true :: m => by
    simp only [List.length_cons, List.replicate_succ, place, List.all_cons, id, List.filter_cons, if_true,
      List.range'_succ, place_all P (s + 1) m]
  | s, false :: m => by
    simp only [List.length_cons, List.replicate_succ, place, List.all_cons, id, List.filter_cons,
      Bool.false_eq_true, if_false, Bool.true_and, place_all P s m]


theorem all_id_iff_getD (L : List Bool) : L.all id = true ↔ ∀ i, i < L.length → L.getD i true = true := by
  induction L with
  | nil => simp
  | cons b L ih =>
    simp only [List.all_cons, id, Bool.and_eq_true, ih, List.length_cons]
    constructor
    · intro ⟨hb, h⟩ i hi
      cases i with
      | zero => simpa using hb
      | succ i => simpa using h i (by omega)
    · intro h
      exact ⟨by simpa using h 0 (by omega), fun i hi => by simpa using h (i + 1) (by omega)⟩

theorem PStruct.validate_cases (s : PStruct α) : s.validate = .ok () ∨ s.validate = .error .valueError := by
  unfold PStruct.validate
  cases s.kids with
  | nil => exact Or.inl rfl
  | cons k ks =>
    simp only
    split
    · exact Or.inl rfl
    · exact Or.inr rfl

/-- the values as the column reads them back -/
abbrev readBack (ty : List (String × String)) (vals : List (PScalar α)) (s : Nat) : Row α :=
  unboxScalar ty (vals.getD s none)

/-- **The last step of element assignment** (`replace_with_mask` on the combined storage, then the
    validated replacement): on validated storage in any layout, with a mask of the column's length
    and at least one set position,
    * fewer values than set positions: IndexError;
    * some value that would be used is ragged: ValueError (nothing is stored — the model returns
      no array);
    * otherwise the values stand at the set positions in order, every other row is unchanged. -/
theorem setItemFinish_spec (c : PCol α) (hw : c.WF = true) (ha : c.aligned) (mask : List Bool)
    (hl : mask.length = c.len) (hpos : 0 < (mask.filter id).length) (vals : List (PScalar α)) :
    (setItemFinish c mask vals).map PCol.rows =
      if vals.length < (mask.filter id).length then .error .indexError
      else if (List.range' 0 (mask.filter id).length).all (fun s => Row.rect (readBack c.ty vals s)) then
        .ok (place (readBack c.ty vals) 0 mask c.rows)
      else .error .valueError := by
  have hspec := replaceWithMask_spec c.combine mask c.ty vals (by rw [PCol.combine_len, hl]) (PCol.combine_ty c)
    (by intro k hk; rw [PCol.combine_kid_rows_length c hw k hk, hl]) hpos
  unfold setItemFinish
  by_cases hlt : vals.length < (mask.filter id).length
  · rw [if_pos hlt, hspec.1 hlt]
    rfl
  · rw [if_neg hlt]
    obtain ⟨res, hres, hdef, hlen, hcan, hkr, hty, hrows⟩ := hspec.2 (by omega)
    rw [hres]
    simp only [bind, Except.bind]
    -- the validator on the result
    have hcomb_al := PCol.combine_aligned c hw ha
    have hcomb_rows := (PStruct.aligned_iff_rows c.combine c.len (PCol.combine_kid_rows_length c hw)).mp hcomb_al
    let xs := (vidxOf mask).map fun i => vals.getD i none
    let bro := PStruct.ofScalars c.ty xs
    have hbk : bro.kids.length = c.combine.kids.length := by
      have h1 : c.combine.kids.length = c.ty.length := by simp [PCol.combine]
      rw [h1]; simp [bro, PStruct.ofScalars]
    have hn : ∀ (j : Nat) (ka kb : PField α), bro.kids[j]? = some ka → c.combine.kids[j]? = some kb →
        ka.name = kb.name ∧ ka.list.rows.length = mask.length ∧ kb.list.rows.length = mask.length := by
      intro j ka kb hja hjb
      have hjl : j < c.combine.kids.length := (List.getElem?_eq_some_iff.mp hjb).1
      have hjt : j < c.ty.length := by simpa [PCol.combine] using hjl
      have htyj : c.ty[j]? = some (kb.name, kb.ty) := by
        have := PCol.combine_ty c
        rw [← this]; simp [PStruct.ty, hjb]
      simp only [bro, PStruct.ofScalars, List.getElem?_map, List.getElem?_range hjt,
        Option.map_some, Option.some.injEq] at hja
      subst hja
      refine ⟨by simp [htyj], ?_, ?_⟩
      · simp [PList.ofRows_rows, xs, vidxOf_length]
      · rw [PCol.combine_kid_rows_length c hw kb (List.mem_of_getElem? hjb), hl]
    have hrowrect : ∀ i, i < mask.length →
        allEq (lensAt res.kids i) = (place (fun s => Row.rect (readBack c.ty vals s)) 0 mask
          (List.replicate mask.length true)).getD i true := by
      intro i hi
      rw [hdef, ifElse_allEq mask bro c.combine hbk hn i hi,
        place_getD _ true 0 mask _ i (by simp) hi]
      cases hm : mask.getD i false with
      | false =>
        simp only [Bool.false_eq_true, if_false]
        rw [hcomb_rows i (by omega)]
        simp [List.getD_eq_getElem?_getD, List.getElem?_replicate, hi]
      | true =>
        simp only [if_true, Nat.zero_add]
        have hxl : i < xs.length := by
          show i < ((vidxOf mask).map fun i => vals.getD i none).length
          rw [List.length_map, vidxOf_length]; exact hi
        rw [ofScalars_allEq c.ty xs i hxl]
        have hx : xs.getD i none = vals.getD (rankIn mask i) none := by
          have hlt : i < (vidxOf mask).length := by rw [vidxOf_length]; exact hi
          have h1 : xs.getD i none = vals.getD ((vidxOf mask)[i]) none := by
            simp only [xs, List.getD_eq_getElem?_getD, List.getElem?_map, List.getElem?_eq_getElem hlt,
              Option.map_some, Option.getD_some]
          have h2 : (vidxOf mask).getD i 0 = (vidxOf mask)[i] := by
            simp only [List.getD_eq_getElem?_getD, List.getElem?_eq_getElem hlt, Option.getD_some]
          rw [h1, ← h2, vidxOf_getD mask i hi hm]
        rw [hx]
    have hval : res.validate = .ok () ↔
        (List.range' 0 (mask.filter id).length).all (fun s => Row.rect (readBack c.ty vals s)) = true := by
      rw [PStruct.canonical_validate_iff res hcan, PStruct.aligned_iff_rows res mask.length hkr, ← place_all,
        all_id_iff_getD, place_length _ _ _ _ (by simp)]
      constructor
      · intro h i hi; rw [← hrowrect i hi]; exact h i hi
      · intro h i hi; rw [hrowrect i hi]; exact h i hi
    have hout : (PCol.validate { c with chunks := [res] }) = res.validate := by
      unfold PCol.validate
      change (res.validate >>= fun _ => List.forM [] PStruct.validate) = _
      cases res.validate <;> rfl
    rw [hout]
    by_cases hall : (List.range' 0 (mask.filter id).length).all (fun s => Row.rect (readBack c.ty vals s)) = true
    · rw [if_pos hall, hval.mpr hall]
      simp only [pure, Except.pure, Except.map, PCol.rows, List.flatMap_cons, List.flatMap_nil, List.append_nil]
      rw [hrows, PCol.combine_rows c hw]
      rfl
    · rw [if_neg hall]
      rcases PStruct.validate_cases res with h | h
      · exact absurd (hval.mp h) hall
      · rw [h]; rfl


/-! ### the specification in normal form -/

theorem conformRow_eq (ty : List (String × String)) (r : Row α) :
    Spec.conformRow ty r = if Row.rect (normRow ty r) then some (normRow ty r) else none := by
  cases r with
  | none => rfl
  | some t => rfl

/-- the value the first pair with key `i` carries is the value at the first index of `i` -/
theorem find_zip_eq {β : Type} (d : β) : ∀ (ps : List Nat) (vs : List β) (i : Nat), ps.length ≤ vs.length →
    ((List.zip ps vs).find? (·.1 == i)).map (·.2) = (ps.findIdx? (· == i)).map fun j => vs.getD j d
  | [], _, _, _ => by simp
  | p :: ps, [], _, h => by simp at h
  | p :: ps, v :: vs, i, h => by
    simp only [List.zip_cons_cons, List.find?_cons, List.findIdx?_cons]
    by_cases hp : p = i
    · simp [hp]
    · have hp' : (p == i) = false := by simpa using hp
      simp only [hp', Bool.false_eq_true, if_false]
      rw [find_zip_eq d ps vs i (by simpa using h)]
      cases ps.findIdx? (· == i) <;> simp

theorem any_take_isNone {β : Type} (f : Nat → Option β) (P : Nat → Bool) : ∀ (n s : Nat) (l : List (Option β)),
    n ≤ l.length → (∀ j, j < n → (l.getD j none).isSome = P (s + j)) →
    ((l.take n).any Option.isNone) = !((List.range' s n).all P)
  | 0, _, _, _, _ => by simp
  | n + 1, s, [], h, _ => by simp at h
  | n + 1, s, x :: l, h, hp => by
    simp only [List.take_succ_cons, List.any_cons, List.range'_succ, List.all_cons, Bool.not_and]
    have h0 := hp 0 (by omega)
    simp only [List.getD_cons_zero, Nat.add_zero] at h0
    rw [any_take_isNone f P n (s + 1) l (by simpa using h) (by
      intro j hj
      have := hp (j + 1) (by omega)
      simp only [List.getD_cons_succ] at this
      rw [this]; congr 1; omega)]
    rw [← h0]
    cases x <;> simp

/-- **`rows[ps] = vals` in normal form**: IndexError when the values do not suffice, ValueError when
    a value that would be used is ragged, otherwise row `i` becomes the value at the first
    occurrence of `i` among the positions (read through the dtype) and other rows are unchanged. -/
theorem assignVals_normal (ty : List (String × String)) (rows : List (Row α)) (ps : List Nat) (vals : List (Row α)) :
    Spec.assignVals ty rows ps vals =
      if vals.length < ps.length then .error .indexError
      else if (List.range' 0 ps.length).all (fun j => Row.rect (normRow ty (vals.getD j none))) then
        .ok ((List.range rows.length).map fun i =>
          ((ps.findIdx? (· == i)).map fun j => normRow ty (vals.getD j none)).getD (rows.getD i none))
      else .error .valueError := by
  unfold Spec.assignVals
  simp only [bind, Except.bind, pure, Except.pure, throw, throwThe, MonadExceptOf.throw]
  by_cases hlt : vals.length < ps.length
  · simp [hlt]
  · simp only [hlt, if_false]
    have hany := any_take_isNone (fun _ => (none : Option (Row α)))
      (fun j => Row.rect (normRow ty (vals.getD j none))) ps.length 0 (vals.map (Spec.conformRow ty))
      (by simp; omega) (by
        intro j hj
        have hjv : j < vals.length := by omega
        simp only [List.getD_eq_getElem?_getD, List.getElem?_map, List.getElem?_eq_getElem hjv, Option.map_some,
          Option.getD_some, Nat.zero_add, conformRow_eq]
        cases Row.rect (normRow ty vals[j]) <;> simp)
    rw [hany]
    by_cases hall : (List.range' 0 ps.length).all (fun j => Row.rect (normRow ty (vals.getD j none))) = true
    · simp only [hall, Bool.not_true, Bool.false_eq_true, if_false, if_true]
      congr 1
      apply List.map_congr_left
      intro i _
      have hz := find_zip_eq (none : Row α) ps ((vals.map (Spec.conformRow ty)).map fun o => o.getD none) i
        (by simp; omega)
      have hnorm : ∀ j, j < ps.length →
          ((vals.map (Spec.conformRow ty)).map fun o => o.getD none).getD j none = normRow ty (vals.getD j none) := by
        intro j hj
        have hjv : j < vals.length := by omega
        have hr : Row.rect (normRow ty (vals.getD j none)) = true :=
          List.all_eq_true.mp hall j (by simp [List.mem_range']; omega)
        simp only [List.getD_eq_getElem?_getD, List.getElem?_map, List.getElem?_eq_getElem hjv, Option.map_some,
          Option.getD_some, conformRow_eq] at hr ⊢
        simp [hr]
      cases hf : ps.findIdx? (· == i) with
      | none =>
        rw [hf] at hz
        simp only [Option.map_none, Option.map_eq_none_iff] at hz
        split
        · rename_i heq; rw [heq] at hz; cases hz
        · rfl
      | some j =>
        rw [hf] at hz
        have hj : j < ps.length := (List.findIdx?_eq_some_iff_getElem.mp hf).1
        simp only [Option.map_some, Option.getD_some, hnorm j hj] at hz ⊢
        split
        · rename_i heq; rw [heq] at hz; simpa using hz
        · rename_i heq; rw [heq] at hz; cases hz
    · have hf : (List.range' 0 ps.length).all (fun j => Row.rect (normRow ty (vals.getD j none))) = false := by
        simpa using hall
      simp only [hf, Bool.not_false, if_true, Bool.false_eq_true, if_false]


/-! ### boolean-mask keys -/

theorem nonzeroFrom_ge : ∀ (m : List Bool) (s : Nat), ∀ x ∈ nonzeroFrom s m, s ≤ x
  | [], _, x, hx => by simp [nonzeroFrom] at hx
  | b :: m, s, x, hx => by
    cases b with
    | true =>
      simp only [nonzeroFrom, if_true, List.mem_cons] at hx
      rcases hx with rfl | hx
      · exact Nat.le_refl _
      · have := nonzeroFrom_ge m (s + 1) x hx; omega
    | false =>
      simp only [nonzeroFrom, Bool.false_eq_true, if_false] at hx
      have := nonzeroFrom_ge m (s + 1) x hx; omega

theorem nonzeroFrom_length : ∀ (m : List Bool) (s : Nat), (nonzeroFrom s m).length = (m.filter id).length
  | [], _ => rfl
  | true :: m, s => by simp [nonzeroFrom, nonzeroFrom_length m (s + 1)]
  | false :: m, s => by simp [nonzeroFrom, nonzeroFrom_length m (s + 1)]

/-- the first (and only) index of position `s + i` among the set positions is its rank -/
theorem nonzeroFrom_findIdx : ∀ (m : List Bool) (s i : Nat), i < m.length →
    (nonzeroFrom s m).findIdx? (· == s + i) = if m.getD i false then some (rankIn m i) else none
  | [], _, _, hi => by simp at hi
  | true :: m, s, 0, _ => by simp [nonzeroFrom, List.findIdx?_cons, rankIn]
  | false :: m, s, 0, _ => by
    simp only [nonzeroFrom, Bool.false_eq_true, if_false, Nat.add_zero, List.getD_cons_zero]
    rw [List.findIdx?_eq_none_iff]
    intro x hx
    have := nonzeroFrom_ge m (s + 1) x hx
    simp; omega
  | true :: m, s, i + 1, hi => by
    simp only [nonzeroFrom, if_true, List.findIdx?_cons, List.getD_cons_succ]
    have hne : (s == s + (i + 1)) = false := by simp
    simp only [hne, Bool.false_eq_true, if_false]
    have h := nonzeroFrom_findIdx m (s + 1) i (by simpa using hi)
    have e : s + 1 + i = s + (i + 1) := by omega
    rw [e] at h
    rw [h]
    cases m.getD i false <;> simp [rankIn]
  | false :: m, s, i + 1, hi => by
    simp only [nonzeroFrom, Bool.false_eq_true, if_false, List.getD_cons_succ]
    have h := nonzeroFrom_findIdx m (s + 1) i (by simpa using hi)
    have e : s + 1 + i = s + (i + 1) := by omega
    rw [e] at h
    rw [h]
    cases m.getD i false <;> simp [rankIn]

/-- placing values at the set positions = assigning them to the positions `nonzero(mask)` -/
theorem place_eq_assign {β : Type} (g : Nat → β) (d : β) (m : List Bool) (rows : List β) (hl : rows.length = m.length) :
    place g 0 m rows = (List.range rows.length).map fun i =>
      (((nonzeroFrom 0 m).findIdx? (· == i)).map g).getD (rows.getD i d) := by
  apply List.ext_getElem?
  intro i
  by_cases hi : i < m.length
  · have hpl : (place g 0 m rows)[i]? = some ((place g 0 m rows).getD i d) := by
      rw [List.getD_eq_getElem?_getD, List.getElem?_eq_getElem (by rw [place_length g 0 m rows hl]; exact hi)]; rfl
    rw [hpl, place_getD g d 0 m rows i hl hi]
    simp only [List.getElem?_map, List.getElem?_range (by omega : i < rows.length), Option.map_some]
    have := nonzeroFrom_findIdx m 0 i hi
    simp only [Nat.zero_add] at this ⊢
    rw [this]
    cases m.getD i false <;> simp
  · have h1 : (place g 0 m rows)[i]? = none := by
      rw [List.getElem?_eq_none_iff, place_length g 0 m rows hl]; omega
    have h2 : (List.range rows.length)[i]? = none := by
      rw [List.getElem?_eq_none_iff]; simp; omega
    simp [h1, h2]

theorem readBack_box (ty : List (String × String)) (vals : List (Row α)) (s : Nat) :
    readBack ty (vals.map (boxScalar ty)) s = normRow ty (vals.getD s none) := by
  unfold readBack
  simp only [List.getD_eq_getElem?_getD, List.getElem?_map]
  cases vals[s]? with
  | none => rfl
  | some r => simp [unbox_box]

theorem filter_id_length_pos (m : List Bool) (h : m.any id = true) : 0 < (m.filter id).length := by
  rw [List.any_eq_true] at h
  obtain ⟨x, hx, hid⟩ := h
  exact List.length_pos_iff.mpr (List.ne_nil_of_mem (List.mem_filter.mpr ⟨hx, hid⟩))

theorem nonzeroFrom_nil_of_not_any (m : List Bool) (s : Nat) (h : m.any id = false) : nonzeroFrom s m = [] := by
  have : (nonzeroFrom s m).length = 0 := by
    rw [nonzeroFrom_length]
    rw [List.any_eq_false] at h
    rw [List.length_eq_zero_iff, List.filter_eq_nil_iff]
    intro x hx; simpa using h x hx
  exact List.length_eq_zero_iff.mp this

/-- the boxed values offered to `replace_with_mask` -/
theorem boxed_vals (ty : List (String × String)) (cnt : Nat) (v : SetVal α) :
    setItemVals ty cnt v = (Spec.setVals cnt v).map (boxScalar ty) := by
  cases v <;> simp [setItemVals, Spec.setVals]

/-- **Assignment through a boolean mask refines assignment into the list of rows**: for every
    validated column in any physical layout, every mask (wrong length = IndexError, nothing
    selected = no change) and every value — a row broadcast to all targets or an array of rows
    (too short = IndexError, a ragged row among those used = ValueError and nothing stored). -/
theorem setItem_mask_refines (c : PCol α) (hw : c.WF = true) (ha : c.aligned) (m : List Bool) (v : SetVal α) :
    (NArr.setItem c (.mask m) v).map PCol.rows = Spec.setItem c.ty c.rows (.mask m) v := by
  unfold NArr.setItem Spec.setItem setItemMask Spec.keyPositions setItemApply
  rw [PCol.rows_length]
  by_cases hlen : m.length = c.len
  · simp only [hlen, ne_eq, not_true_eq_false, if_false, bind, Except.bind, pure, Except.pure, Bool.false_eq_true]
    unfold Spec.assignAt
    by_cases h0 : m.length = 0
    · have hm : m = [] := List.length_eq_zero_iff.mp h0
      subst hm
      simp [nonzeroFrom, Except.map, pure, Except.pure]
    · have h0' : ¬ c.len = 0 := by rw [← hlen]; exact h0
      simp only [h0', if_false]
      by_cases hany : m.any id = true
      · have hpos := filter_id_length_pos m hany
        have hps : (nonzeroFrom 0 m).length = (m.filter id).length := nonzeroFrom_length m 0
        have hne : (nonzeroFrom 0 m).isEmpty = false := by
          cases h : nonzeroFrom 0 m with
          | nil => rw [h] at hps; simp at hps; omega
          | cons _ _ => rfl
        simp only [hany, not_true_eq_false, if_false, hne, Bool.false_eq_true, setItemReorder, pure, Except.pure]
        rw [boxed_vals, setItemFinish_spec c hw ha m hlen hpos, assignVals_normal, hps]
        simp only [List.length_map, readBack_box]
        rw [place_eq_assign _ none m c.rows (by rw [PCol.rows_length, hlen])]
        have hrb : readBack c.ty (List.map (boxScalar c.ty) (Spec.setVals (m.filter id).length v)) =
            fun j => normRow c.ty ((Spec.setVals (m.filter id).length v).getD j none) := funext (readBack_box _ _)
        rw [hrb]
      · have hany' : m.any id = false := by simpa using hany
        simp only [hany', Bool.false_eq_true, not_false_eq_true, if_true, nonzeroFrom_nil_of_not_any m 0 hany',
          List.isEmpty_nil]
        rfl
  · simp only [hlen, ne_eq, not_false_eq_true, if_true, bind, Except.bind]
    rfl

end NP
