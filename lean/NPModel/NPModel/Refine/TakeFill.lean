/-
  NPModel.Refine.TakeFill — `take(indices, allow_fill=True, fill_value=…)` refines list `take`
  with a fill row (C05).
-/
import NPModel.Refine.SetItem
import NPModel.Refine.Take
namespace NP
variable {α : Type}

theorem PStruct.take_ty (s : PStruct α) (idx : List (Option Nat)) : (s.take idx).ty = s.ty := by
  simp [PStruct.take, PStruct.ty, Function.comp]

theorem PStruct.take_canonical (s : PStruct α) (idx : List (Option Nat)) : (s.take idx).canonical := by
  intro k hk
  unfold PStruct.take at hk
  simp only [List.mem_map] at hk
  obtain ⟨k', _, rfl⟩ := hk
  exact ⟨_, rfl⟩

theorem PStruct.take_kid_rows_length (s : PStruct α) (idx : List (Option Nat)) :
    ∀ k ∈ (s.take idx).kids, k.list.rows.length = idx.length := by
  intro k hk
  unfold PStruct.take at hk
  simp only [List.mem_map] at hk
  obtain ⟨k', _, rfl⟩ := hk
  simp [PList.take, PList.ofRows_rows, gather]

theorem ifElse_canonical (mask : List Bool) (a b : PStruct α) : (PStruct.ifElse mask a b).canonical := by
  intro k hk
  unfold PStruct.ifElse at hk
  exact zipWith_forall _ (fun k => ∃ r, k.list = PList.ofRows r) (fun _ _ => ⟨_, rfl⟩) _ _ k hk

/-- the constructor on one validated chunk -/
theorem init_single_ok (c : PCol α) (r : PStruct α) (hv : r.validate = .ok ()) :
    (NArr.init { c with chunks := [r] }).map PCol.rows = .ok r.rows := by
  have hout : PCol.validate { c with chunks := [r] } = .ok () := by
    unfold PCol.validate
    change (r.validate >>= fun _ => List.forM [] PStruct.validate) = _
    rw [hv]; rfl
  unfold NArr.init
  simp only [List.isEmpty_cons, Bool.false_eq_true, if_false, if_true, bind, Except.bind, pure, Except.pure, hout,
    Except.map, PCol.rows, List.flatMap_cons, List.flatMap_nil, List.append_nil]

/-- a fill row that conforms to the dtype is its own reading through the dtype, and rectangular -/
theorem conform_fixed (ty : List (String × String)) (fill : Row α) (h : Spec.conformRow ty fill = some fill) :
    normRow ty fill = fill ∧ Row.rect fill = true := by
  rw [conformRow_eq] at h
  by_cases hr : Row.rect (normRow ty fill) = true
  · rw [if_pos hr] at h
    have e : normRow ty fill = fill := Option.some.inj h
    exact ⟨e, by rw [← e]; exact hr⟩
  · rw [if_neg hr] at h; cases h

/-- **`take` with `allow_fill=True`** refines list `take` with a fill row: `-1` positions become
    the fill value, other negatives are a ValueError, positions beyond the end an IndexError; for
    every validated column in any layout and every fill row that conforms to the dtype (missing,
    or a rectangular table with the dtype's fields). -/
theorem take_refines_fill (c : PCol α) (hw : c.WF = true) (ha : c.aligned) (indices : List Int) (fill : Row α)
    (hfill : Spec.conformRow c.ty fill = some fill) :
    (NArr.take c indices true fill).map PCol.rows = Spec.take c.rows indices true fill := by
  have hn : c.rows.length = c.len := PCol.rows_length c
  have ⟨hnorm, hrect⟩ := conform_fixed c.ty fill hfill
  unfold NArr.take Spec.take
  simp only [hn, if_true]
  by_cases hge : indices.any (fun i => decide (i ≥ (c.len : Int))) = true
  · simp only [hge, if_true, bind, Except.bind, throw, throwThe, MonadExceptOf.throw]
    split <;> rfl
  · have h1 : ¬ (c.len = 0 ∧ indices.any (· ≥ 0) = true) := by
      rintro ⟨h0, hany⟩
      apply hge
      rw [List.any_eq_true] at hany ⊢
      obtain ⟨i, hi, hp⟩ := hany
      exact ⟨i, hi, by simp at hp ⊢; omega⟩
    simp only [hge, h1, Bool.false_eq_true, if_false, bind, Except.bind, pure, Except.pure]
    by_cases hneg : indices.any (· < 0) = true
    · simp only [hneg, not_true_eq_false, if_false]
      by_cases hlow : indices.any (· < -1) = true
      · simp only [hlow, if_true, throw, throwThe, MonadExceptOf.throw]
        rfl
      · simp only [hlow, Bool.false_eq_true, if_false]
        -- the gathered chunk
        let idx : List (Option Nat) := indices.map fun i => if i < 0 then none else some i.toNat
        let mask : List Bool := indices.map (· < 0)
        let res0 := c.combine.take idx
        have hidx : idx.length = indices.length := by simp [idx]
        have hmask : mask.length = indices.length := by simp [mask]
        have hcal := PCol.combine_aligned c hw ha
        have hv0 : res0.validate = .ok () := PStruct.take_validate c.combine hcal idx
        have hrows0 : res0.rows = idx.map (pickRow c.rows) := by
          rw [PStruct.take_rows, PCol.combine_rows c hw]
        -- the target rows, position by position
        have htarget : ∀ j, j < indices.length →
            (indices.map fun i => if i < 0 then fill else c.rows.getD i.toNat none).getD j none =
              if mask.getD j false then fill else res0.rows.getD j none := by
          intro j hj
          have hij : indices[j]? = some indices[j] := List.getElem?_eq_getElem hj
          simp only [hrows0, idx, mask, List.getD_eq_getElem?_getD, List.getElem?_map, hij, Option.map_some,
            Option.getD_some, List.map_map, Function.comp]
          by_cases hi : indices[j] < 0
          · simp [hi]
          · simp only [hi, if_false, decide_false, Bool.false_eq_true]
            rw [pickRow_some, List.getD_eq_getElem?_getD]
        cases hf : fill with
        | none =>
          -- nulls stay nulls
          have hfv : boxScalar c.ty (none : Row α) = none := rfl
          simp only [hfv, fillMasked]
          rw [init_single_ok c _ hv0]
          congr 1
          apply List.ext_getElem?
          intro j
          by_cases hj : j < indices.length
          · have h1 : (indices.map fun i => if i < 0 then (none : Row α) else c.rows.getD i.toNat none)[j]? =
                some ((indices.map fun i => if i < 0 then (none : Row α) else c.rows.getD i.toNat none).getD j none) := by
              rw [List.getD_eq_getElem?_getD, List.getElem?_eq_getElem (by simpa using hj)]; rfl
            have h2 : res0.rows[j]? = some (res0.rows.getD j none) := by
              rw [List.getD_eq_getElem?_getD, List.getElem?_eq_getElem (by rw [hrows0]; simpa [idx] using hj)]; rfl
            have ht := htarget j hj
            rw [hf] at ht
            rw [h1, h2, ht]
            cases hm : mask.getD j false with
            | false => rfl
            | true =>
              -- a masked position of the gathered chunk is a null
              simp only [if_true, Option.some.injEq]
              have hij : indices[j]? = some indices[j] := List.getElem?_eq_getElem hj
              have hneg' : indices[j] < 0 := by
                simp only [mask, List.getD_eq_getElem?_getD, List.getElem?_map, hij, Option.map_some,
                  Option.getD_some] at hm
                simpa using hm
              simp only [hrows0, idx, List.getD_eq_getElem?_getD, List.getElem?_map, hij, Option.map_some,
                Option.getD_some, hneg', if_true]
              rfl
          · have h1 : (indices.map fun i => if i < 0 then (none : Row α) else c.rows.getD i.toNat none)[j]? = none := by
              rw [List.getElem?_eq_none_iff]; simp; omega
            have h2 : res0.rows[j]? = none := by
              rw [List.getElem?_eq_none_iff, hrows0]; simp [idx]; omega
            rw [h1, h2]
        | some t =>
          obtain ⟨fs, hfs⟩ : ∃ fs, boxScalar c.ty (some t) = some fs := ⟨_, rfl⟩
          simp only [hfs, fillMasked]
          rw [hf] at hnorm hrect htarget
          let xs : List (PScalar α) := List.replicate mask.length (some fs)
          let bro := PStruct.ofScalars c.ty xs
          have hxl : xs.length = mask.length := by simp [xs]
          have hl0 : res0.len = mask.length := by rw [PStruct.take_len, hidx, hmask]
          have hkr0 : ∀ k ∈ res0.kids, k.list.rows.length = mask.length := by
            intro k hk; rw [PStruct.take_kid_rows_length c.combine idx k hk, hidx, hmask]
          have ⟨hkl, hnn⟩ := ofScalars_lineup c.ty xs res0 mask.length hxl
            (by rw [PStruct.take_ty, PCol.combine_ty]) hkr0
          let res := PStruct.ifElse mask bro res0
          have hunbox : ∀ j, j < mask.length → unboxScalar c.ty (xs.getD j none) = some t := by
            intro j hj
            have : xs.getD j none = some fs := by
              simp [xs, List.getD_eq_getElem?_getD, List.getElem?_replicate, hj]
            rw [this, ← hfs, unbox_box, hnorm]
          -- validated
          have hal0 := (PStruct.canonical_validate_iff res0 (PStruct.take_canonical _ _)).mp hv0
          have hrows_al0 := (PStruct.aligned_iff_rows res0 mask.length hkr0).mp hal0
          have hkr : ∀ k ∈ res.kids, k.list.rows.length = mask.length := by
            intro k hk
            obtain ⟨j, ka, kb, h1, h2, rfl⟩ := mem_zipWith_getElem _ _ _ k hk
            have ⟨_, h3, h4⟩ := hnn j ka kb h1 h2
            simp only [PList.ofRows_rows]
            exact selectBy_length mask _ _ h3 h4
          have hvres : res.validate = .ok () := by
            rw [PStruct.canonical_validate_iff res (ifElse_canonical _ _ _), PStruct.aligned_iff_rows res mask.length hkr]
            intro j hj
            rw [ifElse_allEq mask bro res0 hkl hnn j hj]
            cases mask.getD j false with
            | false => simpa using hrows_al0 j hj
            | true =>
              simp only [if_true]
              rw [ofScalars_allEq c.ty xs j (by rw [hxl]; exact hj), hunbox j hj]
              exact hrect
          rw [init_single_ok c _ hvres]
          congr 1
          have hbl : bro.len = mask.length := by simp [bro, PStruct.ofScalars_len, xs]
          rw [PStruct.ifElse_rows mask bro res0 hbl hl0 hkl hnn, PStruct.ofScalars_rows]
          have hr0l : res0.rows.length = mask.length := by rw [PStruct.rows_length]; exact hl0
          have hbrl : (xs.map (unboxScalar c.ty)).length = mask.length := by simp [xs]
          apply List.ext_getElem?
          intro j
          by_cases hj : j < mask.length
          · have h1 : (selectBy mask (xs.map (unboxScalar c.ty)) res0.rows)[j]? =
                some ((selectBy mask (xs.map (unboxScalar c.ty)) res0.rows).getD j none) := by
              rw [List.getD_eq_getElem?_getD, List.getElem?_eq_getElem
                (by rw [selectBy_length mask _ _ hbrl hr0l]; exact hj)]; rfl
            have h2 : (indices.map fun i => if i < 0 then some t else c.rows.getD i.toNat none)[j]? =
                some ((indices.map fun i => if i < 0 then some t else c.rows.getD i.toNat none).getD j none) := by
              rw [List.getD_eq_getElem?_getD, List.getElem?_eq_getElem (by simp; omega)]; rfl
            rw [h1, h2, htarget j (by omega), selectBy_getD none mask _ _ j hbrl hr0l hj]
            have hb : (xs.map (unboxScalar c.ty)).getD j none = some t := by
              have hxj : xs[j]? = some xs[j] := List.getElem?_eq_getElem (by rw [hxl]; exact hj)
              have := hunbox j hj
              simp only [List.getD_eq_getElem?_getD, List.getElem?_map, hxj, Option.map_some, Option.getD_some] at this ⊢
              exact this
            rw [hb]
          · have h1 : (selectBy mask (xs.map (unboxScalar c.ty)) res0.rows)[j]? = none := by
              rw [List.getElem?_eq_none_iff, selectBy_length mask _ _ hbrl hr0l]; omega
            have h2 : (indices.map fun i => if i < 0 then some t else c.rows.getD i.toNat none)[j]? = none := by
              rw [List.getElem?_eq_none_iff]; simp; omega
            rw [h1, h2]
    · -- no negative position: a plain take
      have hneg' : indices.any (· < 0) = false := by simpa using hneg
      simp only [hneg', Bool.false_eq_true, not_false_eq_true, if_true]
      have hlow : indices.any (· < -1) = false := by
        rw [List.any_eq_false] at hneg' ⊢
        intro i hi
        have := hneg' i hi
        simp at this ⊢; omega
      simp only [hlow, Bool.false_eq_true, if_false]
      have hv := PCol.take_validate c hw ha (indices.map fun i => some i.toNat)
      unfold NArr.init
      have hne : (c.take (indices.map fun i => some i.toNat)).chunks.isEmpty = false := rfl
      simp only [hne, Bool.false_eq_true, if_false, if_true, hv, bind, Except.bind, pure, Except.pure, Except.map]
      rw [PCol.take_rows c hw]
      congr 1
      rw [List.map_map]
      apply List.map_congr_left
      intro i hi
      have : ¬ i < 0 := by
        rw [List.any_eq_false] at hneg'
        simpa using hneg' i hi
      simp [this, pickRow_some]

end NP
