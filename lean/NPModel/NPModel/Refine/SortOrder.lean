/-
  NPModel.Refine.SortOrder — the comparator of `sort_values` on a nested layer is a total preorder
  (given a strict weak order on the values), so the stable sort really sorts.
  Helper lemmas only; the property theorems live in NPModel.Props.C11.
-/
import NPModel.Impl.Frame
import NPModel.Refine.LabelOrder
namespace NP
variable {α β : Type}

/-- a strict weak order on the values in `S`: asymmetric and negatively transitive (e.g. `<` on
    numbers or strings) -/
structure StrictWeakOn (S : α → Prop) (lt : α → α → Bool) : Prop where
  asymm : ∀ a b, S a → S b → lt a b = true → lt b a = false
  negtrans : ∀ a b c, S a → S b → S c → lt a b = false → lt b c = false → lt a c = false

/-- a strict weak order on all values -/
abbrev StrictWeak (lt : α → α → Bool) : Prop := StrictWeakOn (fun _ => True) lt

theorem StrictWeakOn.mono {S T : α → Prop} {lt : α → α → Bool} (h : StrictWeakOn T lt) (hst : ∀ a, S a → T a) :
    StrictWeakOn S lt :=
  ⟨fun a b ha hb => h.asymm a b (hst a ha) (hst b hb),
   fun a b c ha hb hc => h.negtrans a b c (hst a ha) (hst b hb) (hst c hc)⟩

/-- a three-way comparison that behaves on `S` like the one of a total preorder -/
structure CmpLawsOn (S : α → Prop) (cmp : α → α → Ordering) : Prop where
  swap : ∀ a b, S a → S b → cmp b a = (cmp a b).swap
  lt_le : ∀ a b c, S a → S b → S c → cmp a b = .lt → cmp b c ≠ .gt → cmp a c = .lt
  le_lt : ∀ a b c, S a → S b → S c → cmp a b ≠ .gt → cmp b c = .lt → cmp a c = .lt
  eq_eq : ∀ a b c, S a → S b → S c → cmp a b = .eq → cmp b c = .eq → cmp a c = .eq

/-- … everywhere -/
structure CmpLaws (cmp : α → α → Ordering) : Prop where
  swap : ∀ a b, cmp b a = (cmp a b).swap
  lt_le : ∀ a b c, cmp a b = .lt → cmp b c ≠ .gt → cmp a c = .lt
  le_lt : ∀ a b c, cmp a b ≠ .gt → cmp b c = .lt → cmp a c = .lt
  eq_eq : ∀ a b c, cmp a b = .eq → cmp b c = .eq → cmp a c = .eq

/-- the comparison a strict order induces -/
def cmp0 (lt : α → α → Bool) (a b : α) : Ordering := if lt a b then .lt else if lt b a then .gt else .eq

theorem cmp0_laws (S : α → Prop) (lt : α → α → Bool) (h : StrictWeakOn S lt) : CmpLawsOn S (cmp0 lt) := by
  constructor
  · intro a b sa sb
    have := h.asymm a b sa sb; have := h.asymm b a sb sa
    unfold cmp0
    cases hab : lt a b <;> cases hba : lt b a <;> simp_all [Ordering.swap]
  all_goals
    intro a b c sa sb sc
    have := h.asymm a b sa sb; have := h.asymm b a sb sa; have := h.asymm b c sb sc; have := h.asymm c b sc sb
    have := h.asymm a c sa sc; have := h.asymm c a sc sa
    have := h.negtrans a b c sa sb sc; have := h.negtrans c b a sc sb sa; have := h.negtrans b a c sb sa sc
    have := h.negtrans a c b sa sc sb; have := h.negtrans b c a sb sc sa; have := h.negtrans c a b sc sa sb
    unfold cmp0
    cases hab : lt a b <;> cases hba : lt b a <;> cases hbc : lt b c <;> cases hcb : lt c b <;>
      cases hac : lt a c <;> cases hca : lt c a <;> simp_all

/-- ascending or descending -/
def dirCmp (asc : Bool) (cmp : α → α → Ordering) (a b : α) : Ordering := if asc then cmp a b else (cmp a b).swap

theorem dirCmp_laws (S : α → Prop) (asc : Bool) (cmp : α → α → Ordering) (h : CmpLawsOn S cmp) :
    CmpLawsOn S (dirCmp asc cmp) := by
  cases asc
  · constructor
    · intro a b sa sb
      simp only [dirCmp, Bool.false_eq_true, if_false, h.swap a b sa sb]
    · intro a b c sa sb sc h1 h2
      simp only [dirCmp, Bool.false_eq_true, if_false] at *
      have e1 := h.swap a b sa sb; have e2 := h.swap b c sb sc; have e3 := h.swap a c sa sc
      have := h.le_lt c b a sc sb sa
      cases hab : cmp a b <;> cases hbc : cmp b c <;> cases hac : cmp a c <;> simp_all [Ordering.swap]
    · intro a b c sa sb sc h1 h2
      simp only [dirCmp, Bool.false_eq_true, if_false] at *
      have e1 := h.swap a b sa sb; have e2 := h.swap b c sb sc; have e3 := h.swap a c sa sc
      have := h.lt_le c b a sc sb sa
      cases hab : cmp a b <;> cases hbc : cmp b c <;> cases hac : cmp a c <;> simp_all [Ordering.swap]
    · intro a b c sa sb sc h1 h2
      simp only [dirCmp, Bool.false_eq_true, if_false] at *
      have := h.eq_eq a b c sa sb sc
      cases hab : cmp a b <;> cases hbc : cmp b c <;> cases hac : cmp a c <;> simp_all [Ordering.swap]
  · constructor
    · intro a b sa sb; simp only [dirCmp, if_true, h.swap a b sa sb]
    · intro a b c sa sb sc; simp only [dirCmp, if_true]; exact h.lt_le a b c sa sb sc
    · intro a b c sa sb sc; simp only [dirCmp, if_true]; exact h.le_lt a b c sa sb sc
    · intro a b c sa sb sc; simp only [dirCmp, if_true]; exact h.eq_eq a b c sa sb sc

/-- nulls first or last, whatever the direction -/
def nullCmp (isNull : α → Bool) (naFirst : Bool) (cmp : α → α → Ordering) (a b : α) : Ordering :=
  match isNull a, isNull b with
  | true, true => .eq
  | true, false => if naFirst then .lt else .gt
  | false, true => if naFirst then .gt else .lt
  | false, false => cmp a b

theorem nullCmp_laws (S : α → Prop) (isNull : α → Bool) (naFirst : Bool) (cmp : α → α → Ordering)
    (h : CmpLawsOn (fun a => S a ∧ isNull a = false) cmp) : CmpLawsOn S (nullCmp isNull naFirst cmp) := by
  constructor
  · intro a b sa sb
    have := fun h1 h2 => h.swap a b ⟨sa, h1⟩ ⟨sb, h2⟩
    unfold nullCmp
    cases ha : isNull a <;> cases hb : isNull b <;> cases naFirst <;> simp_all [Ordering.swap]
  · intro a b c sa sb sc
    have := fun h1 h2 h3 => h.lt_le a b c ⟨sa, h1⟩ ⟨sb, h2⟩ ⟨sc, h3⟩
    unfold nullCmp
    cases ha : isNull a <;> cases hb : isNull b <;> cases hc : isNull c <;> cases naFirst <;> simp_all
  · intro a b c sa sb sc
    have := fun h1 h2 h3 => h.le_lt a b c ⟨sa, h1⟩ ⟨sb, h2⟩ ⟨sc, h3⟩
    unfold nullCmp
    cases ha : isNull a <;> cases hb : isNull b <;> cases hc : isNull c <;> cases naFirst <;> simp_all
  · intro a b c sa sb sc
    have := fun h1 h2 h3 => h.eq_eq a b c ⟨sa, h1⟩ ⟨sb, h2⟩ ⟨sc, h3⟩
    unfold nullCmp
    cases ha : isNull a <;> cases hb : isNull b <;> cases hc : isNull c <;> cases naFirst <;> simp_all

theorem keyLe_eq (lt : α → α → Bool) (isNull : α → Bool) (asc naFirst : Bool) (a b : α) :
    keyLe lt isNull asc naFirst a b = nullCmp isNull naFirst (dirCmp asc (cmp0 lt)) a b := by
  unfold keyLe nullCmp dirCmp cmp0
  cases isNull a <;> cases isNull b <;> cases asc <;> cases lt a b <;> cases lt b a <;> simp [Ordering.swap]

theorem keyLe_laws (S : α → Prop) (lt : α → α → Bool) (isNull : α → Bool) (asc naFirst : Bool)
    (h : StrictWeakOn (fun a => S a ∧ isNull a = false) lt) : CmpLawsOn S (keyLe lt isNull asc naFirst) := by
  have : keyLe lt isNull asc naFirst = nullCmp isNull naFirst (dirCmp asc (cmp0 lt)) := by
    funext a b; exact keyLe_eq lt isNull asc naFirst a b
  rw [this]
  exact nullCmp_laws S _ _ _ (dirCmp_laws _ _ _ (cmp0_laws _ lt h))

/-- a comparison of values read through positions that all land in `S` -/
theorem CmpLawsOn.comap {S : α → Prop} {cmp : α → α → Ordering} (h : CmpLawsOn S cmp) (f : β → α)
    (hf : ∀ i, S (f i)) : CmpLaws fun i j => cmp (f i) (f j) :=
  ⟨fun a b => h.swap _ _ (hf a) (hf b), fun a b c => h.lt_le _ _ _ (hf a) (hf b) (hf c),
   fun a b c => h.le_lt _ _ _ (hf a) (hf b) (hf c), fun a b c => h.eq_eq _ _ _ (hf a) (hf b) (hf c)⟩

theorem CmpLaws.comap {cmp : α → α → Ordering} (h : CmpLaws cmp) (f : β → α) : CmpLaws fun i j => cmp (f i) (f j) :=
  ⟨fun a b => h.swap _ _, fun a b c => h.lt_le _ _ _, fun a b c => h.le_lt _ _ _, fun a b c => h.eq_eq _ _ _⟩

theorem CmpLawsOn.global {cmp : α → α → Ordering} (h : CmpLawsOn (fun _ => True) cmp) : CmpLaws cmp :=
  ⟨fun a b => h.swap a b trivial trivial, fun a b c => h.lt_le a b c trivial trivial trivial,
   fun a b c => h.le_lt a b c trivial trivial trivial, fun a b c => h.eq_eq a b c trivial trivial trivial⟩

/-- first `c1`, ties broken by `c2` -/
def lexCombine (c1 c2 : β → β → Ordering) (i j : β) : Ordering :=
  match c1 i j with
  | .lt => .lt
  | .gt => .gt
  | .eq => c2 i j

theorem lexCombine_laws (c1 c2 : β → β → Ordering) (h1 : CmpLaws c1) (h2 : CmpLaws c2) : CmpLaws (lexCombine c1 c2) := by
  constructor
  · intro a b
    have := h1.swap a b; have := h2.swap a b
    unfold lexCombine
    cases hab : c1 a b <;> simp_all [Ordering.swap]
  · intro a b c
    have := h1.lt_le a b c; have := h1.le_lt a b c; have := h1.eq_eq a b c; have := h2.lt_le a b c
    unfold lexCombine
    cases hab : c1 a b <;> cases hbc : c1 b c <;> cases hac : c1 a c <;> simp_all
  · intro a b c
    have := h1.lt_le a b c; have := h1.le_lt a b c; have := h1.eq_eq a b c; have := h2.le_lt a b c
    unfold lexCombine
    cases hab : c1 a b <;> cases hbc : c1 b c <;> cases hac : c1 a c <;> simp_all
  · intro a b c
    have := h1.eq_eq a b c; have := h2.eq_eq a b c
    unfold lexCombine
    cases hab : c1 a b <;> cases hbc : c1 b c <;> cases hac : c1 a c <;> simp_all

/-- the order `le i j := cmp i j ≠ gt` of a lawful comparison is total and transitive -/
theorem CmpLaws.le_total {cmp : β → β → Ordering} (h : CmpLaws cmp) (a b : β) :
    (cmp a b != .gt || cmp b a != .gt) = true := by
  have := h.swap a b
  cases hab : cmp a b <;> simp_all [Ordering.swap]

theorem CmpLaws.le_trans {cmp : β → β → Ordering} (h : CmpLaws cmp) (a b c : β)
    (h1 : (cmp a b != .gt) = true) (h2 : (cmp b c != .gt) = true) : (cmp a c != .gt) = true := by
  have := h.lt_le a b c; have := h.le_lt a b c; have := h.eq_eq a b c
  cases hab : cmp a b <;> cases hbc : cmp b c <;> cases hac : cmp a c <;> simp_all

end NP

namespace NP
variable {α : Type}

/-! ### the comparator of `sort_values` -/

/-- three-way comparison of records `i`, `j` by the keys, most significant first -/
def keysCmp [Inhabited α] (lt : α → α → Bool) (isNull : α → Bool) (naFirst : Bool) :
    List (Bool × List α) → Nat → Nat → Ordering
  | [] => fun _ _ => .eq
  | k :: ks => lexCombine (fun i j => keyLe lt isNull k.1 naFirst (k.2.getD i default) (k.2.getD j default))
      (keysCmp lt isNull naFirst ks)

/-- the cells a key column can show: its values, and the default read beyond its end -/
def colDomain [Inhabited α] (v : List α) : α → Prop := fun x => x ∈ v ∨ x = default

theorem getD_colDomain [Inhabited α] (v : List α) (i : Nat) : colDomain v (v.getD i default) := by
  unfold colDomain
  rw [List.getD_eq_getElem?_getD]
  cases h : v[i]? with
  | none => right; rfl
  | some x => left; exact List.mem_of_getElem? h

/-- the non-null values of every key column are strictly weakly ordered by `lt` (nulls never
    reach `lt`: they are placed by `na_position`) -/
def KeysOrdered [Inhabited α] (lt : α → α → Bool) (isNull : α → Bool) (kcols : List (Bool × List α)) : Prop :=
  ∀ k ∈ kcols, StrictWeakOn (fun v => colDomain k.2 v ∧ isNull v = false) lt

theorem KeysOrdered.of_global [Inhabited α] {lt : α → α → Bool} (h : StrictWeak lt) (isNull : α → Bool)
    (kcols : List (Bool × List α)) : KeysOrdered lt isNull kcols := fun _ _ => h.mono (fun _ _ => trivial)

theorem keysCmp_laws [Inhabited α] (lt : α → α → Bool) (isNull : α → Bool) (naFirst : Bool) :
    ∀ kcols : List (Bool × List α), KeysOrdered lt isNull kcols → CmpLaws (keysCmp lt isNull naFirst kcols)
  | [], _ => ⟨fun _ _ => rfl, fun _ _ _ h1 _ => (by cases h1), fun _ _ _ _ h2 => (by cases h2), fun _ _ _ _ _ => rfl⟩
  | k :: ks, h => lexCombine_laws _ _
      ((keyLe_laws (colDomain k.2) lt isNull k.1 naFirst (h k List.mem_cons_self)).comap
        (fun i => k.2.getD i default) (getD_colDomain k.2))
      (keysCmp_laws lt isNull naFirst ks (fun k' hk' => h k' (List.mem_cons_of_mem _ hk')))

theorem lexLe_eq [Inhabited α] (lt : α → α → Bool) (isNull : α → Bool) (naFirst : Bool) (i j : Nat) :
    ∀ kcols : List (Bool × List α),
      lexLe lt isNull naFirst (sortKeysAt kcols i j) = (keysCmp lt isNull naFirst kcols i j != .gt)
  | [] => rfl
  | k :: ks => by
    have ih := lexLe_eq lt isNull naFirst i j ks
    show lexLe lt isNull naFirst ((k.1, k.2.getD i default, k.2.getD j default) :: sortKeysAt ks i j) = _
    simp only [lexLe, keysCmp, lexCombine]
    cases keyLe lt isNull k.1 naFirst (k.2.getD i default) (k.2.getD j default)
    · rfl
    · exact ih
    · rfl

/-- three-way comparison of labels -/
def labelCmp (a b : Label) : Ordering := if a == b then .eq else if a.le b then .lt else .gt

/-- the strict order of labels -/
def labelLt (a b : Label) : Bool := a.le b && a != b

theorem labelLt_false (a b : Label) (h : labelLt a b = false) : b.le a = true := by
  unfold labelLt at h
  have ht := Label.le_total a b
  cases hab : a.le b
  · simpa [hab] using ht
  · have : a = b := by simpa [hab] using h
    subst this
    exact hab

theorem labelLt_strictWeak : StrictWeak labelLt := by
  constructor
  · intro a b _ _ h
    unfold labelLt at h ⊢
    have ⟨h1, h2⟩ : a.le b = true ∧ a ≠ b := by simpa using h
    cases hba : b.le a
    · rfl
    · exact absurd (Label.le_antisymm a b h1 hba) h2
  · intro a b c _ _ _ h1 h2
    have hba := labelLt_false a b h1
    have hcb := labelLt_false b c h2
    have hca := Label.le_trans c b a hcb hba
    unfold labelLt
    cases hac : a.le c
    · rfl
    · have : a = c := Label.le_antisymm a c hac hca
      simp [this]

theorem labelCmp_eq (a b : Label) : labelCmp a b = cmp0 labelLt a b := by
  unfold labelCmp cmp0 labelLt
  by_cases hab : a = b
  · subst hab; simp
  · have hba : ¬ b = a := fun e => hab e.symm
    have ht := Label.le_total a b
    cases h1 : a.le b <;> cases h2 : b.le a <;> simp_all

theorem labelCmp_laws : CmpLaws labelCmp := by
  have : labelCmp = cmp0 labelLt := by funext a b; exact labelCmp_eq a b
  rw [this]
  exact (cmp0_laws _ labelLt labelLt_strictWeak).global

/-- the whole comparator: row ordinal first, then the keys -/
def sortCmp [Inhabited α] (lt : α → α → Bool) (isNull : α → Bool) (naFirst : Bool) (ords : List Label)
    (kcols : List (Bool × List α)) : Nat → Nat → Ordering :=
  lexCombine (fun i j => labelCmp (ords.getD i (.int 0)) (ords.getD j (.int 0))) (keysCmp lt isNull naFirst kcols)

theorem sortCmp_laws [Inhabited α] (lt : α → α → Bool) (isNull : α → Bool) (naFirst : Bool)
    (ords : List Label) (kcols : List (Bool × List α)) (h : KeysOrdered lt isNull kcols) :
    CmpLaws (sortCmp lt isNull naFirst ords kcols) :=
  lexCombine_laws _ _ (labelCmp_laws.comap fun i => ords.getD i (.int 0)) (keysCmp_laws lt isNull naFirst kcols h)

theorem sortLe_eq [Inhabited α] (lt : α → α → Bool) (isNull : α → Bool) (naFirst : Bool) (ords : List Label)
    (kcols : List (Bool × List α)) (i j : Nat) :
    sortLe lt isNull naFirst ords kcols i j = (sortCmp lt isNull naFirst ords kcols i j != .gt) := by
  unfold sortLe sortCmp lexCombine labelCmp
  by_cases he : (ords.getD i (.int 0) == ords.getD j (.int 0)) = true
  · simp only [he, if_true]
    exact lexLe_eq lt isNull naFirst i j kcols
  · simp only [he, Bool.false_eq_true, if_false]
    cases (ords.getD i (.int 0)).le (ords.getD j (.int 0)) <;> simp

/-- **the comparator is a total preorder**: total and transitive -/
theorem sortLe_total [Inhabited α] (lt : α → α → Bool) (isNull : α → Bool) (naFirst : Bool)
    (ords : List Label) (kcols : List (Bool × List α)) (h : KeysOrdered lt isNull kcols) (a b : Nat) :
    (sortLe lt isNull naFirst ords kcols a b || sortLe lt isNull naFirst ords kcols b a) = true := by
  rw [sortLe_eq, sortLe_eq]
  exact (sortCmp_laws lt isNull naFirst ords kcols h).le_total a b

theorem sortLe_trans [Inhabited α] (lt : α → α → Bool) (isNull : α → Bool) (naFirst : Bool)
    (ords : List Label) (kcols : List (Bool × List α)) (h : KeysOrdered lt isNull kcols) (a b c : Nat)
    (h1 : sortLe lt isNull naFirst ords kcols a b = true) (h2 : sortLe lt isNull naFirst ords kcols b c = true) :
    sortLe lt isNull naFirst ords kcols a c = true := by
  rw [sortLe_eq] at h1 h2 ⊢
  exact (sortCmp_laws lt isNull naFirst ords kcols h).le_trans a b c h1 h2

/-- sorted by the comparator ⇒ ordinals non-decreasing -/
theorem sortLe_ordinal [Inhabited α] (lt : α → α → Bool) (isNull : α → Bool) (naFirst : Bool)
    (ords : List Label) (kcols : List (Bool × List α)) (i j : Nat)
    (h : sortLe lt isNull naFirst ords kcols i j = true) : (ords.getD i (.int 0)).le (ords.getD j (.int 0)) = true := by
  unfold sortLe at h
  by_cases he : (ords.getD i (.int 0) == ords.getD j (.int 0)) = true
  · have : ords.getD i (.int 0) = ords.getD j (.int 0) := by simpa using he
    rw [this]
    have := Label.le_total (ords.getD j (.int 0)) (ords.getD j (.int 0))
    simpa using this
  · simp only [he, Bool.false_eq_true, if_false] at h
    exact h

end NP
