/-
  NPModel.Refine.CountNested — `count_nested` (without `by`) counts each row's own records.  Helper lemmas only.
-/
import NPModel.Refine.Observers
namespace NP
variable {α : Type}

theorem fieldLists_first_len (rows : List (Row α)) (f0 : String) (rest : List String)
    (hn : ∀ r ∈ rows, ∀ t, r = some t → t.map (·.1) = f0 :: rest) :
    (Spec.fieldLists rows f0).map List.length = rows.map Row.len := by
  unfold Spec.fieldLists
  rw [List.map_map]
  apply List.map_congr_left
  intro r hr
  cases r with
  | none => rfl
  | some t =>
    have := hn _ hr t rfl
    cases t with
    | nil => cases this
    | cons p t' =>
      simp only [List.map_cons, List.cons.injEq] at this
      simp [Function.comp, Row.len, List.find?, this.1]

/-- **`count_nested` counts each row's own records**: on a cleanly stored column (any chunking) the counts are the
    per-row numbers of records of the element view — 0 for a missing row, 0 for an empty row. -/
theorem countRecords_refines (c : PCol α) (h : c.Clean) (hch : c.chunks ≠ []) :
    NArr.countRecords c = .ok (c.rows.map Row.len) := by
  unfold NArr.countRecords
  obtain ⟨s0, rest, hc⟩ : ∃ s0 rest, c.chunks = s0 :: rest := by
    cases hc : c.chunks with
    | nil => exact absurd hc hch
    | cons s0 rest => exact ⟨s0, rest, rfl⟩
  have ⟨_, hty0⟩ := PCol.chunk_facts c h.wf s0 (by rw [hc]; exact List.mem_cons_self)
  have hnames : NArr.fieldNames c = .ok (c.ty.map (·.1)) := by
    unfold NArr.fieldNames
    simp only [hc, pure, Except.pure]
    rw [PStruct.names_of_ty hty0]
  cases hty : c.ty with
  | nil => exact absurd hty h.fields
  | cons p tys =>
    have hany : c.ty.any (·.1 == p.1) = true := by
      rw [hty]
      simp
    obtain ⟨ls, hls, hmap, _⟩ := iterFieldLists_refines c h p.1 hany
    simp only [hnames, hty, List.map_cons, bind, Except.bind, hls, pure, Except.pure]
    congr 1
    have hfl := fieldLists_first_len c.rows p.1 (tys.map (·.1)) (by
      intro r hr t ht
      have := PCol.row_names c h.wf r hr t ht
      rw [hty] at this
      simpa using this)
    rw [← hfl, ← hmap, List.map_map]
    apply List.map_congr_left
    intro o _
    cases o <;> rfl

end NP
