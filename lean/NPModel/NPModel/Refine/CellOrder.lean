/-
  NPModel.Refine.CellOrder — the order the model's `sort_values` is run with (`cellLt`: numbers by
  value with NaN above every number, strings by code points, booleans, timestamps) is a strict weak
  order on the cells of any column of one kind, so `KeysOrdered cellLt` holds of every key column
  the property list quantifies over.
  Uses Mathlib's `LinearOrder` lemmas about `compare` (proof file only).
-/
import Mathlib.Data.String.Basic
import Mathlib.Order.Defs.LinearOrder
import Mathlib.Order.Compare
import NPModel.Pandas.Expr
import NPModel.Refine.SortOrder
namespace NP

theorem cmpOrd_lt (c : Ordering) : cmpOrd .lt c = (c == .lt) := by cases c <;> rfl

theorem cmp_lt_dec {γ : Type} [LinearOrder γ] (a b : γ) : (compare a b == .lt) = decide (a < b) := by
  rw [Bool.eq_iff_iff]; simp [compare_lt_iff_lt]

/-- numbers (with NaN), strings, booleans, timestamps -/
def Val.kind : Val → Nat
  | .int _ | .flt _ | .nan => 0
  | .str _ => 1
  | .bool _ => 2
  | .ts _ => 3

theorem lt_int_int (x y : Int) : Val.lt (.int x) (.int y) = decide (x < y) := by
  simp only [Val.lt, Val.cmp, Val.num?, cmpOrd_lt, Option.getD_some]
  rw [cmp_lt_dec]; simp
theorem lt_int_flt (x t : Int) : Val.lt (.int x) (.flt t) = decide (2 * x < t) := by
  simp only [Val.lt, Val.cmp, Val.num?, cmpOrd_lt, Option.getD_some]
  rw [cmp_lt_dec]
theorem lt_flt_int (t y : Int) : Val.lt (.flt t) (.int y) = decide (t < 2 * y) := by
  simp only [Val.lt, Val.cmp, Val.num?, cmpOrd_lt, Option.getD_some]
  rw [cmp_lt_dec]
theorem lt_flt_flt (s t : Int) : Val.lt (.flt s) (.flt t) = decide (s < t) := by
  simp only [Val.lt, Val.cmp, Val.num?, cmpOrd_lt, Option.getD_some]
  rw [cmp_lt_dec]
theorem lt_nan (y : Val) : Val.lt .nan y = false := by cases y <;> rfl
theorem lt_int_nan (x : Int) : Val.lt (.int x) .nan = true := rfl
theorem lt_flt_nan (x : Int) : Val.lt (.flt x) .nan = true := rfl
theorem lt_str_str (x y : String) : Val.lt (.str x) (.str y) = decide (x < y) := by
  simp only [Val.lt, Val.cmp, cmpOrd_lt, Option.getD_some]
  rw [cmp_lt_dec]
theorem lt_bool_bool (x y : Bool) : Val.lt (.bool x) (.bool y) = decide (x.toNat < y.toNat) := by
  simp only [Val.lt, Val.cmp, cmpOrd_lt, Option.getD_some]
  rw [cmp_lt_dec]
theorem lt_ts_ts (x y : Int) : Val.lt (.ts x) (.ts y) = decide (x < y) := by
  simp only [Val.lt, Val.cmp, cmpOrd_lt, Option.getD_some]
  rw [cmp_lt_dec]

theorem Val.lt_asymm (x y : Val) (hk : x.kind = y.kind) (h : Val.lt x y = true) : Val.lt y x = false := by
  cases x <;> cases y
  all_goals try (simp [Val.kind] at hk; done)
  all_goals simp only [lt_int_int, lt_int_flt, lt_flt_int, lt_flt_flt, lt_nan, lt_int_nan, lt_flt_nan, lt_str_str,
      lt_bool_bool, lt_ts_ts, decide_eq_true_eq, decide_eq_false_iff_not] at h ⊢
  all_goals first
    | omega
    | exact _root_.lt_asymm h
    | (cases h)

theorem Val.lt_negtrans (x y z : Val) (h1 : x.kind = y.kind) (h2 : y.kind = z.kind)
    (hxy : Val.lt x y = false) (hyz : Val.lt y z = false) : Val.lt x z = false := by
  cases x <;> cases y
  all_goals try (simp [Val.kind] at h1; done)
  all_goals cases z
  all_goals try (simp [Val.kind] at h2; done)
  all_goals simp only [lt_int_int, lt_int_flt, lt_flt_int, lt_flt_flt, lt_nan, lt_int_nan, lt_flt_nan, lt_str_str,
      lt_bool_bool, lt_ts_ts, decide_eq_true_eq, decide_eq_false_iff_not] at hxy hyz ⊢
  all_goals first
    | omega
    | exact fun h => hxy (lt_of_lt_of_le h (not_lt.mp hyz))
    | (cases hxy)
    | (cases hyz)

/-- the cells of `S` are non-null values of one kind -/
def OneKind (S : Cell → Prop) : Prop := ∃ k, ∀ v, S v → ∃ x, v = some x ∧ x.kind = k

/-- **`cellLt` is a strict weak order on the non-null cells of any column of one kind.** -/
theorem cellLt_strictWeakOn (S : Cell → Prop) (h : OneKind S) : StrictWeakOn S cellLt := by
  obtain ⟨k, hk⟩ := h
  constructor
  · intro a b sa sb hab
    obtain ⟨x, rfl, hx⟩ := hk a sa
    obtain ⟨y, rfl, hy⟩ := hk b sb
    exact Val.lt_asymm x y (hx.trans hy.symm) hab
  · intro a b c sa sb sc hab hbc
    obtain ⟨x, rfl, hx⟩ := hk a sa
    obtain ⟨y, rfl, hy⟩ := hk b sb
    obtain ⟨z, rfl, hz⟩ := hk c sc
    exact Val.lt_negtrans x y z (hx.trans hy.symm) (hy.trans hz.symm) hab hbc

/-- a column of cells of one kind (nulls allowed) -/
def ColOneKind (v : List Cell) : Prop := ∃ k, ∀ x, some x ∈ v → x.kind = k

/-- **`KeysOrdered` holds of the model's own order** for key columns that each hold one kind of
    value (ints/floats/NaN, strings, booleans or timestamps — the domain of the property list),
    nulls included. -/
theorem keysOrdered_cellLt (kcols : List (Bool × List Cell)) (h : ∀ k ∈ kcols, ColOneKind k.2) :
    KeysOrdered cellLt cellIsNull kcols := by
  intro k hk
  obtain ⟨kind, hkind⟩ := h k hk
  apply cellLt_strictWeakOn
  refine ⟨kind, ?_⟩
  intro v hv
  obtain ⟨hdom, hnn⟩ := hv
  cases v with
  | none => simp [cellIsNull] at hnn
  | some x =>
    refine ⟨x, rfl, ?_⟩
    rcases hdom with hmem | hdef
    · exact hkind x hmem
    · cases hdef

end NP
