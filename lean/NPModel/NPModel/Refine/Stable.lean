/-
  NPModel.Refine.Stable — stability of the sort used by `pack_flat`
  (`df.sort_index(kind="stable")`, modelled by `List.mergeSort` on (label, position) pairs):
  the records of every label keep their original relative order.
-/
import NPModel.Refine.SortRows
namespace NP
variable {α β : Type}

/-- stable sort: the subsequence of every key is unchanged -/
theorem filter_mergeSort_key [BEq β] [LawfulBEq β] (le : β → β → Bool)
    (trans : ∀ a b c, le a b → le b c → le a c) (total : ∀ a b, le a b || le b a)
    (xs : List (β × α)) (k : β) :
    (xs.mergeSort fun a b => le a.1 b.1).filter (fun p => p.1 == k) = xs.filter (fun p => p.1 == k) := by
  let le' : β × α → β × α → Bool := fun a b => le a.1 b.1
  have trans' : ∀ a b c, le' a b → le' b c → le' a c := fun a b c => trans a.1 b.1 c.1
  have total' : ∀ a b, le' a b || le' b a := fun a b => total a.1 b.1
  let c := xs.filter (fun p => p.1 == k)
  have hsub : c.Sublist xs := List.filter_sublist
  have hpw : c.Pairwise (fun a b => le' a b) := by
    apply List.pairwise_of_forall_mem_list
    intro a ha b hb
    have ea : a.1 = k := by simpa using (List.mem_filter.mp ha).2
    have eb : b.1 = k := by simpa using (List.mem_filter.mp hb).2
    show le a.1 b.1 = true
    rw [ea, eb]
    have := total k k
    simpa using this
  have h1 : c.Sublist (xs.mergeSort le') := List.sublist_mergeSort trans' total' hpw hsub
  have h2 : (c.filter (fun p => p.1 == k)).Sublist ((xs.mergeSort le').filter (fun p => p.1 == k)) := h1.filter _
  have hcc : c.filter (fun p => p.1 == k) = c := by
    apply List.filter_eq_self.mpr
    intro a ha
    exact (List.mem_filter.mp ha).2
  rw [hcc] at h2
  have hperm : ((xs.mergeSort le').filter (fun p => p.1 == k)).Perm c := (List.mergeSort_perm xs le').filter _
  exact (h2.eq_of_length hperm.length_eq.symm).symm

theorem valsOfLabel_pairs [BEq β] (k : β) (ps : List (β × α)) :
    valsOfLabel k (ps.map (·.1)) (ps.map (·.2)) = (ps.filter fun p => p.1 == k).map (·.2) := by
  unfold valsOfLabel
  induction ps with
  | nil => rfl
  | cons p ps ih =>
    simp only [List.map_cons, List.zip_cons_cons, List.filter_cons]
    split <;> simp_all

/-- **Packing groups by label and keeps the original relative order inside each label**: after a
    stable sort by label, the records carrying label `k` are exactly the records that carried `k`
    in the unsorted table, in their original order — none lost, duplicated or invented. -/
theorem stable_sort_keeps_label_subsequence [BEq β] [LawfulBEq β] (le : β → β → Bool)
    (trans : ∀ a b c, le a b → le b c → le a c) (total : ∀ a b, le a b || le b a)
    (xs : List (β × α)) (k : β) :
    let sorted := xs.mergeSort fun a b => le a.1 b.1
    valsOfLabel k (sorted.map (·.1)) (sorted.map (·.2)) = valsOfLabel k (xs.map (·.1)) (xs.map (·.2)) := by
  intro sorted
  rw [valsOfLabel_pairs, valsOfLabel_pairs, filter_mergeSort_key le trans total xs k]

/-- the sorted labels are non-decreasing -/
theorem stable_sort_sorted (le : β → β → Bool)
    (trans : ∀ a b c, le a b → le b c → le a c) (total : ∀ a b, le a b || le b a) (xs : List (β × α)) :
    ((xs.mergeSort fun a b => le a.1 b.1).map (·.1)).Pairwise (fun a b => le a b = true) := by
  rw [List.pairwise_map]
  exact List.pairwise_mergeSort (fun a b c => trans a.1 b.1 c.1) (fun a b => total a.1 b.1) xs

end NP
