/-
  NPModel.Refine.Segs — lemmas about offsets, extents and the canonical layout.
  Helper lemmas only; property theorems live in NPModel.Props.
-/
import NPModel.Spec.Ops
namespace NP
variable {α : Type}

@[simp] theorem segs_nil (vals : List α) : segs [] vals = [] := rfl
@[simp] theorem segs_single (a : Nat) (vals : List α) : segs [a] vals = [] := rfl
@[simp] theorem segs_cons₂ (a b : Nat) (rest : List Nat) (vals : List α) :
    segs (a :: b :: rest) vals = ((vals.drop a).take (b - a)) :: segs (b :: rest) vals := rfl

theorem segs_length (offs : List Nat) (vals : List α) : (segs offs vals).length = offs.length - 1 := by
  induction offs with
  | nil => rfl
  | cons a rest ih =>
    cases rest with
    | nil => rfl
    | cons b rest => simp [ih]

@[simp] theorem diffs_nil : diffs [] = [] := rfl
@[simp] theorem diffs_single (a : Nat) : diffs [a] = [] := rfl
@[simp] theorem diffs_cons₂ (a b : Nat) (rest : List Nat) : diffs (a :: b :: rest) = (b - a) :: diffs (b :: rest) := rfl

theorem diffs_length (offs : List Nat) : (diffs offs).length = offs.length - 1 := by
  induction offs with
  | nil => rfl
  | cons a rest ih =>
    cases rest with
    | nil => rfl
    | cons b rest => simp [ih]

@[simp] theorem monotone_cons₂ (a b : Nat) (rest : List Nat) :
    monotone (a :: b :: rest) = (decide (a ≤ b) && monotone (b :: rest)) := rfl

/-- all offsets of a monotone list ending within `n` are within `n` -/
theorem monotone_le_last {offs : List Nat} {n : Nat} (hm : monotone offs = true)
    (hl : offs.getLast?.getD 0 ≤ n) : ∀ x ∈ offs, x ≤ n := by
  induction offs with
  | nil => intro x hx; cases hx
  | cons a rest ih =>
    cases rest with
    | nil =>
      intro x hx
      simp at hx hl
      omega
    | cons b rest =>
      simp at hm
      have hl' : (b :: rest).getLast?.getD 0 ≤ n := by
        simpa [List.getLast?_cons_cons] using hl
      have := ih hm.2 hl'
      intro x hx
      rcases List.mem_cons.mp hx with rfl | hx
      · have hb := this b (List.mem_cons_self)
        omega
      · exact this x hx

/-- lengths of the extents are the differences of the offsets (offsets monotone and in bounds). -/
theorem segs_lengths {offs : List Nat} {vals : List α} (hm : monotone offs = true)
    (hl : offs.getLast?.getD 0 ≤ vals.length) :
    (segs offs vals).map List.length = diffs offs := by
  induction offs with
  | nil => rfl
  | cons a rest ih =>
    cases rest with
    | nil => rfl
    | cons b rest =>
      simp at hm
      have hl' : (b :: rest).getLast?.getD 0 ≤ vals.length := by
        simpa [List.getLast?_cons_cons] using hl
      have hb : b ≤ vals.length := monotone_le_last hm.2 hl' b List.mem_cons_self
      simp [ih hm.2 hl']
      omega

/-- the extents of a window, concatenated, are the window of the values -/
theorem segs_flatten {offs : List Nat} {vals : List α} (hm : monotone offs = true)
    (hl : offs.getLast?.getD 0 ≤ vals.length) :
    (segs offs vals).flatten = (vals.drop (offs.headD 0)).take (offs.getLast?.getD 0 - offs.headD 0) := by
  induction offs with
  | nil => simp
  | cons a rest ih =>
    cases rest with
    | nil => simp
    | cons b rest =>
      simp at hm
      have hl' : (b :: rest).getLast?.getD 0 ≤ vals.length := by
        simpa [List.getLast?_cons_cons] using hl
      have hbl : b ≤ (b :: rest).getLast?.getD 0 := by
        have := monotone_le_last (n := (b :: rest).getLast?.getD 0) hm.2 (Nat.le_refl _) b List.mem_cons_self
        exact this
      have ih' := ih hm.2 hl'
      simp only [segs_cons₂, List.flatten_cons, ih', List.headD_cons, List.getLast?_cons_cons]
      generalize hL : (b :: rest).getLast?.getD 0 = L at *
      have hab := hm.1
      -- (vals.drop a).take (b-a) ++ (vals.drop b).take (L-b) = (vals.drop a).take (L-a)
      have h1 : vals.drop b = (vals.drop a).drop (b - a) := by
        rw [List.drop_drop]; congr 1; omega
      rw [h1]
      have h2 : L - a = (b - a) + (L - b) := by omega
      rw [h2, List.take_add]

end NP

namespace NP
variable {α : Type}

/-! ### windows -/

theorem segs_drop (offs : List Nat) (vals : List α) (k : Nat) :
    segs (offs.drop k) vals = (segs offs vals).drop k := by
  induction k generalizing offs with
  | zero => simp
  | succ k ih =>
    cases offs with
    | nil => simp
    | cons a rest =>
      cases rest with
      | nil => simp
      | cons b rest =>
        simp only [List.drop_succ_cons, segs_cons₂]
        exact ih (b :: rest)

theorem segs_take (offs : List Nat) (vals : List α) (k : Nat) :
    segs (offs.take (k + 1)) vals = (segs offs vals).take k := by
  induction k generalizing offs with
  | zero =>
    cases offs with
    | nil => simp
    | cons a rest => simp
  | succ k ih =>
    cases offs with
    | nil => simp
    | cons a rest =>
      cases rest with
      | nil => simp
      | cons b rest =>
        simp only [List.take_succ_cons, segs_cons₂]
        have := ih (b :: rest)
        simp only [List.take_succ_cons] at this
        rw [this]

/-- a window of the offsets shows the same window of extents -/
theorem segs_window (offs : List Nat) (vals : List α) (st n : Nat) :
    segs ((offs.drop st).take (n + 1)) vals = ((segs offs vals).drop st).take n := by
  rw [segs_take, segs_drop]

/-! ### canonical layout -/

@[simp] theorem offsetsFrom_nil (b : Nat) : offsetsFrom b [] = [b] := rfl
@[simp] theorem offsetsFrom_cons (b l : Nat) (ls : List Nat) :
    offsetsFrom b (l :: ls) = b :: offsetsFrom (b + l) ls := rfl

theorem offsetsFrom_ne_nil (b : Nat) (ls : List Nat) : offsetsFrom b ls ≠ [] := by
  cases ls <;> simp

theorem offsetsFrom_length (b : Nat) (ls : List Nat) : (offsetsFrom b ls).length = ls.length + 1 := by
  induction ls generalizing b with
  | nil => rfl
  | cons l ls ih => simp [ih]

theorem offsetsFrom_head (b : Nat) (ls : List Nat) : (offsetsFrom b ls).headD 0 = b := by
  cases ls <;> simp

theorem diffs_offsetsFrom (b : Nat) (ls : List Nat) : diffs (offsetsFrom b ls) = ls := by
  induction ls generalizing b with
  | nil => rfl
  | cons l ls ih =>
    cases ls with
    | nil => simp
    | cons l' ls =>
      have := ih (b + l)
      simp only [offsetsFrom_cons] at this ⊢
      simp only [diffs_cons₂, this]
      simp

theorem monotone_offsetsFrom (b : Nat) (ls : List Nat) : monotone (offsetsFrom b ls) = true := by
  induction ls generalizing b with
  | nil => rfl
  | cons l ls ih =>
    cases ls with
    | nil => simp [monotone]
    | cons l' ls =>
      have := ih (b + l)
      simp only [offsetsFrom_cons] at this ⊢
      simp [this]

theorem offsetsFrom_last (b : Nat) (ls : List Nat) :
    (offsetsFrom b ls).getLast?.getD 0 = b + sumNat ls := by
  induction ls generalizing b with
  | nil => simp [sumNat]
  | cons l ls ih =>
    have h := ih (b + l)
    cases ls with
    | nil => simp [sumNat] at h ⊢
    | cons l' ls =>
      simp only [offsetsFrom_cons, List.getLast?_cons_cons] at h ⊢
      rw [h]; simp [sumNat]; omega

/-- extents of the canonical layout, generalised to a prefix: the key lemma behind every
    "fresh output" kernel (`take`, `filter`, `if_else`, `pa.array`). -/
theorem segs_offsetsFrom (pre : List α) (ls : List (List α)) :
    segs (offsetsFrom pre.length (ls.map List.length)) (pre ++ ls.flatten) = ls := by
  induction ls generalizing pre with
  | nil => simp
  | cons l ls ih =>
    have h := ih (pre ++ l)
    cases ls with
    | nil => simp
    | cons l' ls =>
      simp only [List.map_cons, offsetsFrom_cons, segs_cons₂, List.flatten_cons] at h ⊢
      congr 1
      · simp
      · have e : pre.length + l.length = (pre ++ l).length := by simp
        rw [e]
        simpa [List.append_assoc] using h

theorem segs_canonical (ls : List (List α)) :
    segs (offsetsFrom 0 (ls.map List.length)) ls.flatten = ls := by
  simpa using segs_offsetsFrom ([] : List α) ls

end NP
