/-
  NPModel.Refine.Samples — concrete non-trivial states used by the non-vacuity `example`s:
  sliced (non-zero-based) chunks, missing rows, null child lists, several chunks.
-/
import NPModel.Refine.Struct
namespace NP.Samples
open NP

def la : PList Nat := { offs := [2, 4, 4, 5], valid := [true, false, true], vals := [9, 9, 1, 2, 3] }
def lb : PList Nat := { offs := [0, 2, 2, 3], valid := [true, true, true], vals := [7, 8, 6] }
def fa : PField Nat := { name := "a", ty := "int64", list := la }
def fb : PField Nat := { name := "b", ty := "int64", list := lb }
/-- one chunk: a slice into a larger buffer for `a`, a fresh buffer for `b`; row 1 missing -/
def s1 : PStruct Nat := { valid := [true, false, true], kids := [fa, fb] }
def lc : PList Nat := { offs := [0, 1], valid := [true], vals := [5] }
def ld : PList Nat := { offs := [3, 4], valid := [true], vals := [0, 0, 0, 4] }
def s2 : PStruct Nat := { valid := [true], kids := [{ fa with list := lc }, { fb with list := ld }] }
def sEmpty : PStruct Nat := { valid := [], kids := [{ fa with list := { offs := [0], valid := [], vals := [] } },
                                                   { fb with list := { offs := [7], valid := [], vals := [1, 1, 1, 1, 1, 1, 1, 1] } }] }
/-- three chunks, one of them empty -/
def c1 : PCol Nat := { ty := [("a", "int64"), ("b", "int64")], chunks := [s1, sEmpty, s2] }

end NP.Samples
