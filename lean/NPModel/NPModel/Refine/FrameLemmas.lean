/-
  NPModel.Refine.FrameLemmas — frame-level bookkeeping: replacing one column leaves the index,
  the other columns and the column order alone.
-/
import NPModel.Impl.Frame
import NPModel.Refine.Fields
namespace NP
variable {α : Type}

theorem NFrame.setCol_index (F : NFrame α) (n : String) (d : ColData α) : (F.setCol n d).index = F.index := by
  unfold NFrame.setCol; split <;> rfl

theorem find_map_replace_col (cols : List (String × ColData α)) (n m : String) (d : ColData α) (h : (n == m) = false) :
    (cols.map fun p => if p.1 == n then (n, d) else p).find? (fun p => p.1 == m) = cols.find? (fun p => p.1 == m) := by
  induction cols with
  | nil => rfl
  | cons a rest ih =>
    simp only [List.map_cons, List.find?_cons]
    by_cases ha : (a.1 == n) = true
    · have hm : (a.1 == m) = false := by
        have : a.1 = n := by simpa using ha
        rw [this]; exact h
      simp only [ha, if_true, h, hm]
      exact ih
    · have ha' : (a.1 == n) = false := by simpa using ha
      simp only [ha', Bool.false_eq_true, if_false]
      cases hm : (a.1 == m)
      · exact ih
      · rfl

/-- every other column is untouched -/
theorem NFrame.setCol_other (F : NFrame α) (n m : String) (d : ColData α) (h : (n == m) = false) :
    (F.setCol n d).col? m = F.col? m := by
  unfold NFrame.setCol NFrame.col?
  split
  · simp only
    rw [find_map_replace_col _ _ _ _ h]
  · simp only
    rw [List.find?_append]
    simp [h]

/-- replacing an existing column keeps the column names and their order -/
theorem NFrame.setCol_names (F : NFrame α) (n : String) (d : ColData α) (h : F.cols.any (·.1 == n) = true) :
    (F.setCol n d).cols.map (·.1) = F.cols.map (·.1) := by
  unfold NFrame.setCol
  simp only [h, if_true, List.map_map]
  apply List.map_congr_left
  intro p _
  simp only [Function.comp]
  split
  · rename_i hp
    have : p.1 = n := by simpa using hp
    exact this.symm
  · rfl

end NP

namespace NP
variable {α : Type}

theorem withFlatField_chunks {s s' : NSeries α} {f ty : String} {v : FlatVal α}
    (h : s.withFlatField f ty v = .ok s') : s'.index = s.index ∧ All2 (FieldSet f ty) s.col.chunks s'.col.chunks := by
  unfold NSeries.withFlatField at h
  cases hc : NArr.setFlatField (NArr.copy s.col) f ty v false with
  | error e => simp [hc, bind, Except.bind] at h
  | ok c =>
    simp only [hc, bind, Except.bind, pure, Except.pure, Except.ok.injEq] at h
    subst h
    exact ⟨rfl, setFlatField_chunks hc⟩

theorem withFilledField_chunks {s s' : NSeries α} {f ty : String} {v : List α}
    (h : s.withFilledField f ty v = .ok s') : s'.index = s.index ∧ All2 (FieldSet f ty) s.col.chunks s'.col.chunks := by
  unfold NSeries.withFilledField at h
  cases hc : NArr.fillFieldLists (NArr.copy s.col) f ty v false with
  | error e => simp [hc, bind, Except.bind] at h
  | ok c =>
    simp only [hc, bind, Except.bind, pure, Except.pure, Except.ok.injEq] at h
    subst h
    exact ⟨rfl, fillFieldLists_chunks hc⟩

/-- `NestedFrame['nest.field'] = value` on an existing nest: the frame keeps its index, every
    other column and the column order; inside the nest the chunk-wise frame condition holds. -/
theorem setField_existing_nest [Inhabited α] {F F' : NFrame α} {nest field ty : String} {v : FlatVal α}
    {vi : Option (List Label)} {na : α}
    (hn : F.nestedColumns.contains nest = true) (h : F.setField nest field ty v vi na = .ok F') :
    ∃ c c', F.nest? nest = .ok c ∧ F' = F.setCol nest (.nest c') ∧ All2 (FieldSet field ty) c.chunks c'.chunks := by
  unfold NFrame.setField at h
  simp only [hn, if_true] at h
  cases hc : F.nest? nest with
  | error e => simp [hc, bind, Except.bind] at h
  | ok c =>
    simp only [hc, bind, Except.bind] at h
    split at h
    · simp at h
    · rename_i s' hs'
      simp only [pure, Except.pure, Except.ok.injEq] at h
      refine ⟨c, s'.col, rfl, h.symm, ?_⟩
      -- whichever branch produced `s'`, it is a flat or a filled field edit of the same column
      split at hs'
      · split at hs'
        · exact (withFilledField_chunks hs').2
        · exact (withFlatField_chunks hs').2
      · exact (withFlatField_chunks hs').2

end NP
