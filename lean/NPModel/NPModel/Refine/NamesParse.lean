/-
  NPModel.Refine.NamesParse — helper lemmas for the column-path parser.
-/
import NPModel.Impl.Names
namespace NP

def noChar (c : Char) (s : Str) : Bool := s.all (· != c)

theorem split1_last (sep : Char) (p cur : Str) (hp : noChar sep p = true) :
    split1 sep p cur = [cur.reverse ++ p] := by
  induction p generalizing cur with
  | nil => simp [split1]
  | cons c p ih =>
    simp only [noChar, List.all_cons, Bool.and_eq_true, bne_iff_ne, ne_eq] at hp
    have hc : ¬ c = sep := hp.1
    simp only [split1, hc, if_false]
    rw [ih (c :: cur) (by simpa [noChar] using hp.2)]
    simp

theorem split1_part_sep (sep : Char) (p rest cur : Str) (hp : noChar sep p = true) :
    split1 sep (p ++ sep :: rest) cur = (cur.reverse ++ p) :: split1 sep rest [] := by
  induction p generalizing cur with
  | nil => simp [split1]
  | cons c p ih =>
    simp only [noChar, List.all_cons, Bool.and_eq_true, bne_iff_ne, ne_eq] at hp
    have hc : ¬ c = sep := hp.1
    simp only [List.cons_append, split1, hc, if_false]
    rw [ih (c :: cur) (by simpa [noChar] using hp.2)]
    simp

/-- `"a.b".split(".") = ["a", "b"]` for parts without a dot — any number of parts -/
theorem split1_joinDot : ∀ (parts : List Str), parts ≠ [] → (∀ p ∈ parts, noChar '.' p = true) →
    split1 '.' (joinDot parts) [] = parts := by
  intro parts
  induction parts with
  | nil => intro h; exact absurd rfl h
  | cons p rest ih =>
    intro _ hall
    cases rest with
    | nil =>
      simp only [joinDot]
      rw [split1_last '.' p [] (hall p List.mem_cons_self)]; simp
    | cons q rest' =>
      simp only [joinDot]
      have : p ++ ['.'] ++ joinDot (q :: rest') = p ++ '.' :: joinDot (q :: rest') := by simp
      rw [this, split1_part_sep '.' p _ [] (hall p List.mem_cons_self),
          ih (by simp) (fun x hx => hall x (List.mem_cons_of_mem _ hx))]
      simp

/-- a path without backticks is left alone by the alias scanner -/
theorem identifyAliases_plain (clean : Str → Str) (s : Str) (h : noChar '`' s = true) :
    identifyAliases clean s = (s, []) := by
  induction s with
  | nil => simp [identifyAliases]
  | cons c cs ih =>
    simp only [noChar, List.all_cons, Bool.and_eq_true, bne_iff_ne, ne_eq] at h
    have hc : ¬ c = '`' := h.1
    rw [identifyAliases]
    simp only [hc, if_false]
    rw [ih (by simpa [noChar] using h.2)]

theorem aliasLookup_nil (x : Str) : aliasLookup [] x = x := rfl

end NP

namespace NP

theorem takeQuoted_name (a rest acc : Str) (ha : noChar '`' a = true) (hne : acc.reverse ++ a ≠ []) :
    takeQuoted (a ++ '`' :: rest) acc = some (acc.reverse ++ a, rest) := by
  induction a generalizing acc with
  | nil =>
    simp only [List.nil_append, takeQuoted, if_true]
    have : acc ≠ [] := by simpa using hne
    simp [this]
  | cons c a ih =>
    simp only [noChar, List.all_cons, Bool.and_eq_true, bne_iff_ne, ne_eq] at ha
    have hc : ¬ c = '`' := ha.1
    simp only [List.cons_append, takeQuoted, hc, if_false]
    rw [ih (c :: acc) (by simpa [noChar] using ha.2) (by simp)]
    simp

/-- one quoted name followed by anything: replaced by its cleaned form, alias recorded if needed -/
theorem identifyAliases_quoted (clean : Str → Str) (a rest : Str) (ha : noChar '`' a = true) (hne : a ≠ []) :
    identifyAliases clean ('`' :: (a ++ '`' :: rest))
      = (clean a ++ (identifyAliases clean rest).1,
         if clean a = a then (identifyAliases clean rest).2 else (clean a, a) :: (identifyAliases clean rest).2) := by
  rw [identifyAliases]
  simp only [if_true]
  have ht : takeQuoted (a ++ '`' :: rest) [] = some (a, rest) := by
    have := takeQuoted_name a rest [] ha (by simpa using hne)
    simpa using this
  split
  · rename_i name rest' heq
    rw [ht] at heq
    simp only [Option.some.injEq, Prod.mk.injEq] at heq
    obtain ⟨rfl, rfl⟩ := heq
    rfl
  · rename_i heq
    rw [ht] at heq
    cases heq

end NP

namespace NP

theorem identifyAliases_cons_plain (clean : Str → Str) (c : Char) (cs : Str) (hc : c ≠ '`') :
    identifyAliases clean (c :: cs) = (c :: (identifyAliases clean cs).1, (identifyAliases clean cs).2) := by
  rw [identifyAliases]
  simp only [hc, if_false]

/-- **A fully quoted path parses to the quoted names**, whatever characters they contain (spaces,
    punctuation, dots, keywords), provided `clean` produces dot-free text and does not identify
    the two names. -/
theorem parse_quoted_pair (clean : Str → Str) (a b : Str)
    (ha : noChar '`' a = true) (hb : noChar '`' b = true) (hane : a ≠ []) (hbne : b ≠ [])
    (hca : noChar '.' (clean a) = true) (hcb : noChar '.' (clean b) = true)
    (hinj : clean a = clean b → a = b) :
    parseComponents clean none ('`' :: (a ++ '`' :: '.' :: '`' :: (b ++ ['`']))) = [a, b] := by
  unfold parseComponents
  simp only
  rw [identifyAliases_quoted clean a _ ha hane, identifyAliases_cons_plain clean '.' _ (by decide),
      identifyAliases_quoted clean b [] hb hbne]
  simp only [identifyAliases, List.append_nil]
  have hs : split1 '.' (clean a ++ '.' :: clean b) [] = [clean a, clean b] := by
    rw [split1_part_sep '.' (clean a) _ [] hca, split1_last '.' (clean b) [] hcb]
    simp
  rw [hs]
  by_cases h1 : clean a = a <;> by_cases h2 : clean b = b
  · simp [h1, h2, aliasLookup]
  · have hne : ¬ (clean b = a) := by
      intro h
      have : a = b := hinj (by rw [h1, h])
      subst this
      exact h2 h1
    have hne' : (clean b == a) = false := by simpa using hne
    simp [h1, h2, aliasLookup, hne']
  · have hne : ¬ (clean a = b) := by
      intro h
      have : a = b := hinj (by rw [h, h2])
      subst this
      exact h1 h2
    have hne' : (clean a == b) = false := by simpa using hne
    simp [h1, h2, aliasLookup, hne']
  · simp only [h1, h2, if_false, aliasLookup, List.reverse_cons, List.reverse_nil, List.nil_append, List.cons_append,
      List.map_cons, List.map_nil, List.find?_cons, List.find?_nil, beq_self_eq_true]
    by_cases h3 : clean b = clean a
    · have : a = b := hinj h3.symm
      subst this
      simp
    · have h3' : (clean b == clean a) = false := by simpa using h3
      simp [h3']

end NP
