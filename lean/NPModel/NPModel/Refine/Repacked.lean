/-
  NPModel.Refine.Repacked — `_set_filtered_flat_df` end to end at the level of rows: a flat table
  whose index is the row ordinals (what query, dropna and sort_values on a nested layer produce
  after filtering / reordering inside the rows) is packed and aligned back to the frame's rows:
  a row that keeps no record becomes missing, every other row holds exactly its records.
  (C07, C11, C12)
-/
import NPModel.Refine.PackSorted
import NPModel.Refine.TakeFill
import NPModel.Refine.Positions
import NPModel.Impl.Frame
import NPModel.Refine.Repack
namespace NP
variable {α : Type}

/-- per-row lists as runs keyed by the row ordinal -/
def ordRuns : Nat → List (List α) → List (Label × List α)
  | _, [] => []
  | s, l :: ls => (Label.int (s : Int), l) :: ordRuns (s + 1) ls

/-- the ordinal index `[0,0,0,1,1,3,…]` of rows with the given record counts, from ordinal `s` -/
def ordIndex : Nat → List Nat → List Label
  | _, [] => []
  | s, n :: ns => List.replicate n (Label.int (s : Int)) ++ ordIndex (s + 1) ns

theorem runLabels_ordRuns : ∀ (s : Nat) (lists : List (List α)),
    runLabels (ordRuns s lists) = ordIndex s (lists.map List.length)
  | _, [] => rfl
  | s, l :: ls => by
    simp only [ordRuns, runLabels_cons, List.map_cons, ordIndex, runLabels_ordRuns (s + 1) ls]

theorem runVals_ordRuns : ∀ (s : Nat) (lists : List (List α)), runVals (ordRuns s lists) = lists.flatten
  | _, [] => rfl
  | s, l :: ls => by simp only [ordRuns, runVals_cons, List.flatten_cons, runVals_ordRuns (s + 1) ls]

theorem ordRuns_keys : ∀ (s : Nat) (lists : List (List α)),
    (ordRuns s lists).map (·.1) = (List.range' s lists.length).map fun (i : Nat) => Label.int (i : Int)
  | _, [] => rfl
  | s, l :: ls => by
    simp only [ordRuns, List.map_cons, List.length_cons, List.range'_succ, ordRuns_keys (s + 1) ls]

theorem ordRuns_keys_distinct (s : Nat) (lists : List (List α)) :
    ((ordRuns s lists).map (·.1)).Pairwise (· ≠ ·) := by
  rw [ordRuns_keys, List.pairwise_map]
  apply List.Pairwise.imp _ (List.pairwise_lt_range' (s := s) (n := lists.length))
  intro a b hab h
  simp only [Label.int.injEq] at h
  omega

/-- every label of the ordinal index from `s` is an ordinal `≥ s` -/
theorem ordIndex_ge : ∀ (s : Nat) (lens : List Nat), ∀ x ∈ ordIndex s lens, ∃ i : Nat, x = Label.int (i : Int) ∧ s ≤ i
  | _, [], x, hx => by simp [ordIndex] at hx
  | s, n :: ns, x, hx => by
    simp only [ordIndex, List.mem_append] at hx
    rcases hx with hx | hx
    · exact ⟨s, List.eq_of_mem_replicate hx, Nat.le_refl _⟩
    · obtain ⟨i, hi, hle⟩ := ordIndex_ge (s + 1) ns x hx
      exact ⟨i, hi, by omega⟩

theorem isMonotone_cons_of_le (a : Label) : ∀ (l : List Label), (∀ x ∈ l, a.le x = true) → isMonotone l = true →
    isMonotone (a :: l) = true
  | [], _, _ => rfl
  | b :: rest, h, hm => by
    simp only [isMonotone, Bool.and_eq_true]
    exact ⟨h b List.mem_cons_self, hm⟩

theorem isMonotone_replicate_append (a : Label) (haa : a.le a = true) : ∀ (n : Nat) (l : List Label),
    (∀ x ∈ l, a.le x = true) → isMonotone l = true → isMonotone (List.replicate n a ++ l) = true
  | 0, l, _, hm => by simpa using hm
  | n + 1, l, h, hm => by
    rw [List.replicate_succ, List.cons_append]
    apply isMonotone_cons_of_le
    · intro x hx
      rcases List.mem_append.mp hx with hx | hx
      · rw [List.eq_of_mem_replicate hx]; exact haa
      · exact h x hx
    · exact isMonotone_replicate_append a haa n l h hm

/-- the ordinal index is sorted -/
theorem ordIndex_monotone : ∀ (s : Nat) (lens : List Nat), isMonotone (ordIndex s lens) = true
  | _, [] => rfl
  | s, n :: ns => by
    simp only [ordIndex]
    apply isMonotone_replicate_append _ (by simp [Label.le]) n _ _ (ordIndex_monotone (s + 1) ns)
    intro x hx
    obtain ⟨i, rfl, hle⟩ := ordIndex_ge (s + 1) ns x hx
    simp [Label.le]; omega

theorem ordIndex_length : ∀ (s : Nat) (lens : List Nat), (ordIndex s lens).length = sumNat lens
  | _, [] => rfl
  | s, n :: ns => by simp [ordIndex, ordIndex_length (s + 1) ns, sumNat]

/-- the non-empty runs are the rows with a positive record count, keyed by their ordinals -/
theorem nonempty_ordRuns : ∀ (s : Nat) (lists : List (List α)),
    nonemptyRuns (ordRuns s lists) =
      (nonzeroFrom s (lists.map fun l => decide (0 < l.length))).map fun (i : Nat) =>
        (Label.int (i : Int), lists.getD (i - s) [])
  | _, [] => rfl
  | s, l :: ls => by
    have ih := nonempty_ordRuns (s + 1) ls
    have hshift : ∀ i ∈ nonzeroFrom (s + 1) (ls.map fun l => decide (0 < l.length)),
        (Label.int (i : Int), ls.getD (i - (s + 1)) []) = (Label.int (i : Int), (l :: ls).getD (i - s) []) := by
      intro i hi
      have := nonzeroFrom_ge _ (s + 1) i hi
      have e : i - s = (i - (s + 1)) + 1 := by omega
      rw [e, List.getD_cons_succ]
    cases l with
    | nil =>
      simp only [ordRuns, nonemptyRuns, List.filter_cons, List.isEmpty_nil, Bool.not_true, Bool.false_eq_true,
        if_false, List.map_cons, List.length_nil, Nat.lt_irrefl, decide_false, nonzeroFrom]
      have := ih
      unfold nonemptyRuns at this
      rw [this]
      exact List.map_congr_left hshift
    | cons x xs =>
      simp only [ordRuns, nonemptyRuns, List.filter_cons, List.isEmpty_cons, Bool.not_false, if_true,
        List.map_cons, List.length_cons, Nat.zero_lt_succ, decide_true, nonzeroFrom, Nat.sub_self,
        List.getD_cons_zero]
      have := ih
      unfold nonemptyRuns at this
      rw [this]
      congr 1
      exact List.map_congr_left hshift


/-! ### the packed chunk is well formed and aligned -/

theorem packedChunk_WF (offs : List Nat) (cols : List (String × String × List α)) (hne : offs ≠ [])
    (hm : monotone offs = true) (hl : ∀ c ∈ cols, offs.getLast?.getD 0 ≤ c.2.2.length) :
    (packedChunk offs cols).WF = true := by
  unfold PStruct.WF packedChunk
  rw [List.all_eq_true]
  intro k hk
  simp only [List.mem_map] at hk
  obtain ⟨c, hc, rfl⟩ := hk
  have hlen : offs.length - 1 + 1 = offs.length := by
    have := List.length_pos_iff.mpr hne; omega
  simp only [PList.WF, PList.len, PStruct.len, List.length_replicate, hlen, decide_true, hm, Bool.true_and,
    Bool.and_true, decide_eq_true_eq]
  exact hl c hc

theorem packedChunk_aligned (offs : List Nat) (cols : List (String × String × List α))
    (hm : monotone offs = true) (hl : ∀ c ∈ cols, offs.getLast?.getD 0 ≤ c.2.2.length) :
    (packedChunk offs cols).aligned := by
  have key : ∀ k ∈ (packedChunk offs cols).kids, k.list.rows.map len0 = diffs offs := by
    intro k hk
    unfold packedChunk at hk
    simp only [List.mem_map] at hk
    obtain ⟨c, hc, rfl⟩ := hk
    simp only [rows_allValid, List.map_map]
    rw [← segs_lengths hm (hl c hc)]
    apply List.map_congr_left
    intro l _
    rfl
  intro k hk k' hk'
  rw [key k hk, key k' hk']

theorem packedChunk_len (offs : List Nat) (cols : List (String × String × List α)) :
    (packedChunk offs cols).len = offs.length - 1 := by
  simp [packedChunk, PStruct.len]

theorem packedChunk_ty (offs : List Nat) (cols : List (String × String × List α)) :
    (packedChunk offs cols).ty = cols.map fun c => (c.1, c.2.1) := by
  simp [packedChunk, PStruct.ty, Function.comp]


/-! ### the flat table of per-row lists, packed -/

/-- the flat table (ordinal index) of column-major per-row lists -/
def ordFlat (cols : List (String × String × List (List α))) (lens : List Nat) : FlatDF α :=
  { index := ordIndex 0 lens, cols := cols.map fun c => (c.1, c.2.1, c.2.2.flatten) }

theorem length_flatten_sumNat (ls : List (List α)) : ls.flatten.length = sumNat (ls.map List.length) := by
  induction ls with
  | nil => rfl
  | cons l ls ih => simp [sumNat, ih] at *

/-- positions of the rows that keep a record -/
abbrev keptRows (lens : List Nat) : List Nat := nonzeroFrom 0 (lens.map fun n => decide (0 < n))

/-- the packed series of an ordinal flat table: its labels are the ordinals of the rows that keep
    a record, and packed row `p` holds, for every column, the list of row `keptRows[p]` -/
theorem packSortedDf_ordFlat (cols : List (String × String × List (List α))) (lens : List Nat)
    (hcols : ∀ c ∈ cols, c.2.2.map List.length = lens) (hne : cols ≠ []) :
    ∃ packed, packSortedDf (ordFlat cols lens) = .ok packed ∧
      packed.index = (keptRows lens).map (fun (i : Nat) => Label.int (i : Int)) ∧
      packed.col.WF = true ∧ packed.col.aligned ∧ packed.col.len = (keptRows lens).length ∧
      packed.col.ty = cols.map (fun c => (c.1, c.2.1)) ∧
      packed.col.rows = (List.range (keptRows lens).length).map fun p =>
        some (cols.map fun c => (c.1, c.2.2.getD ((keptRows lens).getD p 0) [])) := by
  -- every column sees the same index through its own runs
  have hidx : ∀ c ∈ cols, ordIndex 0 lens = runLabels (ordRuns 0 c.2.2) := by
    intro c hc; rw [runLabels_ordRuns, hcols c hc]
  have hmask : ∀ c ∈ cols, (c.2.2.map fun l => decide (0 < l.length)) = lens.map fun n => decide (0 < n) := by
    intro c hc
    rw [← hcols c hc, List.map_map]; rfl
  have hvlen : ∀ c ∈ cols, c.2.2.flatten.length = (ordIndex 0 lens).length := by
    intro c hc; rw [length_flatten_sumNat, hcols c hc, ordIndex_length]
  obtain ⟨c0, hc0⟩ := List.exists_mem_of_ne_nil cols hne
  let offs := packOffsets (ordIndex 0 lens)
  -- the offsets in run form
  have hoffs : offs = offsetsFrom 0 ((nonemptyRuns (ordRuns 0 c0.2.2)).map (·.2.length)) := by
    show packOffsets (ordIndex 0 lens) = _
    rw [hidx c0 hc0, packOffsets_runs _ (ordRuns_keys_distinct 0 c0.2.2)]
  have hoffs_len : offs.length - 1 = (keptRows lens).length := by
    rw [hoffs, offsetsFrom_length, List.length_map, nonempty_ordRuns, List.length_map, hmask c0 hc0]
    simp
  have hoffs_ne : offs ≠ [] := by rw [hoffs]; exact offsetsFrom_ne_nil _ _
  have hoffs_mono : monotone offs = true := by rw [hoffs]; exact monotone_offsetsFrom _ _
  have hoffs_last : offs.getLast?.getD 0 = (ordIndex 0 lens).length := by
    show (packOffsets (ordIndex 0 lens)).getLast?.getD 0 = _
    rw [packOffsets_last]; rfl
  have hlast : ∀ c ∈ (ordFlat cols lens).cols, offs.getLast?.getD 0 ≤ c.2.2.length := by
    intro c hc
    unfold ordFlat at hc
    simp only [List.mem_map] at hc
    obtain ⟨c', hc', rfl⟩ := hc
    simp only
    rw [hoffs_last, hvlen c' hc']
    exact Nat.le_refl _
  have hok := packSortedDf_ok (ordFlat cols lens) (ordIndex_monotone 0 lens)
    (by
      intro c hc
      unfold ordFlat at hc ⊢
      simp only [List.mem_map] at hc
      obtain ⟨c', hc', rfl⟩ := hc
      simp only
      rw [hvlen c' hc']; exact Nat.le_refl _)
    (by unfold ordFlat; simpa using hne)
  refine ⟨_, hok, ?_, ?_, ?_, ?_, ?_, ?_⟩
  · -- the unique index
    show ((packOffsets (ordIndex 0 lens)).dropLast).map (fun o => (ordIndex 0 lens).getD o (.int 0)) = _
    rw [hidx c0 hc0, packed_index_is_run_keys (Label.int 0) _ (ordRuns_keys_distinct 0 c0.2.2), nonempty_ordRuns,
      List.map_map, hmask c0 hc0]
    rfl
  · -- well formed
    unfold PCol.WF
    simp only [List.all_cons, List.all_nil, Bool.and_true, Bool.and_eq_true, decide_eq_true_eq]
    refine ⟨packedChunk_WF offs _ hoffs_ne hoffs_mono hlast, ?_⟩
    rw [packedChunk_ty]
  · -- aligned
    intro s hs
    simp only [List.mem_cons, List.not_mem_nil, or_false] at hs
    subst hs
    exact packedChunk_aligned offs _ hoffs_mono hlast
  · show PCol.len { ty := _, chunks := [packedChunk offs (ordFlat cols lens).cols] } = _
    simp only [PCol.len, List.map_cons, List.map_nil, sumNat, List.foldr_cons, List.foldr_nil, Nat.add_zero,
      packedChunk_len, hoffs_len]
  · show (ordFlat cols lens).cols.map (fun c => (c.1, c.2.1)) = _
    unfold ordFlat
    simp only [List.map_map]
    rfl
  · show PCol.rows { ty := _, chunks := [packedChunk offs (ordFlat cols lens).cols] } = _
    simp only [PCol.rows, List.flatMap_cons, List.flatMap_nil, List.append_nil, packedChunk_rows, hoffs_len]
    apply List.map_congr_left
    intro p hp
    have hp' : p < (keptRows lens).length := List.mem_range.mp hp
    simp only [Option.some.injEq]
    unfold ordFlat
    simp only [List.map_map]
    apply List.map_congr_left
    intro c hc
    simp only [Function.comp, Prod.mk.injEq, true_and]
    -- the extents of this column are the lists of the kept rows
    have hsegs : segs offs c.2.2.flatten = (keptRows lens).map fun i => c.2.2.getD i [] := by
      show segs (packOffsets (ordIndex 0 lens)) c.2.2.flatten = _
      rw [hidx c hc, ← runVals_ordRuns 0 c.2.2, packed_rows_are_runs _ (ordRuns_keys_distinct 0 c.2.2),
        nonempty_ordRuns, List.map_map, hmask c hc]
      rfl
    rw [hsegs]
    simp only [List.getD_eq_getElem?_getD, List.getElem?_map, List.getElem?_eq_getElem hp', Option.map_some,
      Option.getD_some]


/-! ### alignment back to the frame's rows -/

theorem findIdx_map_int (L : List Nat) (i : Nat) :
    (L.map fun (x : Nat) => Label.int (x : Int)).findIdx? (· == Label.int (i : Int)) = L.findIdx? (· == i) := by
  induction L with
  | nil => rfl
  | cons x L ih =>
    simp only [List.map_cons, List.findIdx?_cons, ih]
    have : (Label.int (x : Int) == Label.int (i : Int)) = (x == i) := by
      by_cases h : x = i
      · subst h; simp
      · have h1 : (x == i) = false := by simpa using h
        have h2 : Label.int (x : Int) ≠ Label.int (i : Int) := by
          intro e; simp only [Label.int.injEq] at e; omega
        rw [h1]; simpa using h2
    rw [this]

theorem except_map_ok {β γ : Type} {x : R β} {f : β → γ} {y : γ} (h : x.map f = .ok y) : ∃ b, x = .ok b ∧ f b = y := by
  cases x with
  | error e => cases h
  | ok b => exact ⟨b, rfl, by simpa [Except.map] using h⟩

/-- what the rows of the frame's nest become: a row that keeps no record is missing -/
def repackedRows (cols : List (String × String × List (List α))) (lens : List Nat) : List (Row α) :=
  (List.range lens.length).map fun i =>
    if lens.getD i 0 = 0 then none else some (cols.map fun c => (c.1, c.2.2.getD i []))

/-- **`_set_filtered_flat_df` row by row.**  For a frame of `n` rows and a flat table holding, for
    every row, the records it keeps (column-major per-row lists of common lengths `lens`, indexed
    by the row ordinals): the call succeeds and the frame's nested column becomes exactly those
    per-row tables — a row that keeps no record becomes MISSING, every other row holds its records
    in the given order, for every field at once.  This is the common last step of `query`,
    `dropna` and `sort_values` on a nested layer. -/
theorem setFilteredFlatDf_rows (F : NFrame α) (nest : String) (cols : List (String × String × List (List α)))
    (lens : List Nat) (hn : lens.length = F.index.length) (hcols : ∀ c ∈ cols, c.2.2.map List.length = lens)
    (hne : cols ≠ []) :
    ∃ col, F.setFilteredFlatDf nest (ordFlat cols lens) = .ok (F.setCol nest (.nest col)) ∧
      col.rows = repackedRows cols lens := by
  obtain ⟨packed, hpk, hindex, hwf, hal, hlen, hty, hrows⟩ := packSortedDf_ordFlat cols lens hcols hne
  unfold NFrame.setFilteredFlatDf
  simp only [hpk, bind, Except.bind, pure, Except.pure]
  have hmlen : (lens.map fun n => decide (0 < n)).length = lens.length := by simp
  -- where row `i` sits among the packed rows
  have hfind : ∀ i, i < lens.length → (keptRows lens).findIdx? (· == i) =
      if 0 < lens.getD i 0 then some (rankIn (lens.map fun n => decide (0 < n)) i) else none := by
    intro i hi
    have := nonzeroFrom_findIdx (lens.map fun n => decide (0 < n)) 0 i (by rw [hmlen]; exact hi)
    simp only [Nat.zero_add] at this
    rw [this]
    have hli : lens[i]? = some lens[i] := List.getElem?_eq_getElem hi
    simp only [List.getD_eq_getElem?_getD, List.getElem?_map, hli, Option.map_some, Option.getD_some,
      decide_eq_true_eq]
  have hkept_at : ∀ i p, (keptRows lens).findIdx? (· == i) = some p →
      p < (keptRows lens).length ∧ (keptRows lens).getD p 0 = i := by
    intro i p h
    have ⟨hp, heq, _⟩ := List.findIdx?_eq_some_iff_getElem.mp h
    refine ⟨hp, ?_⟩
    simp only [List.getD_eq_getElem?_getD, List.getElem?_eq_getElem hp, Option.getD_some]
    simpa using heq
  by_cases hall : (packed.index == (List.range F.index.length).map fun (i : Nat) => Label.int (i : Int)) = true
  · -- every row keeps a record: the packed column is the result
    simp only [hall, if_true]
    refine ⟨packed.col, rfl, ?_⟩
    have hidx_eq : (keptRows lens).map (fun (i : Nat) => Label.int (i : Int)) =
        (List.range lens.length).map fun (i : Nat) => Label.int (i : Int) := by
      rw [← hindex, hn]; simpa using hall
    have hkl : (keptRows lens).length = lens.length := by
      have := congrArg List.length hidx_eq
      simpa using this
    -- position i of the kept rows is i
    have hpos : ∀ i, i < lens.length → (keptRows lens).getD i 0 = i := by
      intro i hi
      have := congrArg (fun l => l[i]?) hidx_eq
      simp only [List.getElem?_map, List.getElem?_range hi, Option.map_some] at this
      have hk : (keptRows lens)[i]? = some (keptRows lens)[i] := List.getElem?_eq_getElem (by omega)
      rw [hk] at this
      simp only [Option.map_some, Option.some.injEq, Label.int.injEq] at this
      simp only [List.getD_eq_getElem?_getD, hk, Option.getD_some]
      omega
    rw [hrows, hkl]
    unfold repackedRows
    apply List.map_congr_left
    intro i hi
    have hi' : i < lens.length := List.mem_range.mp hi
    -- row i keeps a record
    have hmem : i ∈ keptRows lens := by
      have := hpos i hi'
      have hk : (keptRows lens)[i]? = some (keptRows lens)[i] := List.getElem?_eq_getElem (by omega)
      simp only [List.getD_eq_getElem?_getD, hk, Option.getD_some] at this
      rw [← this]; exact List.getElem_mem _
    have hposi : 0 < lens.getD i 0 := by
      obtain ⟨j, hj, hm, hx⟩ := (mem_nonzeroFrom _ 0 i).mp hmem
      simp only [Nat.zero_add] at hx
      subst hx
      have hli : lens[i]? = some lens[i] := List.getElem?_eq_getElem hi'
      simp only [List.getD_eq_getElem?_getD, List.getElem?_map, hli, Option.map_some, Option.getD_some,
        decide_eq_true_eq] at hm ⊢
      exact hm
    rw [hpos i hi', if_neg (by omega)]
  · -- some row keeps no record: align with take(indexer, allow_fill=True)
    simp only [hall, Bool.false_eq_true, if_false]
    have htake := take_refines_fill packed.col hwf hal (ordinalIndexer packed.index F.index.length) none rfl
    -- the indexer, entry by entry
    have hindexer : ∀ i, i < lens.length →
        (ordinalIndexer packed.index F.index.length).getD i 0 =
        if 0 < lens.getD i 0 then ((rankIn (lens.map fun n => decide (0 < n)) i : Nat) : Int) else -1 := by
      intro i hi
      unfold ordinalIndexer
      simp only [List.getD_eq_getElem?_getD, List.getElem?_map, List.getElem?_range (by omega : i < F.index.length),
        Option.map_some, Option.getD_some]
      rw [hindex, findIdx_map_int, hfind i hi]
      by_cases hp : 0 < lens.getD i 0
      · have hp' := hp
        simp only [List.getD_eq_getElem?_getD] at hp'
        simp only [hp, hp', if_true]
      · have hp' := hp
        simp only [List.getD_eq_getElem?_getD] at hp'
        simp only [hp, hp', if_false]
    have hixl : (ordinalIndexer packed.index F.index.length).length = lens.length := by
      simp [ordinalIndexer, hn]
    have hmem_ix : ∀ x ∈ ordinalIndexer packed.index F.index.length, ∃ i, i < lens.length ∧
        x = (ordinalIndexer packed.index F.index.length).getD i 0 := by
      intro x hx
      obtain ⟨i, hi, rfl⟩ := List.getElem_of_mem hx
      exact ⟨i, by omega, by simp [List.getD_eq_getElem?_getD, List.getElem?_eq_getElem hi]⟩
    have hrank_lt : ∀ i, i < lens.length → 0 < lens.getD i 0 →
        rankIn (lens.map fun n => decide (0 < n)) i < (keptRows lens).length := by
      intro i hi hp
      have := hfind i hi
      rw [if_pos hp] at this
      exact (hkept_at i _ this).1
    unfold Spec.take at htake
    rw [PCol.rows_length, hlen] at htake
    simp only [if_true] at htake
    have hge : (ordinalIndexer packed.index F.index.length).any
        (fun i => decide (i ≥ ((keptRows lens).length : Int))) = false := by
      rw [List.any_eq_false]
      intro x hx
      obtain ⟨i, hi', rfl⟩ := hmem_ix x hx
      rw [hindexer i hi']
      split
      · rename_i hp; have := hrank_lt i hi' hp; simp; omega
      · simp; omega
    have hlow : (ordinalIndexer packed.index F.index.length).any (fun i => decide (i < -1)) = false := by
      rw [List.any_eq_false]
      intro x hx
      obtain ⟨i, hi', rfl⟩ := hmem_ix x hx
      rw [hindexer i hi']
      split <;> simp <;> omega
    simp only [hge, hlow, Bool.false_eq_true, if_false, pure, Except.pure] at htake
    obtain ⟨col, hcol, hcrows⟩ := except_map_ok htake
    rw [hcol]
    refine ⟨col, rfl, ?_⟩
    rw [hcrows]
    unfold repackedRows
    apply List.ext_getElem?
    intro i
    simp only [List.getElem?_map]
    by_cases hi' : i < lens.length
    · have hix : (ordinalIndexer packed.index F.index.length)[i]? =
          some ((ordinalIndexer packed.index F.index.length).getD i 0) := by
        rw [List.getD_eq_getElem?_getD, List.getElem?_eq_getElem (by omega)]; rfl
      rw [hix, List.getElem?_range hi', hindexer i hi']
      simp only [Option.map_some, Option.some.injEq]
      by_cases hp : 0 < lens.getD i 0
      · have hr := hrank_lt i hi' hp
        have hf := hfind i hi'
        rw [if_pos hp] at hf
        have ⟨_, hk⟩ := hkept_at i _ hf
        rw [if_pos hp, if_neg (by omega), if_neg (by omega)]
        simp only [Int.toNat_natCast]
        rw [hrows]
        simp only [List.getD_eq_getElem?_getD, List.getElem?_map, List.getElem?_range hr, Option.map_some,
          Option.getD_some]
        simp only [List.getD_eq_getElem?_getD] at hk
        rw [hk]
      · rw [if_neg hp, if_pos (by omega), if_pos (by omega)]
    · have h1 : (ordinalIndexer packed.index F.index.length)[i]? = none := by
        rw [List.getElem?_eq_none_iff]; omega
      have h2 : (List.range lens.length)[i]? = none := by
        rw [List.getElem?_eq_none_iff]; simp; omega
      rw [h1, h2]; rfl


/-! ### filtering the flat view, then re-packing -/

/-- per-row masks applied to per-row lists -/
def filterRowsBy (masks : List (List Bool)) (lists : List (List α)) : List (List α) :=
  List.zipWith filterBy masks lists

theorem filterBy_flatten : ∀ (masks : List (List Bool)) (lists : List (List α)),
    All2 (fun m l => m.length = l.length) masks lists →
    filterBy masks.flatten lists.flatten = (filterRowsBy masks lists).flatten
  | _, _, All2.nil => rfl
  | _, _, All2.cons (a := m) (b := l) (as := ms) (bs := ls) h hs => by
    simp only [List.flatten_cons, filterRowsBy, List.zipWith_cons_cons]
    rw [filterBy_append m ms.flatten l ls.flatten h]
    congr 1
    exact filterBy_flatten ms ls hs

theorem filterBy_ordIndex : ∀ (s : Nat) (masks : List (List Bool)) (lens : List Nat),
    All2 (fun m n => m.length = n) masks lens →
    filterBy masks.flatten (ordIndex s lens) = ordIndex s (masks.map fun m => (m.filter id).length)
  | _, _, _, All2.nil => rfl
  | s, _, _, All2.cons (a := m) (b := n) (as := ms) (bs := ns) h hs => by
    simp only [List.flatten_cons, ordIndex, List.map_cons]
    rw [filterBy_append m ms.flatten _ _ (by simp [h]), filterBy_ordIndex (s + 1) ms ns hs]
    congr 1
    -- a constant block keeps as many copies as the mask has set positions
    have := filterBy_replicate m (Label.int (s : Int)) m (rfl)
    rw [h] at this
    rw [this]
    congr 1
    clear this h
    induction m with
    | nil => rfl
    | cons b m ih => cases b <;> simp [ih]

theorem filterRowsBy_lengths : ∀ (masks : List (List Bool)) (lists : List (List α)),
    All2 (fun m l => m.length = l.length) masks lists →
    (filterRowsBy masks lists).map List.length = masks.map fun m => (m.filter id).length
  | _, _, All2.nil => rfl
  | _, _, All2.cons (a := m) (b := l) (as := ms) (bs := ls) h hs => by
    simp only [filterRowsBy, List.zipWith_cons_cons, List.map_cons]
    have ih := filterRowsBy_lengths ms ls hs
    unfold filterRowsBy at ih
    rw [ih]
    congr 1
    clear ih hs
    induction m generalizing l with
    | nil => simp
    | cons b m ihm =>
      cases l with
      | nil => simp at h
      | cons x l => cases b <;> simp [ihm l (by simpa using h)]

theorem all2_of_lengths : ∀ (masks : List (List Bool)) (lens : List Nat) (lists : List (List α)),
    All2 (fun m n => m.length = n) masks lens → lists.map List.length = lens →
    All2 (fun m l => m.length = l.length) masks lists
  | _, _, [], All2.nil, _ => All2.nil
  | _, _, _ :: _, All2.nil, hl => by simp at hl
  | _, _, [], All2.cons _ _, hl => by simp at hl
  | _, _, l :: ls, All2.cons (as := ms) (bs := ns) h hs, hl => by
    simp only [List.map_cons, List.cons.injEq] at hl
    exact All2.cons (by rw [h, hl.1]) (all2_of_lengths ms ns ls hs hl.2)

/-- **Filter the flat view with any per-record mask, re-pack, align: filtering inside every row.**
    `masks` are the per-record outcomes of a condition, row by row.  Filtering the ordinal flat
    table of the rows' records by the flattened mask and handing it to `_set_filtered_flat_df`
    makes row `i` of the nested column hold exactly the records of row `i` whose mask is set, in
    their original order, every field filtered by the same mask — and missing when none is kept. -/
theorem filter_then_repack (F : NFrame α) (nest : String) (cols : List (String × String × List (List α)))
    (lens : List Nat) (masks : List (List Bool))
    (hn : lens.length = F.index.length) (hcols : ∀ c ∈ cols, c.2.2.map List.length = lens)
    (hmasks : All2 (fun m n => m.length = n) masks lens) (hne : cols ≠ []) :
    ∃ col, F.setFilteredFlatDf nest ((ordFlat cols lens).filterRows masks.flatten) = .ok (F.setCol nest (.nest col)) ∧
      col.rows = repackedRows (cols.map fun c => (c.1, c.2.1, filterRowsBy masks c.2.2))
        (masks.map fun m => (m.filter id).length) := by
  have hml : masks.length = lens.length := hmasks.length_eq
  -- masks line up with every column's lists
  have hall : ∀ c ∈ cols, All2 (fun m l => m.length = l.length) masks c.2.2 :=
    fun c hc => all2_of_lengths masks lens c.2.2 hmasks (hcols c hc)
  have hflat : (ordFlat cols lens).filterRows masks.flatten =
      ordFlat (cols.map fun c => (c.1, c.2.1, filterRowsBy masks c.2.2)) (masks.map fun m => (m.filter id).length) := by
    unfold FlatDF.filterRows ordFlat
    simp only [List.map_map]
    congr 1
    · exact filterBy_ordIndex 0 masks lens hmasks
    · apply List.map_congr_left
      intro c hc
      simp only [Function.comp]
      rw [filterBy_flatten masks c.2.2 (hall c hc)]
  rw [hflat]
  apply setFilteredFlatDf_rows
  · simp [hml, hn]
  · intro c hc
    simp only [List.mem_map] at hc
    obtain ⟨c', hc', rfl⟩ := hc
    exact filterRowsBy_lengths masks c'.2.2 (hall c' hc')
  · simpa using hne

end NP
