/-
  NPModel.Refine.IfElse — what `pc.if_else(mask, a, b)` on struct arrays, `pa.array(scalars)` and
  `replace_with_mask` (ext_array.py:166-179) show row by row.  Used by element assignment (C05)
  and by `take(..., allow_fill=True)`.
-/
import NPModel.Refine.Combine
import NPModel.Refine.Aligned
namespace NP
variable {α : Type}

theorem selectBy_length {β : Type} : ∀ (m : List Bool) (xs ys : List β),
    xs.length = m.length → ys.length = m.length → (selectBy m xs ys).length = m.length
  | [], _, _, _, _ => by simp [selectBy]
  | _ :: m, x :: xs, y :: ys, hx, hy => by
    simp only [selectBy, List.length_cons]
    rw [selectBy_length m xs ys (by simpa using hx) (by simpa using hy)]
  | _ :: _, [], _, hx, _ => by simp at hx
  | _ :: _, _ :: _, [], _, hy => by simp at hy

theorem selectBy_getD {β : Type} (d : β) : ∀ (m : List Bool) (xs ys : List β) (i : Nat),
    xs.length = m.length → ys.length = m.length → i < m.length →
    (selectBy m xs ys).getD i d = if m.getD i false then xs.getD i d else ys.getD i d
  | [], _, _, i, _, _, hi => by simp at hi
  | b :: m, x :: xs, y :: ys, 0, _, _, _ => by simp [selectBy]
  | b :: m, x :: xs, y :: ys, i + 1, hx, hy, hi => by
    simp only [selectBy, List.getD_cons_succ]
    exact selectBy_getD d m xs ys i (by simpa using hx) (by simpa using hy) (by simpa using hi)
  | _ :: _, [], _, _, hx, _, _ => by simp at hx
  | _ :: _, _ :: _, [], _, _, hy, _ => by simp at hy

/-- what a chunk shows at row `i`, as a function of the kids -/
def rowOfKids (kids : List (PField α)) (i : Nat) : Table α :=
  kids.map fun k => (k.name, ((k.list.rows.getD i none).getD []))

theorem PStruct.rowAt_eq (s : PStruct α) (i : Nat) :
    s.rowAt i = if s.valid.getD i false then some (rowOfKids s.kids i) else none := rfl

/-- what `if_else` stores at row `i` (whether or not the row is marked missing) -/
theorem PStruct.ifElse_rowOfKids (mask : List Bool) (a b : PStruct α)
    (hk : a.kids.length = b.kids.length)
    (hn : ∀ (j : Nat) (ka kb : PField α), a.kids[j]? = some ka → b.kids[j]? = some kb →
      ka.name = kb.name ∧ ka.list.rows.length = mask.length ∧ kb.list.rows.length = mask.length)
    (i : Nat) (hi : i < mask.length) :
    rowOfKids (PStruct.ifElse mask a b).kids i =
      if mask.getD i false then rowOfKids a.kids i else rowOfKids b.kids i := by
  unfold rowOfKids PStruct.ifElse
  simp only
  have hsplit : ∀ pick : Bool, mask.getD i false = pick →
      (List.zipWith (fun ka kb => ({ kb with list := PList.ofRows (selectBy mask ka.list.rows kb.list.rows) } : PField α))
        a.kids b.kids).map (fun k => (k.name, ((k.list.rows.getD i none).getD []))) =
      if pick then a.kids.map (fun k => (k.name, ((k.list.rows.getD i none).getD [])))
      else b.kids.map (fun k => (k.name, ((k.list.rows.getD i none).getD []))) := by
    intro pick hp
    apply List.ext_getElem?
    intro j
    simp only [List.getElem?_map, List.getElem?_zipWith]
    cases hja : a.kids[j]? with
    | none =>
      have hjb : b.kids[j]? = none := by
        rw [List.getElem?_eq_none_iff] at hja ⊢; omega
      cases pick <;> simp [hja, hjb]
    | some ka =>
      have hjl : j < b.kids.length := by
        have := (List.getElem?_eq_some_iff.mp hja).1; omega
      have hjb : b.kids[j]? = some b.kids[j] := List.getElem?_eq_getElem hjl
      have ⟨h1, h2, h3⟩ := hn j ka _ hja hjb
      cases pick with
      | true =>
        simp only [hjb, Option.map_some, PList.ofRows_rows, selectBy_getD none mask _ _ i h2 h3 hi, hp,
          if_true, List.getElem?_map, hja, h1]
      | false =>
        simp only [hjb, Option.map_some, PList.ofRows_rows, selectBy_getD none mask _ _ i h2 h3 hi, hp,
          Bool.false_eq_true, if_false, List.getElem?_map]
  exact hsplit _ rfl

/-- **`if_else` row by row**: where the mask is set the row of `a`, elsewhere the row of `b`
    (field names are `b`'s; the two arrays have the same fields). -/
theorem PStruct.ifElse_rowAt (mask : List Bool) (a b : PStruct α)
    (hla : a.len = mask.length) (hlb : b.len = mask.length)
    (hk : a.kids.length = b.kids.length)
    (hn : ∀ (j : Nat) (ka kb : PField α), a.kids[j]? = some ka → b.kids[j]? = some kb →
      ka.name = kb.name ∧ ka.list.rows.length = mask.length ∧ kb.list.rows.length = mask.length)
    (i : Nat) (hi : i < mask.length) :
    (PStruct.ifElse mask a b).rowAt i = if mask.getD i false then a.rowAt i else b.rowAt i := by
  rw [PStruct.rowAt_eq, PStruct.ifElse_rowOfKids mask a b hk hn i hi]
  have hv : (PStruct.ifElse mask a b).valid.getD i false =
      if mask.getD i false then a.valid.getD i false else b.valid.getD i false := by
    unfold PStruct.ifElse
    exact selectBy_getD false mask a.valid b.valid i hla hlb hi
  rw [hv, PStruct.rowAt_eq, PStruct.rowAt_eq]
  cases mask.getD i false <;> simp

theorem PStruct.ifElse_len (mask : List Bool) (a b : PStruct α)
    (hla : a.len = mask.length) (hlb : b.len = mask.length) : (PStruct.ifElse mask a b).len = mask.length := by
  unfold PStruct.ifElse PStruct.len
  exact selectBy_length mask a.valid b.valid hla hlb


/-! ### boxed scalars -/

/-- what a boxed struct scalar reads back as: a null struct is a missing row, a null list is an
    empty list; field names are the dtype's -/
def unboxScalar (ty : List (String × String)) (x : PScalar α) : Row α :=
  x.map fun fs => (List.range ty.length).map fun j => ((ty[j]?.getD ("", "")).1, ((fs[j]?).join).getD [])

/-- a row offered as a value, as the column's dtype sees it: the dtype's fields in dtype order, an
    absent field is an empty list (no rectangularity test — that is the validator's job) -/
def normRow (ty : List (String × String)) (r : Row α) : Row α :=
  r.map fun t => ty.map fun p => (p.1, ((t.find? (·.1 == p.1)).map (·.2)).getD [])

theorem unbox_box (ty : List (String × String)) (r : Row α) : unboxScalar ty (boxScalar ty r) = normRow ty r := by
  cases r with
  | none => rfl
  | some t =>
    unfold unboxScalar boxScalar normRow
    simp only [Option.map_some, Option.some.injEq]
    apply List.ext_getElem?
    intro j
    simp only [List.getElem?_map, List.getElem?_range]
    by_cases hj : j < ty.length
    · have hty : ty[j]? = some ty[j] := List.getElem?_eq_getElem hj
      simp [hj, hty]
    · have hty : ty[j]? = none := by rw [List.getElem?_eq_none_iff]; omega
      simp [hj, hty]

theorem PStruct.ofScalars_len (ty : List (String × String)) (xs : List (PScalar α)) :
    (PStruct.ofScalars ty xs).len = xs.length := by
  simp [PStruct.ofScalars, PStruct.len]

theorem PStruct.ofScalars_rowAt (ty : List (String × String)) (xs : List (PScalar α)) (i : Nat) (hi : i < xs.length) :
    (PStruct.ofScalars ty xs).rowAt i = unboxScalar ty (xs.getD i none) := by
  have hxi : xs[i]? = some xs[i] := List.getElem?_eq_getElem hi
  rw [PStruct.rowAt_eq]
  unfold PStruct.ofScalars rowOfKids unboxScalar
  simp only [List.getD_eq_getElem?_getD, List.getElem?_map, hxi, Option.map_some, Option.getD_some, List.map_map]
  cases hx : xs[i] with
  | none => simp
  | some fs =>
    simp only [Function.comp, Option.isSome_some, if_true, Option.map_some, Option.some.injEq]
    apply List.map_congr_left
    intro j _
    simp only [Function.comp, PList.ofRows_rows, List.getElem?_map, hxi, hx, Option.map_some, Option.getD_some]


theorem PStruct.ofScalars_rows (ty : List (String × String)) (xs : List (PScalar α)) :
    (PStruct.ofScalars ty xs).rows = xs.map (unboxScalar ty) := by
  unfold PStruct.rows
  rw [PStruct.ofScalars_len]
  apply List.ext_getElem?
  intro i
  simp only [List.getElem?_map]
  by_cases hi : i < xs.length
  · have hxi : xs[i]? = some xs[i] := List.getElem?_eq_getElem hi
    rw [List.getElem?_range hi]
    simp only [Option.map_some, hxi, PStruct.ofScalars_rowAt ty xs i hi, List.getD_eq_getElem?_getD,
      Option.getD_some]
  · have hxi : xs[i]? = none := by rw [List.getElem?_eq_none_iff]; omega
    have hr : (List.range xs.length)[i]? = none := by rw [List.getElem?_eq_none_iff]; simp; omega
    simp [hr, hxi]

/-- a chunk's rows under `if_else`: row-wise selection -/
theorem PStruct.ifElse_rows (mask : List Bool) (a b : PStruct α)
    (hla : a.len = mask.length) (hlb : b.len = mask.length)
    (hk : a.kids.length = b.kids.length)
    (hn : ∀ (j : Nat) (ka kb : PField α), a.kids[j]? = some ka → b.kids[j]? = some kb →
      ka.name = kb.name ∧ ka.list.rows.length = mask.length ∧ kb.list.rows.length = mask.length) :
    (PStruct.ifElse mask a b).rows = selectBy mask a.rows b.rows := by
  have hal : a.rows.length = mask.length := by rw [PStruct.rows_length]; exact hla
  have hbl : b.rows.length = mask.length := by rw [PStruct.rows_length]; exact hlb
  apply List.ext_getElem?
  intro i
  by_cases hi : i < mask.length
  · have h1 : (PStruct.ifElse mask a b).rows[i]? = some ((PStruct.ifElse mask a b).rowAt i) := by
      rw [PStruct.rows_getElem?, PStruct.ifElse_len mask a b hla hlb, if_pos hi]
    have hsl := selectBy_length mask a.rows b.rows hal hbl
    have h2 : (selectBy mask a.rows b.rows)[i]? = some ((selectBy mask a.rows b.rows).getD i none) := by
      rw [List.getD_eq_getElem?_getD, List.getElem?_eq_getElem (by omega)]; rfl
    rw [h1, h2, PStruct.ifElse_rowAt mask a b hla hlb hk hn i hi, selectBy_getD none mask a.rows b.rows i hal hbl hi]
    have ha : a.rows.getD i none = a.rowAt i := by
      rw [List.getD_eq_getElem?_getD, PStruct.rows_getElem?, if_pos (by omega)]; rfl
    have hb : b.rows.getD i none = b.rowAt i := by
      rw [List.getD_eq_getElem?_getD, PStruct.rows_getElem?, if_pos (by omega)]; rfl
    rw [ha, hb]
  · have h1 : (PStruct.ifElse mask a b).rows[i]? = none := by
      rw [List.getElem?_eq_none_iff, PStruct.rows_length, PStruct.ifElse_len mask a b hla hlb]; omega
    have h2 : (selectBy mask a.rows b.rows)[i]? = none := by
      rw [List.getElem?_eq_none_iff, selectBy_length mask a.rows b.rows hal hbl]; omega
    rw [h1, h2]

/-! ### `replace_with_mask` -/

/-- the values `g 0, g 1, …` put at the set positions of the mask in order (starting with
    `g s`); the other positions keep what was there -/
def place {β : Type} (g : Nat → β) : Nat → List Bool → List β → List β
  | s, true :: m, _ :: old => g s :: place g (s + 1) m old
  | s, false :: m, o :: old => o :: place g s m old
  | _, _, _ => []

theorem offsetsFrom_eq_cons (x : Nat) (l : List Nat) : offsetsFrom x l = x :: (offsetsFrom x l).drop 1 := by
  cases l <;> rfl

/-- the broadcast trick of `replace_with_mask`: index `cumsum(mask) - 1` (clamped at 0) into the
    values, then select by the mask — this places the values at the set positions in order -/
theorem selectBy_cumsum {β : Type} (g : Nat → β) : ∀ (m : List Bool) (s : Nat) (old : List β),
    old.length = m.length →
    selectBy m (((offsetsFrom s (m.map fun b => if b then 1 else 0)).drop 1).map fun c => g (c - 1)) old
      = place g s m old
  | [], _, old, _ => by cases old <;> simp [selectBy, place]
  | b :: m, s, [], h => by simp at h
  | true :: m, s, o :: old, h => by
    simp only [List.map_cons, if_true, offsetsFrom_cons, List.drop_succ_cons, List.drop_zero]
    rw [offsetsFrom_eq_cons]
    simp only [List.map_cons, selectBy, place, if_true, Nat.add_sub_cancel]
    rw [selectBy_cumsum g m (s + 1) old (by simpa using h)]
  | false :: m, s, o :: old, h => by
    simp only [List.map_cons, Bool.false_eq_true, if_false, offsetsFrom_cons, List.drop_succ_cons, List.drop_zero,
      Nat.add_zero]
    rw [offsetsFrom_eq_cons]
    simp only [List.map_cons, selectBy, place, Bool.false_eq_true, if_false]
    rw [selectBy_cumsum g m s old (by simpa using h)]

/-- number of set positions before position `i` -/
def rankIn (m : List Bool) (i : Nat) : Nat := ((m.take i).filter id).length

theorem place_length {β : Type} (g : Nat → β) : ∀ (s : Nat) (m : List Bool) (old : List β),
    old.length = m.length → (place g s m old).length = m.length
  | _, [], old, _ => by cases old <;> simp [place]
  | _, _ :: _, [], h => by simp at h
  | s, true :: m, _ :: old, h => by simp [place, place_length g (s + 1) m old (by simpa using h)]
  | s, false :: m, _ :: old, h => by simp [place, place_length g s m old (by simpa using h)]

/-- `place` position by position -/
theorem place_getD {β : Type} (g : Nat → β) (d : β) : ∀ (s : Nat) (m : List Bool) (old : List β) (i : Nat),
    old.length = m.length → i < m.length →
    (place g s m old).getD i d = if m.getD i false then g (s + rankIn m i) else old.getD i d
  | _, [], _, _, _, hi => by simp at hi
  | _, _ :: _, [], _, h, _ => by simp at h
  | s, true :: m, _ :: old, 0, _, _ => by simp [place, rankIn]
  | s, false :: m, _ :: old, 0, _, _ => by simp [place]
  | s, true :: m, _ :: old, i + 1, h, hi => by
    simp only [place, List.getD_cons_succ]
    rw [place_getD g d (s + 1) m old i (by simpa using h) (by simpa using hi)]
    simp only [rankIn, List.take_succ_cons, List.filter_cons, id, if_true, List.length_cons]
    have : s + 1 + ((m.take i).filter id).length = s + (((m.take i).filter id).length + 1) := by omega
    rw [this]
  | s, false :: m, _ :: old, i + 1, h, hi => by
    simp only [place, List.getD_cons_succ]
    rw [place_getD g d s m old i (by simpa using h) (by simpa using hi)]
    simp [rankIn]


theorem zipWith_forall {β γ δ : Type} (f : β → γ → δ) (P : δ → Prop) (h : ∀ a b, P (f a b)) :
    ∀ (as : List β) (bs : List γ), ∀ x ∈ List.zipWith f as bs, P x
  | [], _, x, hx => by simp at hx
  | _ :: _, [], x, hx => by simp at hx
  | a :: as, b :: bs, x, hx => by
    simp only [List.zipWith_cons_cons, List.mem_cons] at hx
    rcases hx with rfl | hx
    · exact h a b
    · exact zipWith_forall f P h as bs x hx

theorem zipWith_map_right {β γ δ ε : Type} (f : β → γ → δ) (g : δ → ε) (g' : γ → ε) (h : ∀ a b, g (f a b) = g' b) :
    ∀ (as : List β) (bs : List γ), as.length = bs.length → (List.zipWith f as bs).map g = bs.map g'
  | [], [], _ => rfl
  | [], _ :: _, hl => by simp at hl
  | _ :: _, [], hl => by simp at hl
  | a :: as, b :: bs, hl => by
    simp only [List.zipWith_cons_cons, List.map_cons, h, zipWith_map_right f g g' h as bs (by simpa using hl)]

theorem mem_zipWith_getElem {β γ δ : Type} (f : β → γ → δ) : ∀ (as : List β) (bs : List γ) (x : δ),
    x ∈ List.zipWith f as bs → ∃ (j : Nat) (a : β) (b : γ), as[j]? = some a ∧ bs[j]? = some b ∧ x = f a b
  | [], _, x, hx => by simp at hx
  | _ :: _, [], x, hx => by simp at hx
  | a :: as, b :: bs, x, hx => by
    simp only [List.zipWith_cons_cons, List.mem_cons] at hx
    rcases hx with rfl | hx
    · exact ⟨0, a, b, rfl, rfl, rfl⟩
    · obtain ⟨j, a', b', h1, h2, h3⟩ := mem_zipWith_getElem f as bs x hx
      exact ⟨j + 1, a', b', by simpa using h1, by simpa using h2, h3⟩

/-- the index list `cumsum(mask) - 1` of `replace_with_mask` -/
def vidxOf (mask : List Bool) : List Nat :=
  ((offsetsFrom 0 (mask.map fun b => if b then 1 else 0)).drop 1).map fun c => c - 1

theorem vidxOf_length (mask : List Bool) : (vidxOf mask).length = mask.length := by
  simp [vidxOf, offsetsFrom_length]

theorem sumNat_mask (mask : List Bool) : sumNat (mask.map fun b => if b then 1 else 0) = (mask.filter id).length := by
  induction mask with
  | nil => rfl
  | cons b m ih =>
    cases b
    · simp only [List.map_cons, Bool.false_eq_true, if_false, List.filter_cons, id]
      simp only [sumNat, List.foldr_cons] at ih ⊢
      omega
    · simp only [List.map_cons, if_true, List.filter_cons, id, List.length_cons]
      simp only [sumNat, List.foldr_cons] at ih ⊢
      omega

/-- every index is below the number of set positions (so the values suffice exactly when there
    are at least as many as set positions) -/
theorem vidxOf_lt (mask : List Bool) (hpos : 0 < (mask.filter id).length) : ∀ x ∈ vidxOf mask, x < (mask.filter id).length := by
  intro x hx
  unfold vidxOf at hx
  simp only [List.mem_map] at hx
  obtain ⟨c, hc, rfl⟩ := hx
  have hm := monotone_offsetsFrom 0 (mask.map fun b => if b then 1 else 0)
  have hl := offsetsFrom_last 0 (mask.map fun b => if b then 1 else 0)
  have hle := monotone_le_last hm (Nat.le_of_eq hl) c (List.mem_of_mem_drop hc)
  rw [sumNat_mask] at hle
  omega

/-- the last index is the number of set positions minus one -/
theorem vidxOf_last (mask : List Bool) (hne : mask ≠ []) : (mask.filter id).length - 1 ∈ vidxOf mask := by
  unfold vidxOf
  simp only [List.mem_map]
  refine ⟨(mask.filter id).length, ?_, rfl⟩
  have hl := offsetsFrom_last 0 (mask.map fun b => if b then 1 else 0)
  rw [sumNat_mask, Nat.zero_add] at hl
  have hlen := offsetsFrom_length 0 (mask.map fun b => if b then 1 else 0)
  have hml : (mask.map fun b => if b then (1 : Nat) else 0).length = mask.length := by simp
  have hmpos : 0 < mask.length := List.length_pos_iff.mpr hne
  -- the last element of a list with at least two elements is in its tail
  generalize offsetsFrom 0 (mask.map fun b => if b then 1 else 0) = L at hl hlen
  cases L with
  | nil => simp at hlen
  | cons a rest =>
    cases rest with
    | nil => simp only [List.length_cons, List.length_nil, hml] at hlen; omega
    | cons b rest' =>
      simp only [List.drop_succ_cons, List.drop_zero]
      have : (a :: b :: rest').getLast? = (b :: rest').getLast? := by simp [List.getLast?_cons_cons]
      rw [this] at hl
      cases hgl : (b :: rest').getLast? with
      | none => simp at hgl
      | some z =>
        rw [hgl] at hl
        simp only [Option.getD_some] at hl
        rw [← hl]
        exact List.mem_of_getLast? hgl

/-- `pa.array(scalars)` of a dtype and any chunk of the same dtype and length line up field by
    field (the side conditions of the `if_else` lemmas) -/
theorem ofScalars_lineup (ty : List (String × String)) (xs : List (PScalar α)) (b : PStruct α) (n : Nat)
    (hx : xs.length = n) (hty : b.ty = ty) (hkr : ∀ k ∈ b.kids, k.list.rows.length = n) :
    (PStruct.ofScalars ty xs).kids.length = b.kids.length ∧
    ∀ (j : Nat) (ka kb : PField α), (PStruct.ofScalars ty xs).kids[j]? = some ka → b.kids[j]? = some kb →
      ka.name = kb.name ∧ ka.list.rows.length = n ∧ kb.list.rows.length = n := by
  have hbl : b.kids.length = ty.length := by rw [← hty]; simp [PStruct.ty]
  refine ⟨by rw [hbl]; simp [PStruct.ofScalars], ?_⟩
  intro j ka kb hja hjb
  have hjl : j < b.kids.length := (List.getElem?_eq_some_iff.mp hjb).1
  have htyj : ty[j]? = some (kb.name, kb.ty) := by
    rw [← hty]; simp [PStruct.ty, hjb]
  simp only [PStruct.ofScalars, List.getElem?_map, List.getElem?_range (by omega : j < ty.length),
    Option.map_some, Option.some.injEq] at hja
  subst hja
  refine ⟨by simp [htyj], ?_, hkr kb (List.mem_of_getElem? hjb)⟩
  simp [PList.ofRows_rows, hx]

/-- at a set position the index is the number of set positions before it -/
theorem vidxOf_getD (m : List Bool) (i : Nat) (hi : i < m.length) (hm : m.getD i false = true) :
    (vidxOf m).getD i 0 = rankIn m i := by
  have h1 := selectBy_cumsum (fun s => s) m 0 (List.replicate m.length 0) (by simp)
  have h2 : (selectBy m (((offsetsFrom 0 (m.map fun b => if b then 1 else 0)).drop 1).map fun c => c - 1)
      (List.replicate m.length 0)).getD i 0 = (place (fun s => s) 0 m (List.replicate m.length 0)).getD i 0 := by
    rw [h1]
  rw [selectBy_getD 0 m _ _ i (by simp [offsetsFrom_length]) (by simp) hi,
    place_getD (fun s => s) 0 0 m _ i (by simp) hi, hm] at h2
  simp only [if_true, Nat.zero_add] at h2
  exact h2

theorem rankIn_lt (m : List Bool) (i : Nat) (hi : i < m.length) (hm : m.getD i false = true) :
    rankIn m i < (m.filter id).length := by
  unfold rankIn
  have hsplit : m = m.take i ++ m.drop i := (List.take_append_drop i m).symm
  have hd : m.drop i = m[i] :: m.drop (i + 1) := (List.drop_eq_getElem_cons hi)
  have hmi : m[i] = true := by
    simp only [List.getD_eq_getElem?_getD, List.getElem?_eq_getElem hi, Option.getD_some] at hm
    exact hm
  have : (m.filter id).length = ((m.take i).filter id).length + ((m.drop i).filter id).length := by
    have := congrArg (fun l => (l.filter id).length) hsplit
    simp only [List.filter_append, List.length_append] at this
    exact this
  rw [this, hd, hmi]
  simp

/-- **`replace_with_mask`**: IndexError exactly when there are fewer values than set positions;
    otherwise the values (read back through the dtype) stand at the set positions in order and
    every other row is unchanged.  `arr` is any chunk with the dtype's fields, in any layout. -/
theorem replaceWithMask_spec (arr : PStruct α) (mask : List Bool) (ty : List (String × String))
    (value : List (PScalar α)) (hl : arr.len = mask.length) (hty : arr.ty = ty)
    (hkr : ∀ k ∈ arr.kids, k.list.rows.length = mask.length) (hpos : 0 < (mask.filter id).length) :
    (value.length < (mask.filter id).length → replaceWithMask arr mask ty value = .error .indexError) ∧
    ((mask.filter id).length ≤ value.length →
      ∃ res, replaceWithMask arr mask ty value = .ok res ∧
        res = PStruct.ifElse mask (PStruct.ofScalars ty ((vidxOf mask).map fun i => value.getD i none)) arr ∧
        res.len = mask.length ∧
        (∀ k ∈ res.kids, ∃ r, k.list = PList.ofRows r) ∧ (∀ k ∈ res.kids, k.list.rows.length = mask.length) ∧
        res.ty = ty ∧
        res.rows = place (fun s => unboxScalar ty (value.getD s none)) 0 mask arr.rows) := by
  have hne : mask ≠ [] := by intro h; rw [h] at hpos; simp at hpos
  have hfold : ((offsetsFrom 0 (mask.map fun b => if b then 1 else 0)).drop 1).map (fun c => c - 1) = vidxOf mask := rfl
  constructor
  · intro hlt
    unfold replaceWithMask
    simp only [hfold, bind, Except.bind, pure, Except.pure, throw, throwThe, MonadExceptOf.throw]
    have : (vidxOf mask).any (fun i => decide (i ≥ value.length)) = true := by
      rw [List.any_eq_true]
      exact ⟨_, vidxOf_last mask hne, by simp; omega⟩
    simp [this]
  · intro hle
    have hnot : (vidxOf mask).any (fun i => decide (i ≥ value.length)) = false := by
      rw [List.any_eq_false]
      intro x hx
      have := vidxOf_lt mask hpos x hx
      simp; omega
    let bro := PStruct.ofScalars ty ((vidxOf mask).map fun i => value.getD i none)
    have hbl : bro.len = mask.length := by simp [bro, PStruct.ofScalars_len, vidxOf_length]
    have hakl : arr.kids.length = ty.length := by rw [← hty]; simp [PStruct.ty]
    have hkl : bro.kids.length = arr.kids.length := by rw [hakl]; simp [bro, PStruct.ofScalars]
    have hn : ∀ (j : Nat) (ka kb : PField α), bro.kids[j]? = some ka → arr.kids[j]? = some kb →
        ka.name = kb.name ∧ ka.list.rows.length = mask.length ∧ kb.list.rows.length = mask.length := by
      intro j ka kb hja hjb
      have hjl : j < arr.kids.length := (List.getElem?_eq_some_iff.mp hjb).1
      have htyj : ty[j]? = some (kb.name, kb.ty) := by
        rw [← hty]; simp [PStruct.ty, hjb]
      simp only [bro, PStruct.ofScalars, List.getElem?_map, List.getElem?_range (by omega : j < ty.length),
        Option.map_some, Option.some.injEq] at hja
      subst hja
      refine ⟨by simp [htyj], ?_, hkr kb (List.mem_of_getElem? hjb)⟩
      simp [PList.ofRows_rows, vidxOf_length]
    refine ⟨PStruct.ifElse mask bro arr, ?_, rfl, ?_, ?_, ?_, ?_, ?_⟩
    · unfold replaceWithMask
      simp only [hfold, bind, Except.bind, pure, Except.pure, throw, throwThe, MonadExceptOf.throw]
      simp [hnot, bro]
    · exact PStruct.ifElse_len mask bro arr hbl hl
    · intro k hk
      unfold PStruct.ifElse at hk
      exact zipWith_forall _ (fun k => ∃ r, k.list = PList.ofRows r) (fun _ _ => ⟨_, rfl⟩) _ _ k hk
    · intro k hk
      unfold PStruct.ifElse at hk
      obtain ⟨j, ka, kb, h1, h2, rfl⟩ := mem_zipWith_getElem _ _ _ k hk
      have ⟨_, h3, h4⟩ := hn j ka kb h1 h2
      simp only [PList.ofRows_rows]
      exact selectBy_length mask _ _ h3 h4
    · show (PStruct.ifElse mask bro arr).ty = ty
      unfold PStruct.ty PStruct.ifElse
      simp only
      rw [zipWith_map_right
        (fun (ka kb : PField α) => ({ kb with list := PList.ofRows (selectBy mask ka.list.rows kb.list.rows) } : PField α))
        (fun k : PField α => (k.name, k.ty)) (fun k : PField α => (k.name, k.ty)) (fun _ _ => rfl)
        bro.kids arr.kids hkl]
      exact hty
    · rw [PStruct.ifElse_rows mask bro arr hbl hl hkl hn, PStruct.ofScalars_rows]
      have hsel := selectBy_cumsum (fun s => unboxScalar ty (value.getD s none)) mask 0 arr.rows
        (by rw [PStruct.rows_length]; exact hl)
      rw [← hsel]
      congr 1
      unfold vidxOf
      simp only [List.map_map]
      rfl


/-! ### the validator on canonical (freshly built) storage -/

/-- every field's list array is a fresh one (`pa.array`, `take`, `if_else`, `concat_arrays` output) -/
def PStruct.canonical (s : PStruct α) : Prop := ∀ k ∈ s.kids, ∃ r, k.list = PList.ofRows r

theorem rebased_offsetsFrom_zero (l : List Nat) : rebased (offsetsFrom 0 l) = offsetsFrom 0 l := by
  unfold rebased
  rw [offsetsFrom_head]
  simp

/-- on canonical storage the validator accepts exactly the aligned chunks -/
theorem PStruct.canonical_validate_iff (s : PStruct α) (hc : s.canonical) : s.validate = .ok () ↔ s.aligned := by
  have hoffs : ∀ k ∈ s.kids, rebased k.list.offs = offsetsFrom 0 (k.list.rows.map len0) := by
    intro k hk
    obtain ⟨r, hr⟩ := hc k hk
    rw [hr, ofRows_offs, rebased_offsetsFrom_zero, PList.ofRows_rows]
  constructor
  · intro hv
    have key : ∀ k0 ks, s.kids = k0 :: ks → ∀ k ∈ s.kids, k.list.rows.map len0 = k0.list.rows.map len0 := by
      intro k0 ks hk k hkm
      have hm0 : k0 ∈ s.kids := by rw [hk]; exact List.mem_cons_self
      have hkm' := hkm
      rw [hk] at hkm'
      rcases List.mem_cons.mp hkm' with rfl | hk'
      · rfl
      · have := PStruct.validate_kids hk hv k hk'
        rw [hoffs k hkm, hoffs k0 hm0] at this
        have h2 := congrArg diffs this
        rw [diffs_offsetsFrom, diffs_offsetsFrom] at h2
        exact h2
    intro k hkm k' hkm'
    cases hk : s.kids with
    | nil => rw [hk] at hkm; cases hkm
    | cons k0 ks => rw [key k0 ks hk k hkm, key k0 ks hk k' hkm']
  · intro ha
    unfold PStruct.validate
    cases hk : s.kids with
    | nil => rfl
    | cons k ks =>
      simp only
      have hall : ks.all (fun k' => rebased k'.list.offs == rebased k.list.offs) = true := by
        rw [List.all_eq_true]
        intro k' hk'
        have hmem : k' ∈ s.kids := by rw [hk]; exact List.mem_cons_of_mem _ hk'
        have hmem0 : k ∈ s.kids := by rw [hk]; exact List.mem_cons_self
        rw [hoffs k' hmem, hoffs k hmem0, ha k' hmem k hmem0]
        simp
      simp only [hall, if_true]

/-- the per-field lengths a chunk stores at row `i` -/
def lensAt (kids : List (PField α)) (i : Nat) : List Nat := kids.map fun k => len0 (k.list.rows.getD i none)

/-- all numbers of a list equal the first one (the shape of `Table.rect`) -/
def allEq : List Nat → Bool
  | [] => true
  | a :: rest => rest.all fun x => x = a

theorem allEq_iff (l : List Nat) : allEq l = true ↔ ∀ x ∈ l, ∀ y ∈ l, x = y := by
  cases l with
  | nil => simp [allEq]
  | cons a rest =>
    simp only [allEq, List.all_eq_true, decide_eq_true_eq, List.mem_cons]
    constructor
    · intro h x hx y hy
      have hx' : x = a := by rcases hx with rfl | hx; rfl; exact h x hx
      have hy' : y = a := by rcases hy with rfl | hy; rfl; exact h y hy
      rw [hx', hy']
    · intro h x hx
      exact h x (Or.inr hx) a (Or.inl rfl)

/-- alignment, row by row: in every row all fields have the same stored length -/
theorem PStruct.aligned_iff_rows (s : PStruct α) (n : Nat) (hl : ∀ k ∈ s.kids, k.list.rows.length = n) :
    s.aligned ↔ ∀ i, i < n → allEq (lensAt s.kids i) = true := by
  constructor
  · intro ha i _
    rw [allEq_iff]
    intro x hx y hy
    unfold lensAt at hx hy
    obtain ⟨k, hk, rfl⟩ := List.mem_map.mp hx
    obtain ⟨k', hk', rfl⟩ := List.mem_map.mp hy
    have := congrArg (fun l => l.getD i 0) (ha k hk k' hk')
    simp only [List.getD_eq_getElem?_getD, List.getElem?_map] at this ⊢
    cases h1 : k.list.rows[i]? <;> cases h2 : k'.list.rows[i]? <;> simp [h1, h2, len0] at this ⊢
    · have l1 := hl k hk; have l2 := hl k' hk'
      rw [List.getElem?_eq_none_iff] at h1
      have := (List.getElem?_eq_some_iff.mp h2).1
      omega
    · have l1 := hl k hk; have l2 := hl k' hk'
      rw [List.getElem?_eq_none_iff] at h2
      have := (List.getElem?_eq_some_iff.mp h1).1
      omega
    · exact this
  · intro h k hk k' hk'
    apply List.ext_getElem?
    intro i
    simp only [List.getElem?_map]
    by_cases hi : i < n
    · have hi1 : i < k.list.rows.length := by rw [hl k hk]; exact hi
      have hi2 : i < k'.list.rows.length := by rw [hl k' hk']; exact hi
      have h1 : k.list.rows[i]? = some k.list.rows[i] := List.getElem?_eq_getElem hi1
      have h2 : k'.list.rows[i]? = some k'.list.rows[i] := List.getElem?_eq_getElem hi2
      have := (allEq_iff _).mp (h i hi) (len0 (k.list.rows.getD i none)) (List.mem_map.mpr ⟨k, hk, rfl⟩)
        (len0 (k'.list.rows.getD i none)) (List.mem_map.mpr ⟨k', hk', rfl⟩)
      simp only [List.getD_eq_getElem?_getD, h1, h2, Option.getD_some] at this
      simp [h1, h2, this]
    · have h1 : k.list.rows[i]? = none := by rw [List.getElem?_eq_none_iff, hl k hk]; omega
      have h2 : k'.list.rows[i]? = none := by rw [List.getElem?_eq_none_iff, hl k' hk']; omega
      simp [h1, h2]

end NP
