/-
  NPModel.Refine.LabelOrder — the order on index labels used by the model (`Label.le`: integers by
  value, strings by code points, integers before strings) is transitive and total, so the
  stable-sort and sortedness lemmas apply to `pack_flat`.
  The string part uses Mathlib's `LinearOrder String` (single module import, proof file only).
-/
import Mathlib.Data.String.Basic
import NPModel.Basic
namespace NP

theorem Label.le_total (a b : Label) : (a.le b || b.le a) = true := by
  cases a <;> cases b <;> simp [Label.le]
  · rename_i x y; exact Int.le_total x y
  · rename_i x y; exact _root_.le_total x y

theorem Label.le_trans (a b c : Label) (h1 : a.le b = true) (h2 : b.le c = true) : a.le c = true := by
  cases a <;> cases b <;> cases c <;> simp [Label.le] at *
  · exact Int.le_trans h1 h2
  · exact _root_.le_trans h1 h2

end NP

namespace NP

theorem Label.le_antisymm (a b : Label) (h1 : a.le b = true) (h2 : b.le a = true) : a = b := by
  cases a <;> cases b <;> simp [Label.le] at *
  · exact Int.le_antisymm h1 h2
  · exact _root_.le_antisymm h1 h2

end NP
