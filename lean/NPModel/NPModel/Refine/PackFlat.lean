/-
  NPModel.Refine.PackFlat — `pack_flat` end to end on (label, record) pairs: stable sort by label,
  then the packer.  Combines Stable (stability), SortRows (sorted ⇒ run-length form) and Runs.
-/
import NPModel.Refine.Stable
import NPModel.Refine.LabelOrder
namespace NP
variable {α : Type}

/-- the table `pack_flat` hands to the packer: records stably sorted by label -/
def sortedByLabel (xs : List (Label × α)) : List (Label × α) := xs.mergeSort fun a b => a.1.le b.1

theorem sortedByLabel_sorted (xs : List (Label × α)) :
    ((sortedByLabel xs).map (·.1)).Pairwise (fun a b => a.le b = true) :=
  stable_sort_sorted Label.le Label.le_trans Label.le_total xs

/-- **pack_flat**: for every label `k` that gets a row `(k, l)` in the packed column, `l` is the
    list of records that carried `k` in the original (unsorted) table, in their original
    relative order; the packed rows are exactly the non-empty label groups, in ascending label
    order, and the packed index lists their labels. -/
theorem packFlat_rows (xs : List (Label × α)) (k : Label) (l : List α) (hm : (k, l) ∈ toRuns (sortedByLabel xs)) :
    let s := sortedByLabel xs
    l = valsOfLabel k (xs.map (·.1)) (xs.map (·.2)) ∧
    segs (packOffsets (s.map (·.1))) (s.map (·.2)) = (nonemptyRuns (toRuns s)).map (·.2) ∧
    ((packOffsets (s.map (·.1))).dropLast).map (fun o => (s.map (·.1)).getD o k) = (nonemptyRuns (toRuns s)).map (·.1) := by
  intro s
  have h := packed_row_of_sorted Label.le Label.le_trans Label.le_antisymm s (sortedByLabel_sorted xs) k l hm
  refine ⟨?_, h.2.1, h.2.2⟩
  rw [← h.1]
  exact stable_sort_keeps_label_subsequence Label.le Label.le_trans Label.le_total xs k

/-- nothing is lost: the sorted table is a permutation of the original one -/
theorem sortedByLabel_perm (xs : List (Label × α)) : (sortedByLabel xs).Perm xs := List.mergeSort_perm _ _

/-- the packed index is strictly ascending (labels distinct) -/
theorem packFlat_index_strictly_ascending (xs : List (Label × α)) :
    ((toRuns (sortedByLabel xs)).map (·.1)).Pairwise (fun a b => a.le b = true ∧ a ≠ b) :=
  toRuns_keys_distinct Label.le Label.le_trans Label.le_antisymm _ (sortedByLabel_sorted xs)

end NP
