/-
  NPModel.Refine.Combine — `combine_chunks` (and every kernel built on it: chunked `take`,
  pickling, element assignment) reads as the same rows as the chunked column.
-/
import NPModel.Refine.Struct
namespace NP
variable {α : Type}

/-- rows assembled from a validity list and per-field row lists (field `j` given by `KR j`) -/
def mkRows (V : List Bool) (names : List String) (KR : Nat → List (Option (List α))) : List (Row α) :=
  (List.range V.length).map fun i =>
    if V.getD i false then
      some ((List.range names.length).map fun j => (names.getD j "", ((KR j).getD i none).getD []))
    else none

theorem kids_map_eq_range (kids : List (PField α)) (i : Nat) (kr : Nat → List (Option (List α)))
    (hkr : ∀ j k, kids[j]? = some k → kr j = k.list.rows) :
    kids.map (fun k => (k.name, (k.list.rows.getD i none).getD []))
      = (List.range kids.length).map fun j => ((kids.map (·.name)).getD j "", ((kr j).getD i none).getD []) := by
  apply List.ext_getElem?
  intro j
  simp only [List.getElem?_map]
  by_cases hj : j < kids.length
  · rw [List.getElem?_eq_getElem hj, List.getElem?_range hj]
    have := hkr j kids[j] (List.getElem?_eq_getElem hj)
    simp [List.getD_eq_getElem?_getD, List.getElem?_eq_getElem hj, this]
  · have h1 : kids[j]? = none := List.getElem?_eq_none (by omega)
    have h2 : (List.range kids.length)[j]? = none := List.getElem?_eq_none (by simpa using Nat.le_of_not_lt hj)
    simp [h1, h2]

theorem PStruct.kidRows_of_get (s : PStruct α) (j : Nat) (k : PField α) (h : s.kids[j]? = some k) :
    s.kidRows j = k.list.rows := by
  unfold PStruct.kidRows
  rw [h]

/-- a chunk reads as `mkRows` of its validity, field names and per-field rows -/
theorem PStruct.rows_eq_mkRows (s : PStruct α) :
    s.rows = mkRows s.valid (s.kids.map (·.name)) (fun j => s.kidRows j) := by
  unfold PStruct.rows mkRows PStruct.len
  apply List.map_congr_left
  intro i _
  unfold PStruct.rowAt
  split
  · congr 1
    rw [kids_map_eq_range s.kids i (fun j => s.kidRows j) (fun j k h => s.kidRows_of_get j k h)]
    simp
  · rfl

theorem mkRows_append (V₁ V₂ : List Bool) (names : List String) (K₁ K₂ : Nat → List (Option (List α)))
    (hK : ∀ j, j < names.length → (K₁ j).length = V₁.length) :
    mkRows (V₁ ++ V₂) names (fun j => K₁ j ++ K₂ j) = mkRows V₁ names K₁ ++ mkRows V₂ names K₂ := by
  unfold mkRows
  apply List.ext_getElem?
  intro i
  simp only [List.length_append, List.getElem?_map, List.getElem?_append]
  by_cases h1 : i < V₁.length
  · have hr : (List.range (V₁.length + V₂.length))[i]? = some i := List.getElem?_range (by omega)
    have hr1 : (List.range V₁.length)[i]? = some i := List.getElem?_range h1
    simp only [List.length_map, List.length_range, h1, if_true, hr, hr1, Option.map_some]
    congr 1
    have hv : (V₁ ++ V₂).getD i false = V₁.getD i false := by
      simp [List.getD_eq_getElem?_getD, List.getElem?_append_left h1]
    rw [hv]
    split
    · congr 1
      apply List.map_congr_left
      intro j hj
      have hjl : j < names.length := by simpa using hj
      have : i < (K₁ j).length := by rw [hK j hjl]; exact h1
      simp [List.getD_eq_getElem?_getD, List.getElem?_append_left this]
    · rfl
  · simp only [List.length_map, List.length_range, h1, if_false]
    by_cases h2 : i < V₁.length + V₂.length
    · have hr : (List.range (V₁.length + V₂.length))[i]? = some i := List.getElem?_range h2
      have hr2 : (List.range V₂.length)[i - V₁.length]? = some (i - V₁.length) := List.getElem?_range (by omega)
      simp only [hr, hr2, Option.map_some]
      congr 1
      have hv : (V₁ ++ V₂).getD i false = V₂.getD (i - V₁.length) false := by
        simp [List.getD_eq_getElem?_getD, List.getElem?_append_right (Nat.le_of_not_lt h1)]
      rw [hv]
      split
      · congr 1
        apply List.map_congr_left
        intro j hj
        have hjl : j < names.length := by simpa using hj
        have hl : (K₁ j).length ≤ i := by rw [hK j hjl]; exact Nat.le_of_not_lt h1
        simp [List.getD_eq_getElem?_getD, List.getElem?_append_right hl, hK j hjl]
      · rfl
    · have hr : (List.range (V₁.length + V₂.length))[i]? = none := List.getElem?_eq_none (by simpa using Nat.le_of_not_lt h2)
      have hr2 : (List.range V₂.length)[i - V₁.length]? = none := List.getElem?_eq_none (by simp; omega)
      simp [hr, hr2]

end NP

namespace NP
variable {α : Type}

theorem mkRows_congr (V : List Bool) (names : List String) (K K' : Nat → List (Option (List α)))
    (h : ∀ j, j < names.length → K j = K' j) : mkRows V names K = mkRows V names K' := by
  unfold mkRows
  apply List.map_congr_left
  intro i _
  split
  · congr 1
    apply List.map_congr_left
    intro j hj
    rw [h j (by simpa using hj)]
  · rfl

theorem PStruct.names_of_ty {s : PStruct α} {ty : List (String × String)} (h : s.ty = ty) :
    s.kids.map (·.name) = ty.map (·.1) := by
  rw [← h]
  simp [PStruct.ty]

theorem PStruct.kidRows_length {s : PStruct α} (hw : s.WF = true) (j : Nat) (hj : j < s.kids.length) :
    (s.kidRows j).length = s.valid.length := by
  have hk : s.kids[j]? = some s.kids[j] := List.getElem?_eq_getElem hj
  rw [s.kidRows_of_get j _ hk]
  have := PStruct.kid_rows_length hw (List.getElem_mem hj)
  simpa [PStruct.len] using this

/-- the chunked column reads as `mkRows` of the concatenated validity and per-field rows -/
theorem PCol.rows_eq_mkRows (ty : List (String × String)) :
    ∀ (chunks : List (PStruct α)), (∀ s ∈ chunks, s.WF = true ∧ s.ty = ty) →
      chunks.flatMap PStruct.rows
        = mkRows (chunks.flatMap (·.valid)) (ty.map (·.1)) (fun j => chunks.flatMap fun ch => ch.kidRows j) := by
  intro chunks
  induction chunks with
  | nil => intro _; simp [mkRows]
  | cons s rest ih =>
    intro h
    have ⟨hw, hty⟩ := h s List.mem_cons_self
    have hn := PStruct.names_of_ty hty
    have hlen : s.kids.length = (ty.map (·.1)).length := by
      have := congrArg List.length hn
      simpa using this
    simp only [List.flatMap_cons]
    rw [mkRows_append s.valid _ (ty.map (·.1)) (fun j => s.kidRows j) _ (by
      intro j hj
      exact PStruct.kidRows_length hw j (by omega))]
    rw [ih (fun s' hs' => h s' (List.mem_cons_of_mem _ hs')), PStruct.rows_eq_mkRows s, hn]

/-- **`combine_chunks` preserves the rows** (struct validity, every field, every row; hidden child
    lists included) for every well-formed column: any number of chunks, empty chunks, slices. -/
theorem PCol.combine_rows (c : PCol α) (hw : c.WF = true) : c.combine.rows = c.rows := by
  have hch : ∀ s ∈ c.chunks, s.WF = true ∧ s.ty = c.ty := by
    intro s hs
    unfold PCol.WF at hw
    have := (List.all_eq_true.mp hw) s hs
    simpa using this
  unfold PCol.rows
  rw [PCol.rows_eq_mkRows c.ty c.chunks hch, PStruct.rows_eq_mkRows]
  have hnames : c.combine.kids.map (·.name) = c.ty.map (·.1) := by
    unfold PCol.combine
    simp only [List.map_map]
    apply List.ext_getElem?
    intro j
    simp only [List.getElem?_map]
    by_cases hj : j < c.ty.length
    · simp [List.getElem?_range hj, List.getElem?_eq_getElem hj]
    · have h1 : (List.range c.ty.length)[j]? = none := List.getElem?_eq_none (by simpa using Nat.le_of_not_lt hj)
      have h2 : c.ty[j]? = none := List.getElem?_eq_none (Nat.le_of_not_lt hj)
      simp [h1, h2]
  rw [hnames]
  have hv : c.combine.valid = c.chunks.flatMap (·.valid) := rfl
  rw [hv]
  apply mkRows_congr
  intro j hj
  have hjl : j < c.ty.length := by simpa using hj
  unfold PStruct.kidRows PCol.combine
  simp only [List.getElem?_map, List.getElem?_range hjl, Option.map_some]
  rw [PList.ofRows_rows]
  rfl

end NP
