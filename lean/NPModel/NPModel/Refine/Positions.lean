/-
  NPModel.Refine.Positions — integer positions as a mask: `np.unique(key)` (sorted, duplicates
  dropped) is `np.nonzero` of the mask with those positions set.  Used by element assignment with
  integer, slice and integer-array keys (C05).
-/
import NPModel.Refine.SetItem
namespace NP

theorem setAt_length (n : Nat) (ps : List Nat) : (setAt n ps).length = n := by simp [setAt]

theorem setAt_getD (n : Nat) (ps : List Nat) (i : Nat) (hi : i < n) : (setAt n ps).getD i false = ps.contains i := by
  simp [setAt, List.getD_eq_getElem?_getD, List.getElem?_range hi]

/-- two strictly increasing lists with the same members are equal -/
theorem strictSorted_ext : ∀ (l₁ l₂ : List Nat), l₁.Pairwise (· < ·) → l₂.Pairwise (· < ·) →
    (∀ x, x ∈ l₁ ↔ x ∈ l₂) → l₁ = l₂
  | [], [], _, _, _ => rfl
  | [], b :: _, _, _, h => by have := (h b).mpr List.mem_cons_self; cases this
  | a :: _, [], _, _, h => by have := (h a).mp List.mem_cons_self; cases this
  | a :: t₁, b :: t₂, h₁, h₂, h => by
    have ⟨ha, ht₁⟩ := List.pairwise_cons.mp h₁
    have ⟨hb, ht₂⟩ := List.pairwise_cons.mp h₂
    have hab : a = b := by
      have h1 := (h a).mp List.mem_cons_self
      have h2 := (h b).mpr List.mem_cons_self
      rcases List.mem_cons.mp h1 with e | h1'
      · exact e
      · rcases List.mem_cons.mp h2 with e | h2'
        · exact e.symm
        · have := hb a h1'; have := ha b h2'; omega
    subst hab
    congr 1
    apply strictSorted_ext t₁ t₂ ht₁ ht₂
    intro x
    constructor
    · intro hx
      have := (h x).mp (List.mem_cons_of_mem _ hx)
      rcases List.mem_cons.mp this with e | h'
      · have := ha x hx; omega
      · exact h'
    · intro hx
      have := (h x).mpr (List.mem_cons_of_mem _ hx)
      rcases List.mem_cons.mp this with e | h'
      · have := hb x hx; omega
      · exact h'

theorem nonzeroFrom_pairwise : ∀ (m : List Bool) (s : Nat), (nonzeroFrom s m).Pairwise (· < ·)
  | [], _ => by simp [nonzeroFrom]
  | true :: m, s => by
    simp only [nonzeroFrom, if_true, List.pairwise_cons]
    exact ⟨fun x hx => by have := nonzeroFrom_ge m (s + 1) x hx; omega, nonzeroFrom_pairwise m (s + 1)⟩
  | false :: m, s => by
    simp only [nonzeroFrom, Bool.false_eq_true, if_false]
    exact nonzeroFrom_pairwise m (s + 1)

theorem mem_nonzeroFrom : ∀ (m : List Bool) (s x : Nat),
    x ∈ nonzeroFrom s m ↔ ∃ i, i < m.length ∧ m.getD i false = true ∧ x = s + i
  | [], _, x => by simp [nonzeroFrom]
  | b :: m, s, x => by
    have ih := mem_nonzeroFrom m (s + 1) x
    constructor
    · intro hx
      cases b with
      | true =>
        simp only [nonzeroFrom, if_true, List.mem_cons] at hx
        rcases hx with rfl | hx
        · exact ⟨0, by simp, by simp, by simp⟩
        · obtain ⟨i, hi, hm, rfl⟩ := ih.mp hx
          exact ⟨i + 1, by simpa using hi, by simpa using hm, by omega⟩
      | false =>
        simp only [nonzeroFrom, Bool.false_eq_true, if_false] at hx
        obtain ⟨i, hi, hm, rfl⟩ := ih.mp hx
        exact ⟨i + 1, by simpa using hi, by simpa using hm, by omega⟩
    · intro ⟨i, hi, hm, hx⟩
      cases i with
      | zero =>
        simp only [List.getD_cons_zero] at hm
        subst hm
        simp [nonzeroFrom, hx]
      | succ i =>
        have hmem : x ∈ nonzeroFrom (s + 1) m :=
          ih.mpr ⟨i, by simpa using hi, by simpa using hm, by omega⟩
        cases b <;> simp [nonzeroFrom, hmem]

theorem mem_dedupSorted : ∀ (l : List Nat) (x : Nat), x ∈ dedupSorted l ↔ x ∈ l
  | [], _ => by simp [dedupSorted]
  | [a], _ => by simp [dedupSorted]
  | a :: b :: rest, x => by
    have ih := mem_dedupSorted (b :: rest) x
    unfold dedupSorted
    by_cases hab : a = b
    · simp only [hab, if_true, ih, List.mem_cons]
      constructor
      · intro h; exact Or.inr h
      · intro h; rcases h with h | h
        · exact Or.inl h
        · exact h
    · simp only [hab, if_false, List.mem_cons, ih]

theorem dedupSorted_pairwise : ∀ (l : List Nat), l.Pairwise (· ≤ ·) → (dedupSorted l).Pairwise (· < ·)
  | [], _ => by simp [dedupSorted]
  | [a], _ => by simp [dedupSorted]
  | a :: b :: rest, h => by
    have ⟨ha, ht⟩ := List.pairwise_cons.mp h
    have ih := dedupSorted_pairwise (b :: rest) ht
    unfold dedupSorted
    by_cases hab : a = b
    · simp only [hab, if_true]; exact ih
    · simp only [hab, if_false, List.pairwise_cons]
      refine ⟨?_, ih⟩
      intro x hx
      have hx' := (mem_dedupSorted (b :: rest) x).mp hx
      have hb := ha b List.mem_cons_self
      have ⟨hbr, _⟩ := List.pairwise_cons.mp ht
      rcases List.mem_cons.mp hx' with rfl | hx''
      · omega
      · have := hbr x hx''; omega

theorem sortedUnique_pairwise (ps : List Nat) : (sortedUnique ps).Pairwise (· < ·) := by
  unfold sortedUnique
  apply dedupSorted_pairwise
  have := List.pairwise_mergeSort (le := fun (a b : Nat) => decide (a ≤ b))
    (by intro a b c h1 h2; simp at h1 h2 ⊢; omega) (by intro a b; simp; omega) ps
  exact this.imp (by intro a b h; simpa using h)

theorem mem_sortedUnique (ps : List Nat) (x : Nat) : x ∈ sortedUnique ps ↔ x ∈ ps := by
  unfold sortedUnique
  rw [mem_dedupSorted, List.mem_mergeSort]

/-- **`np.nonzero(mask_of(ps)) = np.unique(ps)`** -/
theorem nonzero_setAt (n : Nat) (ps : List Nat) (hlt : ∀ p ∈ ps, p < n) :
    nonzeroFrom 0 (setAt n ps) = sortedUnique ps := by
  apply strictSorted_ext _ _ (nonzeroFrom_pairwise _ 0) (sortedUnique_pairwise ps)
  intro x
  rw [mem_nonzeroFrom, mem_sortedUnique, setAt_length]
  constructor
  · intro ⟨i, hi, hm, hx⟩
    rw [setAt_getD n ps i hi] at hm
    simp only [Nat.zero_add] at hx
    subst hx
    simpa using hm
  · intro hx
    exact ⟨x, hlt x hx, by rw [setAt_getD n ps x (hlt x hx)]; simpa using hx, by simp⟩


variable {α : Type}

theorem sortedUnique_nodup (ps : List Nat) : (sortedUnique ps).Nodup :=
  (sortedUnique_pairwise ps).imp (by intro a b h; omega)

theorem sortedUnique_length (ps : List Nat) (hnd : ps.Nodup) : (sortedUnique ps).length = ps.length :=
  ((List.perm_ext_iff_of_nodup (sortedUnique_nodup ps) hnd).mpr (mem_sortedUnique ps)).length_eq

theorem findIdx_of_mem (ps : List Nat) (x : Nat) (hx : x ∈ ps) :
    ∃ j, ps.findIdx? (· == x) = some j ∧ j < ps.length := by
  cases h : ps.findIdx? (· == x) with
  | none =>
    rw [List.findIdx?_eq_none_iff] at h
    have := h x hx
    simp at this
  | some j => exact ⟨j, rfl, (List.findIdx?_eq_some_iff_getElem.mp h).1⟩

theorem findIdx_none_of_not_mem (ps : List Nat) (x : Nat) (hx : x ∉ ps) : ps.findIdx? (· == x) = none := by
  rw [List.findIdx?_eq_none_iff]
  intro y hy
  have : y ≠ x := fun e => hx (e ▸ hy)
  simpa using this

theorem findIdx_getElem_of_nodup (ps : List Nat) (hnd : ps.Nodup) (j : Nat) (hj : j < ps.length) :
    ps.findIdx? (· == ps[j]) = some j := by
  rw [List.findIdx?_eq_some_iff_getElem]
  refine ⟨hj, by simp, ?_⟩
  intro j' hj'
  have := (List.pairwise_iff_getElem.mp hnd) j' j (by omega) hj hj'
  simpa using this

theorem firstIndexOf_getElem (ps : List Nat) (hnd : ps.Nodup) (j : Nat) (hj : j < ps.length) :
    firstIndexOf ps ps[j] = j := by
  unfold firstIndexOf
  rw [findIdx_getElem_of_nodup ps hnd j hj]; rfl

theorem firstIndexOf_lt (ps : List Nat) (x : Nat) (hx : x ∈ ps) : firstIndexOf ps x < ps.length := by
  obtain ⟨j, hj, hlt⟩ := findIdx_of_mem ps x hx
  unfold firstIndexOf
  rw [hj]; exact hlt

/-- **Assignment at integer positions** (after the key has been resolved to distinct positions
    inside the column): the mask/argsort route of the implementation agrees with assignment into
    the list of rows. -/
theorem setItem_positions (c : PCol α) (hw : c.WF = true) (ha : c.aligned) (ps : List Nat)
    (hlt : ∀ p ∈ ps, p < c.len) (hnd : ps.Nodup) (hne : ps ≠ []) (v : SetVal α) :
    ((setItemReorder (some ((sortedUnique ps).map (firstIndexOf ps)))
        (setItemVals c.ty ((setAt c.len ps).filter id).length v)) >>= fun vals =>
      setItemFinish c (setAt c.len ps) vals).map PCol.rows
      = Spec.assignVals c.ty c.rows ps (Spec.setVals ps.length v) := by
  have hnz := nonzero_setAt c.len ps hlt
  have hLlen := sortedUnique_length ps hnd
  have hcnt : ((setAt c.len ps).filter id).length = ps.length := by
    rw [← nonzeroFrom_length (setAt c.len ps) 0, hnz, hLlen]
  have hpos : 0 < ps.length := List.length_pos_iff.mpr hne
  rw [hcnt, boxed_vals, assignVals_normal]
  generalize Spec.setVals ps.length v = V
  -- the reordering
  have hLmem : ∀ s (hs : s < (sortedUnique ps).length), (sortedUnique ps)[s] ∈ ps :=
    fun s hs => (mem_sortedUnique ps _).mp (List.getElem_mem hs)
  unfold setItemReorder
  simp only [List.length_map]
  by_cases hshort : V.length < ps.length
  · -- some first-occurrence index is beyond the values
    have hany : ((sortedUnique ps).map (firstIndexOf ps)).any (fun i => decide (i ≥ V.length)) = true := by
      rw [List.any_eq_true]
      have hj : ps.length - 1 < ps.length := by omega
      refine ⟨ps.length - 1, ?_, by simp; omega⟩
      rw [List.mem_map]
      exact ⟨ps[ps.length - 1], (mem_sortedUnique ps _).mpr (List.getElem_mem hj), firstIndexOf_getElem ps hnd _ hj⟩
    simp only [hany, if_true, hshort, bind, Except.bind]
    rfl
  · have hany : ((sortedUnique ps).map (firstIndexOf ps)).any (fun i => decide (i ≥ V.length)) = false := by
      rw [List.any_eq_false]
      intro x hx
      rw [List.mem_map] at hx
      obtain ⟨p, hp, rfl⟩ := hx
      have := firstIndexOf_lt ps p ((mem_sortedUnique ps p).mp hp)
      simp; omega
    simp only [hany, Bool.false_eq_true, if_false, hshort, bind, Except.bind, pure, Except.pure]
    rw [setItemFinish_spec c hw ha (setAt c.len ps) (setAt_length _ _) (by rw [hcnt]; exact hpos), hcnt]
    simp only [List.length_map, hLlen, Nat.lt_irrefl, if_false]
    -- what the reordered values read back as
    have hread : ∀ s, s < (sortedUnique ps).length →
        readBack c.ty (((sortedUnique ps).map (firstIndexOf ps)).map fun i => (V.map (boxScalar c.ty)).getD i none) s
          = normRow c.ty (V.getD (firstIndexOf ps ((sortedUnique ps).getD s 0)) none) := by
      intro s hs
      have hLs : (sortedUnique ps)[s]? = some (sortedUnique ps)[s] := List.getElem?_eq_getElem hs
      unfold readBack
      simp only [List.getD_eq_getElem?_getD, List.getElem?_map, hLs, Option.map_some, Option.getD_some]
      have := readBack_box c.ty V (firstIndexOf ps (sortedUnique ps)[s])
      unfold readBack at this
      simp only [List.getD_eq_getElem?_getD, List.getElem?_map] at this
      exact this
    -- rectangularity of the used values: the same set of values on both sides
    have hall : (List.range' 0 ps.length).all (fun s => Row.rect (readBack c.ty
          (((sortedUnique ps).map (firstIndexOf ps)).map fun i => (V.map (boxScalar c.ty)).getD i none) s))
        = (List.range' 0 ps.length).all (fun j => Row.rect (normRow c.ty (V.getD j none))) := by
      rw [Bool.eq_iff_iff, List.all_eq_true, List.all_eq_true]
      constructor
      · intro h j hj
        have hjl : j < ps.length := by simpa [List.mem_range'] using hj
        -- position ps[j] sits at some index of the sorted list
        have hm : ps[j] ∈ sortedUnique ps := (mem_sortedUnique ps _).mpr (List.getElem_mem hjl)
        obtain ⟨s, hs, hLs⟩ := List.getElem_of_mem hm
        have := h s (by simp [List.mem_range']; omega)
        rw [hread s hs] at this
        simp only [List.getD_eq_getElem?_getD, List.getElem?_eq_getElem hs, Option.getD_some, hLs,
          firstIndexOf_getElem ps hnd j hjl] at this
        simpa [List.getD_eq_getElem?_getD] using this
      · intro h s hs
        have hsl : s < (sortedUnique ps).length := by rw [hLlen]; simpa [List.mem_range'] using hs
        rw [hread s hsl]
        apply h
        have hfl := firstIndexOf_lt ps ((sortedUnique ps).getD s 0) (by
          simp only [List.getD_eq_getElem?_getD, List.getElem?_eq_getElem hsl, Option.getD_some]
          exact hLmem s hsl)
        rw [List.mem_range'_1]
        exact ⟨Nat.zero_le _, by omega⟩
    rw [hall]
    by_cases hrect : (List.range' 0 ps.length).all (fun j => Row.rect (normRow c.ty (V.getD j none))) = true
    · simp only [hrect, if_true]
      congr 1
      rw [place_eq_assign _ none (setAt c.len ps) c.rows (by rw [PCol.rows_length, setAt_length]), hnz]
      apply List.map_congr_left
      intro i _
      by_cases hi : i ∈ ps
      · obtain ⟨j, hj, hjl⟩ := findIdx_of_mem ps i hi
        obtain ⟨s, hs, hsl⟩ := findIdx_of_mem (sortedUnique ps) i ((mem_sortedUnique ps i).mpr hi)
        have hLs : (sortedUnique ps)[s] = i := by
          have := (List.findIdx?_eq_some_iff_getElem.mp hs).2.1
          simpa using this
        rw [hj, hs]
        simp only [Option.map_some, Option.getD_some]
        rw [hread s hsl]
        simp only [List.getD_eq_getElem?_getD, List.getElem?_eq_getElem hsl, Option.getD_some, hLs]
        have : firstIndexOf ps i = j := by unfold firstIndexOf; rw [hj]; rfl
        rw [this]
      · rw [findIdx_none_of_not_mem ps i hi,
          findIdx_none_of_not_mem (sortedUnique ps) i (fun h => hi ((mem_sortedUnique ps i).mp h))]
        rfl
    · simp only [hrect, Bool.false_eq_true, if_false]


theorem setAt_any (n : Nat) (ps : List Nat) (p : Nat) (hp : p ∈ ps) (hlt : p < n) : (setAt n ps).any id = true := by
  rw [List.any_eq_true]
  refine ⟨true, ?_, rfl⟩
  unfold setAt
  rw [List.mem_map]
  exact ⟨p, List.mem_range.mpr hlt, by simpa using hp⟩

theorem setAt_nil_any (n : Nat) : (setAt n []).any id = false := by
  rw [List.any_eq_false]
  intro x hx
  unfold setAt at hx
  rw [List.mem_map] at hx
  obtain ⟨i, _, rfl⟩ := hx
  simp

/-- **The positional part of `__setitem__`** (`setItemApply` on the mask and value order of
    distinct in-range positions) agrees with assignment at those positions in the list of rows. -/
theorem setItemApply_positions (c : PCol α) (hw : c.WF = true) (ha : c.aligned) (ps : List Nat)
    (hlt : ∀ p ∈ ps, p < c.len) (hnd : ps.Nodup) (hne : ps ≠ []) (v : SetVal α) :
    (setItemApply c (fromPositions c.len ps).1 (fromPositions c.len ps).2 v).map PCol.rows
      = Spec.assignAt c.ty c.rows ps v := by
  obtain ⟨p, hp⟩ := List.exists_mem_of_ne_nil ps hne
  have hn : ¬ c.len = 0 := by have := hlt p hp; omega
  have hany := setAt_any c.len ps p hp (hlt p hp)
  have hemp : ps.isEmpty = false := by cases ps <;> simp at hne ⊢
  unfold setItemApply fromPositions Spec.assignAt
  simp only [setAt_length, hn, if_false, hany, not_true_eq_false, hemp, Bool.false_eq_true]
  exact setItem_positions c hw ha ps hlt hnd hne v

theorem normPos_lt (n : Nat) (i : Int) (j : Nat) (h : normPos n i = some j) : j < n := by
  unfold normPos at h
  by_cases hneg : i < 0
  · simp only [hneg, if_true] at h
    by_cases hc : 0 ≤ i + (n : Int) ∧ i + (n : Int) < (n : Int)
    · rw [if_pos hc] at h
      simp only [Option.some.injEq] at h
      omega
    · rw [if_neg hc] at h; cases h
  · simp only [hneg, if_false] at h
    by_cases hc : 0 ≤ i ∧ i < (n : Int)
    · rw [if_pos hc] at h
      simp only [Option.some.injEq] at h
      omega
    · rw [if_neg hc] at h; cases h

/-- **`column[i] = value`** for an integer position (negative counts from the end). -/
theorem setItem_int_refines (c : PCol α) (hw : c.WF = true) (ha : c.aligned) (i : Int) (v : SetVal α) :
    (NArr.setItem c (.int i) v).map PCol.rows = Spec.setItem c.ty c.rows (.int i) v := by
  unfold NArr.setItem Spec.setItem setItemMask Spec.keyPositions
  rw [PCol.rows_length]
  cases hnp : normPos c.len i with
  | none => simp only [hnp, bind, Except.bind]; rfl
  | some j =>
    have hj := normPos_lt c.len i j hnp
    simp only [hnp, bind, Except.bind, pure, Except.pure, Bool.false_eq_true, if_false]
    exact setItemApply_positions c hw ha [j] (by simpa using hj) (by simp) (by simp) v

/-- **`column[[i₀, i₁, …]] = value`** for an integer-array key with distinct targets. -/
theorem setItem_ints_refines (c : PCol α) (hw : c.WF = true) (ha : c.aligned) (is : List Int) (v : SetVal α)
    (hnd : ((is.map (normPos c.len)).filterMap id).Nodup) :
    (NArr.setItem c (.ints is) v).map PCol.rows = Spec.setItem c.ty c.rows (.ints is) v := by
  unfold NArr.setItem Spec.setItem setItemMask Spec.keyPositions
  rw [PCol.rows_length]
  simp only
  by_cases hnone : (is.map (normPos c.len)).any Option.isNone = true
  · simp only [hnone, if_true, bind, Except.bind]
    rfl
  · simp only [hnone, Bool.false_eq_true, if_false, bind, Except.bind, pure, Except.pure]
    have hlt : ∀ p ∈ (is.map (normPos c.len)).filterMap id, p < c.len := by
      intro p hp
      rw [List.mem_filterMap] at hp
      obtain ⟨o, ho, hid⟩ := hp
      rw [List.mem_map] at ho
      obtain ⟨i, _, rfl⟩ := ho
      exact normPos_lt c.len i p hid
    cases his : is with
    | nil =>
      simp [Spec.assignAt, Except.map, pure, Except.pure]
    | cons i0 rest =>
      have hne : (is.map (normPos c.len)).filterMap id ≠ [] := by
        rw [his]
        have h0 : (normPos c.len i0).isSome = true := by
          cases h : normPos c.len i0 with
          | none => rw [his] at hnone; simp [h] at hnone
          | some _ => rfl
        obtain ⟨j, hj⟩ := Option.isSome_iff_exists.mp h0
        simp [hj]
      rw [← his]
      have hemp : is.isEmpty = false := by rw [his]; rfl
      simp only [hemp, Bool.false_eq_true, if_false]
      exact setItemApply_positions c hw ha _ hlt hnd hne v

end NP
