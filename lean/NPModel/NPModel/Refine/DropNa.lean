/-
  NPModel.Refine.DropNa — `NestedExtensionArray.dropna` (`pc.drop_null` chunk by chunk) refines
  dropping the missing rows of the list of rows (C05).
-/
import NPModel.Refine.TakeFill
namespace NP
variable {α : Type}

theorem filterBy_eq_filter {β : Type} (p : β → Bool) : ∀ (xs : List β), filterBy (xs.map p) xs = xs.filter p
  | [] => rfl
  | x :: xs => by
    cases h : p x <;> simp [filterBy, List.filter_cons, h, filterBy_eq_filter p xs]

/-- the validity bitmap of a chunk is "row present" -/
theorem PStruct.valid_eq_isSome (s : PStruct α) : s.valid = s.rows.map Option.isSome := by
  apply List.ext_getElem?
  intro i
  simp only [List.getElem?_map, PStruct.rows_getElem?]
  by_cases hi : i < s.len
  · have hv : s.valid[i]? = some s.valid[i] := List.getElem?_eq_getElem hi
    simp only [hi, if_true, Option.map_some, hv, PStruct.rowAt_eq, List.getD_eq_getElem?_getD, Option.getD_some]
    cases s.valid[i] <;> simp
  · have hv : s.valid[i]? = none := by rw [List.getElem?_eq_none_iff]; unfold PStruct.len at hi; omega
    simp [hi, hv]

theorem PStruct.dropNull_rows (s : PStruct α) (hw : s.WF = true) :
    (s.filter s.valid).rows = s.rows.filter Option.isSome := by
  rw [PStruct.filter_rows s hw s.valid rfl]
  conv => lhs; rw [PStruct.valid_eq_isSome s]
  exact filterBy_eq_filter Option.isSome s.rows

theorem emptyChunk_validate (ty : List (String × String)) : (emptyChunk ty : PStruct α).validate = .ok () := by
  unfold PStruct.validate emptyChunk
  cases ty with
  | nil => rfl
  | cons p rest =>
    simp only [List.map_cons]
    have : (rest.map fun (p : String × String) =>
        ({ name := p.1, ty := p.2, list := { offs := [0], valid := [], vals := [] } } : PField α)).all
        (fun k' => rebased k'.list.offs == rebased [0]) = true := by
      rw [List.all_map, List.all_eq_true]
      intro q _
      rfl
    simp only [this, if_true]

theorem emptyChunk_rows (ty : List (String × String)) : (emptyChunk ty : PStruct α).rows = [] := rfl

theorem init_empty (c : PCol α) :
    (NArr.init ({ c with chunks := [] } : PCol α)).map PCol.rows = .ok [] := by
  have : NArr.init ({ c with chunks := [] } : PCol α) = NArr.init ({ c with chunks := [emptyChunk c.ty] } : PCol α) := rfl
  rw [this, init_single_ok c _ (emptyChunk_validate c.ty)]
  rfl

/-- **`dropna` drops exactly the missing rows** — on validated storage in any layout (every chunk
    filtered by its own validity; a column left without chunks gets one empty chunk). -/
theorem dropna_refines (c : PCol α) (hw : c.WF = true) (ha : c.aligned) :
    (NArr.dropna c).map PCol.rows = .ok (Spec.dropna c.rows) := by
  have hch := PCol.chunk_facts c hw
  unfold NArr.dropna Spec.dropna
  have hrows : ∀ (chunks : List (PStruct α)), (∀ s ∈ chunks, s.WF = true) →
      (chunks.map fun s => s.filter s.valid).flatMap PStruct.rows = (chunks.flatMap PStruct.rows).filter Option.isSome := by
    intro chunks h
    induction chunks with
    | nil => rfl
    | cons s rest ih =>
      simp only [List.map_cons, List.flatMap_cons, List.filter_append,
        PStruct.dropNull_rows s (h s List.mem_cons_self), ih (fun s' hs' => h s' (List.mem_cons_of_mem _ hs'))]
  have hval : ∀ (chunks : List (PStruct α)), (∀ s ∈ chunks, s.WF = true ∧ s.aligned) →
      (chunks.map fun s => s.filter s.valid).forM PStruct.validate = .ok () := by
    intro chunks h
    induction chunks with
    | nil => rfl
    | cons s rest ih =>
      have ⟨hws, has⟩ := h s List.mem_cons_self
      simp only [List.map_cons]
      change ((s.filter s.valid).validate >>= fun _ => List.forM (rest.map fun s => s.filter s.valid) PStruct.validate) = _
      rw [PStruct.filter_eq_take s hws s.valid rfl, PStruct.take_validate s has]
      exact ih (fun s' hs' => h s' (List.mem_cons_of_mem _ hs'))
  cases hc : c.chunks with
  | nil =>
    simp only [List.map_nil]
    rw [init_empty c]
    simp [PCol.rows, hc]
  | cons s0 rest =>
    have hv := hval (s0 :: rest) (by
      intro s hs
      have hs' : s ∈ c.chunks := by rw [hc]; exact hs
      exact ⟨(hch s hs').1, ha s hs'⟩)
    have hr := hrows (s0 :: rest) (by
      intro s hs
      have hs' : s ∈ c.chunks := by rw [hc]; exact hs
      exact (hch s hs').1)
    unfold NArr.init
    have hne : ((s0 :: rest).map fun s => s.filter s.valid).isEmpty = false := rfl
    simp only [hne, Bool.false_eq_true, if_false, if_true, bind, Except.bind, pure, Except.pure]
    unfold PCol.validate
    simp only [hv, Except.map, PCol.rows, hr, hc]

end NP
