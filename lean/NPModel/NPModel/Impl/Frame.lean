/-
  NPModel.Impl.Frame — implementation model of nestedframe/core.py (NestedFrame):
  query, eval, dropna, sort_values, add_nested, from_flat, from_lists, reduce, dotted item access.
  Built on the physical layer: every nested column is a `PCol`, flat views come from
  `NSeries.toFlat`, re-packing goes through `packSortedDf` and `NArr.take`.
-/
import NPModel.Impl.Accessor
import NPModel.Pandas.Expr
namespace NP

inductive ColData (α : Type) where
  | base (ty : String) (vals : List α)
  | nest (c : PCol α)
  deriving Repr

/-- A NestedFrame: index labels and ordered columns (base and nested interleaved). -/
structure NFrame (α : Type) where
  index : List Label
  cols  : List (String × ColData α)
  deriving Repr

variable {α : Type}

def NFrame.col? (F : NFrame α) (n : String) : Option (ColData α) := (F.cols.find? (·.1 == n)).map (·.2)

def NFrame.nest? (F : NFrame α) (n : String) : R (PCol α) :=
  match F.col? n with
  | some (.nest c) => pure c
  | _ => .error .keyError

def NFrame.nestedColumns (F : NFrame α) : List String :=
  F.cols.filterMap fun (n, d) => match d with | .nest _ => some n | _ => none

def NFrame.setCol (F : NFrame α) (n : String) (d : ColData α) : NFrame α :=
  if F.cols.any (·.1 == n) then { F with cols := F.cols.map fun p => if p.1 == n then (n, d) else p }
  else { F with cols := F.cols ++ [(n, d)] }

/-- pandas' `Index.get_indexer` of the RangeIndex `0..n-1` in the packed index: position of the
    ordinal among the packed labels, `-1` when absent -/
def ordinalIndexer (index : List Label) (n : Nat) : List Int :=
  (List.range n).map fun (i : Nat) =>
    match index.findIdx? (· == Label.int (i : Int)) with
    | some p => (p : Int)
    | none => -1

/-- `_set_filtered_flat_df` (core.py): the filtered/sorted flat table, indexed by row ordinals,
    is packed (`pack_sorted_df_into_struct`) and assigned to the frame with a RangeIndex;
    pandas aligns the packed series to `0..n-1` with `take(indexer, allow_fill=True)`:
    rows whose ordinal is absent become missing.  The original index is then restored. -/
def NFrame.setFilteredFlatDf (F : NFrame α) (nest : String) (flat : FlatDF α) : R (NFrame α) := do
  let packed ← packSortedDf flat
  let n := F.index.length
  let col ← (if packed.index == (List.range n).map (fun (i : Nat) => Label.int (i : Int)) then pure packed.col
             else NArr.take packed.col (ordinalIndexer packed.index n) true none)
  pure (F.setCol nest (.nest col))

def FlatDF.filterRows (d : FlatDF α) (keep : List Bool) : FlatDF α :=
  { index := filterBy keep d.index, cols := d.cols.map fun (n, t, v) => (n, t, filterBy keep v) }

def FlatDF.len (d : FlatDF α) : Nat := d.index.length

/-- the flat view of a nest with the ordinal (`get_list_index`) index -/
def NFrame.ordinalFlat (F : NFrame α) (nest : String) : R (FlatDF α) := do
  let c ← F.nest? nest
  let flat ← (NSeries.toFlat { index := F.index, col := c } none)
  let li ← NArr.getListIndex c
  if li.length ≠ flat.len then throw .valueError
  pure { flat with index := li.map fun (i : Nat) => Label.int (i : Int) }

/-! ### query / eval (Cell-valued) -/

def recordLookup (flat : FlatDF Cell) (nest : String) (j : Nat) : Option String → String → Option Cell
  | some l, n => if l == nest then (flat.cols.find? (·.1 == n)).map fun (_, _, v) => (v.getD j none) else none
  | none, _ => none

def baseLookup (F : NFrame Cell) (i : Nat) : Option String → String → Option Cell
  | none, n => match F.col? n with
    | some (.base _ v) => some (v.getD i none)
    | _ => none
  | some _, _ => none

def evalErrToPy : EvalErr → PyErr
  | .undefined => .attributeError
  | .badType => .typeError

/-- the expression on record `j` -/
def evalAt (look : Nat → Option String → String → Option Cell) (e : Expr) (j : Nat) : R Cell :=
  match e.eval (look j) with
  | .ok c => pure c
  | .error err => .error (evalErrToPy err)

def evalAll (n : Nat) (look : Nat → Option String → String → Option Cell) (e : Expr) : R (List Cell) :=
  (List.range n).mapM (evalAt look e)

def NFrame.filterRows (F : NFrame Cell) (keep : List Bool) : R (NFrame Cell) := do
  let cols ← F.cols.mapM fun (n, d) => match d with
    | .base t v => pure (n, ColData.base t (filterBy keep v))
    | .nest c => do
      let r ← NArr.getItem c (.mask keep)
      match r with
      | .col c' => pure (n, ColData.nest c')
      | .row _ => throw .other
  pure { index := filterBy keep F.index, cols := cols }

/-- `NestedFrame.query` (core.py:561-658). -/
def NFrame.query (F : NFrame Cell) (e : Expr) : R (NFrame Cell) := do
  -- preflight: at most one layer
  let layers := e.layers
  if layers.length > 1 then throw .valueError
  match layers with
  | [some nest] =>
    if ¬ F.nestedColumns.contains nest then throw .attributeError
    let flat ← F.ordinalFlat nest
    let vals ← evalAll flat.len (recordLookup flat nest) e
    let keep := vals.map fun c => c == some (.bool true)
    F.setFilteredFlatDf nest (flat.filterRows keep)
  | _ =>
    let vals ← evalAll F.index.length (baseLookup F) e
    F.filterRows (vals.map fun c => c == some (.bool true))

/-- `NestedFrame.eval` of a pure expression over one nest: a flat series with the flat index. -/
def NFrame.evalExpr (F : NFrame Cell) (e : Expr) : R (List Label × String × List Cell) := do
  match e.layers with
  | [some nest] =>
    let c ← F.nest? nest
    let flat ← (NSeries.toFlat { index := F.index, col := c } none)
    let vals ← evalAll flat.len (recordLookup flat nest) e
    let ty := e.ty fun _ n => tyOf c n
    pure (flat.index, ty, vals)
  | _ => throw .notImplemented

/-! ### dropna / sort_values on a nested layer (data movement is polymorphic) -/

inductive How where | any | all deriving Repr, DecidableEq

/-- pandas `DataFrame.dropna` row predicate on the flat table restricted to `subset` -/
def keepRecord (isNull : α → Bool) (how : How) (thresh : Option Nat) (cells : List α) : Bool :=
  let nn := (cells.filter fun c => !isNull c).length
  match thresh with
  | some t => nn ≥ t
  | none => match how with
    | .any => nn = cells.length
    | .all => nn > 0 ∨ cells.length = 0

/-- the flat column a `subset` entry names -/
def dropnaCol (flat : FlatDF α) (f : String) : R (String × String × List α) :=
  match flat.cols.find? (·.1 == f) with
  | some c => pure c
  | none => .error .keyError

/-- the inspected columns: all of them, or the `subset` -/
def dropnaCols (flat : FlatDF α) (subset : Option (List String)) : R (List (String × String × List α)) :=
  match subset with
  | none => pure flat.cols
  | some fs => fs.mapM (dropnaCol flat)

/-- the cells of record `j` in the inspected columns -/
def recordCells (cols : List (String × String × List α)) (j : Nat) : List α := cols.filterMap fun c => c.2.2[j]?

/-- which records stay -/
def dropnaKeep (isNull : α → Bool) (how : How) (thresh : Option Nat) (cols : List (String × String × List α)) (n : Nat) :
    List Bool :=
  (List.range n).map fun j => keepRecord isNull how thresh (recordCells cols j)

/-- `NestedFrame.dropna` aimed at a nested layer (core.py:706-760). -/
def NFrame.dropnaNested (isNull : α → Bool) (F : NFrame α) (nest : String) (how : How) (thresh : Option Nat)
    (subset : Option (List String)) : R (NFrame α) := do
  let flat ← F.ordinalFlat nest
  let cols ← dropnaCols flat subset
  F.setFilteredFlatDf nest (flat.filterRows (dropnaKeep isNull how thresh cols flat.len))

/-- lexicographic comparison used by `sort_values(by=[ordinal] ++ keys)`: `lt a b` per key with
    its direction; nulls placed by `naFirst` independently of the direction -/
def keyLe (lt : α → α → Bool) (isNull : α → Bool) (asc naFirst : Bool) (a b : α) : Ordering :=
  match isNull a, isNull b with
  | true, true => .eq
  | true, false => if naFirst then .lt else .gt
  | false, true => if naFirst then .gt else .lt
  | false, false =>
    if lt a b then (if asc then .lt else .gt)
    else if lt b a then (if asc then .gt else .lt) else .eq

def lexLe (lt : α → α → Bool) (isNull : α → Bool) (naFirst : Bool) :
    List (Bool × α × α) → Bool
  | [] => true
  | (asc, a, b) :: rest =>
    match keyLe lt isNull asc naFirst a b with
    | .lt => true
    | .gt => false
    | .eq => lexLe lt isNull naFirst rest

/-- the flat column of one sort key with its direction -/
def sortKeyCol (flat : FlatDF α) (k : String × Bool) : R (Bool × List α) :=
  match flat.cols.find? (·.1 == k.1) with
  | some c => pure (k.2, c.2.2)
  | none => .error .keyError

/-- the key comparisons of records `i` and `j`, most significant first -/
def sortKeysAt [Inhabited α] (kcols : List (Bool × List α)) (i j : Nat) : List (Bool × α × α) :=
  kcols.map fun k => (k.1, k.2.getD i default, k.2.getD j default)

/-- `sort_values(by=[ordinal] ++ keys)`: the row ordinal first, then the keys -/
def sortLe [Inhabited α] (lt : α → α → Bool) (isNull : α → Bool) (naFirst : Bool) (ords : List Label)
    (kcols : List (Bool × List α)) (i j : Nat) : Bool :=
  if ords.getD i (.int 0) == ords.getD j (.int 0) then lexLe lt isNull naFirst (sortKeysAt kcols i j)
  else (ords.getD i (.int 0)).le (ords.getD j (.int 0))

/-- `NestedFrame.sort_values` by nested fields (core.py:762-840): stable lexicographic sort of
    the flat table by (ordinal, keys…), then re-packing. -/
def NFrame.sortNested [Inhabited α] (lt : α → α → Bool) (isNull : α → Bool) (F : NFrame α) (nest : String)
    (keys : List (String × Bool)) (naFirst : Bool) : R (NFrame α) := do
  let flat ← F.ordinalFlat nest
  let kcols ← keys.mapM (sortKeyCol flat)
  let perm := (List.range flat.len).mergeSort (sortLe lt isNull naFirst flat.index kcols)
  F.setFilteredFlatDf nest (flat.reorder perm default)

end NP

namespace NP
variable {α : Type}

/-! ### add_nested / from_flat / from_lists -/

inductive JoinHow where | left | right | inner | outer deriving Repr, DecidableEq

/-- a base column read at optional positions (`na` where there is none) -/
def takeBase (v : List α) (idx : List (Option Nat)) (dflt : α) : List α :=
  idx.map fun o => match o with | some i => v.getD i dflt | none => dflt

/-- optional positions as a pandas indexer (`-1` = no row) -/
def optIndexer (idx : List (Option Nat)) : List Int :=
  idx.map fun o => match o with | some i => (i : Int) | none => -1

def takeColData (idx : List (Option Nat)) (dflt : α) (p : String × ColData α) : R (String × ColData α) :=
  match p.2 with
  | .base t v => pure (p.1, ColData.base t (takeBase v idx dflt))
  | .nest c => do
    let c' ← NArr.take c (optIndexer idx) true none
    pure (p.1, ColData.nest c')

def NFrame.takeRows (F : NFrame α) (idx : List (Option Nat)) (dflt : α) (newIndex : List Label) : R (NFrame α) := do
  let cols ← F.cols.mapM (takeColData idx dflt)
  pure { index := newIndex, cols := cols }

def dedupLabels : List Label → List Label
  | [] => []
  | l :: ls => l :: (dedupLabels ls).filter (· != l)

/-- where label `l` sits in the packed index (`Index.get_indexer`), `-1` when it has no row -/
def labelPos (keys : List Label) (l : Label) : Int :=
  match keys.findIdx? (· == l) with
  | some p => (p : Int)
  | none => -1

/-- left rows carrying label `l`, ascending -/
def leftRowsOf (left : List Label) (l : Label) : List Nat :=
  (List.range left.length).filter fun i => left.getD i (.int 0) == l

/-- one output row of a join per left row with the label, or one row without a left side -/
def joinRowsOf (left keys : List Label) (l : Label) : List (Option Nat × Int × Label) :=
  match leftRowsOf left l with
  | [] => [(none, labelPos keys l, l)]
  | is => is.map fun i => (some i, labelPos keys l, l)

/-- the row plan of `DataFrame.join(how)` on the index: (left row or none, position in the packed
    index or -1, label) for every output row -/
def joinPlan (how : JoinHow) (left keys : List Label) : List (Option Nat × Int × Label) :=
  match how with
  | .left => (List.range left.length).map fun i => (some i, labelPos keys (left.getD i (.int 0)), left.getD i (.int 0))
  | .inner => ((List.range left.length).filter fun i => labelPos keys (left.getD i (.int 0)) ≥ 0).map fun i =>
      (some i, labelPos keys (left.getD i (.int 0)), left.getD i (.int 0))
  | .right => keys.flatMap (joinRowsOf left keys)
  | .outer => ((dedupLabels (left ++ keys)).mergeSort Label.le).flatMap (joinRowsOf left keys)

/-- `add_nested` (core.py:417-460) joining on the index: `pack` then `DataFrame.join(how)`.
    `na` is the cell pandas writes into base columns of rows that exist only on the right. -/
def NFrame.addNested [Inhabited α] (F : NFrame α) (flat : FlatDF α) (name : String) (how : JoinHow) (na : α) :
    R (NFrame α) := do
  let packed ← packFlat flat
  let plan := joinPlan how F.index packed.index
  let F' ← F.takeRows (plan.map (·.1)) na (plan.map (·.2.2))
  let col ← NArr.take packed.col (plan.map (·.2.1)) true none
  pure (F'.setCol name (.nest col))

/-- `from_flat` (core.py:462-560) without `on`: base rows are the first occurrence of every
    label, nested = all records of the label. -/
def NFrame.fromFlat [Inhabited α] (index : List Label) (base : List (String × String × List α))
    (nested : List (String × String × List α)) (name : String) (na : α) : R (NFrame α) := do
  let keep := (duplicatedFirst index).map (!·)
  let F : NFrame α := { index := filterBy keep index
                        cols := base.map fun (n, t, v) => (n, ColData.base t (filterBy keep v)) }
  F.addNested { index := index, cols := nested } name .left na

/-- `from_lists` / `nest_lists` (core.py:562-640, after the positional fix): pack the list
    columns row by row, one output row per input row. -/
def NFrame.fromLists (index : List Label) (base : List (String × String × List α))
    (lists : List (String × String × List (PList α))) (name : String) : R (NFrame α) := do
  let packed ← packLists index lists true
  pure { index := index
         cols := (base.map fun (n, t, v) => (n, ColData.base t v)) ++ [(name, .nest packed.col)] }

/-! ### reduce: the call log -/

inductive RArg (α : Type) where
  | scalar (x : α)
  | array (xs : Option (List α))     -- `none`: the null list pyarrow shows for a missing row
  deriving Repr

/-- the iterator `reduce` builds for one requested column -/
def NFrame.reduceIter (F : NFrame α) (col : Option String × String) : R (List (RArg α)) :=
  match col.1 with
  | none => match F.col? col.2 with
    | some (.base _ v) => pure (v.map RArg.scalar)
    | some (.nest _) => .error .other   -- a whole nested column: per-row DataFrames (not modelled)
    | none => .error .keyError
  | some l => do
    let c ← F.nest? l
    let ls ← NArr.iterFieldLists c col.2
    pure (ls.map RArg.array)

/-- `reduce` (core.py:842-930): the arguments handed to the user function, row by row.
    `cols` = the requested columns `(layer?, name)` after path resolution. -/
def NFrame.reduceCalls (F : NFrame α) (cols : List (Option String × String)) (dflt : α) : R (List (List (RArg α))) := do
  if cols.isEmpty then throw .valueError
  let iters ← cols.mapM F.reduceIter
  let n := (iters.map List.length).foldl min F.index.length
  pure ((List.range n).map fun i => iters.map fun it => it.getD i (.scalar dflt))

/-- `NestedFrame.__getitem__('nest.field')`: the flat series of the field. -/
def NFrame.getField (F : NFrame α) (nest field : String) : R (List Label × List α) := do
  let c ← F.nest? nest
  NSeries.getFlatSeries { index := F.index, col := c } field

/-- `NestedFrame.__setitem__('nest.field', value)` (core.py:376-415).
    `valueIndex`: the index of `value` when it is a Series. -/
def NFrame.setField [Inhabited α] (F : NFrame α) (nest field ty : String) (v : FlatVal α)
    (valueIndex : Option (List Label)) (na : α) : R (NFrame α) := do
  if F.nestedColumns.contains nest then
    let c ← F.nest? nest
    let s : NSeries α := { index := F.index, col := c }
    let s' ← (match v, valueIndex with
      | .array xs, some vi =>
        if vi == F.index then s.withFilledField field ty xs      -- "base-aligned" branch
        else s.withFlatField field ty v
      | _, _ => s.withFlatField field ty v)
    pure (F.setCol nest (.nest s'.col))
  else
    -- a new nested column from a flat series: `add_nested(value.to_frame(field), name=nest)`
    match v, valueIndex with
    | .array xs, some vi => F.addNested { index := vi, cols := [(field, ty, xs)] } nest .left na
    | _, _ => throw .valueError

/-- `eval("nest.new = expr")` (expr.py `visit_Assign` + core.py `__setitem__`). -/
def NFrame.evalAssign (F : NFrame Cell) (nest field : String) (e : Expr) : R (NFrame Cell) := do
  let (idx, ty, vals) ← F.evalExpr e
  F.setField nest field ty (.array vals) (some idx) none

end NP

namespace NP

/-! ### `_resolve_dropna_target` (core.py:660-704), on parsed path components -/

inductive Target where
  | base
  | nest (n : String)
  deriving Repr, DecidableEq

/-- layer named by one subset entry: a path with fewer than two components is a base column -/
def subsetLayer (nestedCols : List String) (comps : List String) : R Target :=
  match comps with
  | layer :: _ :: _ => if nestedCols.contains layer then pure (.nest layer) else .error .valueError
  | _ => pure .base

def resolveDropnaTarget (nestedCols : List String) (onNested : Option String)
    (subset : Option (List (List String))) : R Target := do
  let subsetTarget ← (match subset with
    | none => pure none
    | some [] => pure none
    | some cs => do
      let ts ← cs.mapM (subsetLayer nestedCols)
      -- `np.unique(subset_target)` must have a single element
      match ts with
      | [] => pure none
      | t :: rest => if rest.all (· == t) then pure (some t) else .error .valueError : R (Option Target))
  match onNested with
  | some n => if ¬ nestedCols.contains n then throw .valueError
  | none => pure ()
  match onNested, subsetTarget with
  | some n, some t => if t == .nest n then pure t else .error .valueError
  | some n, none => pure (.nest n)
  | none, some t => pure t
  | none, none => pure .base

end NP
