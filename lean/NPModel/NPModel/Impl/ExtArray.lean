/-
  NPModel.Impl.ExtArray — implementation model of
  /repo/src/nested_pandas/series/ext_array.py and series/utils.py (NestedExtensionArray).

  One definition per Python function, same control flow, on the physical layer of
  NPModel.Arrow. Mutating methods return the new storage. Errors are explicit.
  The model follows the code AS IT IS after the `fix:` commits listed in
  /verif/KNOWN_FINDINGS.txt.
-/
import NPModel.Spec.Col
namespace NP
variable {α : Type}

/-! ### series/utils.py -/

/-- `_rebased_offsets` (utils.py): offsets relative to the first one. -/
def rebased (offs : List Nat) : List Nat := offs.map (· - offs.headD 0)

/-- `validate_struct_list_array_for_equal_lengths` (utils.py:47-79): every field's re-based
    offsets equal those of the first field. -/
def PStruct.validate (s : PStruct α) : R Unit :=
  match s.kids with
  | [] => .ok ()
  | k :: ks =>
    if ks.all (fun k' => rebased k'.list.offs == rebased k.list.offs) then .ok ()
    else .error .valueError

/-- `NestedExtensionArray._validate` (ext_array.py): chunk by chunk. -/
def PCol.validate (c : PCol α) : R Unit :=
  c.chunks.forM PStruct.validate

/-- One `pa.ListArray` of structs (the transposed orientation). `fields` are the flat children. -/
structure PLS (α : Type) where
  offs   : List Nat
  valid  : List Bool
  fields : List (String × String × List α)
  deriving Repr, DecidableEq

/-- `_windowed_values` (utils.py): the values the list array's own offsets point to. -/
def PList.windowVals (l : PList α) : List α :=
  (l.vals.drop (l.offs.headD 0)).take (l.offs.getLast?.getD 0 - l.offs.headD 0)

/-- `transpose_struct_list_array` (utils.py:113-143). No validity is carried (no `mask=`). -/
def transposeSL (s : PStruct α) (validate : Bool) : R (PLS α) := do
  if validate then s.validate
  match s.kids with
  | [] => .error .indexError
  | k :: ks =>
    let offs := rebased k.list.offs
    let win := (k :: ks).map fun k' => (k'.name, k'.ty, k'.list.windowVals)
    -- StructArray.from_arrays refuses children of different lengths
    if ks.all (fun k' => k'.list.windowVals.length = k.list.windowVals.length) then
      -- ListArray.from_arrays bounds check
      if offs.getLast?.getD 0 ≤ k.list.windowVals.length then
        .ok { offs := offs, valid := List.replicate (offs.length - 1) true, fields := win }
      else .error .arrowInvalid
    else .error .arrowInvalid

/-- `transpose_list_struct_array` (utils.py:172-192): raw offsets, whole child buffers, no mask. -/
def transposeLS (l : PLS α) : R (PStruct α) := do
  let kids ← l.fields.mapM fun (n, t, vals) => do
    let la ← listFromArrays l.offs vals
    pure ({ name := n, ty := t, list := la } : PField α)
  structFromArrays kids none

def PLS.rows (l : PLS α) : List (Option (List (String × List α))) :=
  List.zipWith (fun v (i : Nat) =>
      if v then
        let a := l.offs.getD i 0; let b := l.offs.getD (i+1) 0
        some (l.fields.map fun (n, _, vals) => (n, (vals.drop a).take (b - a)))
      else none)
    l.valid (List.range l.valid.length)

/-! ### ext_array.py : construction -/

/-- the one empty chunk a zero-chunk array is normalised to (`pa.array([], type)`) -/
def emptyChunk (ty : List (String × String)) : PStruct α :=
  { valid := [], kids := ty.map fun p => { name := p.1, ty := p.2, list := { offs := [0], valid := [], vals := [] } } }

/-- `NestedExtensionArray.__init__` on struct input (ext_array.py:658-677), after the chunk
    normalisation: at least one chunk. -/
def NArr.init (c : PCol α) (validate : Bool := true) : R (PCol α) := do
  let c := if c.chunks.isEmpty then { c with chunks := [emptyChunk c.ty] } else c
  if validate then c.validate
  pure c

/-- `__init__` on list-struct input: transposed chunk by chunk, never validated. -/
def NArr.initLS (ty : List (String × String)) (chunks : List (PLS α)) : R (PCol α) := do
  let cs ← chunks.mapM transposeLS
  NArr.init { ty := ty, chunks := cs } (validate := false)

/-- `_list_array` (ext_array.py:675-681). -/
def NArr.listArray (c : PCol α) : R (List (PLS α)) :=
  c.chunks.mapM fun s => transposeSL s false

/-! ### observers -/

def NArr.len (c : PCol α) : Nat := c.len

/-- `isna` (both fast paths and the general path give the same mask). -/
def NArr.isna (c : PCol α) : List Bool := c.chunks.flatMap fun s => s.valid.map (!·)

/-- `list_lengths`: `list_value_length(_list_array)` — differences of the first field's offsets. -/
def NArr.listLengths (c : PCol α) : R (List Nat) := do
  let ls ← NArr.listArray c
  pure (ls.flatMap fun l => diffs l.offs)

def NArr.flatLength (c : PCol α) : R Nat := do pure (sumNat (← NArr.listLengths c))

/-- `list_offsets` (ext_array.py:764-790), with the re-basing of the single-chunk path. -/
def NArr.listOffsets (c : PCol α) : R (List Nat) :=
  match c.chunks with
  | [s] => match s.kids with
    | [] => .error .indexError
    | k :: _ => pure (rebased k.list.offs)
  | _ => do pure (offsetsFrom 0 (← NArr.listLengths c))

/-- `field_names`: names of chunk 0. -/
def NArr.fieldNames (c : PCol α) : R (List String) :=
  match c.chunks with
  | [] => .error .indexError
  | s :: _ => pure (s.kids.map (·.name))

/-- `get_list_index`. -/
def NArr.getListIndex (c : PCol α) : R (List Nat) :=
  if c.len = 0 then pure [] else do
    pure (repeatEach (List.range c.len) (← NArr.listLengths c))

def PStruct.kid? (s : PStruct α) (f : String) : Option (PField α) := s.kids.find? (·.name == f)

/-- `iter_field_lists`: the field's lists chunk by chunk (`none` for a null list),
    struct validity is not consulted. -/
def iterOfChunk (f : String) (s : PStruct α) : R (List (Option (List α))) :=
  match s.kid? f with
  | some k => pure k.list.rows
  | none => .error .keyError

def NArr.iterFieldLists (c : PCol α) (f : String) : R (List (Option (List α))) := do
  let per ← c.chunks.mapM (iterOfChunk f)
  pure per.flatten

/-- `__iter__` / `to_numpy`: every struct scalar converted to a table or the NA value. -/
def NArr.iter (c : PCol α) : List (Row α) := c.rows

/-! ### selection -/

inductive Key where
  | int (i : Int)
  | slice (start stop step : Option Int)
  | mask (m : List Bool)
  | ints (is : List Int)
  deriving Repr, DecidableEq

/-- CPython `slice.indices(n)` followed by `range(start, stop, step)`. -/
def sliceIndices (n : Nat) (start stop step : Option Int) : R (Int × Int × Int) :=
  let st := step.getD 1
  if st = 0 then .error .valueError else
  let n' : Int := n
  let lower : Int := if st > 0 then 0 else -1
  let upper : Int := if st > 0 then n' else n' - 1
  let clamp (s : Int) : Int := if s < 0 then max (s + n') lower else min s upper
  let a := match start with | none => (if st < 0 then upper else lower) | some s => clamp s
  let b := match stop with | none => (if st < 0 then lower else upper) | some s => clamp s
  .ok (a, b, st)

def rangeList (a b st : Int) : List Nat :=
  let cnt : Nat :=
    if st > 0 then (if a < b then ((b - a + st - 1) / st).toNat else 0)
    else (if a > b then ((a - b - st - 1) / (-st)).toNat else 0)
  (List.range cnt).map fun (k : Nat) => (a + (k : Int) * st).toNat

/-- Normalise a Python position: negatives count from the end. -/
def normPos (n : Nat) (i : Int) : Option Nat :=
  let j := if i < 0 then i + n else i
  if 0 ≤ j ∧ j < n then some j.toNat else none

def PCol.scalars (c : PCol α) : List (PScalar α) :=
  c.chunks.flatMap fun s => (List.range s.len).map s.scalarAt

/-- `ChunkedArray.take(indices)` — one fresh chunk. -/
def PCol.take (c : PCol α) (idx : List (Option Nat)) : PCol α :=
  { c with chunks := [c.combine.take idx] }

/-- `ChunkedArray.filter(mask)` — chunk by chunk. -/
def PCol.filter (c : PCol α) (mask : List Bool) : PCol α :=
  let rec go : List (PStruct α) → List Bool → List (PStruct α)
    | [], _ => []
    | s :: rest, m => s.filter (m.take s.len) :: go rest (m.drop s.len)
  { c with chunks := go c.chunks mask }

inductive GetRes (α : Type) where
  | row (r : Row α)
  | col (c : PCol α)

/-- `__getitem__` (ext_array.py:238-267). -/
def NArr.getItem (c : PCol α) (k : Key) : R (GetRes α) :=
  let n := c.len
  match k with
  | .mask m =>
    if m.length ≠ n then .error .indexError
    else if m.length = 0 then do pure (.col (← NArr.init { c with chunks := [] } false))
    else do pure (.col (← NArr.init (c.filter m) false))
  | .ints is =>
    if is.length = 0 then do pure (.col (← NArr.init { c with chunks := [] } false))
    else
      let idx := is.map (normPos n)
      if idx.any Option.isNone then .error .indexError
      else do pure (.col (← NArr.init (c.take idx) false))
  | .int i =>
    match normPos n i with
    | none => .error .indexError
    | some j => pure (.row (c.rows.getD j none))
  | .slice a b st => do
    let (a', b', st') ← sliceIndices n a b st
    if st' = 1 then
      pure (.col (← NArr.init { c with chunks := chunkedSlice c.chunks a'.toNat (b' - a').toNat } false))
    else
      pure (.col (← NArr.init (c.take ((rangeList a' b' st').map some)) false))

/-- `_box_pa_scalar` with the array's own type: a Python row (None / table) becomes a struct
    scalar whose fields are looked up by name; an absent field is a null list. -/
def boxScalar (ty : List (String × String)) (r : Row α) : PScalar α :=
  r.map fun t => ty.map fun (n, _) => (t.find? (·.1 == n)).map (·.2)

/-- the fill step of `take(..., allow_fill=True)`: a missing fill value leaves the nulls that
    `take` with null indices produced; a table is broadcast and selected by `if_else` -/
def fillMasked (ty : List (String × String)) (mask : List Bool) (fv : PScalar α) (res : PStruct α) : PStruct α :=
  match fv with
  | none => res
  | some _ => PStruct.ifElse mask (PStruct.ofScalars ty (List.replicate mask.length fv)) res

/-- `take` (ext_array.py:411-480). -/
def NArr.take (c : PCol α) (indices : List Int) (allowFill : Bool) (fill : Row α) : R (PCol α) := do
  let n := c.len
  if n = 0 ∧ indices.any (· ≥ 0) then throw .indexError
  if indices.any (fun i => i ≥ (n : Int)) then throw .indexError
  if allowFill then
    if ¬ indices.any (· < 0) then
      NArr.init (c.take (indices.map fun i => some i.toNat))
    else
      if indices.any (· < -1) then throw .valueError
      let res := c.combine.take (indices.map fun i => if i < 0 then none else some i.toNat)
      NArr.init { c with chunks := [fillMasked c.ty (indices.map (· < 0)) (boxScalar c.ty fill) res] }
  else
    let idx := indices.map (normPos n)
    if idx.any Option.isNone then throw .indexError
    NArr.init (c.take idx)

def NArr.copy (c : PCol α) : PCol α := c

/-- `_concat_same_type`: chunks of all inputs, in order; the constructor validates. -/
def NArr.concat (ty : List (String × String)) (cs : List (PCol α)) : R (PCol α) :=
  NArr.init { ty := ty, chunks := cs.flatMap (·.chunks) }

/-- `dropna`: `pc.drop_null` on the struct array. -/
def NArr.dropna (c : PCol α) : R (PCol α) :=
  NArr.init { c with chunks := c.chunks.map fun s => s.filter s.valid }

/-- `__getstate__` / `__setstate__`: `combine_chunks`. -/
def NArr.pickle (c : PCol α) : PCol α := { c with chunks := [c.combine] }

/-! ### element assignment -/

inductive SetVal (α : Type) where
  | scalar (r : Row α)
  | array (rs : List (Row α))

def firstIndexOf (xs : List Nat) (x : Nat) : Nat := (xs.findIdx? (· == x)).getD 0

def dedupSorted : List Nat → List Nat
  | a :: b :: rest => if a = b then dedupSorted (b :: rest) else a :: dedupSorted (b :: rest)
  | l => l

/-- `replace_with_mask` (ext_array.py:166-179) on combined storage. -/
def replaceWithMask (arr : PStruct α) (mask : List Bool) (ty : List (String × String))
    (value : List (PScalar α)) : R (PStruct α) := do
  let cum := (offsetsFrom 0 (mask.map fun b => if b then 1 else 0)).drop 1
  let vidx := cum.map fun c => c - 1
  if vidx.any (fun i => i ≥ value.length) then throw .indexError
  let bro := PStruct.ofScalars ty (vidx.map fun i => (value.getD i none))
  pure (PStruct.ifElse mask bro arr)

/-- the mask with exactly the positions `ps` set (`np_mask[key] = True`) -/
def setAt (n : Nat) (ps : List Nat) : List Bool := (List.range n).map fun i => ps.contains i

/-- `np.unique(key)`: sorted, duplicates dropped -/
def sortedUnique (ps : List Nat) : List Nat := dedupSorted (ps.mergeSort (· ≤ ·))

/-- integer positions (int, slice and integer-array keys): the mask and
    `np.unique(key, return_index=True)[1]` — for each distinct position in ascending order, the
    index of its first occurrence in the key -/
def fromPositions (n : Nat) (ps : List Nat) : List Bool × Option (List Nat) :=
  (setAt n ps, some ((sortedUnique ps).map (firstIndexOf ps)))

/-- the target mask of an assignment and, for positional keys, the order in which the values are
    consumed: ext_array.py `__setitem__`, first half -/
def setItemMask (n : Nat) (k : Key) : R (List Bool × Option (List Nat)) :=
  match k with
  | .int i => match normPos n i with
    | none => .error .indexError
    | some j => pure (fromPositions n [j])
  | .slice a b st => do
    let (a', b', st') ← sliceIndices n a b st
    pure (fromPositions n (rangeList a' b' st'))
  | .mask m => if m.length ≠ n then .error .indexError else pure (m, none)
  | .ints is =>
    let idx := is.map (normPos n)
    if idx.any Option.isNone then .error .indexError
    else pure (fromPositions n (idx.filterMap id))

/-- `replace_with_mask` on the combined storage, then the validated replacement of the array's
    data (`_replace_chunked_array(..., validate=True)`): ext_array.py `__setitem__`, last line -/
def setItemFinish (c : PCol α) (mask : List Bool) (vals : List (PScalar α)) : R (PCol α) := do
  let res ← replaceWithMask c.combine mask c.ty vals
  let out : PCol α := { c with chunks := [res] }
  out.validate
  pure out

/-- the values as one boxed array: a scalar is repeated for every target
    (`pa.array([scalar] * pa.compute.sum(pa_mask))`), a sequence is boxed element-wise -/
def setItemVals (ty : List (String × String)) (cnt : Nat) (v : SetVal α) : List (PScalar α) :=
  match v with
  | .scalar r => List.replicate cnt (boxScalar ty r)
  | .array rs => rs.map (boxScalar ty)

/-- `value.take(argsort)` for positional keys -/
def setItemReorder (argsort : Option (List Nat)) (vals : List (PScalar α)) : R (List (PScalar α)) :=
  match argsort with
  | none => pure vals
  | some as =>
    if as.any (· ≥ vals.length) then .error .indexError
    else pure (as.map fun i => vals.getD i none)

/-- `__setitem__` once the key is a mask (+ value order): nothing selected, nothing to assign;
    otherwise box the value, reorder it, replace and validate -/
def setItemApply (c : PCol α) (mask : List Bool) (argsort : Option (List Nat)) (v : SetVal α) : R (PCol α) := do
  if mask.length = 0 then return c
  if ¬ mask.any id then return c
  let vals ← setItemReorder argsort (setItemVals c.ty (mask.filter id).length v)
  setItemFinish c mask vals

/-- `__setitem__` (ext_array.py:267-320). -/
def NArr.setItem (c : PCol α) (k : Key) (v : SetVal α) : R (PCol α) := do
  let (mask, argsort) ← setItemMask c.len k
  if (match k with | .ints is => is.isEmpty | .slice _ _ _ => ¬ mask.any id | _ => false) then return c
  setItemApply c mask argsort v

/-! ### field edits -/

/-- `view_fields` (ext_array.py:838-871). -/
def NArr.viewFields (c : PCol α) (fields : List String) : R (PCol α) := do
  let names ← NArr.fieldNames c
  if fields.eraseDups.length ≠ fields.length then throw .valueError
  if ¬ fields.all names.contains then throw .valueError
  let chunks ← c.chunks.mapM fun s => do
    let kids ← fields.mapM fun f => match s.kid? f with
      | some k => pure k
      | none => throw .keyError
    structFromArrays kids (some s.valid)
  pure { ty := fields.filterMap fun f => (c.ty.find? (·.1 == f)), chunks := chunks }

/-- Replace the field named `f` in place, or append it. -/
def upsertKid (kids : List (PField α)) (k : PField α) : List (PField α) :=
  if kids.any (·.name == k.name) then kids.map fun k' => if k'.name == k.name then k else k'
  else kids ++ [k]

/-- `set_list_field` (ext_array.py:922-985): `value` is the list array `pa.array(value)` gives. -/
def NArr.setListField (c : PCol α) (f : String) (ty : String) (value : PList α) (keepDtype : Bool) :
    R (PCol α) := do
  let names ← NArr.fieldNames c
  if keepDtype ∧ ¬ names.contains f then throw .valueError
  if value.len ≠ c.len then throw .valueError
  let rec go : List (PStruct α) → Nat → R (List (PStruct α))
    | [], _ => pure []
    | s :: rest, start => do
      let kid : PField α := { name := f, ty := ty, list := value.slice start s.len }
      let s' ← structFromArrays (upsertKid s.kids kid) (some s.valid)
      let rest' ← go rest (start + s.len)
      pure (s' :: rest')
  let chunks ← go c.chunks 0
  let newTy := if c.ty.any (·.1 == f) then c.ty.map fun p => if p.1 == f then (f, ty) else p
               else c.ty ++ [(f, ty)]
  let out : PCol α := { ty := newTy, chunks := chunks }
  out.validate
  pure out

inductive FlatVal (α : Type) where
  | scalar (x : α)
  | array (xs : List α)

/-- `set_flat_field` (ext_array.py:870-922). -/
def NArr.setFlatField (c : PCol α) (f : String) (ty : String) (value : FlatVal α) (keepDtype : Bool) :
    R (PCol α) := do
  let names ← NArr.fieldNames c
  if keepDtype ∧ ¬ names.contains f then throw .valueError
  let fl ← NArr.flatLength c
  let xs := match value with
    | .scalar x => List.replicate fl x
    | .array xs => xs
  if xs.length ≠ fl then throw .valueError
  let la ← listFromArrays (← NArr.listOffsets c) xs
  NArr.setListField c f ty la keepDtype

/-- `fill_field_lists` (ext_array.py:985-1020). -/
def NArr.fillFieldLists (c : PCol α) (f : String) (ty : String) (value : List α) (keepDtype : Bool) :
    R (PCol α) := do
  if value.length ≠ c.len then throw .valueError
  let ls ← NArr.listLengths c
  NArr.setFlatField c f ty (.array (repeatEach value ls)) keepDtype

/-- `pop_fields` (ext_array.py:1020-1050). -/
def NArr.popFields (c : PCol α) (fields : List String) : R (PCol α) := do
  let names ← NArr.fieldNames c
  let fs := fields.eraseDups
  if ¬ fs.all names.contains then throw .valueError
  if names.length - fs.length = 0 then throw .valueError
  let chunks ← c.chunks.mapM fun s =>
    structFromArrays (s.kids.filter fun k => ¬ fs.contains k.name) (some s.valid)
  pure { ty := c.ty.filter fun p => ¬ fs.contains p.1, chunks := chunks }

/-- `count_nested(df, nested)` without `by` (utils/utils.py): per row the length of the FIRST field's list in the list
    view (`to_lists()`), 0 where that list is null. -/
def NArr.countRecords (c : PCol α) : R (List Nat) := do
  let names ← NArr.fieldNames c
  match names with
  | [] => throw .indexError
  | f0 :: _ => do
    let ls ← NArr.iterFieldLists c f0
    pure (ls.map fun o => (o.map List.length).getD 0)

end NP
