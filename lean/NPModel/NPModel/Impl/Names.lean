/-
  NPModel.Impl.Names — implementation model of the column-path handling of nestedframe/core.py
  and nestedframe/expr.py: `_identify_aliases`, `_parse_hierarchical_components`,
  `_is_known_hierarchical_column`, `_is_known_column`, the precedence of `__getitem__` and the
  dispatch of `__setitem__`.
  `clean : Str → Str` stands for pandas' `clean_column_name` (a parameter; the harness passes the
  real values for the names of each case and checks the laws the theorems assume).
-/
import NPModel.Impl.Dtype
namespace NP

/-- Python `s.split(".")` (single-character separator) -/
def split1 (sep : Char) : Str → Str → List Str
  | [], cur => [cur.reverse]
  | c :: cs, cur => if c = sep then cur.reverse :: split1 sep cs [] else split1 sep cs (c :: cur)

def joinDot : List Str → Str
  | [] => []
  | [x] => x
  | x :: y :: rest => x ++ ['.'] ++ joinDot (y :: rest)

/-- the regex `` `[^`]+` `` applied with `re.sub`: every leftmost non-overlapping match is replaced
    by `clean(name)`; an alias `clean(name) ↦ name` is recorded when they differ.
    `scan` walks outside a quote; `quoted` walks inside one (`acc` = the name so far, reversed;
    `opened` = the text since the opening backtick, kept in case the quote never closes). -/
def takeQuoted : Str → Str → Option (Str × Str)
  | [], _ => none
  | c :: cs, acc => if c = '`' then (if acc = [] then none else some (acc.reverse, cs)) else takeQuoted cs (c :: acc)

theorem takeQuoted_shorter : ∀ (s acc name rest : Str), takeQuoted s acc = some (name, rest) → rest.length < s.length := by
  intro s
  induction s with
  | nil => intro acc name rest h; simp [takeQuoted] at h
  | cons c cs ih =>
    intro acc name rest h
    simp only [takeQuoted] at h
    split at h
    · split at h
      · simp at h
      · simp only [Option.some.injEq, Prod.mk.injEq] at h
        rw [← h.2]; simp
    · have := ih _ _ _ h
      simp; omega

def identifyAliases (clean : Str → Str) : Str → Str × List (Str × Str)
  | [] => ([], [])
  | c :: cs =>
    if c = '`' then
      match h : takeQuoted cs [] with
      | some (name, rest) =>
        have : rest.length < (c :: cs).length := by
          have := takeQuoted_shorter cs [] name rest h
          simp; omega
        let (out, al) := identifyAliases clean rest
        let cl := clean name
        (cl ++ out, if cl = name then al else (cl, name) :: al)
      | none =>
        -- an empty pair of backticks or an unclosed quote: the backtick stays
        let (out, al) := identifyAliases clean cs
        (c :: out, al)
    else
      let (out, al) := identifyAliases clean cs
      (c :: out, al)
termination_by s => s.length

/-- later matches overwrite earlier ones in the Python dict; lookup takes the LAST recorded pair -/
def aliasLookup (al : List (Str × Str)) (x : Str) : Str :=
  match (al.reverse.find? (·.1 == x)) with
  | some p => p.2
  | none => x

/-- `_parse_hierarchical_components` (core.py:212-240); `attr` = the frame's `_aliases` attribute -/
def parseComponents (clean : Str → Str) (attr : Option (List (Str × Str))) (path : Str) : List Str :=
  match attr with
  | some al => (split1 '.' path []).map (aliasLookup al)
  | none =>
    let (p, al) := identifyAliases clean path
    (split1 '.' p []).map (aliasLookup al)

structure Schema where
  base   : List Str                      -- names of all columns (base and nested), as `self.columns`
  nested : List (Str × List Str)         -- nested columns with their fields
  deriving Repr

def Schema.nestedNames (S : Schema) : List Str := S.nested.map (·.1)

/-- `_is_known_hierarchical_column` -/
def isKnownHierarchical (S : Schema) (comps : List Str) : Bool :=
  match comps with
  | b :: f :: rest =>
    match S.nested.find? (·.1 == b) with
    | some (_, fields) => fields.contains (joinDot (f :: rest))
    | none => false
  | _ => false

/-- `_is_known_column` -/
def isKnownColumn (S : Schema) (comps : List Str) : Bool :=
  S.base.contains (joinDot comps) || isKnownHierarchical S comps

inductive Resolved where
  | column (name : Str)                  -- a whole column of the frame
  | field (nest field : Str)
  | newField (nest field : Str)          -- setitem: a new field of an existing nest
  | newNest (nest field : Str)           -- setitem: a new nested column
  | keyError
  | valueError
  deriving Repr, DecidableEq

/-- `NestedFrame.__getitem__` on a string (core.py:343-374) -/
def getitemResolve (clean : Str → Str) (attr : Option (List (Str × Str))) (S : Schema) (item : Str) : Resolved :=
  if S.base.contains item then .column item
  else
    let comps := parseComponents clean attr item
    let cleaned := joinDot comps
    if S.base.contains cleaned then .column cleaned
    else if isKnownHierarchical S comps then
      match comps with
      | n :: rest => .field n (joinDot rest)
      | [] => .keyError
    else .keyError

/-- `NestedFrame.__setitem__` dispatch (core.py:376-415) -/
def setitemResolve (clean : Str → Str) (attr : Option (List (Str × Str))) (S : Schema) (key : Str) : Resolved :=
  let comps := parseComponents clean attr key
  if isKnownHierarchical S comps ∨ (comps.length > 1 ∧ S.nestedNames.contains (comps.headD [])) then
    match comps with
    | [n, f] => if isKnownHierarchical S comps then .field n f else .newField n f
    | _ => .valueError
  else
    match comps with
    | [n, f] => .newNest n f
    | [_] => .column key
    | _ => .valueError

end NP
