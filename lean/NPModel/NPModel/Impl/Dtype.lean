/-
  NPModel.Impl.Dtype — implementation model of series/dtype.py: the string name of a nested
  dtype and its parser, over lists of characters with Python's `str.split` semantics.
  `τ` is the catalogue of element types; `render : τ → Str` stands for `str(pa_type)` and
  `alias? : Str → Option τ` for `pa.type_for_alias` (parameters, see DESIGN.md §8).
-/
import NPModel.Basic
namespace NP

abbrev Str := List Char

/-- Python `s.split(sep)` for the two-character separator `a b`: cut at every occurrence,
    scanning left to right (`cur` = the current part, reversed). -/
def split2 (a b : Char) : Str → Str → List Str
  | [], cur => [cur.reverse]
  | [c], cur => [(c :: cur).reverse]
  | c :: d :: rest, cur =>
    if c = a ∧ d = b then cur.reverse :: split2 a b rest []
    else split2 a b (d :: rest) (c :: cur)

/-- Python `s.split(sep, maxsplit=1)`: `none` when the separator does not occur. -/
def splitOnce2 (a b : Char) : Str → Str → Option (Str × Str)
  | [], _ => none
  | [_], _ => none
  | c :: d :: rest, cur =>
    if c = a ∧ d = b then some (cur.reverse, rest)
    else splitOnce2 a b (d :: rest) (c :: cur)

def stripPrefix? : Str → Str → Option Str
  | [], s => some s
  | _ :: _, [] => none
  | p :: ps, c :: cs => if p = c then stripPrefix? ps cs else none

/-- `s.removesuffix(suf)` when `s.endswith(suf)` -/
def stripSuffix? (suf s : Str) : Option Str := (stripPrefix? suf.reverse s.reverse).map List.reverse

def intercalateStr (sep : Str) : List Str → Str
  | [] => []
  | [x] => x
  | x :: y :: rest => x ++ sep ++ intercalateStr sep (y :: rest)

variable {τ : Type}

def sNested : Str := ['n', 'e', 's', 't', 'e', 'd', '<']

/-- `NestedDtype.name` (dtype.py:38-42) -/
def fieldString (render : τ → Str) (f : Str × τ) : Str := f.1 ++ [':', ' ', '['] ++ render f.2 ++ [']']

def dtypeName (render : τ → Str) (d : List (Str × τ)) : Str :=
  sNested ++ intercalateStr [',', ' '] (d.map (fieldString render)) ++ ['>']

/-- `fields[name] = type` on an insertion-ordered dict -/
def dictSet (d : List (Str × τ)) (n : Str) (t : τ) : List (Str × τ) :=
  if d.any (·.1 == n) then d.map fun p => if p.1 == n then (n, t) else p else d ++ [(n, t)]

inductive ParseErr where | typeError deriving Repr, DecidableEq

/-- one `name: [type]` piece (dtype.py:66-98) -/
def parseField (alias? : Str → Option τ) (fs : Str) : Except ParseErr (Str × τ) :=
  match splitOnce2 ':' ' ' fs [] with
  | none => .error .typeError
  | some (name, ty) =>
    match stripPrefix? ['['] ty with
    | none => .error .typeError
    | some inner =>
      match stripSuffix? [']'] inner with
      | none => .error .typeError
      | some valueType =>
        match alias? valueType with
        | some t => .ok (name, t)
        | none => .error .typeError

/-- `NestedDtype.construct_from_string` (dtype.py:52-109) -/
def constructFromString (alias? : Str → Option τ) (s : Str) : Except ParseErr (List (Str × τ)) :=
  match stripPrefix? sNested s with
  | none => .error .typeError
  | some rest =>
    match stripSuffix? ['>'] rest with
    | none => .error .typeError
    | some body =>
      (split2 ',' ' ' body []).foldlM (fun acc fs => do
        let (n, t) ← parseField alias? fs
        pure (dictSet acc n t)) []

end NP
