/-
  NPModel.Impl.Accessor — implementation model of series/accessor.py (the `.nest` accessor)
  and series/packer.py.
-/
import NPModel.Impl.ExtArray
namespace NP
variable {α : Type}

/-- A pandas Series of nested dtype: index labels, name and the extension array's storage. -/
structure NSeries (α : Type) where
  index : List Label
  col   : PCol α
  deriving Repr

/-- A flat pandas DataFrame: index labels and typed columns. -/
structure FlatDF (α : Type) where
  index : List Label
  cols  : List (String × String × List α)
  deriving Repr

/-- A DataFrame of list-valued Arrow columns (one `Option (List α)` per row and column). -/
structure ListDF (α : Type) where
  index : List Label
  cols  : List (String × String × List (Option (List α)))
  deriving Repr

/-- `get_flat_index` (accessor.py): `np.repeat(index, np.diff(list_offsets))`. -/
def NSeries.getFlatIndex (s : NSeries α) : R (List Label) := do
  pure (repeatEach s.index (diffs (← NArr.listOffsets s.col)))

/-- flat values of one field, chunk by chunk: `struct_array.field(f).flatten()`. -/
def flatOfChunk (f : String) (s : PStruct α) : R (List α) :=
  match s.kid? f with
  | some k => pure k.list.flatten
  | none => .error .keyError

def NArr.flatField (c : PCol α) (f : String) : R (List α) := do
  let per ← c.chunks.mapM (flatOfChunk f)
  pure per.flatten

def tyOf (c : PCol α) (f : String) : String := ((c.ty.find? (·.1 == f)).map (·.2)).getD ""

/-- `to_flat` (accessor.py:86-135). pandas refuses columns whose length differs from the index. -/
def NSeries.toFlat (s : NSeries α) (fields : Option (List String)) : R (FlatDF α) := do
  let fields ← (match fields with | some fs => pure fs | none => NArr.fieldNames s.col)
  if fields.isEmpty then throw .valueError
  let index ← s.getFlatIndex
  let cols ← fields.mapM fun f => do
    let v ← NArr.flatField s.col f
    if v.length ≠ index.length then throw .valueError
    pure (f, tyOf s.col f, v)
  pure { index := index, cols := cols }

/-- `to_lists` (accessor.py:43-84): the child list arrays as they are (struct validity not applied). -/
def NSeries.toLists (s : NSeries α) (fields : Option (List String)) : R (ListDF α) := do
  let fields ← (match fields with | some fs => pure fs | none => NArr.fieldNames s.col)
  if fields.isEmpty then throw .valueError
  let cols ← fields.mapM fun f => do
    pure (f, tyOf s.col f, ← NArr.iterFieldLists s.col f)
  pure { index := s.index, cols := cols }

def NSeries.getFlatSeries (s : NSeries α) (f : String) : R (List Label × List α) := do
  let v ← NArr.flatField s.col f
  let idx ← s.getFlatIndex
  if v.length ≠ idx.length then throw .valueError
  pure (idx, v)

def NSeries.getListSeries (s : NSeries α) (f : String) : R (List Label × List (Option (List α))) := do
  pure (s.index, ← NArr.iterFieldLists s.col f)

def NSeries.withFlatField (s : NSeries α) (f ty : String) (v : FlatVal α) : R (NSeries α) := do
  pure { s with col := ← NArr.setFlatField (NArr.copy s.col) f ty v false }

def NSeries.withListField (s : NSeries α) (f ty : String) (v : PList α) : R (NSeries α) := do
  pure { s with col := ← NArr.setListField (NArr.copy s.col) f ty v false }

def NSeries.withFilledField (s : NSeries α) (f ty : String) (v : List α) : R (NSeries α) := do
  pure { s with col := ← NArr.fillFieldLists (NArr.copy s.col) f ty v false }

def NSeries.withoutField (s : NSeries α) (fs : List String) : R (NSeries α) := do
  pure { s with col := ← NArr.popFields (NArr.copy s.col) fs }

/-- `.nest[[f, …]]`. -/
def NSeries.getFields (s : NSeries α) (fs : List String) : R (NSeries α) := do
  pure { s with col := ← NArr.viewFields s.col fs }

/-- `.nest[key] = value` (accessor.py `__setitem__`): in place, dtype of the field is kept.
    `valueIndex` is the index of `value` when it is a Series. -/
def NSeries.setItem (s : NSeries α) (f ty : String) (v : FlatVal α) (valueIndex : Option (List Label)) :
    R (NSeries α) := do
  match v with
  | .scalar _ => pure { s with col := ← NArr.setFlatField s.col f ty v true }
  | .array xs =>
    if s.index.length = 0 ∧ xs.length = 0 then return s
    match valueIndex with
    | some vi => if (← s.getFlatIndex) ≠ vi then throw .valueError
    | none => pure ()
    pure { s with col := ← NArr.setFlatField s.col f ty v true }

/-! ### series/packer.py -/

/-- `pd.Index.duplicated(keep="first")`, for any label type: an element is a duplicate when an
    equal element occurred before it. -/
def dupFirstGo {β : Type} [BEq β] (seen : List β) : List β → List Bool
  | [] => []
  | l :: ls => seen.contains l :: dupFirstGo (l :: seen) ls

def dupFirstGen {β : Type} [BEq β] (labels : List β) : List Bool := dupFirstGo [] labels

def duplicatedFirst : List Label → List Bool := dupFirstGen

/-- offsets of the runs of a label sequence (`calculate_sorted_index_offsets` without the
    monotonicity check): positions of the first occurrences, then the length. -/
def packOffsets {β : Type} [BEq β] (labels : List β) : List Nat :=
  nonzeroFrom 0 ((dupFirstGen labels).map (!·)) ++ [labels.length]

def isMonotone : List Label → Bool
  | a :: b :: rest => a.le b && isMonotone (b :: rest)
  | _ => true

/-- `calculate_sorted_index_offsets` (packer.py:316-341). -/
def calculateSortedIndexOffsets (index : List Label) : R (List Nat) :=
  if ¬ isMonotone index then .error .valueError
  else pure (packOffsets index)

/-- `pack_sorted_df_into_struct` (packer.py:142-167) = `view_sorted_df_as_list_arrays` +
    `pack_lists(validate=False)`: zero-copy list views over the flat columns. -/
def packSortedDf (df : FlatDF α) : R (NSeries α) := do
  let offs ← calculateSortedIndexOffsets df.index
  let uniq := (offs.dropLast).map fun o => df.index.getD o (.int 0)
  let kids ← df.cols.mapM fun (n, t, vals) => do
    let la ← listFromArrays offs vals
    pure ({ name := n, ty := t, list := la } : PField α)
  let s ← structFromArrays kids none
  let c ← NArr.init { ty := df.cols.map fun (n, t, _) => (n, t), chunks := [s] } false
  pure { index := uniq, col := c }

/-- positions `0..n-1` stably sorted by label (`df.sort_index(kind="stable")`). -/
def stableSortPerm (index : List Label) : List Nat :=
  ((index.zipIdx).mergeSort fun a b => a.1.le b.1).map (·.2)

def FlatDF.reorder (df : FlatDF α) (perm : List Nat) (dflt : α) : FlatDF α :=
  { index := perm.map fun i => df.index.getD i (.int 0)
    cols  := df.cols.map fun (n, t, v) => (n, t, perm.map fun i => v.getD i dflt) }

/-- `pack_flat` (packer.py:62-103) without `on` (the harness applies `set_index` first). -/
def packFlat [Inhabited α] (df : FlatDF α) : R (NSeries α) :=
  packSortedDf (df.reorder (stableSortPerm df.index) default)

/-- `pack_lists` (packer.py:170-232): each column arrives as its chunks. -/
def packLists (index : List Label) (cols : List (String × String × List (PList α))) (validate : Bool) :
    R (NSeries α) := do
  let ty := cols.map fun (n, t, _) => (n, t)
  let lens := cols.map fun (_, _, chs) => chs.map PList.len
  let chunks ← (match lens with
    | [] => .error .valueError
    | l0 :: ls =>
      if ls.all (· == l0) then
        (List.range l0.length).mapM fun i =>
          structFromArrays (cols.map fun (n, t, chs) =>
            ({ name := n, ty := t, list := chs.getD i { offs := [0], valid := [], vals := [] } } : PField α)) none
      else do
        let s ← structFromArrays (cols.map fun (n, t, chs) =>
          ({ name := n, ty := t, list := PList.ofRows (chs.flatMap PList.rows) } : PField α)) none
        pure [s] : R (List (PStruct α)))
  let c ← NArr.init { ty := ty, chunks := chunks } validate
  pure { index := index, col := c }

/-- `pack_seq` (packer.py:106-139) → `from_sequence` → `_box_pa_array`: rows are boxed against
    the dtype (given, or inferred by pyarrow) and the constructor validates. -/
def packSeq (index : List Label) (ty : List (String × String)) (rows : List (Row α)) : R (NSeries α) := do
  let c ← NArr.init { ty := ty, chunks := [PStruct.ofScalars ty (rows.map (boxScalar ty))] }
  pure { index := index, col := c }


/-- what `to_lists` hands to `pack_lists` PHYSICALLY (accessor.py:70-90): for every declared field the
    child list arrays of the chunks as they are (`struct_array.field(j)`: raw windows, struct validity
    not applied), one chunked array per field -/
def fieldChunks (c : PCol α) : List (String × String × List (PList α)) :=
  (List.range c.ty.length).map fun j =>
    ((c.ty.getD j ("", "")).1, (c.ty.getD j ("", "")).2,
      c.chunks.map fun s => (s.kids.getD j ⟨"", "", ⟨[0], [], []⟩⟩).list)

/-- `pack_lists(series.nest.to_lists())` -/
def NSeries.relist (s : NSeries α) : R (NSeries α) := packLists s.index (fieldChunks s.col) true

/-- `pack_seq(list(series), index=series.index, dtype=series.dtype)` -/
def NSeries.repackElements (s : NSeries α) : R (NSeries α) := packSeq s.index s.col.ty (NArr.iter s.col)

end NP
