/-
  NPModel.Impl.IO — implementation model of nestedframe/io.py `read_parquet` at the level of
  column bookkeeping (which columns come back, in which order, regrouped into which nested
  columns with which fields), and of `to_parquet` / the file as a parameter.

  ASSUMED about pyarrow (validated by the correspondence on real files):
  * `pq.read_table(columns=cols)` returns one column per requested entry, in the requested order;
    an entry `n.f` naming a field of a struct-of-lists column comes back as a list column named `f`;
  * the parquet codec returns what was written (schema, rows, order), whatever the row-group size,
    compression and encoding.
-/
import NPModel.Basic
namespace NP.IO

inductive FileCol where
  | base
  | nest (fields : List String)        -- a struct of lists
  deriving Repr, DecidableEq

inductive RetKind where
  | base                               -- not a list, not a struct
  | list                               -- a list column (a leaf of a nest, or a plain list column)
  | struct (fields : List String)
  deriving Repr, DecidableEq

/-- a requested entry, after splitting on the dot: a whole column, or one field of a nest.
    (`col_in.split(".")[0]` is the nest; pyarrow names the returned leaf column by the field.) -/
inductive Req where
  | whole (name : String)
  | leaf (nest field : String)
  deriving Repr, DecidableEq

/-- the text of the request as the user wrote it -/
def Req.text : Req → String
  | .whole n => n
  | .leaf n f => n ++ "." ++ f

/-- pyarrow's projection: the returned (name, kind) for one requested entry; `none` = not in the file -/
def project1 (schema : List (String × FileCol)) : Req → Option (String × RetKind)
  | .whole n =>
    match schema.find? (·.1 == n) with
    | some (_, .base) => some (n, .base)
    | some (_, .nest fs) => some (n, .struct fs)
    | none => none
  | .leaf n f =>
    match schema.find? (·.1 == n) with
    | some (_, .nest fs) => if fs.contains f then some (f, .list) else none
    | _ => none

inductive OutCol where
  | base (name : String)
  | nested (name : String) (fields : List String)
  | plain (name : String)              -- a list/struct column left as a plain Arrow column
  deriving Repr, DecidableEq

def OutCol.name : OutCol → String
  | .base n | .nested n _ | .plain n => n

/-- insertion-ordered dict of lists: `structures[k].append(i)` -/
def dictAppend (d : List (String × List Nat)) (k : String) (i : Nat) : List (String × List Nat) :=
  if d.any (·.1 == k) then d.map fun p => if p.1 == k then (k, p.2 ++ [i]) else p else d ++ [(k, [i])]

/-- the loop over `zip(columns, table.column_names)` (io.py:96-125): a requested entry whose text
    differs from the returned column name was a partial load of `nest` -/
def scanGo : List (Req × (String × RetKind)) → Nat → List (String × List Nat) → List String →
    List (String × List Nat) × List String
  | [], _, st, rj => (st, rj)
  | (.whole _, _) :: rest, i, st, rj => scanGo rest (i + 1) st rj
  | (.leaf nest _, (_, kind)) :: rest, i, st, rj =>
    if kind != .list then scanGo rest (i + 1) (st.filter (·.1 != nest)) (rj ++ [nest])
    else if ¬ rj.contains nest then scanGo rest (i + 1) (dictAppend st nest i) rj
    else scanGo rest (i + 1) st rj

def scanPartial (cols : List Req) (ret : List (String × RetKind)) (reject : List String) :
    List (String × List Nat) × List String :=
  scanGo (cols.zip ret) 0 [] reject

def finish (table : List (String × RetKind)) (rj : List String) : List OutCol :=
  table.map fun (n, k) => match k with
    | .base => .base n
    | .list => .plain n
    | .struct fs => if rj.contains n then .plain n else .nested n fs

def fullTable (schema : List (String × FileCol)) : List (String × RetKind) :=
  schema.map fun (n, c) => match c with
    | .base => (n, RetKind.base) | .nest fs => (n, RetKind.struct fs)

/-- `read_parquet` (io.py:14-157), column bookkeeping only -/
def readParquetCols (schema : List (String × FileCol)) (columns : Option (List Req)) (reject : List String) :
    R (List OutCol) :=
  match columns with
  | none => pure (finish (fullTable schema) reject)
  | some cols =>
    match cols.mapM (project1 schema) with
    | none => .error .other                  -- pyarrow refuses unknown columns
    | some ret =>
      let (structures, rj) := scanPartial cols ret reject
      -- "both a full and partial load of the column": a requested text equal to a regrouped nest
      if cols.any (fun c => structures.any (·.1 == c.text)) then .error .valueError
      else
        let removed := structures.flatMap (·.2)
        let kept := (ret.zipIdx.filter fun p => ¬ removed.contains p.2).map (·.1)
        let rebuilt : List (String × RetKind) := structures.map fun (n, idx) =>
          (n, RetKind.struct (idx.filterMap fun i => (ret[i]?).map (·.1)))
        pure (finish (kept ++ rebuilt) rj)

end NP.IO
