/-
  NPModel.Spec.Frame — per-row specifications of the frame-level operations (C07, C09-C13):
  what the property statements say, as functions/relations on plain lists of rows.
-/
import NPModel.Impl.Frame
import NPModel.Spec.Ops
namespace NP
namespace Spec
variable {α : Type}

/-- record `j` of a table: one cell per field -/
def Table.recordAt (t : Table α) (j : Nat) : List (String × Option α) := t.map fun (n, l) => (n, l[j]?)

def Table.nrec (t : Table α) : Nat := match t with | [] => 0 | (_, l) :: _ => l.length

/-- keep the records selected by `keep j`; a row left with no record becomes missing -/
def filterRow (keep : Table α → Nat → Bool) : Row α → Row α
  | none => none
  | some t =>
    let m := (List.range (Table.nrec t)).map (keep t)
    if m.any id then some (t.map fun (n, l) => (n, filterBy m l)) else none

/-- C07 / C12: filter inside every row, rows/labels/order untouched -/
def filterNested (keep : Table α → Nat → Bool) (rows : List (Row α)) : List (Row α) := rows.map (filterRow keep)

def queryKeep (nest : String) (e : Expr) (t : Table Cell) (j : Nat) : Bool :=
  let look : Option String → String → Option Cell
    | some l, n => if l == nest then (t.find? (·.1 == n)).map fun p => (p.2[j]?).join else none
    | none, _ => none
  match e.eval look with
  | .ok (some (.bool true)) => true
  | _ => false

def dropnaKeep (isNull : α → Bool) (how : How) (thresh : Option Nat) (subset : Option (List String))
    (t : Table α) (j : Nat) : Bool :=
  let cols := match subset with
    | none => t
    | some fs => fs.filterMap fun f => t.find? (·.1 == f)
  keepRecord isNull how thresh (cols.filterMap fun p => p.2[j]?)

/-- C13: an expression over one nest, element for element on the flat view -/
def evalFlat (nest : String) (e : Expr) (rows : List (Row Cell)) : Except EvalErr (List Cell) :=
  (rows.flatMap fun r => match r with
    | none => []
    | some t => (List.range (Table.nrec t)).map fun j => (t, j)).mapM fun (t, j) =>
      let look : Option String → String → Option Cell
        | some l, n => if l == nest then (t.find? (·.1 == n)).map fun p => (p.2[j]?).join else none
        | none, _ => none
      e.eval look

/-- C11 as a relation on one row: same records as a multiset (whole records move together),
    ordered by the keys; a row without records may come back missing or empty -/
def recordsOf (t : Table α) : List (List (Option α)) :=
  (List.range (Table.nrec t)).map fun j => t.map fun p => p.2[j]?

def countOf [DecidableEq α] (x : List (Option α)) (l : List (List (Option α))) : Nat := (l.filter (· == x)).length

def isPermOf [DecidableEq α] (a b : List (List (Option α))) : Bool :=
  a.length == b.length && a.all fun x => countOf x a == countOf x b

def sortedBy (lt : α → α → Bool) (isNull : Option α → Bool) (keys : List (String × Bool)) (naFirst : Bool)
    (t : Table α) : Bool :=
  let n := Table.nrec t
  (List.range (n - 1)).all fun j =>
    lexLe (fun a b => match a, b with | some x, some y => lt x y | _, _ => false) isNull naFirst
      (keys.map fun (f, asc) =>
        let col := ((t.find? (·.1 == f)).map (·.2)).getD []
        (asc, col[j]?, col[j+1]?))

def sortRowOk [DecidableEq α] (lt : α → α → Bool) (isNull : Option α → Bool) (keys : List (String × Bool))
    (naFirst : Bool) (before after : Row α) : Bool :=
  match before, after with
  | none, none => true
  | none, some _ => false
  | some t, none => Table.nrec t == 0
  | some t, some t' =>
    t.map (·.1) == t'.map (·.1) && isPermOf (recordsOf t) (recordsOf t') && sortedBy lt isNull keys naFirst t'

/-- C09, left join on the index: every base row gets the records carrying its label, in their
    original relative order; a missing value when there are none -/
def nestByLabel (index : List Label) (flat : FlatDF α) : List (Row α) :=
  index.map fun l =>
    let keep := flat.index.map (· == l)
    if keep.any id then some (flat.cols.map fun (n, _, v) => (n, filterBy keep v)) else none

end Spec
end NP
