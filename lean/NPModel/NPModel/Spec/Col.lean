/-
  NPModel.Spec.Col — the logical reading of a nested column: a plain list of rows,
  each row missing or a table (ordered fields, each a list of cells).
-/
import NPModel.Arrow.Kernels
namespace NP
variable {α : Type}

abbrev Table (α : Type) := List (String × List α)
abbrev Row (α : Type) := Option (Table α)

/-- Row `i` of a chunk as the user sees it (`arr[i]`): missing, or the table of the row's lists.
    A null child list under a valid struct reads as an empty list. -/
def PStruct.rowAt (s : PStruct α) (i : Nat) : Row α :=
  if s.valid.getD i false then
    some (s.kids.map fun k => (k.name, ((k.list.rows.getD i none).getD [])))
  else none

/-- Abstraction function for one chunk. -/
def PStruct.rows (s : PStruct α) : List (Row α) := (List.range s.len).map s.rowAt

/-- Abstraction function: the column as a plain list of rows. -/
def PCol.rows (c : PCol α) : List (Row α) := c.chunks.flatMap PStruct.rows

/-- number of records of a row: missing ⇒ 0, otherwise the length of the first field. -/
def Row.len : Row α → Nat
  | none => 0
  | some [] => 0
  | some ((_, l) :: _) => l.length

/-- A table is rectangular. -/
def Table.rect : Table α → Bool
  | [] => true
  | (_, l) :: rest => rest.all fun p => p.2.length = l.length

def Row.rect : Row α → Bool
  | none => true
  | some t => Table.rect t

/-- The C01 invariant at the logical level. -/
def rectRows (rows : List (Row α)) : Bool := rows.all Row.rect

def Row.fieldNames : Row α → List String
  | none => []
  | some t => t.map (·.1)

/-- The records of a row: one list of cells per record (transposition of the table). -/
def Table.records : Table α → List (List α)
  | [] => []
  | (n, l) :: rest =>
    (List.range l.length).map fun j => ((n, l) :: rest).filterMap fun p => p.2[j]?

end NP
