/-
  NPModel.Spec.Ops — logical specification of the column-level operations: what each
  operation means on a plain list of rows.  These are the shortest definitions that
  express the property statements; the theorems of NPModel.Props relate the
  implementation model to them, and the driver evaluates them on the real outputs.
-/
import NPModel.Impl.Accessor
namespace NP
variable {α : Type}

/-- A logical nested column: declared fields and the list of rows. -/
structure LCol (α : Type) where
  ty   : List (String × String)
  rows : List (Row α)
  deriving Repr, DecidableEq

def PCol.abs (c : PCol α) : LCol α := { ty := c.ty, rows := c.rows }

namespace Spec

def lens (rows : List (Row α)) : List Nat := rows.map Row.len

/-- C03 summary quantities as functions of the rows. -/
def flatLength (rows : List (Row α)) : Nat := sumNat (lens rows)
def isna (rows : List (Row α)) : List Bool := rows.map Option.isNone
def listIndex (rows : List (Row α)) : List Nat := repeatEach (List.range rows.length) (lens rows)
def flatIndex (index : List Label) (rows : List (Row α)) : List Label := repeatEach index (lens rows)

/-- the lists of field `f`, row by row (missing ⇒ no elements). -/
def fieldLists (rows : List (Row α)) (f : String) : List (List α) :=
  rows.map fun r => match r with
    | none => []
    | some t => ((t.find? (·.1 == f)).map (·.2)).getD []

def flatField (rows : List (Row α)) (f : String) : List α := (fieldLists rows f).flatten

def toFlat (index : List Label) (c : LCol α) (fields : Option (List String)) : R (FlatDF α) :=
  let fs := fields.getD (c.ty.map (·.1))
  if fs.isEmpty then .error .valueError
  else if ¬ fs.all (fun f => c.ty.any (·.1 == f)) then .error .keyError
  else pure { index := flatIndex index c.rows
              cols := fs.map fun f => (f, ((c.ty.find? (·.1 == f)).map (·.2)).getD "", flatField c.rows f) }

/-- sequence semantics (C05) -/
def getItem (rows : List (Row α)) (k : Key) : R (Sum (Row α) (List (Row α))) :=
  let n := rows.length
  match k with
  | .int i => match normPos n i with
    | none => .error .indexError
    | some j => pure (.inl (rows.getD j none))
  | .slice a b st => do
    let (a', b', st') ← sliceIndices n a b st
    pure (.inr ((rangeList a' b' st').map fun i => rows.getD i none))
  | .mask m => if m.length ≠ n then .error .indexError else pure (.inr (filterBy m rows))
  | .ints is =>
    let idx := is.map (normPos n)
    if idx.any Option.isNone then .error .indexError
    else pure (.inr (idx.map fun o => rows.getD (o.getD 0) none))

def take (rows : List (Row α)) (indices : List Int) (allowFill : Bool) (fill : Row α) : R (List (Row α)) :=
  let n := rows.length
  if allowFill then
    if indices.any (fun i => i ≥ (n : Int)) then .error .indexError
    else if indices.any (· < -1) then .error .valueError
    else pure (indices.map fun i => if i < 0 then fill else rows.getD i.toNat none)
  else
    let idx := indices.map (normPos n)
    if idx.any Option.isNone then .error .indexError
    else pure (idx.map fun o => rows.getD (o.getD 0) none)

/-- A table offered as a value for a column of type `ty`: its fields in dtype order.
    Refused (none) when ragged or when a field is absent while others hold elements. -/
def conformRow (ty : List (String × String)) (r : Row α) : Option (Row α) :=
  match r with
  | none => some none
  | some t =>
    let t' : Table α := ty.map fun (n, _) => (n, ((t.find? (·.1 == n)).map (·.2)).getD [])
    if Table.rect t' then some (some t') else none

/-- positions selected by a key, in key order. -/
def keyPositions (n : Nat) (k : Key) : R (List Nat) :=
  match k with
  | .int i => match normPos n i with
    | none => .error .indexError
    | some j => pure [j]
  | .slice a b st => do
    let (a', b', st') ← sliceIndices n a b st
    pure (rangeList a' b' st')
  | .mask m => if m.length ≠ n then .error .indexError else pure (nonzeroFrom 0 m)
  | .ints is =>
    let idx := is.map (normPos n)
    if idx.any Option.isNone then .error .indexError else pure (idx.filterMap id)

/-- the values offered: a scalar goes to every target -/
def setVals (n : Nat) (v : SetVal α) : List (Row α) :=
  match v with
  | .scalar r => List.replicate n r
  | .array rs => rs

/-- `rows[p] = vals` for the non-empty target positions `ps` (in key order), values matched to the
    targets in key order. Ragged values are refused and nothing is stored. -/
def assignVals (ty : List (String × String)) (rows : List (Row α)) (ps : List Nat) (vals : List (Row α)) :
    R (List (Row α)) := do
  if vals.length < ps.length then throw .indexError
  let conf := vals.map (conformRow ty)
  if (conf.take ps.length).any Option.isNone then throw .valueError
  let assign := List.zip ps (conf.map fun o => o.getD none)
  pure ((List.range rows.length).map fun i =>
    match assign.find? (·.1 == i) with
    | some (_, r) => r
    | none => rows.getD i none)

/-- `rows[p] = v` for the target positions `ps`; no target, no change. -/
def assignAt (ty : List (String × String)) (rows : List (Row α)) (ps : List Nat) (v : SetVal α) : R (List (Row α)) :=
  if ps.isEmpty then pure rows else assignVals ty rows ps (setVals ps.length v)

/-- `rows[k] = v` for distinct target positions. -/
def setItem (ty : List (String × String)) (rows : List (Row α)) (k : Key) (v : SetVal α) : R (List (Row α)) := do
  let ps ← keyPositions rows.length k
  assignAt ty rows ps v

def concat (cs : List (List (Row α))) : List (Row α) := cs.flatten
def dropna (rows : List (Row α)) : List (Row α) := rows.filter Option.isSome

/-! field edits (C06) -/

def Table.upsert (t : Table α) (f : String) (l : List α) : Table α :=
  if t.any (·.1 == f) then t.map fun p => if p.1 == f then (f, l) else p else t ++ [(f, l)]

def tyUpsert (ty : List (String × String)) (f t : String) : List (String × String) :=
  if ty.any (·.1 == f) then ty.map fun p => if p.1 == f then (f, t) else p else ty ++ [(f, t)]

/-- set field `f` from one list per row; the list of a row must have the row's length
    (a missing row takes no elements). -/
def setListField (c : LCol α) (f t : String) (lists : List (Option (List α))) (keep : Bool) : R (LCol α) :=
  if keep ∧ ¬ c.ty.any (·.1 == f) then .error .valueError
  else if lists.length ≠ c.rows.length then .error .valueError
  else if ¬ c.ty.all (·.1 == f) ∧
          (List.zip c.rows lists).any (fun (r, l) => (l.getD []).length ≠ r.len) then .error .valueError
  else pure { ty := tyUpsert c.ty f t
              rows := List.zipWith (fun r l => r.map fun tb => Table.upsert tb f (l.getD [])) c.rows lists }

/-- split a flat array by the rows' lengths. -/
def splitBy : List Nat → List α → List (List α)
  | [], _ => []
  | n :: ns, xs => xs.take n :: splitBy ns (xs.drop n)

def setFlatField (c : LCol α) (f t : String) (v : FlatVal α) (keep : Bool) : R (LCol α) :=
  if keep ∧ ¬ c.ty.any (·.1 == f) then .error .valueError
  else
    let fl := flatLength c.rows
    let xs := match v with | .scalar x => List.replicate fl x | .array xs => xs
    if xs.length ≠ fl then .error .valueError
    else setListField c f t ((splitBy (lens c.rows) xs).map some) keep

def fillFieldLists (c : LCol α) (f t : String) (v : List α) (keep : Bool) : R (LCol α) :=
  if v.length ≠ c.rows.length then .error .valueError
  else setFlatField c f t (.array (repeatEach v (lens c.rows))) keep

def viewFields (c : LCol α) (fs : List String) : R (LCol α) :=
  if fs.eraseDups.length ≠ fs.length then .error .valueError
  else if ¬ fs.all (fun f => c.ty.any (·.1 == f)) then .error .valueError
  else pure { ty := fs.filterMap fun f => c.ty.find? (·.1 == f)
              rows := c.rows.map fun r => r.map fun t => fs.filterMap fun f => t.find? (·.1 == f) }

def popFields (c : LCol α) (fs : List String) : R (LCol α) :=
  let fs := fs.eraseDups
  if ¬ fs.all (fun f => c.ty.any (·.1 == f)) then .error .valueError
  else if c.ty.length - fs.length = 0 then .error .valueError
  else pure { ty := c.ty.filter fun p => ¬ fs.contains p.1
              rows := c.rows.map fun r => r.map fun t => t.filter fun p => ¬ fs.contains p.1 }

end Spec
end NP
