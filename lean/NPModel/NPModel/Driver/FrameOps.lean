/-
  NPModel.Driver.FrameOps — protocol operations for the frame level.
-/
import NPModel.Driver.Ops
import NPModel.Spec.Frame
import NPModel.Impl.Dtype
import NPModel.Impl.Names
import NPModel.State.Kinds
import NPModel.Impl.IO
open Lean
namespace NP

partial def exprOfJson (j : Json) : P Expr := do
  match (← strOf (← fld j "op")) with
  | "field" =>
    let layer ← optOf strOf (fldD j "nest" .null)
    pure (.field layer (← strOf (← fld j "name")))
  | "const" => match (← cellOfJson (← fld j "v")) with
    | some v => pure (.const v)
    | none => throw "null constant"
  | "cmp" =>
    let o ← (match (← strOf (← fld j "c")) with
      | "<" => pure CmpOp.lt | "<=" => pure CmpOp.le | "==" => pure CmpOp.eq | "!=" => pure CmpOp.ne
      | ">=" => pure CmpOp.ge | ">" => pure CmpOp.gt | c => throw s!"bad cmp {c}")
    pure (.cmp o (← exprOfJson (← fld j "l")) (← exprOfJson (← fld j "r")))
  | "ar" =>
    let o ← (match (← strOf (← fld j "c")) with
      | "+" => pure ArOp.add | "-" => pure ArOp.sub | "*" => pure ArOp.mul | c => throw s!"bad arith {c}")
    pure (.ar o (← exprOfJson (← fld j "l")) (← exprOfJson (← fld j "r")))
  | "and" => pure (.and (← exprOfJson (← fld j "l")) (← exprOfJson (← fld j "r")))
  | "or" => pure (.or (← exprOfJson (← fld j "l")) (← exprOfJson (← fld j "r")))
  | "not" => pure (.not (← exprOfJson (← fld j "e")))
  | o => throw s!"bad expr op {o}"

def frameOfJson (j : Json) : P (NFrame Cell) := do
  let cols ← listOf (fun p => do
    let a ← arrOf p
    let n ← strOf a[0]!
    match (← strOf a[1]!) with
    | "base" => pure (n, ColData.base (← strOf a[2]!) (← listOf cellOfJson a[3]!))
    | _ => pure (n, ColData.nest (← pcolOfJson a[2]!))) (← fld j "cols")
  pure { index := ← listOf labelOfJson (← fld j "index"), cols := cols }

def frameToJson (F : NFrame Cell) : Json :=
  Json.mkObj [("index", jList labelToJson F.index),
    ("cols", jList (fun (p : String × ColData Cell) => match p.2 with
      | .base t v => Json.arr #[.str p.1, .str "base", .str t, jList cellToJson v]
      | .nest c => Json.arr #[.str p.1, .str "nest", pcolToJson c]) F.cols)]

/-- logical frame for spec outputs: nested columns as rows -/
def specFrameToJson (index : List Label) (cols : List (String × Sum (String × List Cell) (LCol Cell))) : Json :=
  Json.mkObj [("index", jList labelToJson index),
    ("cols", jList (fun (p : String × Sum (String × List Cell) (LCol Cell)) => match p.2 with
      | .inl (t, v) => Json.arr #[.str p.1, .str "base", .str t, jList cellToJson v]
      | .inr c => Json.arr #[.str p.1, .str "nest", lcolToJson c]) cols)]

def absFrame (F : NFrame Cell) : List (String × Sum (String × List Cell) (LCol Cell)) :=
  F.cols.map fun (n, d) => match d with
    | .base t v => (n, .inl (t, v))
    | .nest c => (n, .inr c.abs)

def withNest (cols : List (String × Sum (String × List Cell) (LCol Cell))) (n : String) (c : LCol Cell) :=
  if cols.any (·.1 == n) then cols.map fun p => if p.1 == n then (n, Sum.inr c) else p else cols ++ [(n, Sum.inr c)]

def howOfJson (j : Json) : P How := do
  match (← strOf j) with | "any" => pure .any | "all" => pure .all | h => throw s!"bad how {h}"

def joinOfJson (j : Json) : P JoinHow := do
  match (← strOf j) with
  | "left" => pure .left | "right" => pure .right | "inner" => pure .inner | "outer" => pure .outer
  | h => throw s!"bad join {h}"

def rargToJson : RArg Cell → Json
  | .scalar x => Json.mkObj [("scalar", cellToJson x)]
  | .array xs => Json.mkObj [("array", jOpt (jList cellToJson) xs)]

def typedColsOfJson (j : Json) : P (List (String × String × List Cell)) :=
  listOf (fun p => do
    let a ← arrOf p
    pure (← strOf a[0]!, ← strOf a[1]!, ← listOf cellOfJson a[2]!)) j

def runFrameOp (op : String) (j : Json) : P (Json × Json) := do
  match op with
  | "frame.query" => do
    let F ← frameOfJson (← fld j "frame")
    let e ← exprOfJson (← fld j "expr")
    let model := resJson (frameToJson <$> F.query e)
    -- spec
    let spec : Json := match e.layers with
      | [some nest] => match F.nest? nest with
        | .ok c => resJson (pure (specFrameToJson F.index (withNest (absFrame F) nest
                      { ty := c.ty, rows := Spec.filterNested (Spec.queryKeep nest e) c.rows })))
        | .error err => resJson (.error err)
      | [] | [none] => .null
      | _ => resJson (.error .valueError)
    pure (model, spec)
  | "frame.eval" => do
    let F ← frameOfJson (← fld j "frame")
    let e ← exprOfJson (← fld j "expr")
    let enc := fun (p : List Label × String × List Cell) =>
      Json.mkObj [("index", jList labelToJson p.1), ("ty", .str p.2.1), ("vals", jList cellToJson p.2.2)]
    let spec : Json := match e.layers with
      | [some nest] => match F.nest? nest with
        | .ok c => match Spec.evalFlat nest e c.rows with
          | .ok vals => resJson (pure (enc (Spec.flatIndex F.index c.rows, e.ty (fun _ n => tyOf c n), vals)))
          | .error err => resJson (.error (evalErrToPy err))
        | .error err => resJson (.error err)
      | _ => .null
    pure (resJson (enc <$> F.evalExpr e), spec)
  | "frame.evalAssign" => do
    let F ← frameOfJson (← fld j "frame")
    let e ← exprOfJson (← fld j "expr")
    let nest ← strOf (← fld j "nest"); let field ← strOf (← fld j "field")
    pure (resJson (frameToJson <$> F.evalAssign nest field e), .null)
  | "frame.dropna" => do
    let F ← frameOfJson (← fld j "frame")
    let nest ← strOf (← fld j "nest")
    let how ← howOfJson (fldD j "how" (.str "any"))
    let thresh ← optOf natOf (fldD j "thresh" .null)
    let subset ← optOf (listOf strOf) (fldD j "subset" .null)
    let spec : Json := match F.nest? nest with
      | .ok c =>
        if (subset.getD []).all (fun f => c.ty.any (·.1 == f)) then
          resJson (pure (specFrameToJson F.index (withNest (absFrame F) nest
            { ty := c.ty, rows := Spec.filterNested (Spec.dropnaKeep cellIsNull how thresh subset) c.rows })))
        else resJson (.error .keyError)
      | .error err => resJson (.error err)
    pure (resJson (frameToJson <$> NFrame.dropnaNested cellIsNull F nest how thresh subset), spec)
  | "frame.dropnaTarget" => do
    let nested ← listOf strOf (← fld j "nested")
    let on ← optOf strOf (fldD j "onNested" .null)
    let subset ← optOf (listOf (listOf strOf)) (fldD j "subset" .null)
    let enc : Target → Json := fun t => match t with | .base => .str "base" | .nest n => Json.mkObj [("nest", .str n)]
    pure (resJson (enc <$> resolveDropnaTarget nested on subset), .null)
  | "names.parse" | "names.getitem" | "names.setitem" | "names.known" => do
    let path ← strOf (← fld j "path")
    let pairsOf := fun (jj : Json) => listOf (fun p => do let a ← arrOf p; pure ((← strOf a[0]!).toList, (← strOf a[1]!).toList)) jj
    let cleanTable ← pairsOf (fldD j "clean" (.arr #[]))
    let clean : Str → Str := fun s => ((cleanTable.find? (·.1 == s)).map (·.2)).getD s
    let attr ← optOf pairsOf (fldD j "aliases" .null)
    let jstr := fun (s : Str) => Json.str (String.ofList s)
    if op == "names.parse" then
      pure (Json.mkObj [("ok", jList jstr (parseComponents clean attr path.toList))], .null)
    else
      let sj ← fld j "schema"
      let base ← listOf (fun x => do pure (← strOf x).toList) (← fld sj "base")
      let nested ← listOf (fun p => do
        let a ← arrOf p
        pure ((← strOf a[0]!).toList, ← listOf (fun x => do pure (← strOf x).toList) a[1]!)) (← fld sj "nested")
      let S : Schema := { base := base, nested := nested }
      if op == "names.known" then
        -- `_is_known_column` / `_is_known_hierarchical_column` on the parsed components
        let comps := parseComponents clean attr path.toList
        return (Json.mkObj [("ok", Json.mkObj [("column", .bool (isKnownColumn S comps)),
                                               ("hierarchical", .bool (isKnownHierarchical S comps))])], .null)
      let r := if op == "names.getitem" then getitemResolve clean attr S path.toList else setitemResolve clean attr S path.toList
      let enc : Resolved → Json := fun r => match r with
        | .column n => Json.mkObj [("column", jstr n)]
        | .field n f => Json.mkObj [("field", Json.arr #[jstr n, jstr f])]
        | .newField n f => Json.mkObj [("newField", Json.arr #[jstr n, jstr f])]
        | .newNest n f => Json.mkObj [("newNest", Json.arr #[jstr n, jstr f])]
        | .keyError => Json.mkObj [("err", .str "KeyError")]
        | .valueError => Json.mkObj [("err", .str "ValueError")]
      pure (enc r, .null)
  | "kinds.run" => do
    -- closure model: apply a chain of abstract operations to the kinds of a frame
    let kindOf := fun (jj : Json) => do
      match jj with
      | .str "base" => pure State.ColKind.base
      | .str "degraded" => pure State.ColKind.degraded
      | other => pure (State.ColKind.nested (← listOf strOf other))
    let cols ← listOf (fun p => do let a ← arrOf p; pure (← strOf a[0]!, ← kindOf a[1]!)) (← fld j "cols")
    let ops ← listOf (fun o => do
      match (← strOf (← fld o "op")) with
      | "rowOp" => pure State.KOp.rowOp
      | "addField" => pure (State.KOp.addField (← strOf (← fld o "nest")) (← strOf (← fld o "field")))
      | "dropField" => pure (State.KOp.dropField (← strOf (← fld o "nest")) (← strOf (← fld o "field")))
      | "addNested" => pure (State.KOp.addNested (← strOf (← fld o "name")) (← listOf strOf (← fld o "fields")))
      | "addBase" => pure (State.KOp.addBase (← strOf (← fld o "name")))
      | "selectCols" => pure (State.KOp.selectCols (← listOf strOf (← fld o "names")))
      | x => throw s!"bad kind op {x}") (← fld j "ops")
    let F : State.FKind := { isNestedFrame := true, cols := cols }
    let R := F.run ops
    let enc : State.ColKind → Json := fun k => match k with
      | .base => .str "base" | .degraded => .str "degraded" | .nested fs => jList Json.str fs
    pure (Json.mkObj [("isNestedFrame", .bool R.isNestedFrame),
                      ("cols", jList (fun (p : String × State.ColKind) => Json.arr #[.str p.1, enc p.2]) R.cols),
                      ("nested_columns", jList Json.str R.nestedColumns)], .null)
  | "io.readCols" => do
    let schema ← listOf (fun p => do
      let a ← arrOf p
      match a[1]! with
      | .str "base" => pure (← strOf a[0]!, IO.FileCol.base)
      | other => pure (← strOf a[0]!, IO.FileCol.nest (← listOf strOf other))) (← fld j "schema")
    let colStrs ← optOf (listOf strOf) (fldD j "columns" .null)
    -- the text of a request is split on the dot unless it names a column of the file as it is
    let toReq := fun (c : String) =>
      if schema.any (·.1 == c) then IO.Req.whole c
      else match c.splitOn "." with
        | [n, f] => IO.Req.leaf n f
        | _ => IO.Req.whole c
    let columns := colStrs.map (·.map toReq)
    let reject ← listOf strOf (fldD j "reject" (.arr #[]))
    let enc : IO.OutCol → Json := fun c => match c with
      | .base n => Json.arr #[.str n, .str "base"]
      | .plain n => Json.arr #[.str n, .str "plain"]
      | .nested n fs => Json.arr #[.str n, jList Json.str fs]
    pure (resJson ((jList enc) <$> IO.readParquetCols schema columns reject), .null)
  | "dtype.parse" => do
    let str ← strOf (← fld j "string")
    let table ← listOf (fun p => do let a ← arrOf p; pure ((← strOf a[0]!).toList, ← strOf a[1]!)) (← fld j "aliases")
    let alias? : Str → Option String := fun s => (table.find? (·.1 == s)).map (·.2)
    let enc := fun (d : List (Str × String)) => jList (fun (p : Str × String) => Json.arr #[.str (String.ofList p.1), .str p.2]) d
    pure (match constructFromString alias? str.toList with
      | .ok d => Json.mkObj [("ok", enc d)]
      | .error _ => Json.mkObj [("err", .str "TypeError")], .null)
  | "dtype.name" => do
    let fields ← listOf (fun p => do let a ← arrOf p; pure ((← strOf a[0]!).toList, ← strOf a[1]!)) (← fld j "fields")
    pure (Json.mkObj [("ok", .str (String.ofList (dtypeName (fun (t : String) => t.toList) fields)))], .null)
  | "frame.sort" => do
    let F ← frameOfJson (← fld j "frame")
    let nest ← strOf (← fld j "nest")
    let keys ← listOf (fun p => do let a ← arrOf p; pure (← strOf a[0]!, ← boolOf a[1]!)) (← fld j "keys")
    let naFirst ← boolOf (fldD j "naFirst" (.bool false))
    pure (resJson (frameToJson <$> NFrame.sortNested cellLt cellIsNull F nest keys naFirst), .null)
  | "frame.sortCheck" => do
    -- relation check of C11 on (before, after) rows of one nested column
    let before ← listOf rowOfJson (← fld j "before")
    let after ← listOf rowOfJson (← fld j "after")
    let keys ← listOf (fun p => do let a ← arrOf p; pure (← strOf a[0]!, ← boolOf a[1]!)) (← fld j "keys")
    let naFirst ← boolOf (fldD j "naFirst" (.bool false))
    let isNullO : Option Cell → Bool := fun o => match o with | some (some _) => false | _ => true
    let ltC : Cell → Cell → Bool := cellLt
    let oks := List.zipWith (Spec.sortRowOk ltC isNullO keys naFirst) before after
    pure (Json.mkObj [("ok", .bool (before.length == after.length && oks.all id)), ("rows", jList Json.bool oks)], .null)
  | "frame.addNested" => do
    let F ← frameOfJson (← fld j "frame")
    let flat ← flatOfJson (← fld j "flat")
    let name ← strOf (← fld j "name")
    let how ← joinOfJson (fldD j "how" (.str "left"))
    let spec : Json := if how == .left then
        resJson (pure (specFrameToJson F.index (withNest (absFrame F) name
          { ty := flat.cols.map fun (n, t, _) => (n, t), rows := Spec.nestByLabel F.index flat })))
      else .null
    pure (resJson (frameToJson <$> F.addNested flat name how none), spec)
  | "frame.fromFlat" => do
    let index ← listOf labelOfJson (← fld j "index")
    let base ← typedColsOfJson (← fld j "base")
    let nested ← typedColsOfJson (← fld j "nested")
    let name ← strOf (← fld j "name")
    pure (resJson (frameToJson <$> NFrame.fromFlat index base nested name none), .null)
  | "frame.fromLists" => do
    let index ← listOf labelOfJson (← fld j "index")
    let base ← typedColsOfJson (← fld j "base")
    let lists ← listOf (fun p => do
      let a ← arrOf p
      pure (← strOf a[0]!, ← strOf a[1]!, ← listOf plistOfJson a[2]!)) (← fld j "lists")
    let name ← strOf (← fld j "name")
    pure (resJson (frameToJson <$> NFrame.fromLists index base lists name), .null)
  | "frame.getField" => do
    let F ← frameOfJson (← fld j "frame")
    let nest ← strOf (← fld j "nest"); let field ← strOf (← fld j "field")
    pure (resJson ((fun (r : List Label × List Cell) => Json.mkObj [("index", jList labelToJson r.1), ("vals", jList cellToJson r.2)])
            <$> F.getField nest field), .null)
  | "frame.reduceCalls" => do
    let F ← frameOfJson (← fld j "frame")
    let cols ← listOf (fun p => do let a ← arrOf p; pure (← optOf strOf a[0]!, ← strOf a[1]!)) (← fld j "cols")
    pure (resJson ((jList (jList rargToJson)) <$> F.reduceCalls cols none), .null)
  | "frame.setField" => do
    let F ← frameOfJson (← fld j "frame")
    let nest ← strOf (← fld j "nest"); let field ← strOf (← fld j "field"); let ty ← strOf (← fld j "ty")
    let v ← flatValOfJson (← fld j "value")
    let vi ← optOf (listOf labelOfJson) (fldD j "valueIndex" .null)
    pure (resJson (frameToJson <$> F.setField nest field ty v vi none), .null)
  | _ => throw s!"bad-op {op}"

def handleLine2 (line : String) : String :=
  match Json.parse line with
  | .error e => (Json.mkObj [("bad", .str s!"parse: {e}")]).compress
  | .ok j =>
    let id := fldD j "id" .null
    match (do
        let op ← strOf (← fld j "op")
        if op.startsWith "frame." || op.startsWith "dtype." || op.startsWith "names." || op.startsWith "kinds." || op.startsWith "io." then runFrameOp op j else runOp op j : P (Json × Json)) with
    | .ok (m, sp) => (Json.mkObj [("id", id), ("model", m), ("spec", sp)]).compress
    | .error e => (Json.mkObj [("id", id), ("bad", .str e)]).compress

end NP
