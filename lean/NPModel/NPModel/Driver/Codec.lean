/-
  NPModel.Driver.Codec — JSON encoding of the line protocol (see DESIGN.md §5.1).
-/
import Lean.Data.Json
import NPModel.Impl.ExtArray
open Lean
namespace NP

def cellOfJson : Json → Except String Cell
  | .null => pure none
  | .bool b => pure (some (.bool b))
  | .num n => if n.exponent = 0 then pure (some (.int n.mantissa)) else throw s!"non-integer number {n}"
  | .str "nan" => pure (some .nan)
  | j@(.obj _) =>
    match j.getObjVal? "f", j.getObjVal? "s", j.getObjVal? "t" with
    | .ok (.num n), _, _ => pure (some (.flt n.mantissa))
    | _, .ok (.str s), _ => pure (some (.str s))
    | _, _, .ok (.num n) => pure (some (.ts n.mantissa))
    | _, _, _ => throw s!"bad cell {j}"
  | j => throw s!"bad cell {j}"

def cellToJson : Cell → Json
  | none => .null
  | some (.int i) => .num (JsonNumber.fromInt i)
  | some (.flt t) => Json.mkObj [("f", .num (JsonNumber.fromInt t))]
  | some .nan => .str "nan"
  | some (.str s) => Json.mkObj [("s", .str s)]
  | some (.bool b) => .bool b
  | some (.ts n) => Json.mkObj [("t", .num (JsonNumber.fromInt n))]

def arrOf (j : Json) : Except String (Array Json) :=
  match j with | .arr a => pure a | _ => throw s!"expected array, got {j.compress.take 80}"

def listOf {β} (f : Json → Except String β) (j : Json) : Except String (List β) := do
  (← arrOf j).toList.mapM f

def natOf (j : Json) : Except String Nat :=
  match j with
  | .num n => if n.exponent = 0 ∧ n.mantissa ≥ 0 then pure n.mantissa.toNat else throw s!"bad nat {j}"
  | _ => throw s!"bad nat {j}"

def intOf (j : Json) : Except String Int :=
  match j with
  | .num n => if n.exponent = 0 then pure n.mantissa else throw s!"bad int {j}"
  | _ => throw s!"bad int {j}"

def boolOf (j : Json) : Except String Bool :=
  match j with | .bool b => pure b | _ => throw s!"bad bool {j}"

def strOf (j : Json) : Except String String :=
  match j with | .str s => pure s | _ => throw s!"bad string {j}"

def optOf {β} (f : Json → Except String β) (j : Json) : Except String (Option β) :=
  match j with | .null => pure none | j => some <$> f j

def fld (j : Json) (k : String) : Except String Json := j.getObjVal? k

def fldD (j : Json) (k : String) (d : Json) : Json := (j.getObjVal? k).toOption.getD d

def plistOfJson (j : Json) : Except String (PList Cell) := do
  pure { offs := ← listOf natOf (← fld j "offs"), valid := ← listOf boolOf (← fld j "valid"),
         vals := ← listOf cellOfJson (← fld j "vals") }

def tyOfJson (j : Json) : Except String (List (String × String)) :=
  listOf (fun p => do let a ← arrOf p; pure (← strOf a[0]!, ← strOf a[1]!)) j

def pstructOfJson (ty : List (String × String)) (j : Json) : Except String (PStruct Cell) := do
  let kids ← listOf plistOfJson (← fld j "kids")
  let ty' ← (match j.getObjVal? "ty" with | .ok t => tyOfJson t | _ => pure ty)
  pure { valid := ← listOf boolOf (← fld j "valid"),
         kids := List.zipWith (fun (p : String × String) l => { name := p.1, ty := p.2, list := l }) ty' kids }

def pcolOfJson (j : Json) : Except String (PCol Cell) := do
  let ty ← tyOfJson (← fld j "ty")
  pure { ty := ty, chunks := ← listOf (pstructOfJson ty) (← fld j "chunks") }

def plsOfJson (ty : List (String × String)) (j : Json) : Except String (PLS Cell) := do
  let vs ← listOf (listOf cellOfJson) (← fld j "fields")
  pure { offs := ← listOf natOf (← fld j "offs"), valid := ← listOf boolOf (← fld j "valid"),
         fields := List.zipWith (fun (p : String × String) v => (p.1, p.2, v)) ty vs }

/-- Python-level row: null or an ordered list of `[name, [cells]]`. -/
def rowOfJson (j : Json) : Except String (Row Cell) :=
  optOf (listOf fun p => do let a ← arrOf p; pure (← strOf a[0]!, ← listOf cellOfJson a[1]!)) j

def jList {β} (f : β → Json) (l : List β) : Json := .arr (l.map f).toArray
def jNat (n : Nat) : Json := .num (JsonNumber.fromNat n)
def jInt (n : Int) : Json := .num (JsonNumber.fromInt n)
def jOpt {β} (f : β → Json) : Option β → Json | none => .null | some x => f x

def rowToJson (r : Row Cell) : Json :=
  jOpt (jList fun (p : String × List Cell) => .arr #[.str p.1, jList cellToJson p.2]) r

def tyToJson (ty : List (String × String)) : Json :=
  jList (fun (p : String × String) => .arr #[.str p.1, .str p.2]) ty

def scalarToJson (s : PScalar Cell) : Json := jOpt (jList (jOpt (jList cellToJson))) s

/-- Logical rendering of a column result. -/
def pcolToJson (c : PCol Cell) : Json :=
  Json.mkObj [("ty", tyToJson c.ty), ("rows", jList rowToJson c.rows),
              ("nchunks", jNat c.chunks.length)]

def keyOfJson (j : Json) : Except String Key := do
  match (← strOf (← fld j "k")) with
  | "int" => pure (.int (← intOf (← fld j "i")))
  | "slice" => pure (.slice (← optOf intOf (fldD j "a" .null)) (← optOf intOf (fldD j "b" .null))
                            (← optOf intOf (fldD j "s" .null)))
  | "mask" => pure (.mask (← listOf boolOf (← fld j "m")))
  | "ints" => pure (.ints (← listOf intOf (← fld j "is")))
  | k => throw s!"bad key kind {k}"

end NP
