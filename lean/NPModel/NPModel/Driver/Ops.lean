/-
  NPModel.Driver.Ops — dispatch of protocol operations to the implementation model.
-/
import NPModel.Driver.Codec
import NPModel.Impl.Accessor
import NPModel.Spec.Ops
open Lean
namespace NP

abbrev P := Except String   -- protocol errors (malformed request), distinct from Python errors

def resJson (r : R Json) : Json :=
  match r with
  | .ok j => Json.mkObj [("ok", j)]
  | .error e => Json.mkObj [("err", .str e.name)]

def labelOfJson : Json → Except String Label
  | .num n => if n.exponent = 0 then pure (.int n.mantissa) else throw "bad label"
  | .str s => pure (.str s)
  | j => throw s!"bad label {j}"

def labelToJson : Label → Json
  | .int i => jInt i
  | .str s => .str s

def seriesOfJson (j : Json) : P (NSeries Cell) := do
  pure { index := ← listOf labelOfJson (← fld j "index"), col := ← pcolOfJson (← fld j "col") }

def seriesToJson (s : NSeries Cell) : Json :=
  Json.mkObj [("index", jList labelToJson s.index), ("col", pcolToJson s.col)]

def flatToJson (d : FlatDF Cell) : Json :=
  Json.mkObj [("index", jList labelToJson d.index),
    ("cols", jList (fun (p : String × String × List Cell) => .arr #[.str p.1, .str p.2.1, jList cellToJson p.2.2]) d.cols)]

def listDfToJson (d : ListDF Cell) : Json :=
  Json.mkObj [("index", jList labelToJson d.index),
    ("cols", jList (fun (p : String × String × List (Option (List Cell))) =>
        .arr #[.str p.1, .str p.2.1, jList (jOpt (jList cellToJson)) p.2.2]) d.cols)]

def flatOfJson (j : Json) : P (FlatDF Cell) := do
  let cols ← listOf (fun p => do
      let a ← arrOf p
      pure (← strOf a[0]!, ← strOf a[1]!, ← listOf cellOfJson a[2]!)) (← fld j "cols")
  pure { index := ← listOf labelOfJson (← fld j "index"), cols := cols }

def flatValOfJson (j : Json) : P (FlatVal Cell) := do
  match j.getObjVal? "scalar" with
  | .ok x => pure (.scalar (← cellOfJson x))
  | _ => pure (.array (← listOf cellOfJson (← fld j "array")))

def setValOfJson (j : Json) : P (SetVal Cell) := do
  match j.getObjVal? "scalar" with
  | .ok x => pure (.scalar (← rowOfJson x))
  | _ => pure (.array (← listOf rowOfJson (← fld j "array")))

def plsToJson (l : PLS Cell) : Json :=
  jList (jOpt (jList fun (p : String × List Cell) => .arr #[.str p.1, jList cellToJson p.2])) l.rows

/-! ### hypotheses of the theorems, evaluated on the concrete input (the `hyp` vector) -/

/-- some missing row has a non-empty first child list ("hidden" records). -/
def PStruct.hasHidden (s : PStruct Cell) : Bool :=
  (List.range s.len).any fun i =>
    !(s.valid.getD i false) && s.kids.any fun k => ((k.list.rows.getD i none).getD []).length > 0

/-- some null child list has a non-empty extent. -/
def PList.nullNonEmpty (l : PList Cell) : Bool :=
  (List.zip l.valid (diffs l.offs)).any fun (v, d) => !v && d > 0

def hypJson (c : PCol Cell) : Json :=
  Json.mkObj [
    ("wf", .bool c.WF),
    ("rect", .bool (rectRows c.rows)),
    ("valid", .bool (match c.validate with | .ok _ => true | _ => false)),
    ("hidden", .bool (c.chunks.any PStruct.hasHidden)),
    ("nullNonEmpty", .bool (c.chunks.any fun s => s.kids.any fun k => k.list.nullNonEmpty)),
    ("zeroBased", .bool (c.chunks.all fun s => s.kids.all fun k => k.list.offs.headD 0 = 0)),
    ("nchunks", jNat c.chunks.length),
    ("missing", .bool (c.chunks.any fun s => s.valid.any (!·))),
    ("nullKid", .bool (c.chunks.any fun s => s.kids.any fun k => k.list.valid.any (!·)))]

def getResToJson : GetRes Cell → Json
  | .row r => Json.mkObj [("row", rowToJson r)]
  | .col c => Json.mkObj [("col", pcolToJson c)]

def observers (c : PCol Cell) : Json :=
  Json.mkObj [
    ("len", jNat (NArr.len c)),
    ("isna", jList Json.bool (NArr.isna c)),
    ("rows", jList rowToJson (NArr.iter c)),
    ("listLengths", resJson ((jList jNat) <$> NArr.listLengths c)),
    ("flatLength", resJson (jNat <$> NArr.flatLength c)),
    ("listOffsetsDiff", resJson ((fun o => jList jNat (diffs o)) <$> NArr.listOffsets c)),
    ("listOffsetsFirst", resJson ((fun o => jNat (o.headD 0)) <$> NArr.listOffsets c)),
    ("fieldNames", resJson ((jList Json.str) <$> NArr.fieldNames c)),
    ("getListIndex", resJson ((jList jNat) <$> NArr.getListIndex c)),
    ("countRecords", resJson ((jList jNat) <$> NArr.countRecords c)),
    ("listStruct", resJson ((fun ls => Json.arr ((ls.map plsToJson).foldl (fun acc j =>
        match j with | .arr a => acc ++ a | _ => acc) #[])) <$> NArr.listArray c))]

def lcolToJson (c : LCol Cell) : Json :=
  Json.mkObj [("ty", tyToJson c.ty), ("rows", jList rowToJson c.rows)]

def specGetToJson (ty : List (String × String)) : Sum (Row Cell) (List (Row Cell)) → Json
  | .inl r => Json.mkObj [("row", rowToJson r)]
  | .inr rs => Json.mkObj [("col", lcolToJson { ty := ty, rows := rs })]

def specObservers (c : LCol Cell) : Json :=
  Json.mkObj [
    ("len", jNat c.rows.length),
    ("isna", jList Json.bool (Spec.isna c.rows)),
    ("rows", jList rowToJson c.rows),
    ("listLengths", resJson (pure (jList jNat (Spec.lens c.rows)))),
    ("flatLength", resJson (pure (jNat (Spec.flatLength c.rows)))),
    ("listOffsetsDiff", resJson (pure (jList jNat (Spec.lens c.rows)))),
    ("listOffsetsFirst", resJson (pure (jNat 0))),
    ("fieldNames", resJson (pure (jList Json.str (c.ty.map (·.1))))),
    ("getListIndex", resJson (pure (jList jNat (Spec.listIndex c.rows)))),
    ("countRecords", resJson (pure (jList jNat (Spec.lens c.rows)))),
    ("listStruct", resJson (pure (jList (fun (r : Row Cell) => match r with
        | none => rowToJson (some (c.ty.map fun p => (p.1, [])))
        | some t => rowToJson (some t)) c.rows)))]

def seriesSpecToJson (index : List Label) (c : LCol Cell) : Json :=
  Json.mkObj [("index", jList labelToJson index), ("col", lcolToJson c)]

/-- returns the model's answer and the specification's answer (`null` where the spec is
    judged by the harness as a relation) on the abstracted input -/
def runOp (op : String) (j : Json) : P (Json × Json) := do
  match op with
  | "abs" => do
    let c ← pcolOfJson (← fld j "col")
    pure (Json.mkObj [("col", pcolToJson c), ("hyp", hypJson c),
                      ("scalars", jList scalarToJson c.scalars)], .null)
  | "observers" => do
    let c ← pcolOfJson (← fld j "col")
    pure (observers c, specObservers c.abs)
  | "getItem" => do
    let c ← pcolOfJson (← fld j "col")
    let k ← keyOfJson (← fld j "key")
    pure (resJson (getResToJson <$> NArr.getItem c k), resJson (specGetToJson c.ty <$> Spec.getItem c.rows k))
  | "take" => do
    let c ← pcolOfJson (← fld j "col")
    let idx ← listOf intOf (← fld j "indices")
    let af ← boolOf (fldD j "allowFill" (.bool false))
    let fill ← rowOfJson (fldD j "fill" .null)
    pure (resJson (pcolToJson <$> NArr.take c idx af fill),
          resJson ((fun rs => lcolToJson { ty := c.ty, rows := rs }) <$> Spec.take c.rows idx af fill))
  | "setItem" => do
    let c ← pcolOfJson (← fld j "col")
    let k ← keyOfJson (← fld j "key")
    let v ← setValOfJson (← fld j "value")
    pure (resJson (pcolToJson <$> NArr.setItem c k v),
          resJson ((fun rs => lcolToJson { ty := c.ty, rows := rs }) <$> Spec.setItem c.ty c.rows k v))
  | "concat" => do
    let cs ← listOf pcolOfJson (← fld j "cols")
    let ty ← tyOfJson (← fld j "ty")
    pure (resJson (pcolToJson <$> NArr.concat ty cs),
          resJson (pure (lcolToJson { ty := ty, rows := Spec.concat (cs.map PCol.rows) })))
  | "dropna" => do
    let c ← pcolOfJson (← fld j "col")
    pure (resJson (pcolToJson <$> NArr.dropna c), resJson (pure (lcolToJson { ty := c.ty, rows := Spec.dropna c.rows })))
  | "pickle" => do
    let c ← pcolOfJson (← fld j "col")
    pure (resJson (pure (pcolToJson (NArr.pickle c))), resJson (pure (lcolToJson c.abs)))
  | "init" => do
    let c ← pcolOfJson (← fld j "col")
    pure (resJson (pcolToJson <$> NArr.init c (← boolOf (fldD j "validate" (.bool true)))),
          if rectRows c.rows then resJson (pure (lcolToJson c.abs)) else resJson (.error .valueError))
  | "initLS" => do
    let ty ← tyOfJson (← fld j "ty")
    let chunks ← listOf (plsOfJson ty) (← fld j "chunks")
    pure (resJson (pcolToJson <$> NArr.initLS ty chunks), .null)
  | "iterFieldLists" => do
    let c ← pcolOfJson (← fld j "col")
    let f ← strOf (← fld j "field")
    pure (resJson ((jList (jOpt (jList cellToJson))) <$> NArr.iterFieldLists c f), .null)
  | "viewFields" => do
    let c ← pcolOfJson (← fld j "col")
    let fs ← listOf strOf (← fld j "fields")
    -- through the accessor (`.nest[[f, …]]`)
    pure (resJson (pcolToJson <$> (fun (s : NSeries Cell) => s.col) <$> NSeries.getFields { index := [], col := c } fs),
          resJson (lcolToJson <$> Spec.viewFields c.abs fs))
  | "popFields" => do
    let c ← pcolOfJson (← fld j "col")
    let fs ← listOf strOf (← fld j "fields")
    -- through the accessor (`.nest.without_field`)
    pure (resJson (pcolToJson <$> (fun (s : NSeries Cell) => s.col) <$> NSeries.withoutField { index := [], col := c } fs),
          resJson (lcolToJson <$> Spec.popFields c.abs fs))
  | "setListField" => do
    let c ← pcolOfJson (← fld j "col")
    let f ← strOf (← fld j "field"); let t ← strOf (← fld j "ty")
    let v ← plistOfJson (← fld j "value"); let keep ← boolOf (fldD j "keep" (.bool false))
    -- keep = false: through the accessor (`.nest.with_list_field`); keep = true: the array's own in-place call
    let r := if keep then NArr.setListField c f t v keep
             else (fun (s : NSeries Cell) => s.col) <$> NSeries.withListField { index := [], col := c } f t v
    pure (resJson (pcolToJson <$> r),
          resJson (lcolToJson <$> Spec.setListField c.abs f t v.rows keep))
  | "setFlatField" => do
    let c ← pcolOfJson (← fld j "col")
    let f ← strOf (← fld j "field"); let t ← strOf (← fld j "ty")
    let v ← flatValOfJson (← fld j "value"); let keep ← boolOf (fldD j "keep" (.bool false))
    pure (resJson (pcolToJson <$> NArr.setFlatField c f t v keep),
          resJson (lcolToJson <$> Spec.setFlatField c.abs f t v keep))
  | "fillFieldLists" => do
    let c ← pcolOfJson (← fld j "col")
    let f ← strOf (← fld j "field"); let t ← strOf (← fld j "ty")
    let v ← listOf cellOfJson (← fld j "value"); let keep ← boolOf (fldD j "keep" (.bool false))
    pure (resJson (pcolToJson <$> NArr.fillFieldLists c f t v keep),
          resJson (lcolToJson <$> Spec.fillFieldLists c.abs f t v keep))
  -- accessor
  | "toFlat" => do
    let s ← seriesOfJson (← fld j "series")
    let fs ← optOf (listOf strOf) (fldD j "fields" .null)
    pure (resJson (flatToJson <$> s.toFlat fs), resJson (flatToJson <$> Spec.toFlat s.index s.col.abs fs))
  | "toLists" => do
    let s ← seriesOfJson (← fld j "series")
    pure (resJson (listDfToJson <$> s.toLists (← optOf (listOf strOf) (fldD j "fields" .null))), .null)
  | "getFlatIndex" => do
    let s ← seriesOfJson (← fld j "series")
    pure (resJson ((jList labelToJson) <$> s.getFlatIndex),
          resJson (pure (jList labelToJson (Spec.flatIndex s.index s.col.rows))))
  | "getFlatSeries" => do
    let s ← seriesOfJson (← fld j "series")
    let f ← strOf (← fld j "field")
    let enc := fun (p : List Label × List Cell) => Json.mkObj [("index", jList labelToJson p.1), ("vals", jList cellToJson p.2)]
    pure (resJson (enc <$> s.getFlatSeries f),
          if s.col.ty.any (·.1 == f) then
            resJson (pure (enc (Spec.flatIndex s.index s.col.rows, Spec.flatField s.col.rows f)))
          else resJson (.error .keyError))
  | "getListSeries" => do
    let s ← seriesOfJson (← fld j "series")
    pure (resJson ((fun (p : List Label × List (Option (List Cell))) =>
            Json.mkObj [("index", jList labelToJson p.1), ("vals", jList (jOpt (jList cellToJson)) p.2)])
            <$> s.getListSeries (← strOf (← fld j "field"))), .null)
  | "accSetItem" => do
    let s ← seriesOfJson (← fld j "series")
    let f ← strOf (← fld j "field"); let t ← strOf (← fld j "ty")
    let v ← flatValOfJson (← fld j "value")
    let vi ← optOf (listOf labelOfJson) (fldD j "valueIndex" .null)
    pure (resJson (seriesToJson <$> s.setItem f t v vi),
          resJson ((seriesSpecToJson s.index) <$> Spec.setFlatField s.col.abs f t v true))
  -- packer
  | "packFlat" => do
    let d ← flatOfJson (← fld j "flat")
    pure (resJson (seriesToJson <$> packFlat d), .null)
  | "packSorted" => do
    let d ← flatOfJson (← fld j "flat")
    pure (resJson (seriesToJson <$> packSortedDf d), .null)
  | "packLists" => do
    let index ← listOf labelOfJson (← fld j "index")
    let cols ← listOf (fun p => do
      let a ← arrOf p
      pure (← strOf a[0]!, ← strOf a[1]!, ← listOf plistOfJson a[2]!)) (← fld j "cols")
    pure (resJson (seriesToJson <$> packLists index cols (← boolOf (fldD j "validate" (.bool true)))), .null)
  | "relist" => do
    let s ← seriesOfJson (← fld j "series")
    let empt : Table Cell := s.col.ty.map fun p => (p.1, [])
    pure (resJson (seriesToJson <$> s.relist),
          resJson (pure ((seriesSpecToJson s.index) { ty := s.col.ty, rows := s.col.rows.map fun r => some (r.getD empt) })))
  | "repackElements" => do
    let s ← seriesOfJson (← fld j "series")
    pure (resJson (seriesToJson <$> s.repackElements),
          resJson (pure ((seriesSpecToJson s.index) { ty := s.col.ty, rows := s.col.rows })))
  | "packSeq" => do
    let index ← listOf labelOfJson (← fld j "index")
    let ty ← tyOfJson (← fld j "ty")
    pure (resJson (seriesToJson <$> packSeq index ty (← listOf rowOfJson (← fld j "rows"))), .null)
  | _ => throw s!"bad-op {op}"

def handleLine (line : String) : String :=
  match Json.parse line with
  | .error e => (Json.mkObj [("bad", .str s!"parse: {e}")]).compress
  | .ok j =>
    let id := fldD j "id" .null
    match (do let op ← strOf (← fld j "op"); runOp op j : P (Json × Json)) with
    | .ok (m, sp) => (Json.mkObj [("id", id), ("model", m), ("spec", sp)]).compress
    | .error e => (Json.mkObj [("id", id), ("bad", .str e)]).compress

end NP
