/-
  C17 — The nested dtype is a faithful, stable description of the column.
  Property theorems only (helper lemmas: NPModel.Refine.DtypeParse).
-/
import NPModel.Refine.DtypeParse
import NPModel.Refine.Fields
namespace NP.C17
open NP
variable {τ : Type}

/-- **The string name parses back to an equal dtype** — for every list of fields (any number,
    any order) whose names and rendered element types do not contain the separators `", "` and
    `": "`, whose names are distinct, and whose rendered types are aliases of themselves
    (true of every non-parametric Arrow type; checked exhaustively at run time). -/
theorem name_parses_back (render : τ → Str) (alias? : Str → Option τ) (d : List (Str × τ))
    (h : NameOK render alias? d) : constructFromString alias? (dtypeName render d) = .ok d :=
  parse_name render alias? d h

/-- Hence the name is a faithful description: two dtypes with the same name are the same dtype
    (same fields, same types, same order). -/
theorem name_injective (render : τ → Str) (alias? : Str → Option τ) (d₁ d₂ : List (Str × τ))
    (h₁ : NameOK render alias? d₁) (h₂ : NameOK render alias? d₂)
    (h : dtypeName render d₁ = dtypeName render d₂) : d₁ = d₂ := by
  have e₁ := parse_name render alias? d₁ h₁
  have e₂ := parse_name render alias? d₂ h₂
  rw [h, e₂] at e₁
  exact (Except.ok.inj e₁).symm

/-- **Parametric element types are refused, never mis-parsed**: a field whose rendered type is
    not an alias makes the parser fail on that field (with the parser's only error, TypeError). -/
theorem unknown_type_refused (render : τ → Str) (alias? : Str → Option τ) (f : Str × τ)
    (hn : noPair ':' ' ' f.1 = true) (ha : alias? (render f.2) = none) :
    parseField alias? (fieldString render f) = .error .typeError := by
  unfold parseField fieldString
  have e : f.1 ++ [':', ' ', '['] ++ render f.2 ++ [']'] = f.1 ++ ':' :: ' ' :: (['['] ++ (render f.2 ++ [']'])) := by
    simp
  rw [e, splitOnce2_part_sep ':' ' ' (by decide) f.1 _ [] hn]
  simp only [List.reverse_nil, List.nil_append]
  rw [stripPrefix?_append]
  simp only
  rw [stripSuffix?_append]
  simp only [ha]

/-- … and whatever a field parses to is what the alias table says about the text between the
    brackets: the parser has no other source of types (soundness of every successful field parse). -/
theorem field_parse_sound (alias? : Str → Option τ) (s name : Str) (t : τ) (h : parseField alias? s = .ok (name, t)) :
    ∃ valueType, alias? valueType = some t := by
  unfold parseField at h
  split at h
  · simp at h
  · split at h
    · simp at h
    · split at h
      · simp at h
      · rename_i valueType _
        split at h
        · rename_i t' hal
          simp only [Except.ok.injEq, Prod.mk.injEq] at h
          exact ⟨valueType, by rw [hal, h.2]⟩
        · simp at h

/-- every failure of the parser is a TypeError -/
theorem only_type_errors (e : ParseErr) : e = .typeError := by cases e; rfl

/-- After any field edit the declared dtype is the type of the stored data: `set_list_field`
    re-derives the dtype from the new storage, whose fields are the old ones with `f` replaced in
    place or appended. -/
theorem declared_dtype_after_field_edit {α : Type} {c c' : PCol α} {f ty : String} {value : PList α} {keep : Bool}
    (h : NArr.setListField c f ty value keep = .ok c') :
    c'.ty = (if c.ty.any (·.1 == f) then c.ty.map (fun p => if p.1 == f then (f, ty) else p) else c.ty ++ [(f, ty)]) := by
  unfold NArr.setListField at h
  cases hn : NArr.fieldNames c with
  | error e => simp [hn, bind, Except.bind] at h
  | ok names =>
    cases hgo : NArr.setListField.go f ty value c.chunks 0 with
    | error e =>
      simp only [hn, hgo, bind, Except.bind, pure, Except.pure, throw, throwThe, MonadExceptOf.throw] at h
      repeat' split at h
      all_goals simp at h
    | ok chunks =>
      simp only [hn, hgo, bind, Except.bind, pure, Except.pure, throw, throwThe, MonadExceptOf.throw] at h
      repeat' split at h
      all_goals first
        | (simp at h; done)
        | (simp only [Except.ok.injEq] at h; subst h; simp_all)

/-- non-vacuity: `nested<t: [double], flux x: [int64]>` -/
example : NameOK (fun (t : Bool) => if t then "double".toList else "int64".toList)
    (fun s => if s = "double".toList then some true else if s = "int64".toList then some false else none)
    [("t".toList, true), ("flux x".toList, false)] := by
  refine ⟨by decide, ?_, ?_, ?_, ?_, ?_⟩ <;> decide

end NP.C17
