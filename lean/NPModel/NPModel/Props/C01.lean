/-
  C01 — Every nested value is a rectangular table; ragged input is refused.
  Property theorems only (helper lemmas are in NPModel.Refine.Validate / Struct / Fields).
-/
import NPModel.Refine.Validate
import NPModel.Refine.Fields
import NPModel.Refine.Samples
import NPModel.Refine.SetItemRect
namespace NP.C01
open NP
variable {α : Type}

/-- Soundness of the validator every entry point runs (`__init__`, `_replace_chunked_array`,
    `set_list_field`, `__setitem__`, `take`, `_concat_same_type`, `astype`, `read_parquet`):
    a column it accepts has a rectangular table in every non-missing row of every chunk —
    any number of chunks, any slice offsets, any buffers. -/
theorem validate_sound (c : PCol α) (hw : c.WF = true) (hne : ∀ s ∈ c.chunks, s.nullEmpty = true)
    (hv : c.validate = .ok ()) : rectRows c.rows = true :=
  PCol.validate_rect c hw hne hv

/-- Contrapositive: ragged input is refused by the validator (never accepted). -/
theorem ragged_is_refused (c : PCol α) (hw : c.WF = true) (hne : ∀ s ∈ c.chunks, s.nullEmpty = true)
    (hr : rectRows c.rows = false) : c.validate ≠ .ok () := by
  intro hv
  have := PCol.validate_rect c hw hne hv
  rw [hr] at this
  cases this

/-- Assigning a list field stores only validated storage: whatever `set_list_field` returns has
    passed the validator. -/
theorem set_list_field_validates {c c' : PCol α} {f ty : String} {value : PList α} {keep : Bool}
    (h : NArr.setListField c f ty value keep = .ok c') : c'.validate = .ok () := by
  unfold NArr.setListField at h
  cases hn : NArr.fieldNames c with
  | error e => simp [hn, bind, Except.bind] at h
  | ok names =>
    cases hgo : NArr.setListField.go f ty value c.chunks 0 with
    | error e =>
      simp only [hn, hgo, bind, Except.bind, pure, Except.pure, throw, throwThe, MonadExceptOf.throw] at h
      repeat' split at h
      all_goals simp at h
    | ok chunks =>
      simp only [hn, hgo, bind, Except.bind, pure, Except.pure, throw, throwThe, MonadExceptOf.throw] at h
      repeat' split at h
      all_goals first
        | (simp at h; done)
        | (simp only [Except.ok.injEq] at h; subst h; unfold PCol.validate at *; simp only at *; assumption)

/-- The unvalidated paths keep the invariant: a window of a rectangular chunk is rectangular
    (`__getitem__` with a slice, `iloc`, `head`, `tail`: `validate=False`). -/
theorem slice_keeps_rect (s : PStruct α) (st n : Nat) (h : st + n ≤ s.len) (hr : rectRows s.rows = true) :
    rectRows (s.slice st n).rows = true := by
  rw [PStruct.slice_rows s st n h]
  unfold rectRows at *
  rw [List.all_eq_true] at *
  intro r hr'
  exact hr r (List.mem_of_mem_drop (List.mem_of_mem_take hr'))

/-- … and so is any selection of rows by position (`take`, integer-array and mask selection,
    reordering, repeats, fill with a missing row). -/
theorem take_keeps_rect (s : PStruct α) (idx : List (Option Nat)) (hr : rectRows s.rows = true) :
    rectRows (s.take idx).rows = true := by
  rw [PStruct.take_rows s idx]
  unfold rectRows at *
  rw [List.all_eq_true] at *
  intro r hr'
  rw [List.mem_map] at hr'
  obtain ⟨o, _, rfl⟩ := hr'
  cases o with
  | none => rfl
  | some j =>
    simp only [pickRow]
    cases hj : s.rows[j]? with
    | none => rfl
    | some r => exact hr r (List.mem_of_getElem? hj)

/-- non-vacuity: the sample column (three chunks, a slice into a larger buffer, a missing row,
    a null child list) satisfies the hypotheses of `validate_sound` -/
example : Samples.c1.WF = true ∧ (∀ s ∈ Samples.c1.chunks, s.nullEmpty = true) ∧ Samples.c1.validate = .ok () := by
  decide

/-- and a ragged chunk is indeed refused by the modelled validator -/
example : (PStruct.validate { Samples.s1 with kids := [Samples.fa, { Samples.fb with list := { offs := [0, 1, 1, 3], valid := [true, true, true], vals := [7, 8, 6] } }] }) = .error .valueError := by
  decide

/-- **Element assignment never stores a ragged row** — for every column in any layout, every
    key of any kind (repeated targets included) and every value (a row or an array of rows, ragged
    or not): what `__setitem__` returns is the unchanged column or has passed the validator on
    freshly built storage, so its rows are rectangular whenever the column's were. -/
theorem setitem_never_stores_ragged (c c' : PCol α) (k : Key) (v : SetVal α) (h : NArr.setItem c k v = .ok c')
    (hr : rectRows c.rows = true) : rectRows c'.rows = true :=
  setItem_rect c c' k v h hr

/-- … and a ragged value that would be used is refused (ValueError) with nothing returned:
    statement for a boolean-mask key with one target. -/
example : (NArr.setItem Samples.c1 (.mask [true, false, false, false])
    (.scalar (some [("a", [1, 2]), ("b", [3])]))).toBool = false := by decide

/-- On canonical (freshly built) storage the validator accepts EXACTLY the aligned chunks: it is
    complete as well as sound there. -/
theorem validator_exact_on_fresh_storage (s : PStruct α) (hc : s.canonical) : s.validate = .ok () ↔ s.aligned :=
  PStruct.canonical_validate_iff s hc

end NP.C01
