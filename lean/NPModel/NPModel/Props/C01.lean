/-
  C01 — Every nested value is a rectangular table; ragged input is refused.
  Property theorems only (helper lemmas are in NPModel.Refine.Validate / Struct / Fields).
-/
import NPModel.Refine.Validate
import NPModel.Refine.Fields
import NPModel.Refine.Samples
import NPModel.Refine.SetItemRect
import NPModel.Refine.DropNa
import NPModel.Refine.ViewTrips2
namespace NP.C01
open NP
variable {α : Type}

/-- Soundness of the validator every entry point runs (`__init__`, `_replace_chunked_array`,
    `set_list_field`, `__setitem__`, `take`, `_concat_same_type`, `astype`, `read_parquet`):
    a column it accepts has a rectangular table in every non-missing row of every chunk —
    any number of chunks, any slice offsets, any buffers. -/
theorem validate_sound (c : PCol α) (hw : c.WF = true) (hne : ∀ s ∈ c.chunks, s.nullEmpty = true)
    (hv : c.validate = .ok ()) : rectRows c.rows = true :=
  PCol.validate_rect c hw hne hv

/-- Contrapositive: ragged input is refused by the validator (never accepted). -/
theorem ragged_is_refused (c : PCol α) (hw : c.WF = true) (hne : ∀ s ∈ c.chunks, s.nullEmpty = true)
    (hr : rectRows c.rows = false) : c.validate ≠ .ok () := by
  intro hv
  have := PCol.validate_rect c hw hne hv
  rw [hr] at this
  cases this

/-- Assigning a list field stores only validated storage: whatever `set_list_field` returns has
    passed the validator. -/
theorem set_list_field_validates {c c' : PCol α} {f ty : String} {value : PList α} {keep : Bool}
    (h : NArr.setListField c f ty value keep = .ok c') : c'.validate = .ok () := by
  unfold NArr.setListField at h
  cases hn : NArr.fieldNames c with
  | error e => simp [hn, bind, Except.bind] at h
  | ok names =>
    cases hgo : NArr.setListField.go f ty value c.chunks 0 with
    | error e =>
      simp only [hn, hgo, bind, Except.bind, pure, Except.pure, throw, throwThe, MonadExceptOf.throw] at h
      repeat' split at h
      all_goals simp at h
    | ok chunks =>
      simp only [hn, hgo, bind, Except.bind, pure, Except.pure, throw, throwThe, MonadExceptOf.throw] at h
      repeat' split at h
      all_goals first
        | (simp at h; done)
        | (simp only [Except.ok.injEq] at h; subst h; unfold PCol.validate at *; simp only at *; assumption)

/-- The unvalidated paths keep the invariant: a window of a rectangular chunk is rectangular
    (`__getitem__` with a slice, `iloc`, `head`, `tail`: `validate=False`). -/
theorem slice_keeps_rect (s : PStruct α) (st n : Nat) (h : st + n ≤ s.len) (hr : rectRows s.rows = true) :
    rectRows (s.slice st n).rows = true := by
  rw [PStruct.slice_rows s st n h]
  unfold rectRows at *
  rw [List.all_eq_true] at *
  intro r hr'
  exact hr r (List.mem_of_mem_drop (List.mem_of_mem_take hr'))

/-- … and so is any selection of rows by position (`take`, integer-array and mask selection,
    reordering, repeats, fill with a missing row). -/
theorem take_keeps_rect (s : PStruct α) (idx : List (Option Nat)) (hr : rectRows s.rows = true) :
    rectRows (s.take idx).rows = true := by
  rw [PStruct.take_rows s idx]
  unfold rectRows at *
  rw [List.all_eq_true] at *
  intro r hr'
  rw [List.mem_map] at hr'
  obtain ⟨o, _, rfl⟩ := hr'
  cases o with
  | none => rfl
  | some j =>
    simp only [pickRow]
    cases hj : s.rows[j]? with
    | none => rfl
    | some r => exact hr r (List.mem_of_getElem? hj)

/-- non-vacuity: the sample column (three chunks, a slice into a larger buffer, a missing row,
    a null child list) satisfies the hypotheses of `validate_sound` -/
example : Samples.c1.WF = true ∧ (∀ s ∈ Samples.c1.chunks, s.nullEmpty = true) ∧ Samples.c1.validate = .ok () := by
  decide

/-- and a ragged chunk is indeed refused by the modelled validator -/
example : (PStruct.validate { Samples.s1 with kids := [Samples.fa, { Samples.fb with list := { offs := [0, 1, 1, 3], valid := [true, true, true], vals := [7, 8, 6] } }] }) = .error .valueError := by
  decide

/-- **Element assignment never stores a ragged row** — for every column in any layout, every
    key of any kind (repeated targets included) and every value (a row or an array of rows, ragged
    or not): what `__setitem__` returns is the unchanged column or has passed the validator on
    freshly built storage, so its rows are rectangular whenever the column's were. -/
theorem setitem_never_stores_ragged (c c' : PCol α) (k : Key) (v : SetVal α) (h : NArr.setItem c k v = .ok c')
    (hr : rectRows c.rows = true) : rectRows c'.rows = true :=
  setItem_rect c c' k v h hr

/-- … and a ragged value that would be used is refused (ValueError) with nothing returned:
    statement for a boolean-mask key with one target. -/
example : (NArr.setItem Samples.c1 (.mask [true, false, false, false])
    (.scalar (some [("a", [1, 2]), ("b", [3])]))).toBool = false := by decide

/-- On canonical (freshly built) storage the validator accepts EXACTLY the aligned chunks: it is
    complete as well as sound there. -/
theorem validator_exact_on_fresh_storage (s : PStruct α) (hc : s.canonical) : s.validate = .ok () ↔ s.aligned :=
  PStruct.canonical_validate_iff s hc

/-- **The constructor never returns unvalidated storage**: whatever `__init__` (with validation, the
    default) returns has passed the equal-lengths validator, chunk by chunk — also when it had to
    supply the one empty chunk of a zero-chunk input. -/
theorem constructor_validates (c c' : PCol α) (h : NArr.init c true = .ok c') : c'.validate = .ok () := by
  unfold NArr.init at h
  simp only [if_true, bind, Except.bind, pure, Except.pure] at h
  split at h
  · cases h
  · rename_i hv
    have := (Except.ok.inj h).symm
    subst this
    exact hv

/-- **Every validating entry point of the model returns validated storage**: `pack_lists`
    (`validate=True`, behind `from_lists` / `nest_lists`), `pack_seq` / `from_sequence`, `take` in
    both modes, `_concat_same_type`, `dropna` — each ends in the constructor. -/
theorem entry_points_validate :
    (∀ (index : List Label) (cols : List (String × String × List (PList α))) (s : NSeries α),
      packLists index cols true = .ok s → s.col.validate = .ok ()) ∧
    (∀ (index : List Label) (ty : List (String × String)) (rows : List (Row α)) (s : NSeries α),
      packSeq index ty rows = .ok s → s.col.validate = .ok ()) ∧
    (∀ (ty : List (String × String)) (cs : List (PCol α)) (c' : PCol α), NArr.concat ty cs = .ok c' → c'.validate = .ok ()) ∧
    (∀ (c c' : PCol α), NArr.dropna c = .ok c' → c'.validate = .ok ()) := by
  refine ⟨?_, ?_, ?_, ?_⟩
  · intro index cols s h
    unfold packLists at h
    simp only [bind, Except.bind, pure, Except.pure] at h
    split at h
    · cases h
    · split at h
      · cases h
      · rename_i c hc
        have := (Except.ok.inj h).symm
        subst this
        exact constructor_validates _ c hc
  · intro index ty rows s h
    unfold packSeq at h
    simp only [bind, Except.bind, pure, Except.pure] at h
    split at h
    · cases h
    · rename_i c hc
      have := (Except.ok.inj h).symm
      subst this
      exact constructor_validates _ c hc
  · intro ty cs c' h
    exact constructor_validates _ c' h
  · intro c c' h
    exact constructor_validates _ c' h

/-- `take` in both modes (with or without a fill value, any fill value) returns validated storage -/
theorem take_validates (c c' : PCol α) (indices : List Int) (allowFill : Bool) (fill : Row α)
    (h : NArr.take c indices allowFill fill = .ok c') : c'.validate = .ok () := by
  unfold NArr.take at h
  simp only [bind, Except.bind, pure, Except.pure, throw, throwThe, MonadExceptOf.throw] at h
  repeat' split at h
  all_goals first
    | (cases h; done)
    | exact constructor_validates _ c' h

/-- **`pack_seq` (behind `pack(<sequence>)`, `from_sequence`, `add_nested(<sequence>)`) refuses ragged
    input**: as soon as ONE of the offered rows is not rectangular under the dtype — whatever the other
    rows are, however many — nothing is packed and the call fails with ValueError; and when every row is
    rectangular it stores exactly those rows (`C02.pack_seq_stores_the_rows`). -/
theorem pack_seq_refuses_ragged (idx : List Label) (ty : List (String × String)) (rows : List (Row α))
    (r : Row α) (hr : r ∈ rows) (hrag : Row.rect (normRow ty r) = false) :
    packSeq idx ty rows = .error .valueError :=
  packSeq_ragged idx ty rows r hr hrag

/-- non-vacuity: a dict-like row whose two fields have 2 and 1 values is ragged under its dtype -/
example : Row.rect (normRow [("a", "int64"), ("b", "int64")] (some [("a", [1, 2]), ("b", [(3 : Nat)])])) = false := by decide

end NP.C01
