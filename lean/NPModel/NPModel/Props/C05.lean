/-
  C05 — A nested column behaves like a sequence of rows.
  Property theorems only (helper lemmas are in NPModel.Refine).
-/
import NPModel.Refine.Samples
namespace NP.C05
open NP
variable {α : Type}

/-- Slicing a chunk (zero-copy window: raw offsets kept, child buffers shared) shows exactly the
    window of its rows — for every chunk, every window inside it, any offsets and any buffers. -/
theorem chunk_slice_refines (s : PStruct α) (st n : Nat) (h : st + n ≤ s.len) :
    (s.slice st n).rows = (s.rows.drop st).take n :=
  PStruct.slice_rows s st n h

/-- Taking rows of a chunk by (optionally masked) positions gives, position by position, the row
    the index points to, and a missing row for a masked index — repeats, any order, any layout. -/
theorem chunk_take_refines (s : PStruct α) (idx : List (Option Nat)) :
    (s.take idx).rows = idx.map fun o => match o with
      | none => none
      | some j => (s.rows[j]?).join :=
  PStruct.take_rows s idx

/-- non-vacuity: a sliced, non-zero-based chunk with a missing row and a null child list -/
example : (Samples.s1.slice 1 2).rows = [none, some [("a", [3]), ("b", [6])]] ∧
    (Samples.s1.take [some 2, none, some 0]).rows
      = [some [("a", [3]), ("b", [6])], none, some [("a", [1, 2]), ("b", [7, 8])]] := by
  decide

end NP.C05
