/-
  C05 — A nested column behaves like a sequence of rows.
  Property theorems only (helper lemmas are in NPModel.Refine).
-/
import NPModel.Refine.Samples
import NPModel.Refine.GetItem
import NPModel.Refine.Take
import NPModel.Refine.Slices
import NPModel.Refine.TakeFill
import NPModel.Refine.DropNa
import NPModel.Refine.CleanSelect
namespace NP.C05
open NP
variable {α : Type}

/-- Slicing a chunk (zero-copy window: raw offsets kept, child buffers shared) shows exactly the
    window of its rows — for every chunk, every window inside it, any offsets and any buffers. -/
theorem chunk_slice_refines (s : PStruct α) (st n : Nat) (h : st + n ≤ s.len) :
    (s.slice st n).rows = (s.rows.drop st).take n :=
  PStruct.slice_rows s st n h

/-- Taking rows of a chunk by (optionally masked) positions gives, position by position, the row
    the index points to, and a missing row for a masked index — repeats, any order, any layout. -/
theorem chunk_take_refines (s : PStruct α) (idx : List (Option Nat)) :
    (s.take idx).rows = idx.map (pickRow s.rows) :=
  PStruct.take_rows s idx

/-- **`column[key]` is `rows[key]`** — the whole of `NestedExtensionArray.__getitem__`, for every
    well-formed column in any physical layout (any number of chunks incl. empty ones, slices with
    raw offsets, hidden child lists) and EVERY key: an integer (negative counts from the end,
    out of range = IndexError), a slice with any start/stop/step incl. negative and zero step
    (ValueError), a boolean mask (wrong length = IndexError), an integer array with repeats and
    negatives.  Left: the implementation model on the physical storage, abstracted afterwards;
    right: the same indexing on the plain list of rows. -/
theorem getitem_refines (c : PCol α) (hw : c.WF = true) (k : Key) :
    (NArr.getItem c k).map absGet = Spec.getItem c.rows k :=
  getItem_refines c hw k

/-- Column-level `take` by positions (chunked storage): row `i` of the result is the row the
    `i`-th position points to. -/
theorem column_take_refines (c : PCol α) (hw : c.WF = true) (idx : List (Option Nat)) :
    (c.take idx).rows = idx.map (pickRow c.rows) :=
  PCol.take_rows c hw idx

/-- Boolean-mask selection on chunked storage (chunk-wise `filter`). -/
theorem column_filter_refines (c : PCol α) (hw : c.WF = true) (m : List Bool) (hm : m.length = c.len) :
    (c.filter m).rows = filterBy m c.rows :=
  PCol.filter_rows c hw m hm

/-- `ChunkedArray.slice` over any chunking reads as the slice of the rows. -/
theorem chunked_slice_refines (chunks : List (PStruct α)) (st n : Nat) :
    (chunkedSlice chunks st n).flatMap PStruct.rows = ((chunks.flatMap PStruct.rows).drop st).take n :=
  chunkedSlice_rows chunks st n

/-- Pickling (`__getstate__` = `combine_chunks`) preserves every row. -/
theorem pickle_refines (c : PCol α) (hw : c.WF = true) : (NArr.pickle c).rows = c.rows := by
  unfold NArr.pickle PCol.rows
  simp only [List.flatMap_cons, List.flatMap_nil, List.append_nil]
  exact PCol.combine_rows c hw

/-- **`take` is list `take`** (negative positions count from the end; out of range and a
    non-empty take from an empty column = IndexError), on validated storage in any layout; the
    result passes the constructor's validation. -/
theorem take_refines (c : PCol α) (hw : c.WF = true) (ha : c.aligned) (indices : List Int) (fill : Row α) :
    (NArr.take c indices false fill).map PCol.rows = Spec.take c.rows indices false fill :=
  take_refines_nofill c hw ha indices fill

/-- **`take(..., allow_fill=True, fill_value=row)` is list `take` with a fill row**: `-1` becomes
    the fill row, any other negative position is a ValueError, a position beyond the end an
    IndexError — for every validated column in any layout and every fill row that conforms to the
    dtype (`None`, or a rectangular table of the dtype's fields); the result passes the
    constructor's validation. -/
theorem take_fill_refines (c : PCol α) (hw : c.WF = true) (ha : c.aligned) (indices : List Int) (fill : Row α)
    (hfill : Spec.conformRow c.ty fill = some fill) :
    (NArr.take c indices true fill).map PCol.rows = Spec.take c.rows indices true fill :=
  take_refines_fill c hw ha indices fill hfill

/-- non-vacuity: `None` and a table with the dtype's fields conform -/
example : Spec.conformRow [("a", "int64"), ("b", "int64")] (none : Row Nat) = some none ∧
    Spec.conformRow [("a", "int64"), ("b", "int64")] (some [("a", [1, 2]), ("b", [3, 4])])
      = some (some [("a", [1, 2]), ("b", [3, 4])]) := by decide

/-- **`dropna` drops exactly the missing rows**, in order, on validated storage in any layout; the
    result passes the constructor's validation (a column left with no chunk is one empty chunk). -/
theorem dropna_refines (c : PCol α) (hw : c.WF = true) (ha : c.aligned) :
    (NArr.dropna c).map PCol.rows = .ok (Spec.dropna c.rows) :=
  NP.dropna_refines c hw ha

/-- **Concatenation is `++`**: the chunks of all inputs in order, validated. -/
theorem concat_is_append (ty : List (String × String)) (cs : List (PCol α)) (hv : ∀ c ∈ cs, c.validate = .ok ())
    (hne : cs.flatMap (·.chunks) ≠ []) :
    (NArr.concat ty cs).map PCol.rows = .ok (Spec.concat (cs.map PCol.rows)) :=
  concat_refines ty cs hv hne

/-- **`column[key] = value` is `rows[key] = value`** — the whole of
    `NestedExtensionArray.__setitem__`, for every validated column in any physical layout (any
    number of chunks, slices with raw offsets, hidden child lists), EVERY key whose targets are
    distinct — an integer (negative counts from the end; out of range = IndexError), a slice with
    any start/stop/step (negative step: values in key order; zero step = ValueError), a boolean
    mask (wrong length = IndexError), an integer array (`Key.distinct` excludes only repeated
    targets, the property's domain) — and every value: one row broadcast to all targets or an
    array of rows.  Too few values = IndexError; a ragged row among the values used = ValueError
    and nothing is stored; nothing selected = no change; otherwise the values stand at the
    targets in key order, read back through the column's dtype, and every other row — missing,
    empty or not — is unchanged.  The proof goes through `np.unique`/argsort, the mask,
    `cumsum(mask) - 1` broadcast, `if_else` and the validator of the implementation model. -/
theorem setitem_refines (c : PCol α) (hw : c.WF = true) (ha : c.aligned) (k : Key) (v : SetVal α)
    (hd : k.distinct c.len) :
    (NArr.setItem c k v).map PCol.rows = Spec.setItem c.ty c.rows k v :=
  setItem_refines c hw ha k v hd

/-- non-vacuity: keys of every kind with distinct targets exist for the 4-row sample column -/
example : (Key.int (-1)).distinct 4 ∧ (Key.slice (some 3) none (some (-2))).distinct 4 ∧
    (Key.mask [true, false, true, false]).distinct 4 ∧ (Key.ints [2, -4, 1]).distinct 4 := by
  refine ⟨trivial, trivial, trivial, ?_⟩
  show ([2, -4, 1].map (normPos 4)).filterMap id |>.Nodup
  decide

/-- **`column[mask] = value` is `rows[mask] = value`** — `NestedExtensionArray.__setitem__` with a
    boolean-mask key, for every validated column in any physical layout (chunks, slices, hidden
    child lists), every mask and every value (one row broadcast, or an array of rows): a mask of
    the wrong length and too few values are IndexErrors, a ragged row among the values used is a
    ValueError with nothing stored, nothing selected is no change; otherwise the values stand at
    the selected rows in order, read back through the column's dtype (absent field = empty
    list), and every other row — missing, empty or not — is unchanged. -/
theorem setitem_mask_refines (c : PCol α) (hw : c.WF = true) (ha : c.aligned) (m : List Bool) (v : SetVal α) :
    (NArr.setItem c (.mask m) v).map PCol.rows = Spec.setItem c.ty c.rows (.mask m) v :=
  setItem_mask_refines c hw ha m v

/-- The last step of every element assignment, whatever the key: `replace_with_mask` on the
    combined storage followed by the validated replacement either fails (IndexError for too few
    values, ValueError for a ragged value that would be used) or puts the values at the set
    positions in order and leaves every other row unchanged. -/
theorem setitem_finish (c : PCol α) (hw : c.WF = true) (ha : c.aligned) (mask : List Bool)
    (hl : mask.length = c.len) (hpos : 0 < (mask.filter id).length) (vals : List (PScalar α)) :
    (setItemFinish c mask vals).map PCol.rows =
      if vals.length < (mask.filter id).length then .error .indexError
      else if (List.range' 0 (mask.filter id).length).all (fun s => Row.rect (readBack c.ty vals s)) then
        .ok (place (readBack c.ty vals) 0 mask c.rows)
      else .error .valueError :=
  setItemFinish_spec c hw ha mask hl hpos vals

/-- validated storage is aligned, so the hypotheses of `take_refines` are met by everything the
    constructor accepts -/
theorem validated_is_aligned (c : PCol α) (hw : c.WF = true) (hne : ∀ s ∈ c.chunks, s.nullEmpty = true)
    (hv : c.validate = .ok ()) : c.aligned :=
  PCol.aligned_of_validate c hw hne hv

/-- non-vacuity for the column-level theorems: the three-chunk sample column is well formed -/
example : Samples.c1.WF = true ∧ Samples.c1.rows.length = 4 := by decide

/-- non-vacuity: a sliced, non-zero-based chunk with a missing row and a null child list -/
example : (Samples.s1.slice 1 2).rows = [none, some [("a", [3]), ("b", [6])]] ∧
    (Samples.s1.take [some 2, none, some 0]).rows
      = [some [("a", [3]), ("b", [6])], none, some [("a", [1, 2]), ("b", [7, 8])]] := by
  decide

/-- **The sequence operations keep the storage invariant**: positional `take` (both modes, missing
    fill), selection by a boolean mask and `_concat_same_type` of clean columns return `Clean`
    storage (well formed, validated, nothing hidden under missing rows) — so every theorem stated
    for clean storage applies to what they return. -/
theorem sequence_operations_keep_storage_clean :
    (∀ (c : PCol α), c.Clean → ∀ (indices : List Int) (allowFill : Bool) (c' : PCol α),
      NArr.take c indices allowFill none = .ok c' → c'.Clean ∧ c'.len = indices.length ∧ c'.chunks ≠ []) ∧
    (∀ (c : PCol α), c.Clean → c.chunks ≠ [] → ∀ (m : List Bool) (c' : PCol α),
      NArr.getItem c (.mask m) = .ok (.col c') → c'.Clean ∧ c'.chunks ≠ [] ∧ c'.rows = filterBy m c.rows) ∧
    (∀ (ty : List (String × String)), ty ≠ [] → ∀ (cs : List (PCol α)), (∀ c ∈ cs, c.Clean ∧ c.ty = ty) →
      cs.flatMap (·.chunks) ≠ [] → ∀ c', NArr.concat ty cs = .ok c' → c'.Clean ∧ c'.chunks ≠ []) :=
  ⟨fun c hc indices af c' h => take_clean c hc indices af c' h,
   fun c hc hch m c' h => getItem_mask_clean c hc hch m c' h,
   fun ty hty cs hcs hne c' h => concat_clean ty hty cs hcs hne c' h⟩

end NP.C05
