/-
  C14 — The dotted name 'nest.field' means the same thing everywhere.
  Property theorems only (helper lemmas: NPModel.Refine.NamesParse).

  After the `fix:` that routed `sort_values` and `dropna` through the common parser, every
  operation that accepts a column path (`__getitem__`, `__setitem__`, `reduce`, `sort_values`,
  `dropna`, and — through the resolver — `query`/`eval`) obtains the nest and the field from
  `_parse_hierarchical_components`; the model has ONE function for it, `parseComponents`.
-/
import NPModel.Refine.NamesParse
namespace NP.C14
open NP

/-- **Plain spelling**: `nest.field` with names free of `.` and `` ` `` parses to `[nest, field]`. -/
theorem parse_plain (clean : Str → Str) (a b : Str)
    (ha : noChar '.' a = true) (hb : noChar '.' b = true) (ha' : noChar '`' a = true) (hb' : noChar '`' b = true) :
    parseComponents clean none (a ++ '.' :: b) = [a, b] := by
  unfold parseComponents
  have hq : noChar '`' (a ++ '.' :: b) = true := by
    simp only [noChar, List.all_append, List.all_cons, Bool.and_eq_true] at *
    exact ⟨ha', by decide, hb'⟩
  simp only [identifyAliases_plain clean _ hq]
  rw [split1_part_sep '.' a b [] ha, split1_last '.' b [] hb]
  simp [aliasLookup]

/-- **Quoted spelling**: `` `nest`.`field` `` parses to `[nest, field]` for ANY names without a
    backtick — spaces, punctuation, dots, Python keywords, digits first — as long as
    `clean_column_name` yields dot-free text and does not identify the two names. -/
theorem parse_quoted (clean : Str → Str) (a b : Str)
    (ha : noChar '`' a = true) (hb : noChar '`' b = true) (hane : a ≠ []) (hbne : b ≠ [])
    (hca : noChar '.' (clean a) = true) (hcb : noChar '.' (clean b) = true)
    (hinj : clean a = clean b → a = b) :
    parseComponents clean none ('`' :: (a ++ '`' :: '.' :: '`' :: (b ++ ['`']))) = [a, b] :=
  parse_quoted_pair clean a b ha hb hane hbne hca hcb hinj

/-- … so both spellings denote the same components. -/
theorem spellings_agree (clean : Str → Str) (a b : Str)
    (ha : noChar '.' a = true) (hb : noChar '.' b = true) (ha' : noChar '`' a = true) (hb' : noChar '`' b = true)
    (hane : a ≠ []) (hbne : b ≠ [])
    (hca : noChar '.' (clean a) = true) (hcb : noChar '.' (clean b) = true) (hinj : clean a = clean b → a = b) :
    parseComponents clean none ('`' :: (a ++ '`' :: '.' :: '`' :: (b ++ ['`'])))
      = parseComponents clean none (a ++ '.' :: b) := by
  rw [parse_quoted clean a b ha' hb' hane hbne hca hcb hinj, parse_plain clean a b ha hb ha' hb']

/-- **Precedence in item access**: a base column whose name is the very text of the path wins. -/
theorem base_column_takes_precedence (clean : Str → Str) (attr : Option (List (Str × Str))) (S : Schema) (item : Str)
    (h : S.base.contains item = true) : getitemResolve clean attr S item = .column item := by
  unfold getitemResolve
  rw [if_pos h]

/-- … and so does one named like the cleaned path (backticks used although not necessary). -/
theorem cleaned_base_column_takes_precedence (clean : Str → Str) (attr : Option (List (Str × Str))) (S : Schema)
    (item : Str) (h1 : S.base.contains item = false)
    (h2 : S.base.contains (joinDot (parseComponents clean attr item)) = true) :
    getitemResolve clean attr S item = .column (joinDot (parseComponents clean attr item)) := by
  unfold getitemResolve
  rw [if_neg (by rw [h1]; decide)]
  simp only
  rw [if_pos h2]

/-- **Otherwise item access resolves exactly what the common parser and the field listing say.** -/
theorem getitem_resolves_known_field (clean : Str → Str) (attr : Option (List (Str × Str))) (S : Schema) (item n f : Str)
    (h1 : S.base.contains item = false) (hc : parseComponents clean attr item = [n, f])
    (h2 : S.base.contains (joinDot [n, f]) = false) (hk : isKnownHierarchical S [n, f] = true) :
    getitemResolve clean attr S item = .field n f := by
  unfold getitemResolve
  rw [if_neg (by rw [h1]; decide)]
  simp only [hc]
  rw [if_neg (by rw [h2]; decide), if_pos hk]
  rfl

/-- **An unknown path is an error, never a silent resolution to something else.** -/
theorem unknown_path_is_error (clean : Str → Str) (attr : Option (List (Str × Str))) (S : Schema) (item : Str)
    (h1 : S.base.contains item = false)
    (h2 : S.base.contains (joinDot (parseComponents clean attr item)) = false)
    (hk : isKnownHierarchical S (parseComponents clean attr item) = false) :
    getitemResolve clean attr S item = .keyError := by
  unfold getitemResolve
  rw [if_neg (by rw [h1]; decide)]
  simp only
  rw [if_neg (by rw [h2]; decide), if_neg (by rw [hk]; decide)]

/-- **Item assignment agrees with item access** on known fields: the same `[nest, field]`. -/
theorem setitem_resolves_known_field (clean : Str → Str) (attr : Option (List (Str × Str))) (S : Schema) (key n f : Str)
    (hc : parseComponents clean attr key = [n, f]) (hk : isKnownHierarchical S [n, f] = true) :
    setitemResolve clean attr S key = .field n f := by
  simp [setitemResolve, hc, hk]

/-- **The listing is consistent with what is accepted**: a two-component path is known exactly
    when its nest is listed and lists its field. -/
theorem listing_consistent (S : Schema) (n f : Str) :
    isKnownHierarchical S [n, f] = true ↔
      ∃ b fields, S.nested.find? (·.1 == n) = some (b, fields) ∧ fields.contains f = true := by
  show (match S.nested.find? (·.1 == n) with
        | some (_, fields) => fields.contains (joinDot [f])
        | none => false) = true ↔ _
  cases hfind : S.nested.find? (·.1 == n) with
  | none => simp
  | some p =>
    obtain ⟨b, fields⟩ := p
    simp only [joinDot]
    constructor
    · intro h; exact ⟨b, fields, rfl, h⟩
    · rintro ⟨b', fields', he, hc⟩
      simp only [Option.some.injEq, Prod.mk.injEq] at he
      rw [he.2]; exact hc

/-- non-vacuity: the hypotheses of `parse_quoted` are met by `my nest` / `b c` with a `clean` that
    replaces spaces (as pandas does) -/
example :
    let clean : Str → Str := fun s => s.map fun c => if c = ' ' then '_' else c
    let a : Str := ['m', 'y', ' ', 'n', 'e', 's', 't']; let b : Str := ['b', ' ', 'c']
    noChar '`' a = true ∧ noChar '`' b = true ∧ a ≠ [] ∧ b ≠ [] ∧ noChar '.' (clean a) = true ∧
      noChar '.' (clean b) = true ∧ (clean a = clean b → a = b) := by
  decide

end NP.C14
