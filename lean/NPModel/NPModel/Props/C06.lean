/-
  C06 — Editing one nested field changes that field and nothing else.
  Property theorems only (helper lemmas are in NPModel.Refine.Fields).
-/
import NPModel.Refine.Fields
import NPModel.Refine.FieldValues
import NPModel.Refine.Samples
import NPModel.Refine.FieldRows
namespace NP.C06
open NP
variable {α : Type}

/-- Setting a field from per-row lists (`set_list_field`, `with_list_field`): whenever the
    operation succeeds, the result has the same chunks with the same validity (so the same rows
    are missing and the number of rows is unchanged), every other field is the *same list array*
    (bit-identical buffers, types included), and field `f` holds a window of the supplied lists.
    Holds for every layout, field name (new or existing) and value. -/
theorem set_list_field_frame_condition {c c' : PCol α} {f ty : String} {value : PList α} {keep : Bool}
    (h : NArr.setListField c f ty value keep = .ok c') :
    All2 (FieldSet f ty) c.chunks c'.chunks ∧ NArr.isna c' = NArr.isna c ∧ c'.len = c.len := by
  have h2 := setListField_chunks h
  have hv := All2_valid_eq (r := FieldSet f ty) (fun _ _ hr => hr.1) h2
  exact ⟨h2, isna_of_valid_eq hv, len_of_valid_eq hv⟩

/-- The same frame condition for flat values (`set_flat_field`, `with_flat_field`, `.nest[f] = v`,
    `NestedFrame['nest.f'] = v`). -/
theorem set_flat_field_frame_condition {c c' : PCol α} {f ty : String} {value : FlatVal α} {keep : Bool}
    (h : NArr.setFlatField c f ty value keep = .ok c') :
    All2 (FieldSet f ty) c.chunks c'.chunks ∧ NArr.isna c' = NArr.isna c ∧ c'.len = c.len := by
  have h2 := setFlatField_chunks h
  have hv := All2_valid_eq (r := FieldSet f ty) (fun _ _ hr => hr.1) h2
  exact ⟨h2, isna_of_valid_eq hv, len_of_valid_eq hv⟩

/-- … and for one value per row repeated over the row's records (`fill_field_lists`,
    `with_filled_field`, base-aligned Series assigned to `NestedFrame['nest.f']`). -/
theorem fill_field_lists_frame_condition {c c' : PCol α} {f ty : String} {value : List α} {keep : Bool}
    (h : NArr.fillFieldLists c f ty value keep = .ok c') :
    All2 (FieldSet f ty) c.chunks c'.chunks ∧ NArr.isna c' = NArr.isna c ∧ c'.len = c.len := by
  have h2 := fillFieldLists_chunks h
  have hv := All2_valid_eq (r := FieldSet f ty) (fun _ _ hr => hr.1) h2
  exact ⟨h2, isna_of_valid_eq hv, len_of_valid_eq hv⟩

/-- **The edited field holds exactly the supplied values**: after `set_list_field` chunk `i`
    holds, as field `f`, the `i`-th window of the supplied list array (`pa_array[sl]`), and the
    flat view of `f` over the whole column is the flat view of the supplied list array — nothing
    lost, duplicated or reordered, for any chunking. -/
theorem edited_field_holds_supplied_values {c c' : PCol α} {f ty : String} {value : PList α} {keep : Bool}
    (h : NArr.setListField c f ty value keep = .ok c') (hvl : value.rows.length = c.len) :
    c'.chunks.map (fun s' => (s'.kid? f).map (·.list)) = (windows value c.chunks 0).map some ∧
    (c'.chunks.flatMap fun s' => ((s'.kid? f).map (·.list.flatten)).getD []) = value.flatten :=
  setListField_field_is_value h hvl

/-- The edited field is exactly the supplied list array, the others are looked up unchanged. -/
theorem upsert_reads_back (kids : List (PField α)) (k : PField α) :
    (upsertKid kids k).find? (fun x => x.name == k.name) = some k ∧
    ∀ g, (k.name == g) = false → (upsertKid kids k).find? (fun x => x.name == g) = kids.find? (fun x => x.name == g) :=
  ⟨upsertKid_find_self kids k, fun g hg => upsertKid_find_other kids k g hg⟩

/-- non-vacuity: the hypothesis is met on a three-chunk column with a sliced chunk and a missing
    row, for a new field -/
example : (NArr.setFlatField Samples.c1 "z" "int64" (.array [10, 20, 30, 40]) false).toBool = true := by
  decide

/-- **`set_list_field` row by row**: whenever the call succeeds — for every column in any layout
    (no storage invariant assumed) and every supplied list array (any offsets, buffers, nulls) — the
    result has the same rows except that every present row's table has field `f` set to that row's
    supplied list (replaced in its place, or appended as the last field); missing rows stay
    missing, the number of rows is unchanged, the dtype gets `f : ty` in the same position. -/
theorem set_list_field_row_by_row {c c' : PCol α} {f ty : String} {value : PList α} {keep : Bool}
    (h : NArr.setListField c f ty value keep = .ok c') (hvl : value.rows.length = value.len) :
    c'.rows = List.zipWith (fun r l => r.map fun t => Spec.Table.upsert t f (l.getD [])) c.rows value.rows ∧
    c'.ty = Spec.tyUpsert c.ty f ty :=
  setListField_rows h hvl

/-- **`set_flat_field` row by row** (`with_flat_field`, `.nest[f] = values`, `frame['n.f'] = values`)
    on cleanly stored columns of any chunking: the flat values are cut by the rows' record counts
    and row `i` gets the `i`-th piece; a successful call had exactly `flat_length` values. -/
theorem set_flat_field_row_by_row {c c' : PCol α} {f ty : String} {xs : List α} {keep : Bool} (hc : c.Clean)
    (h : NArr.setFlatField c f ty (.array xs) keep = .ok c') :
    c'.rows = List.zipWith (fun r l => r.map fun t => Spec.Table.upsert t f l) c.rows
                (Spec.splitBy (c.rows.map Row.len) xs) ∧
    c'.ty = Spec.tyUpsert c.ty f ty ∧ xs.length = Spec.flatLength c.rows :=
  setFlatField_rows hc h

/-- **`fill_field_lists` row by row** (`with_filled_field`, a base-aligned Series assigned to
    `frame['n.f']`): row `i` gets its one value repeated once per record of the row. -/
theorem fill_field_lists_row_by_row {c c' : PCol α} {f ty : String} {vs : List α} {keep : Bool} (hc : c.Clean)
    (h : NArr.fillFieldLists c f ty vs keep = .ok c') :
    c'.rows = List.zipWith (fun r v => r.map fun t => Spec.Table.upsert t f (List.replicate (Row.len r) v)) c.rows vs ∧
    c'.ty = Spec.tyUpsert c.ty f ty :=
  fillFieldLists_rows hc h

end NP.C06
