/-
  C06 — Editing one nested field changes that field and nothing else.
  Property theorems only (helper lemmas are in NPModel.Refine.Fields).
-/
import NPModel.Refine.Fields
import NPModel.Refine.FieldValues
import NPModel.Refine.Samples
import NPModel.Refine.FieldRows
import NPModel.Refine.FieldSubsets
namespace NP.C06
open NP
variable {α : Type}

/-- Setting a field from per-row lists (`set_list_field`, `with_list_field`): whenever the
    operation succeeds, the result has the same chunks with the same validity (so the same rows
    are missing and the number of rows is unchanged), every other field is the *same list array*
    (bit-identical buffers, types included), and field `f` holds a window of the supplied lists.
    Holds for every layout, field name (new or existing) and value. -/
theorem set_list_field_frame_condition {c c' : PCol α} {f ty : String} {value : PList α} {keep : Bool}
    (h : NArr.setListField c f ty value keep = .ok c') :
    All2 (FieldSet f ty) c.chunks c'.chunks ∧ NArr.isna c' = NArr.isna c ∧ c'.len = c.len := by
  have h2 := setListField_chunks h
  have hv := All2_valid_eq (r := FieldSet f ty) (fun _ _ hr => hr.1) h2
  exact ⟨h2, isna_of_valid_eq hv, len_of_valid_eq hv⟩

/-- The same frame condition for flat values (`set_flat_field`, `with_flat_field`, `.nest[f] = v`,
    `NestedFrame['nest.f'] = v`). -/
theorem set_flat_field_frame_condition {c c' : PCol α} {f ty : String} {value : FlatVal α} {keep : Bool}
    (h : NArr.setFlatField c f ty value keep = .ok c') :
    All2 (FieldSet f ty) c.chunks c'.chunks ∧ NArr.isna c' = NArr.isna c ∧ c'.len = c.len := by
  have h2 := setFlatField_chunks h
  have hv := All2_valid_eq (r := FieldSet f ty) (fun _ _ hr => hr.1) h2
  exact ⟨h2, isna_of_valid_eq hv, len_of_valid_eq hv⟩

/-- … and for one value per row repeated over the row's records (`fill_field_lists`,
    `with_filled_field`, base-aligned Series assigned to `NestedFrame['nest.f']`). -/
theorem fill_field_lists_frame_condition {c c' : PCol α} {f ty : String} {value : List α} {keep : Bool}
    (h : NArr.fillFieldLists c f ty value keep = .ok c') :
    All2 (FieldSet f ty) c.chunks c'.chunks ∧ NArr.isna c' = NArr.isna c ∧ c'.len = c.len := by
  have h2 := fillFieldLists_chunks h
  have hv := All2_valid_eq (r := FieldSet f ty) (fun _ _ hr => hr.1) h2
  exact ⟨h2, isna_of_valid_eq hv, len_of_valid_eq hv⟩

/-- **The edited field holds exactly the supplied values**: after `set_list_field` chunk `i`
    holds, as field `f`, the `i`-th window of the supplied list array (`pa_array[sl]`), and the
    flat view of `f` over the whole column is the flat view of the supplied list array — nothing
    lost, duplicated or reordered, for any chunking. -/
theorem edited_field_holds_supplied_values {c c' : PCol α} {f ty : String} {value : PList α} {keep : Bool}
    (h : NArr.setListField c f ty value keep = .ok c') (hvl : value.rows.length = c.len) :
    c'.chunks.map (fun s' => (s'.kid? f).map (·.list)) = (windows value c.chunks 0).map some ∧
    (c'.chunks.flatMap fun s' => ((s'.kid? f).map (·.list.flatten)).getD []) = value.flatten :=
  setListField_field_is_value h hvl

/-- The edited field is exactly the supplied list array, the others are looked up unchanged. -/
theorem upsert_reads_back (kids : List (PField α)) (k : PField α) :
    (upsertKid kids k).find? (fun x => x.name == k.name) = some k ∧
    ∀ g, (k.name == g) = false → (upsertKid kids k).find? (fun x => x.name == g) = kids.find? (fun x => x.name == g) :=
  ⟨upsertKid_find_self kids k, fun g hg => upsertKid_find_other kids k g hg⟩

/-- non-vacuity: the hypothesis is met on a three-chunk column with a sliced chunk and a missing
    row, for a new field -/
example : (NArr.setFlatField Samples.c1 "z" "int64" (.array [10, 20, 30, 40]) false).toBool = true := by
  decide

/-- **`set_list_field` row by row**: whenever the call succeeds — for every column in any layout
    (no storage invariant assumed) and every supplied list array (any offsets, buffers, nulls) — the
    result has the same rows except that every present row's table has field `f` set to that row's
    supplied list (replaced in its place, or appended as the last field); missing rows stay
    missing, the number of rows is unchanged, the dtype gets `f : ty` in the same position. -/
theorem set_list_field_row_by_row {c c' : PCol α} {f ty : String} {value : PList α} {keep : Bool}
    (h : NArr.setListField c f ty value keep = .ok c') (hvl : value.rows.length = value.len) :
    c'.rows = List.zipWith (fun r l => r.map fun t => Spec.Table.upsert t f (l.getD [])) c.rows value.rows ∧
    c'.ty = Spec.tyUpsert c.ty f ty :=
  setListField_rows h hvl

/-- **`set_flat_field` row by row** (`with_flat_field`, `.nest[f] = values`, `frame['n.f'] = values`)
    on cleanly stored columns of any chunking: the flat values are cut by the rows' record counts
    and row `i` gets the `i`-th piece; a successful call had exactly `flat_length` values. -/
theorem set_flat_field_row_by_row {c c' : PCol α} {f ty : String} {xs : List α} {keep : Bool} (hc : c.Clean)
    (h : NArr.setFlatField c f ty (.array xs) keep = .ok c') :
    c'.rows = List.zipWith (fun r l => r.map fun t => Spec.Table.upsert t f l) c.rows
                (Spec.splitBy (c.rows.map Row.len) xs) ∧
    c'.ty = Spec.tyUpsert c.ty f ty ∧ xs.length = Spec.flatLength c.rows :=
  setFlatField_rows hc h

/-- **`fill_field_lists` row by row** (`with_filled_field`, a base-aligned Series assigned to
    `frame['n.f']`): row `i` gets its one value repeated once per record of the row. -/
theorem fill_field_lists_row_by_row {c c' : PCol α} {f ty : String} {vs : List α} {keep : Bool} (hc : c.Clean)
    (h : NArr.fillFieldLists c f ty vs keep = .ok c') :
    c'.rows = List.zipWith (fun r v => r.map fun t => Spec.Table.upsert t f (List.replicate (Row.len r) v)) c.rows vs ∧
    c'.ty = Spec.tyUpsert c.ty f ty :=
  fillFieldLists_rows hc h

/-- **Removing fields** (`pop_fields`, `.nest.without_field`): whenever the call succeeds — for every column in
    any layout, no storage invariant assumed — the result declares the remaining fields in their old order, every
    row is the old row without the removed fields (so every remaining field holds the same list in every row), the
    same rows are missing and the number of rows is unchanged. -/
theorem pop_fields_row_by_row {c c' : PCol α} {fields : List String}
    (h : NArr.popFields c fields = .ok c') :
    c'.ty = (c.ty.filter fun p => ¬ fields.eraseDups.contains p.1) ∧
    c'.rows = c.rows.map (Row.without fields.eraseDups) ∧
    NArr.isna c' = NArr.isna c ∧ c'.len = c.len := by
  obtain ⟨hty, hrows, hv⟩ := popFields_rows c fields c' h
  exact ⟨hty, hrows, isna_of_valid_eq hv, len_of_valid_eq hv⟩

/-- **Selecting a subset of fields** (`view_fields`, `.nest[[fields]]`, `to_flat(fields)`, `to_lists(fields)`):
    the result declares the named fields in the order they were named, every row is the old row restricted to them
    (each under its own name, with its own list), the same rows are missing and the number of rows is unchanged. -/
theorem view_fields_row_by_row {c c' : PCol α} {fields : List String}
    (h : NArr.viewFields c fields = .ok c') :
    c'.ty = fields.filterMap (fun f => c.ty.find? (·.1 == f)) ∧
    c'.rows = c.rows.map (Row.select fields) ∧
    NArr.isna c' = NArr.isna c ∧ c'.len = c.len := by
  obtain ⟨hty, hrows, hv, hlen, _, _⟩ := viewFields_spec c fields c' h
  exact ⟨hty, hrows, isna_of_valid_eq hv, hlen⟩

/-- … and both keep cleanly stored columns cleanly stored (every observer of C03 goes on reading the rows). -/
theorem field_subsets_keep_storage_clean {c c' : PCol α} {fields : List String} (hc : c.Clean) :
    (NArr.popFields c fields = .ok c' → c'.Clean ∧ c'.chunks ≠ []) ∧
    (NArr.viewFields c fields = .ok c' → c'.Clean ∧ c'.chunks ≠ []) := by
  constructor
  · intro h
    obtain ⟨h1, _, h3⟩ := popFields_clean c hc fields c' h
    exact ⟨h1, h3⟩
  · intro h
    obtain ⟨_, _, _, _, hne, hcl⟩ := viewFields_spec c fields c' h
    exact ⟨hcl hc, hne⟩

/-- non-vacuity: both calls succeed on the three-chunk sample column (a sliced chunk, an empty chunk, a missing
    row), and the selection may reorder -/
example : (NArr.popFields Samples.c1 ["a"]).toBool = true ∧ (NArr.viewFields Samples.c1 ["b", "a"]).toBool = true ∧
    ((NArr.viewFields Samples.c1 ["b", "a"]).toOption.map (·.rows)) =
      some [some [("b", [7, 8]), ("a", [1, 2])], none, some [("b", [6]), ("a", [3])], some [("b", [4]), ("a", [5])]] := by
  decide

end NP.C06
