/-
  C06 — Editing one nested field changes that field and nothing else.
  Property theorems only (helper lemmas are in NPModel.Refine.Fields).
-/
import NPModel.Refine.Fields
import NPModel.Refine.FieldValues
import NPModel.Refine.Samples
namespace NP.C06
open NP
variable {α : Type}

/-- Setting a field from per-row lists (`set_list_field`, `with_list_field`): whenever the
    operation succeeds, the result has the same chunks with the same validity (so the same rows
    are missing and the number of rows is unchanged), every other field is the *same list array*
    (bit-identical buffers, types included), and field `f` holds a window of the supplied lists.
    Holds for every layout, field name (new or existing) and value. -/
theorem set_list_field_frame_condition {c c' : PCol α} {f ty : String} {value : PList α} {keep : Bool}
    (h : NArr.setListField c f ty value keep = .ok c') :
    All2 (FieldSet f ty) c.chunks c'.chunks ∧ NArr.isna c' = NArr.isna c ∧ c'.len = c.len := by
  have h2 := setListField_chunks h
  have hv := All2_valid_eq (r := FieldSet f ty) (fun _ _ hr => hr.1) h2
  exact ⟨h2, isna_of_valid_eq hv, len_of_valid_eq hv⟩

/-- The same frame condition for flat values (`set_flat_field`, `with_flat_field`, `.nest[f] = v`,
    `NestedFrame['nest.f'] = v`). -/
theorem set_flat_field_frame_condition {c c' : PCol α} {f ty : String} {value : FlatVal α} {keep : Bool}
    (h : NArr.setFlatField c f ty value keep = .ok c') :
    All2 (FieldSet f ty) c.chunks c'.chunks ∧ NArr.isna c' = NArr.isna c ∧ c'.len = c.len := by
  have h2 := setFlatField_chunks h
  have hv := All2_valid_eq (r := FieldSet f ty) (fun _ _ hr => hr.1) h2
  exact ⟨h2, isna_of_valid_eq hv, len_of_valid_eq hv⟩

/-- … and for one value per row repeated over the row's records (`fill_field_lists`,
    `with_filled_field`, base-aligned Series assigned to `NestedFrame['nest.f']`). -/
theorem fill_field_lists_frame_condition {c c' : PCol α} {f ty : String} {value : List α} {keep : Bool}
    (h : NArr.fillFieldLists c f ty value keep = .ok c') :
    All2 (FieldSet f ty) c.chunks c'.chunks ∧ NArr.isna c' = NArr.isna c ∧ c'.len = c.len := by
  have h2 := fillFieldLists_chunks h
  have hv := All2_valid_eq (r := FieldSet f ty) (fun _ _ hr => hr.1) h2
  exact ⟨h2, isna_of_valid_eq hv, len_of_valid_eq hv⟩

/-- **The edited field holds exactly the supplied values**: after `set_list_field` chunk `i`
    holds, as field `f`, the `i`-th window of the supplied list array (`pa_array[sl]`), and the
    flat view of `f` over the whole column is the flat view of the supplied list array — nothing
    lost, duplicated or reordered, for any chunking. -/
theorem edited_field_holds_supplied_values {c c' : PCol α} {f ty : String} {value : PList α} {keep : Bool}
    (h : NArr.setListField c f ty value keep = .ok c') (hvl : value.rows.length = c.len) :
    c'.chunks.map (fun s' => (s'.kid? f).map (·.list)) = (windows value c.chunks 0).map some ∧
    (c'.chunks.flatMap fun s' => ((s'.kid? f).map (·.list.flatten)).getD []) = value.flatten :=
  setListField_field_is_value h hvl

/-- The edited field is exactly the supplied list array, the others are looked up unchanged. -/
theorem upsert_reads_back (kids : List (PField α)) (k : PField α) :
    (upsertKid kids k).find? (fun x => x.name == k.name) = some k ∧
    ∀ g, (k.name == g) = false → (upsertKid kids k).find? (fun x => x.name == g) = kids.find? (fun x => x.name == g) :=
  ⟨upsertKid_find_self kids k, fun g hg => upsertKid_find_other kids k g hg⟩

/-- non-vacuity: the hypothesis is met on a three-chunk column with a sliced chunk and a missing
    row, for a new field -/
example : (NArr.setFlatField Samples.c1 "z" "int64" (.array [10, 20, 30, 40]) false).toBool = true := by
  decide

end NP.C06
