/-
  C19 — Arrow interchange is lossless in both orientations.
  Property theorems only.
-/
import NPModel.Refine.Transpose
import NPModel.Refine.Samples
namespace NP.C19
open NP
variable {α : Type}

/-- Re-basing offsets onto the window of values they point to shows the same per-row extents —
    for every list array: any slice offset, any buffer, any number of rows. -/
theorem rebased_window_same_extents (l : PList α) (hm : monotone l.offs = true)
    (hl : l.offs.getLast?.getD 0 ≤ l.vals.length) :
    segs (rebased l.offs) l.windowVals = segs l.offs l.vals :=
  segs_rebased_window l hm hl

/-- The two orientations hold the same records per row: in the list-of-structs orientation built
    from a validated chunk, every field read through the shared offsets shows exactly the extents
    the field has in the struct-of-lists orientation (fields may be slices of different buffers). -/
theorem list_struct_same_records (s : PStruct α) (l : PLS α) (hw : s.WF = true) (hv : s.validate = .ok ())
    (h : transposeSL s false = .ok l) :
    ∀ k ∈ s.kids, (k.name, k.ty, k.list.windowVals) ∈ l.fields ∧
      segs l.offs k.list.windowVals = segs k.list.offs k.list.vals := by
  unfold transposeSL at h
  cases hk : s.kids with
  | nil => simp [hk, bind, Except.bind, pure, Except.pure] at h
  | cons k0 ks =>
    simp only [hk, bind, Except.bind, pure, Except.pure, Bool.false_eq_true, if_false] at h
    repeat' split at h
    all_goals first
      | (simp at h; done)
      | skip
    simp only [Except.ok.injEq] at h
    subst h
    intro k hkm
    have hmem : k ∈ s.kids := by rw [hk]; exact hkm
    have ⟨hwk, _⟩ := PStruct.WF_kid hw hmem
    have ⟨_, hm, hl⟩ := PList.WF_parts hwk
    constructor
    · simp only [List.mem_map]
      exact ⟨k, hkm, rfl⟩
    · simp only
      have e : rebased k0.list.offs = rebased k.list.offs := by
        rcases List.mem_cons.mp hkm with rfl | hk'
        · rfl
        · exact (PStruct.validate_kids hk hv k hk').symm
      rw [e]
      exact segs_rebased_window k.list hm hl

/-- non-vacuity: a chunk whose fields are slices of different buffers (the case the `fix:` for
    the transposition repaired) -/
example : Samples.s1.WF = true ∧ Samples.s1.validate = .ok () ∧ (transposeSL Samples.s1 false).toBool = true := by
  decide

end NP.C19
