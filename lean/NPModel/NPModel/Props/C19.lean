/-
  C19 — Arrow interchange is lossless in both orientations.
  Property theorems only.
-/
import NPModel.Refine.Transpose
import NPModel.Refine.Samples
import NPModel.Refine.RoundTrip
namespace NP.C19
open NP
variable {α : Type}

/-- Re-basing offsets onto the window of values they point to shows the same per-row extents —
    for every list array: any slice offset, any buffer, any number of rows. -/
theorem rebased_window_same_extents (l : PList α) (hm : monotone l.offs = true)
    (hl : l.offs.getLast?.getD 0 ≤ l.vals.length) :
    segs (rebased l.offs) l.windowVals = segs l.offs l.vals :=
  segs_rebased_window l hm hl

/-- The two orientations hold the same records per row: in the list-of-structs orientation built
    from a validated chunk, every field read through the shared offsets shows exactly the extents
    the field has in the struct-of-lists orientation (fields may be slices of different buffers). -/
theorem list_struct_same_records (s : PStruct α) (l : PLS α) (hw : s.WF = true) (hv : s.validate = .ok ())
    (h : transposeSL s false = .ok l) :
    ∀ k ∈ s.kids, (k.name, k.ty, k.list.windowVals) ∈ l.fields ∧
      segs l.offs k.list.windowVals = segs k.list.offs k.list.vals := by
  unfold transposeSL at h
  cases hk : s.kids with
  | nil => simp [hk, bind, Except.bind, pure, Except.pure] at h
  | cons k0 ks =>
    simp only [hk, bind, Except.bind, pure, Except.pure, Bool.false_eq_true, if_false] at h
    repeat' split at h
    all_goals first
      | (simp at h; done)
      | skip
    simp only [Except.ok.injEq] at h
    subst h
    intro k hkm
    have hmem : k ∈ s.kids := by rw [hk]; exact hkm
    have ⟨hwk, _⟩ := PStruct.WF_kid hw hmem
    have ⟨_, hm, hl⟩ := PList.WF_parts hwk
    constructor
    · simp only [List.mem_map]
      exact ⟨k, hkm, rfl⟩
    · simp only
      have e : rebased k0.list.offs = rebased k.list.offs := by
        rcases List.mem_cons.mp hkm with rfl | hk'
        · rfl
        · exact (PStruct.validate_kids hk hv k hk').symm
      rw [e]
      exact segs_rebased_window k.list hm hl

/-- non-vacuity: a chunk whose fields are slices of different buffers (the case the `fix:` for
    the transposition repaired) -/
example : Samples.s1.WF = true ∧ Samples.s1.validate = .ok () ∧ (transposeSL Samples.s1 false).toBool = true := by
  decide

/-- **Export then import is the identity on rows** (`pa.array(nested)` in the list-of-structs
    orientation, then `NestedExtensionArray(list_struct_array)`): on validated storage both
    transpositions succeed, and — when missing rows store nothing — every present row comes back
    unchanged while every missing row comes back as a row of empty lists (Arrow's list-of-structs
    layout produced by the export has no row validity; `transposeSL … false`). For every chunk:
    any slice offsets, any buffers, any number of fields and rows. -/
theorem export_import_rows (s : PStruct α) (hw : s.WF = true) (hne : s.nullEmpty = true)
    (hv : s.validate = .ok ()) (hh : s.noHidden) (k0 : PField α) (ks : List (PField α)) (hk : s.kids = k0 :: ks) :
    ∃ s', (transposeSL s false >>= transposeLS) = .ok s' ∧
      s'.rows = s.rows.map fun r => some (r.getD (emptyTable s)) :=
  ⟨reimported s k0, transpose_twice_ok s hw hne hv k0 ks hk, roundtrip_rows s hw hne hv hh k0 ks hk⟩

/-- Without the storage invariant (a missing row may keep values in its extents — K1): the round
    trip still succeeds and returns, for every row, what the chunk *stores* there; present rows are
    therefore always unchanged. -/
theorem export_import_present_rows (s : PStruct α) (hw : s.WF = true) (hne : s.nullEmpty = true)
    (hv : s.validate = .ok ()) (k0 : PField α) (ks : List (PField α)) (hk : s.kids = k0 :: ks)
    (i : Nat) (hi : i < s.len) (hp : s.valid.getD i false = true) :
    ∃ s', (transposeSL s false >>= transposeLS) = .ok s' ∧ s'.rowAt i = s.rowAt i := by
  refine ⟨reimported s k0, transpose_twice_ok s hw hne hv k0 ks hk, ?_⟩
  rw [reimported_rowAt s hw hne hv k0 ks hk i hi]
  unfold PStruct.rowAt PStruct.storedAt
  rw [hp]; rfl

/-- non-vacuity: the sliced two-buffer sample with a missing middle row meets every hypothesis -/
example : Samples.s1.WF = true ∧ Samples.s1.nullEmpty = true ∧ Samples.s1.validate = .ok () ∧ Samples.s1.noHidden := by
  refine ⟨by decide, by decide, by decide, ?_⟩
  unfold PStruct.noHidden
  decide

end NP.C19
