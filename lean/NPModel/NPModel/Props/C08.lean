/-
  C08 — Parquet files round-trip the frame and stay readable by plain Arrow.
  Property theorems only, about the column bookkeeping of `read_parquet` (NPModel.Impl.IO).
  The parquet codec itself is pyarrow's: the theorems hold under the two laws stated in
  NPModel/Impl/IO.lean, which the correspondence exercises on real files.
-/
import NPModel.Impl.IO
namespace NP.C08
open NP NP.IO

/-- **Full read**: every column of the file comes back, in file order; every struct-of-lists
    column is cast to the nested dtype with all its fields in file order, unless rejected. -/
theorem full_read_columns (schema : List (String × FileCol)) (reject : List String) :
    readParquetCols schema none reject = .ok (schema.map fun (n, c) => match c with
      | .base => OutCol.base n
      | .nest fs => if reject.contains n then OutCol.plain n else OutCol.nested n fs) := by
  simp only [readParquetCols, pure, Except.pure, finish, fullTable, List.map_map]
  congr 1
  apply List.map_congr_left
  intro p _
  obtain ⟨n, c⟩ := p
  cases c <;> rfl

/-- whole-column requests never regroup anything -/
theorem scanGo_whole (cols : List Req) (ret : List (String × RetKind)) (h : ∀ c ∈ cols, ∃ n, c = .whole n)
    (i : Nat) (st : List (String × List Nat)) (rj : List String) :
    scanGo (cols.zip ret) i st rj = (st, rj) := by
  induction cols generalizing ret i with
  | nil => simp [scanGo]
  | cons c cols ih =>
    cases ret with
    | nil => simp [scanGo]
    | cons r ret =>
      obtain ⟨n, rfl⟩ := h c List.mem_cons_self
      simp only [List.zip_cons_cons, scanGo]
      exact ih ret (fun c hc => h c (List.mem_cons_of_mem _ hc)) (i + 1)

/-- **Selecting whole columns** (base or nested): exactly the requested columns, in the requested
    order, nested columns with all their fields. -/
theorem whole_column_selection (schema : List (String × FileCol)) (cols : List Req) (ret : List (String × RetKind))
    (h : ∀ c ∈ cols, ∃ n, c = .whole n) (hp : cols.mapM (project1 schema) = some ret) :
    readParquetCols schema (some cols) [] = .ok (finish ret []) := by
  have hs : scanGo (cols.zip ret) 0 [] [] = ([], []) := scanGo_whole cols ret h 0 [] []
  simp only [readParquetCols, hp, scanPartial, hs]
  have hz : (ret.zipIdx.filter fun _ => true).map (·.1) = ret := by
    have : (ret.zipIdx.filter fun _ => true) = ret.zipIdx := List.filter_eq_self.mpr (fun _ _ => rfl)
    rw [this]
    simp [List.zipIdx_map_fst]
  simp [pure, Except.pure, hz]

/-- the fields of ONE nest, all returned as list leaves: the scan collects their positions in
    request order under that nest -/
theorem scanGo_one_nest (nest : String) :
    ∀ (fields : List String) (ret : List (String × RetKind)) (i : Nat) (acc : List Nat) (rj : List String),
      rj.contains nest = false → ret.length = fields.length → (∀ r ∈ ret, r.2 = .list) →
      scanGo ((fields.map (Req.leaf nest)).zip ret) i (if acc = [] then [] else [(nest, acc)]) rj
        = (if acc ++ List.range' i fields.length = [] then [] else [(nest, acc ++ List.range' i fields.length)], rj) := by
  intro fields
  induction fields with
  | nil => intro ret i acc rj _ _ _; simp [scanGo]
  | cons f fields ih =>
    intro ret i acc rj hr hl hk
    cases ret with
    | nil => simp at hl
    | cons r ret =>
      obtain ⟨rn, rk⟩ := r
      have hk0 : rk = .list := hk (rn, rk) List.mem_cons_self
      subst hk0
      simp only [List.map_cons, List.zip_cons_cons, scanGo, bne_self_eq_false, Bool.false_eq_true, if_false, hr,
        not_false_eq_true, if_true]
      have hst : dictAppend (if acc = [] then [] else [(nest, acc)]) nest i = [(nest, acc ++ [i])] := by
        by_cases ha : acc = []
        · simp [ha, dictAppend]
        · simp [ha, dictAppend]
      rw [hst]
      have := ih ret (i + 1) (acc ++ [i]) rj hr (by simpa using hl) (fun r hr' => hk r (List.mem_cons_of_mem _ hr'))
      simp only [List.append_eq_nil_iff, List.cons_ne_self, and_false, if_false] at this
      rw [this]
      simp [List.range'_succ, List.append_assoc]

/-- **Selecting fields of one nested column**: the result is that one nested column with exactly
    the requested fields in the requested order (the leaves `pyarrow` returns, regrouped). -/
theorem fields_of_one_nest (schema : List (String × FileCol)) (nest : String) (fields : List String)
    (ret : List (String × RetKind)) (hne : fields ≠ [])
    (hp : (fields.map (Req.leaf nest)).mapM (project1 schema) = some ret)
    (hl : ret.length = fields.length) (hk : ∀ r ∈ ret, r.2 = .list)
    (hnoclash : ∀ f ∈ fields, (nest == nest ++ "." ++ f) = false) :
    readParquetCols schema (some (fields.map (Req.leaf nest))) []
      = .ok [OutCol.nested nest ((List.range fields.length).filterMap fun i => (ret[i]?).map (·.1))] := by
  have hs := scanGo_one_nest nest fields ret 0 [] [] rfl hl hk
  simp only [if_true, List.nil_append] at hs
  have hr : List.range' 0 fields.length ≠ [] := by
    cases fields with
    | nil => exact absurd rfl hne
    | cons f fs => simp [List.range'_succ]
  simp only [hr, if_false] at hs
  simp only [readParquetCols, hp, scanPartial, hs]
  have hno : ((fields.map (Req.leaf nest)).any fun c => [(nest, List.range' 0 fields.length)].any (·.1 == c.text)) = false := by
    rw [List.any_eq_false]
    intro c hc
    rw [List.mem_map] at hc
    obtain ⟨f, hf, rfl⟩ := hc
    simp only [List.any_cons, List.any_nil, Bool.or_false, Req.text]
    simpa using hnoclash f hf
  simp only [hno, Bool.false_eq_true, if_false, pure, Except.pure, List.flatMap_cons, List.flatMap_nil, List.append_nil]
  -- every returned column was removed (regrouped): nothing else is kept
  have hkept : ((ret.zipIdx.filter fun p => ¬ (List.range' 0 fields.length).contains p.2).map (·.1)) = [] := by
    rw [List.map_eq_nil_iff, List.filter_eq_nil_iff]
    intro p hp'
    have hlt : p.2 < ret.length := by
      have := List.mem_zipIdx hp'
      omega
    simp only [decide_not, Bool.not_eq_true', Bool.not_eq_false, List.contains_eq_mem, List.mem_range'_1, decide_eq_true_eq]
    omega
  rw [hkept]
  simp [finish, List.range_eq_range']

/-- **Requesting a nested column both in full and by a field is refused.** -/
theorem full_and_partial_refused (schema : List (String × FileCol)) (nest field : String) (fs : List String)
    (hs : schema.find? (·.1 == nest) = some (nest, .nest fs)) (hf : fs.contains field = true) :
    readParquetCols schema (some [.whole nest, .leaf nest field]) [] = .error .valueError := by
  have hf' : field ∈ fs := by simpa using hf
  have hm : [Req.whole nest, Req.leaf nest field].mapM (project1 schema)
      = some [(nest, RetKind.struct fs), (field, RetKind.list)] := by
    simp [List.mapM_cons, project1, hs, hf', pure, bind, Option.bind]
  simp only [readParquetCols, hm, scanPartial]
  simp [scanGo, dictAppend, Req.text]

example : readParquetCols [("a", .base), ("n", .nest ["t", "f"])] (some [.leaf "n" "f", .whole "a", .leaf "n" "t"]) []
    = .ok [.base "a", .nested "n" ["f", "t"]] := by decide

end NP.C08
