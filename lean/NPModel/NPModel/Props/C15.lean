/-
  C15 — Operations do not mutate their inputs; copies are isolated.
  Property theorems only, about the sharing model NPModel.State.Heap.
-/
import NPModel.State.Heap
namespace NP.C15
open NP.State
variable {V : Type}

theorem find_setCell_other (cells : List (Nat × V)) (c c' : Nat) (v : V) (h : c' ≠ c) :
    (setCell cells c v).find? (·.1 == c') = cells.find? (·.1 == c') := by
  unfold setCell
  induction cells with
  | nil => rfl
  | cons p rest ih =>
    simp only [List.map_cons, List.find?_cons]
    by_cases hp : (p.1 == c) = true
    · have e : p.1 = c := by simpa using hp
      have h1 : (p.1 == c') = false := by simp [e, Ne.symm h]
      have h2 : (c == c') = false := by simp [Ne.symm h]
      simp only [hp, if_true, h1, h2]
      exact ih
    · have hp' : (p.1 == c) = false := by simpa using hp
      simp only [hp', Bool.false_eq_true, if_false]
      cases hpc : (p.1 == c')
      · exact ih
      · rfl

/-- **An in-place array operation changes only the objects that refer to that array object.**
    Every object that does not refer to the written cell observes exactly what it observed
    before. -/
theorem write_changes_only_referrers (h : Heap V) (c : Nat) (v : V) (o : ObjId) (hn : c ∉ h.refs o) :
    (h.step (.writeCell c v)).observe o = h.observe o := by
  unfold Heap.observe Heap.step
  simp only [Heap.refs]
  apply List.map_congr_left
  intro c' hc'
  have hne : c' ≠ c := by
    intro e; subst e
    exact hn (by simpa [Heap.refs] using hc')
  simp only [Heap.read]
  rw [find_setCell_other _ _ _ _ hne]

theorem alloc_ids_ge (n : Nat) (vals : List V) : ∀ p ∈ alloc n vals, n ≤ p.1 := by
  induction vals generalizing n with
  | nil => intro p hp; cases hp
  | cons v vs ih =>
    intro p hp
    simp only [alloc, List.mem_cons] at hp
    rcases hp with rfl | hp
    · exact Nat.le_refl _
    · exact Nat.le_trans (Nat.le_succ n) (ih (n + 1) p hp)

theorem read_append_fresh (cells : List (Nat × V)) (n : Nat) (vals : List V) (c : Nat) (hc : c < n) :
    ((cells ++ alloc n vals).find? (·.1 == c)) = cells.find? (·.1 == c) := by
  rw [List.find?_append]
  cases hf : cells.find? (·.1 == c) with
  | some p => rfl
  | none =>
    simp only [Option.none_or]
    rw [List.find?_eq_none]
    intro p hp hpc
    have hge : n ≤ p.1 := alloc_ids_ge n vals p hp
    have e : p.1 = c := by simpa using hpc
    rw [e] at hge
    exact absurd hc (Nat.not_lt.mpr hge)

theorem refs_setObj_other (objs : List (ObjId × List Nat)) (o o' : ObjId) (cs : List Nat) (h : o' ≠ o) :
    ((setObj objs o cs).find? (·.1 == o')) = objs.find? (·.1 == o') := by
  unfold setObj
  have h1 : (o == o') = false := by simp [Ne.symm h]
  simp only [List.find?_cons, h1]
  induction objs with
  | nil => rfl
  | cons p rest ih =>
    simp only [List.filter_cons]
    by_cases hp : (p.1 != o) = true
    · simp only [hp, if_true, List.find?_cons]
      cases hpo : (p.1 == o')
      · exact ih
      · rfl
    · have e : p.1 = o := by simpa using hp
      have h2 : (p.1 == o') = false := by simp [e, Ne.symm h]
      simp only [hp, if_false, List.find?_cons, h2]
      exact ih

/-- **An operation that returns a new object, an in-place frame operation and a deep copy leave
    every other object observably unchanged** (they only allocate). -/
theorem allocation_leaves_others (h : Heap V) (hw : h.WF) (o o' : ObjId) (vals : List V) (hne : o' ≠ o) :
    (h.step (.newObj o vals)).observe o' = h.observe o' ∧ (h.step (.rebind o vals)).observe o' = h.observe o' := by
  have key : ∀ (h' : Heap V), h'.cells = h.cells ++ alloc h.next vals →
      h'.objs = setObj h.objs o ((alloc h.next vals).map (·.1)) → h'.observe o' = h.observe o' := by
    intro h' hc ho
    unfold Heap.observe Heap.refs
    rw [ho, refs_setObj_other _ _ _ _ hne]
    apply List.map_congr_left
    intro c hc'
    unfold Heap.read
    rw [hc]
    have hlt : c < h.next := by
      cases hf : h.objs.find? (·.1 == o') with
      | none => simp [hf] at hc'
      | some p =>
        simp only [hf, Option.map_some, Option.getD_some] at hc'
        exact hw.2 p (List.mem_of_find?_eq_some hf) c hc'
    rw [read_append_fresh _ _ _ _ hlt]
  exact ⟨key _ rfl rfl, key _ rfl rfl⟩

theorem deepcopy_leaves_others (h : Heap V) (hw : h.WF) (src dst o' : ObjId) (hne : o' ≠ dst) :
    (h.step (.deepCopy src dst)).observe o' = h.observe o' := by
  have := (allocation_leaves_others h hw dst o' ((h.observe src).filterMap id) hne).1
  exact this

/-- **After a deep copy the two objects share no array object**: every cell of the copy is
    fresh, so (by `write_changes_only_referrers`) no later in-place array operation on either is
    visible through the other. -/
theorem deepcopy_disjoint (h : Heap V) (hw : h.WF) (src dst o' : ObjId) (hne : o' ≠ dst) :
    ∀ c ∈ (h.step (.deepCopy src dst)).refs dst, c ∉ (h.step (.deepCopy src dst)).refs o' := by
  intro c hc hc'
  unfold Heap.step at hc hc'
  simp only [Heap.refs] at hc hc'
  -- the copy's cells are the fresh ones
  have h1 : ((setObj h.objs dst ((alloc h.next ((h.observe src).filterMap id)).map (·.1))).find? (·.1 == dst))
      = some (dst, (alloc h.next ((h.observe src).filterMap id)).map (·.1)) := by
    simp [setObj]
  rw [h1] at hc
  simp only [Option.map_some, Option.getD_some, List.mem_map] at hc
  obtain ⟨p, hp, rfl⟩ := hc
  have hge := alloc_ids_ge _ _ p hp
  rw [refs_setObj_other _ _ _ _ hne] at hc'
  cases hf : h.objs.find? (·.1 == o') with
  | none => simp [hf] at hc'
  | some q =>
    simp only [hf, Option.map_some, Option.getD_some] at hc'
    have hlt : p.1 < h.next := hw.2 q (List.mem_of_find?_eq_some hf) p.1 hc'
    exact absurd hlt (Nat.not_lt.mpr hge)

theorem alloc_ids_lt (n : Nat) (vals : List V) : ∀ p ∈ alloc n vals, p.1 < n + vals.length := by
  induction vals generalizing n with
  | nil => intro p hp; cases hp
  | cons v vs ih =>
    intro p hp
    simp only [alloc, List.mem_cons] at hp
    rcases hp with rfl | hp
    · simp
    · have := ih (n + 1) p hp
      simp only [List.length_cons]
      omega

/-- the operation does not re-point object `o` and writes none of the cells in `cs` -/
def Spares (o : ObjId) (cs : List Nat) : HOp V → Prop
  | .writeCell c _ => c ∉ cs
  | .rebind o' _ | .newObj o' _ => o' ≠ o
  | .deepCopy _ dst => dst ≠ o

theorem setCell_keys (cells : List (Nat × V)) (c : Nat) (v : V) :
    ∀ p ∈ setCell cells c v, ∃ q ∈ cells, q.1 = p.1 := by
  intro p hp
  unfold setCell at hp
  rw [List.mem_map] at hp
  obtain ⟨q, hq, rfl⟩ := hp
  refine ⟨q, hq, ?_⟩
  split
  · rename_i h; simpa using h
  · rfl

theorem step_WF (h : Heap V) (hw : h.WF) (op : HOp V) : (h.step op).WF := by
  have allocCase : ∀ (o : ObjId) (vals : List V),
      Heap.WF ({ cells := h.cells ++ alloc h.next vals, objs := setObj h.objs o ((alloc h.next vals).map (·.1)),
                 next := h.next + vals.length } : Heap V) := by
    intro o vals
    constructor
    · intro p hp
      simp only [List.mem_append] at hp
      rcases hp with hp | hp
      · exact Nat.lt_of_lt_of_le (hw.1 p hp) (Nat.le_add_right _ _)
      · exact alloc_ids_lt _ _ p hp
    · intro q hq c hc
      simp only [setObj, List.mem_cons, List.mem_filter] at hq
      rcases hq with rfl | hq
      · simp only [List.mem_map] at hc
        obtain ⟨p, hp, rfl⟩ := hc
        exact alloc_ids_lt _ _ p hp
      · exact Nat.lt_of_lt_of_le (hw.2 q hq.1 c hc) (Nat.le_add_right _ _)
  cases op with
  | writeCell c v =>
    constructor
    · intro p hp
      obtain ⟨q, hq, e⟩ := setCell_keys h.cells c v p hp
      rw [← e]; exact hw.1 q hq
    · exact hw.2
  | rebind o vals => exact allocCase o vals
  | newObj o vals => exact allocCase o vals
  | deepCopy src dst => exact allocCase dst _

theorem refs_step (h : Heap V) (o : ObjId) (op : HOp V) (hs : Spares o (h.refs o) op) :
    (h.step op).refs o = h.refs o := by
  cases op with
  | writeCell c v => rfl
  | rebind o' vals =>
    simp only [Heap.step, Heap.refs]
    rw [refs_setObj_other _ _ _ _ (Ne.symm hs)]
  | newObj o' vals =>
    simp only [Heap.step, Heap.refs]
    rw [refs_setObj_other _ _ _ _ (Ne.symm hs)]
  | deepCopy src dst =>
    simp only [Heap.step, Heap.refs]
    rw [refs_setObj_other _ _ _ _ (Ne.symm hs)]

theorem observe_step (h : Heap V) (hw : h.WF) (o : ObjId) (op : HOp V) (hs : Spares o (h.refs o) op) :
    (h.step op).observe o = h.observe o := by
  cases op with
  | writeCell c v => exact write_changes_only_referrers h c v o hs
  | rebind o' vals => exact (allocation_leaves_others h hw o' o vals (Ne.symm hs)).2
  | newObj o' vals => exact (allocation_leaves_others h hw o' o vals (Ne.symm hs)).1
  | deepCopy src dst => exact deepcopy_leaves_others h hw src dst o (Ne.symm hs)

/-- **Non-interference over whole histories**: an object observes exactly what it observed at
    the start after ANY interleaving of operations on related objects, as long as none of them
    re-points it or writes one of its own array objects — deep copies, new results, in-place frame
    operations on others and in-place array operations on arrays it does not refer to.
    Histories of any length. -/
theorem noninterference (o : ObjId) (ops : List (HOp V)) :
    ∀ (h : Heap V), h.WF → (∀ op ∈ ops, Spares o (h.refs o) op) → (h.run ops).observe o = h.observe o := by
  induction ops with
  | nil => intro h _ _; rfl
  | cons op rest ih =>
    intro h hw hs
    have h1 := hs op List.mem_cons_self
    have hr := refs_step h o op h1
    show ((h.step op).run rest).observe o = h.observe o
    rw [ih (h.step op) (step_WF h hw op) (by
      intro op' hop'
      rw [hr]
      exact hs op' (List.mem_cons_of_mem _ hop'))]
    exact observe_step h hw o op h1

/-- non-vacuity: a frame `1` with two array objects, deep-copied to `2`, then an in-place edit of
    the copy's first array: the original observes what it observed before -/
example :
    let h0 : Heap Nat := { cells := [(0, 10), (1, 11)], objs := [(1, [0, 1])], next := 2 }
    let h1 := h0.run [.deepCopy 1 2, .writeCell 2 99]
    h1.observe 1 = [some 10, some 11] ∧ h1.observe 2 = [some 99, some 11] := by
  decide

end NP.C15
