/-
  C09 — Nesting attaches to each row exactly the records carrying its label.
  Property theorems only.

  `add_nested` = `pack` (stable sort by label + packer) then `DataFrame.join`; `from_flat` keeps
  the first occurrence of every label as the base row and nests all records of the label.
-/
import NPModel.Refine.PackFlat
import NPModel.Refine.JoinRows
import NPModel.Refine.Struct
import NPModel.Spec.Frame
namespace NP.C09
open NP
variable {α : Type}

/-- **The packed table holds, for every label, exactly the records carrying it, in their original
    relative order** — whatever the order and multiplicity of the labels in the flat table.
    (The left join then looks the row's label up in this packed column.) -/
theorem packed_row_holds_records_of_label (xs : List (Label × α)) (k : Label) (l : List α)
    (hm : (k, l) ∈ toRuns (sortedByLabel xs)) :
    l = valsOfLabel k (xs.map (·.1)) (xs.map (·.2)) :=
  (packFlat_rows xs k l hm).1

/-- Labels of the packed table are pairwise distinct, so the join matches every base row with at
    most one packed row: the default left join cannot multiply, drop or reorder base rows. -/
theorem packed_labels_distinct (xs : List (Label × α)) :
    ((toRuns (sortedByLabel xs)).map (·.1)).Pairwise (· ≠ ·) :=
  List.Pairwise.imp (fun h => h.2) (packFlat_index_strictly_ascending xs)

/-- A label that carries no record has no packed row (and its base row gets a missing value). -/
theorem label_without_records_absent (xs : List (Label × α)) (k : Label)
    (h : k ∉ xs.map (·.1)) : k ∉ (toRuns (sortedByLabel xs)).map (·.1) := by
  intro hk
  have h1 := toRuns_keys_mem (sortedByLabel xs) k hk
  have h2 : k ∈ xs.map (·.1) := ((sortedByLabel_perm xs).map (·.1)).mem_iff.mp h1
  exact h h2

/-- The join step of the left join is a `take` with a fill for unmatched rows, which refines to
    "row `i` of the result is the packed row its index points to, missing for `-1`"
    (chunk-level refinement of `take`, any layout). -/
theorem left_join_lookup (packed : PStruct α) (indexer : List (Option Nat)) :
    (packed.take indexer).rows = indexer.map (pickRow packed.rows) :=
  PStruct.take_rows packed indexer

/-- `from_flat`: the base rows are the first occurrences — an element is kept iff no equal label
    occurred before it. -/
theorem first_occurrence_kept (seen : List Label) (l : Label) (ls : List Label) :
    dupFirstGo seen (l :: ls) = seen.contains l :: dupFirstGo (l :: seen) ls := rfl

/-- non-vacuity: labels `[b, a, b]`, the packed row of `b` holds records 0 and 2 in that order -/
example : valsOfLabel (Label.str "b") [Label.str "b", Label.str "a", Label.str "b"] [0, 1, 2] = [0, 2] := by decide

/-! ### end to end on the implementation model -/

/-- **`pack_flat` end to end** (`NP.packFlat`, the model of `pack_flat` checked against the code):
    for ANY flat table with at least one column — any labels, in any order, repeated or not — the
    call succeeds, the packed index is `packedKeys` (the labels that occur, each once, ascending:
    `packed_keys_are_the_labels`), the packed column is clean validated storage with the table's columns
    as fields, and the row of label `k` is `packedRow df k`: for every field at once, the cells of
    exactly the records that carried `k`, in their original order. -/
theorem pack_flat_end_to_end [Inhabited α] (df : FlatDF α) (hne : df.cols ≠ []) :
    ∃ packed, packFlat df = .ok packed ∧ packed.index = packedKeys df.index ∧
      packed.col.WF = true ∧ packed.col.aligned ∧
      packed.col.ty = df.cols.map (fun c => (c.1, c.2.1)) ∧
      packed.col.rows = (packedKeys df.index).map (packedRow df) ∧
      packed.col.Clean ∧ packed.col.chunks ≠ [] :=
  packFlat_spec df hne

/-- the packed index lists exactly the labels of the flat table, each once, strictly ascending;
    and a label has records iff it occurs -/
theorem packed_keys_are_the_labels (index : List Label) :
    (∀ l, l ∈ packedKeys index ↔ l ∈ index) ∧
    (packedKeys index).Pairwise (fun a b => a.le b = true ∧ a ≠ b) ∧
    (∀ l, recordsOf index l = [] ↔ l ∉ index) :=
  ⟨mem_packedKeys index, packedKeys_strict index, recordsOf_eq_nil_iff index⟩

/-- **`add_nested` (the default left join) end to end** (`NP.NFrame.addNested`): for every
    consistent frame and ANY flat table with at least one column, the call succeeds; the frame
    keeps its index and the content of every column it had (no base row multiplied, dropped or
    reordered); and row `i` of the new nested column is MISSING when no flat record carries the
    label of row `i`, and otherwise holds — for every field at once — the cells of exactly the
    flat records that carry that label, in their original relative order.  Flat records whose
    label is not in the frame appear nowhere. -/
theorem add_nested_left_end_to_end [Inhabited α] (F : NFrame α) (hF : F.Consistent) (flat : FlatDF α)
    (hne : flat.cols ≠ []) (name : String) (na : α) :
    ∃ cols' col, F.addNested flat name .left na =
        .ok (NFrame.setCol { index := F.index, cols := cols' } name (.nest col)) ∧
      All2 (fun p p' => p'.1 = p.1 ∧ ColData.same p.2 p'.2) F.cols cols' ∧
      col.rows = F.index.map fun l => if l ∈ flat.index then packedRow flat l else none :=
  addNested_left_rows F hF flat hne name na

/-- **`add_nested(how="inner")` end to end** (`NP.NFrame.addNested`): the result keeps exactly the
    frame rows whose label carries at least one flat record (`innerKept`), in their original order
    and with the content of every column they had, and every kept row holds the cells of exactly
    the flat records of its label, in original order — none of them is missing. -/
theorem add_nested_inner_end_to_end [Inhabited α] (F : NFrame α) (hF : F.Consistent) (flat : FlatDF α)
    (hne : flat.cols ≠ []) (name : String) (na : α) :
    let kept := innerKept F.index flat.index
    ∃ cols' col, F.addNested flat name .inner na =
        .ok (NFrame.setCol { index := kept.map fun i => F.index.getD i (.int 0), cols := cols' } name (.nest col)) ∧
      All2 (fun p p' => p'.1 = p.1 ∧ ColData.selected kept na p.2 p'.2) F.cols cols' ∧
      col.rows = kept.map fun i => packedRow flat (F.index.getD i (.int 0)) :=
  addNested_inner_rows F hF flat hne name na

/-- **`from_flat` end to end** (`NP.NFrame.fromFlat`): one row per first occurrence of a label,
    the base columns hold the cells of those first occurrences, and EVERY row of the nested
    column is present and holds the cells of exactly the records carrying the row's label, in
    their original order. -/
theorem from_flat_end_to_end [Inhabited α] (index : List Label) (base nested : List (String × String × List α))
    (hb : ∀ c ∈ base, c.2.2.length = index.length) (hne : nested ≠ []) (name : String) (na : α) :
    ∃ cols' col, NFrame.fromFlat index base nested name na =
        .ok (NFrame.setCol { index := firstLabels index, cols := cols' } name (.nest col)) ∧
      All2 (fun p p' => p'.1 = p.1 ∧ ColData.same p.2 p'.2)
        (base.map fun c => (c.1, ColData.base c.2.1 (filterBy ((duplicatedFirst index).map (!·)) c.2.2))) cols' ∧
      col.rows = (firstLabels index).map (packedRow { index := index, cols := nested }) :=
  fromFlat_rows index base nested hb hne name na

/-- non-vacuity: a consistent frame exists (labels `[b, c]`, one base column), and against the flat
    table labelled `[b, a, b]` the row of `b` holds records 0 and 2, the row of `c` is missing -/
example : (⟨[.str "b", .str "c"], [("x", .base "int64" [1, 2])]⟩ : NFrame Nat).Consistent :=
  ⟨by intro n t v h; simp at h; obtain ⟨_, _, rfl⟩ := h; rfl, by intro n c h; simp at h⟩
example : (([Label.str "b", .str "c"]).map fun l =>
      if l ∈ [Label.str "b", .str "a", .str "b"] then
        packedRow (⟨[.str "b", .str "a", .str "b"], [("t", "int64", [10, 11, 12])]⟩ : FlatDF Nat) l else none)
    = [some [("t", [10, 12])], none] := by decide

end NP.C09
