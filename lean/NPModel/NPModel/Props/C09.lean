/-
  C09 — Nesting attaches to each row exactly the records carrying its label.
  Property theorems only.

  `add_nested` = `pack` (stable sort by label + packer) then `DataFrame.join`; `from_flat` keeps
  the first occurrence of every label as the base row and nests all records of the label.
-/
import NPModel.Refine.PackFlat
import NPModel.Refine.Struct
import NPModel.Spec.Frame
namespace NP.C09
open NP
variable {α : Type}

/-- **The packed table holds, for every label, exactly the records carrying it, in their original
    relative order** — whatever the order and multiplicity of the labels in the flat table.
    (The left join then looks the row's label up in this packed column.) -/
theorem packed_row_holds_records_of_label (xs : List (Label × α)) (k : Label) (l : List α)
    (hm : (k, l) ∈ toRuns (sortedByLabel xs)) :
    l = valsOfLabel k (xs.map (·.1)) (xs.map (·.2)) :=
  (packFlat_rows xs k l hm).1

/-- Labels of the packed table are pairwise distinct, so the join matches every base row with at
    most one packed row: the default left join cannot multiply, drop or reorder base rows. -/
theorem packed_labels_distinct (xs : List (Label × α)) :
    ((toRuns (sortedByLabel xs)).map (·.1)).Pairwise (· ≠ ·) :=
  List.Pairwise.imp (fun h => h.2) (packFlat_index_strictly_ascending xs)

/-- A label that carries no record has no packed row (and its base row gets a missing value). -/
theorem label_without_records_absent (xs : List (Label × α)) (k : Label)
    (h : k ∉ xs.map (·.1)) : k ∉ (toRuns (sortedByLabel xs)).map (·.1) := by
  intro hk
  have h1 := toRuns_keys_mem (sortedByLabel xs) k hk
  have h2 : k ∈ xs.map (·.1) := ((sortedByLabel_perm xs).map (·.1)).mem_iff.mp h1
  exact h h2

/-- The join step of the left join is a `take` with a fill for unmatched rows, which refines to
    "row `i` of the result is the packed row its index points to, missing for `-1`"
    (chunk-level refinement of `take`, any layout). -/
theorem left_join_lookup (packed : PStruct α) (indexer : List (Option Nat)) :
    (packed.take indexer).rows = indexer.map (pickRow packed.rows) :=
  PStruct.take_rows packed indexer

/-- `from_flat`: the base rows are the first occurrences — an element is kept iff no equal label
    occurred before it. -/
theorem first_occurrence_kept (seen : List Label) (l : Label) (ls : List Label) :
    dupFirstGo seen (l :: ls) = seen.contains l :: dupFirstGo (l :: seen) ls := rfl

/-- non-vacuity: labels `[b, a, b]`, the packed row of `b` holds records 0 and 2 in that order -/
example : valsOfLabel (Label.str "b") [Label.str "b", Label.str "a", Label.str "b"] [0, 1, 2] = [0, 2] := by decide

end NP.C09
