/-
  C10 — Row-wise computation sees exactly each row's own data.
  Property theorems only.
-/
import NPModel.Refine.FrameLemmas
import NPModel.Refine.Samples
import NPModel.Refine.ReduceRows
import NPModel.Refine.SamplesFrame
import NPModel.Refine.CountNested
namespace NP.C10
open NP
variable {α : Type}

/-- **What `reduce` hands to the user function for a nested field of row `i` is that row's own
    list**: in a chunk, for a non-missing row `i` the element-view table of the row has, under
    field `f`, exactly the list `iter_field_lists(f)` yields at position `i` (a null child list
    reading as no elements) — any offsets, any buffers. -/
theorem iter_field_list_is_rows_own_list (s : PStruct α) (f : String) (k : PField α) (hk : s.kid? f = some k)
    (i : Nat) (t : Table α) (h : s.rowAt i = some t) :
    (t.find? (fun p => p.1 == f)).map (·.2) = some ((k.list.rows.getD i none).getD []) := by
  unfold PStruct.rowAt at h
  split at h
  · simp only [Option.some.injEq] at h
    subst h
    unfold PStruct.kid? at hk
    rw [List.find?_map]
    have : ((fun p : String × List α => p.1 == f) ∘ fun k : PField α => (k.name, (k.list.rows.getD i none).getD []))
        = fun k : PField α => k.name == f := by funext x; rfl
    rw [this, hk]
    rfl
  · cases h

/-- **Once per row, in row order, every requested column in the requested order**: whatever
    `reduce` builds, call `i` consists of the `i`-th element of every requested iterator, and there
    are as many calls as the shortest iterator allows (`zip`), at most one per row. -/
theorem reduce_calls_shape (F : NFrame α) (cols : List (Option String × String)) (d : α)
    (calls : List (List (RArg α))) (h : F.reduceCalls cols d = .ok calls) :
    calls.length ≤ F.index.length ∧ ∀ call ∈ calls, call.length = cols.length := by
  unfold NFrame.reduceCalls at h
  split at h
  · simp [throw, throwThe, MonadExceptOf.throw, bind, Except.bind] at h
  · simp only [pure, Except.pure, bind, Except.bind] at h
    split at h
    · simp at h
    · rename_i iters hit
      simp only [Except.ok.injEq] at h
      subst h
      have hlen : iters.length = cols.length := (mapM_ok_spec _ cols iters hit).1
      constructor
      · simp only [List.length_map, List.length_range]
        -- the fold of `min` starting at the number of rows never exceeds it
        have : ∀ (l : List Nat) (b : Nat), l.foldl min b ≤ b := by
          intro l
          induction l with
          | nil => intro b; exact Nat.le_refl b
          | cons a l ih => intro b; exact Nat.le_trans (ih (min b a)) (Nat.min_le_left b a)
        exact this _ _
      · intro call hc
        simp only [List.mem_map] at hc
        obtain ⟨i, _, rfl⟩ := hc
        simp [hlen]

/-- No requested column: refused. -/
theorem reduce_without_columns_refused (F : NFrame α) (d : α) : F.reduceCalls [] d = .error .valueError := by
  simp [NFrame.reduceCalls, throw, throwThe, MonadExceptOf.throw, bind, Except.bind]

/-- non-vacuity: the sample chunk, field `a`, row 0 (a slice into a larger buffer) -/
example : (Samples.s1.rowAt 0).map (fun t => (t.find? (fun p => p.1 == "a")).map (·.2)) = some (some [1, 2]) ∧
    (Samples.s1.kid? "a").map (fun k => (k.list.rows.getD 0 none).getD []) = some [1, 2] := by decide

/-- **`reduce`, call by call, through the implementation model**: for any non-empty list of
    requests, each a base column (one value per row) or a field of a cleanly stored nested column
    (`PCol.Clean`; any chunking and offsets), the call log has exactly one call per frame row, in
    row order, and call `i` has one argument per request in request order: the base value of row
    `i`, or the list that field has in row `i` of the element view — never another row's records,
    never a merged or shifted window; a row without records hands over no elements. -/
theorem reduce_hands_each_row_its_own (F : NFrame α) (cols : List (Option String × String)) (d : α)
    (hne : cols ≠ []) (hok : ∀ col ∈ cols, reduceColOK F col) :
    ∃ calls, F.reduceCalls cols d = .ok calls ∧ calls.length = F.index.length ∧
      ∀ i, i < F.index.length → ∀ (j : Nat) (col : Option String × String), cols[j]? = some col →
        ∃ a, (calls.getD i [])[j]? = some a ∧ reduceArg F col i d a :=
  reduceCalls_rows F cols d hne hok

/-- the flat values / per-row lists `iter_field_lists` yields are the field's lists in the element
    view, for every cleanly stored column (any number of chunks) -/
theorem iter_field_lists_of_rows (c : PCol α) (h : c.Clean) (f : String) (hf : c.ty.any (·.1 == f) = true) :
    ∃ ls, NArr.iterFieldLists c f = .ok ls ∧ ls.map (fun r => r.getD []) = Spec.fieldLists c.rows f ∧
      ls.length = c.len :=
  iterFieldLists_refines c h f hf

/-- non-vacuity of `reduce_hands_each_row_its_own`: the sample frame with the requests
    `reduce(f, "x", "n.a")` (a base column and a field of a two-chunk sliced nested column) -/
example : ∀ col ∈ [((none : Option String), "x"), (some "n", "a")], reduceColOK Samples.qframe col := by
  intro col hcol
  simp only [List.mem_cons, List.not_mem_nil, or_false] at hcol
  rcases hcol with rfl | rfl
  · exact ⟨"int64", [some (.int 1), some (.int 2), some (.int 3)], rfl, rfl⟩
  · refine ⟨Samples.qcol, rfl, ?_, by decide, by decide⟩
    refine ⟨by decide, by decide, by decide, ?_, by decide⟩
    intro s hs
    simp only [Samples.qcol, List.mem_cons, List.not_mem_nil, or_false] at hs
    rcases hs with rfl | rfl <;> (unfold PStruct.noHidden; decide)

/-- **`count_nested` reports each row's own number of records** (without `by`): on a cleanly stored column in any
    chunking the counts are, row by row, the numbers of records of the element view — 0 for a missing row, 0 for an
    empty row, one count per input row in row order. -/
theorem count_nested_counts_each_rows_records (c : PCol α) (h : c.Clean) (hch : c.chunks ≠ []) :
    NArr.countRecords c = .ok (c.rows.map Row.len) ∧ (c.rows.map Row.len).length = c.len := by
  refine ⟨countRecords_refines c h hch, ?_⟩
  rw [List.length_map, PCol.rows_length]

/-- non-vacuity: evaluated on the two-chunk sliced sample column -/
example : NArr.countRecords Samples.qcol = .ok (Samples.qcol.rows.map Row.len) := by decide


end NP.C10
