/-
  C10 — Row-wise computation sees exactly each row's own data.
  Property theorems only.
-/
import NPModel.Refine.FrameLemmas
import NPModel.Refine.Samples
namespace NP.C10
open NP
variable {α : Type}

/-- **What `reduce` hands to the user function for a nested field of row `i` is that row's own
    list**: in a chunk, for a non-missing row `i` the element-view table of the row has, under
    field `f`, exactly the list `iter_field_lists(f)` yields at position `i` (a null child list
    reading as no elements) — any offsets, any buffers. -/
theorem iter_field_list_is_rows_own_list (s : PStruct α) (f : String) (k : PField α) (hk : s.kid? f = some k)
    (i : Nat) (t : Table α) (h : s.rowAt i = some t) :
    (t.find? (fun p => p.1 == f)).map (·.2) = some ((k.list.rows.getD i none).getD []) := by
  unfold PStruct.rowAt at h
  split at h
  · simp only [Option.some.injEq] at h
    subst h
    unfold PStruct.kid? at hk
    rw [List.find?_map]
    have : ((fun p : String × List α => p.1 == f) ∘ fun k : PField α => (k.name, (k.list.rows.getD i none).getD []))
        = fun k : PField α => k.name == f := by funext x; rfl
    rw [this, hk]
    rfl
  · cases h

/-- **Once per row, in row order, every requested column in the requested order**: whatever
    `reduce` builds, call `i` consists of the `i`-th element of every requested iterator, and there
    are as many calls as the shortest iterator allows (`zip`), at most one per row. -/
theorem reduce_calls_shape (F : NFrame α) (cols : List (Option String × String)) (d : α)
    (calls : List (List (RArg α))) (h : F.reduceCalls cols d = .ok calls) :
    calls.length ≤ F.index.length ∧ ∀ call ∈ calls, call.length = cols.length := by
  unfold NFrame.reduceCalls at h
  split at h
  · simp [throw, throwThe, MonadExceptOf.throw, bind, Except.bind] at h
  · simp only [pure, Except.pure, bind, Except.bind] at h
    split at h
    · simp at h
    · rename_i iters hit
      simp only [Except.ok.injEq] at h
      subst h
      have hlen : iters.length = cols.length := (mapM_ok_spec _ cols iters hit).1
      constructor
      · simp only [List.length_map, List.length_range]
        -- the fold of `min` starting at the number of rows never exceeds it
        have : ∀ (l : List Nat) (b : Nat), l.foldl min b ≤ b := by
          intro l
          induction l with
          | nil => intro b; exact Nat.le_refl b
          | cons a l ih => intro b; exact Nat.le_trans (ih (min b a)) (Nat.min_le_left b a)
        exact this _ _
      · intro call hc
        simp only [List.mem_map] at hc
        obtain ⟨i, _, rfl⟩ := hc
        simp [hlen]

/-- No requested column: refused. -/
theorem reduce_without_columns_refused (F : NFrame α) (d : α) : F.reduceCalls [] d = .error .valueError := by
  simp [NFrame.reduceCalls, throw, throwThe, MonadExceptOf.throw, bind, Except.bind]

/-- non-vacuity: the sample chunk, field `a`, row 0 (a slice into a larger buffer) -/
example : (Samples.s1.rowAt 0).map (fun t => (t.find? (fun p => p.1 == "a")).map (·.2)) = some (some [1, 2]) ∧
    (Samples.s1.kid? "a").map (fun k => (k.list.rows.getD 0 none).getD []) = some [1, 2] := by decide

end NP.C10
