/-
  C04 — Behaviour does not depend on physical layout or construction history.
  Property theorems only: each is a corollary of a refinement theorem (both layouts refine the
  same function of the logical rows).
-/
import NPModel.Refine.Fields
import NPModel.Refine.Take
import NPModel.Refine.Samples
import NPModel.Refine.Observers
import NPModel.Refine.Slices
import NPModel.Refine.QueryRows
import NPModel.Refine.SortNested
import NPModel.Refine.FieldRows
import NPModel.Refine.DropnaNested
import NPModel.Refine.SamplesFrame
import NPModel.Refine.ViewTrips2
namespace NP.C04
open NP
variable {α : Type}

/-- Two chunks that read as the same rows — whatever their offsets, buffers and hidden data —
    give the same rows after any positional selection. -/
theorem take_layout_independent (s₁ s₂ : PStruct α) (idx : List (Option Nat)) (h : s₁.rows = s₂.rows) :
    (s₁.take idx).rows = (s₂.take idx).rows := by
  rw [PStruct.take_rows, PStruct.take_rows, h]

/-- … and after any window. -/
theorem slice_layout_independent (s₁ s₂ : PStruct α) (st n : Nat) (h : s₁.rows = s₂.rows)
    (h₁ : st + n ≤ s₁.len) : (s₁.slice st n).rows = (s₂.slice st n).rows := by
  have hl : s₁.len = s₂.len := by
    have := congrArg List.length h
    simpa [PStruct.rows_length] using this
  rw [PStruct.slice_rows s₁ st n h₁, PStruct.slice_rows s₂ st n (by omega), h]

/-- A list array and its canonical re-encoding (what `take`, `filter`, `concat`, pickling and
    parquet produce) read as the same rows. -/
theorem canonical_reencoding_same_rows (l : PList α) : (PList.ofRows l.rows).rows = l.rows :=
  PList.ofRows_rows l.rows

/-- **`__getitem__` cannot tell two layouts of the same rows apart**: for any two well-formed
    columns that read as the same list of rows — whatever their chunking, slice offsets, buffers and
    hidden data — every key gives the same logical result, or fails on both. -/
theorem getitem_layout_independent (c₁ c₂ : PCol α) (h₁ : c₁.WF = true) (h₂ : c₂.WF = true)
    (h : c₁.rows = c₂.rows) (k : Key) :
    (NArr.getItem c₁ k).map absGet = (NArr.getItem c₂ k).map absGet := by
  rw [getItem_refines c₁ h₁ k, getItem_refines c₂ h₂ k, h]

/-- … and neither can `take`. -/
theorem take_column_layout_independent (c₁ c₂ : PCol α) (h₁ : c₁.WF = true) (h₂ : c₂.WF = true)
    (a₁ : c₁.aligned) (a₂ : c₂.aligned) (h : c₁.rows = c₂.rows) (indices : List Int) (fill : Row α) :
    (NArr.take c₁ indices false fill).map PCol.rows = (NArr.take c₂ indices false fill).map PCol.rows := by
  rw [take_refines_nofill c₁ h₁ a₁, take_refines_nofill c₂ h₂ a₂, h]

/-- … nor pickling (combine_chunks). -/
theorem pickle_layout_independent (c₁ c₂ : PCol α) (h₁ : c₁.WF = true) (h₂ : c₂.WF = true) (h : c₁.rows = c₂.rows) :
    (NArr.pickle c₁).rows = (NArr.pickle c₂).rows := by
  have e : ∀ c : PCol α, c.WF = true → (NArr.pickle c).rows = c.rows := by
    intro c hw
    unfold NArr.pickle PCol.rows
    simp only [List.flatMap_cons, List.flatMap_nil, List.append_nil]
    exact PCol.combine_rows c hw
  rw [e c₁ h₁, e c₂ h₂, h]

/-- non-vacuity: two different layouts of the same two rows -/
example : (Samples.s1.slice 2 1).rows = (Samples.s1.take [some 2]).rows ∧
    (Samples.s1.slice 2 1) ≠ (Samples.s1.take [some 2]) := by decide

/-! ### column- and frame-level operations of the implementation model

Every theorem below compares the SAME operation of the implementation model on two columns that
read as the same rows (and declare the same fields) but may differ in everything physical: number
of chunks, offsets, buffers, slices.  Each is a corollary of the refinement theorem of that
operation: both sides equal one function of the rows. -/

/-- the summary observers (`list_lengths`, `flat_length`, `list_offsets`, `get_list_index`) -/
theorem observers_layout_independent (c₁ c₂ : PCol α) (h₁ : c₁.Clean) (h₂ : c₂.Clean) (h : c₁.rows = c₂.rows) :
    NArr.listLengths c₁ = NArr.listLengths c₂ ∧ NArr.flatLength c₁ = NArr.flatLength c₂ ∧
    NArr.listOffsets c₁ = NArr.listOffsets c₂ ∧ NArr.getListIndex c₁ = NArr.getListIndex c₂ := by
  rw [listLengths_refines c₁ h₁, listLengths_refines c₂ h₂, flatLength_refines c₁ h₁, flatLength_refines c₂ h₂,
    listOffsets_refines c₁ h₁, listOffsets_refines c₂ h₂, getListIndex_refines c₁ h₁, getListIndex_refines c₂ h₂, h]
  exact ⟨rfl, rfl, rfl, rfl⟩

/-- the flat views: the flat index of a series, the flat values of a field, `to_flat()` -/
theorem flat_views_layout_independent (index : List Label) (c₁ c₂ : PCol α) (h₁ : c₁.Clean) (h₂ : c₂.Clean)
    (hr : c₁.rows = c₂.rows) (ht : c₁.ty = c₂.ty) (hc₁ : c₁.chunks ≠ []) (hc₂ : c₂.chunks ≠ [])
    (hi : index.length = c₁.len) (f : String) (hf : c₁.ty.any (·.1 == f) = true) :
    NSeries.getFlatIndex { index := index, col := c₁ } = NSeries.getFlatIndex { index := index, col := c₂ } ∧
    NArr.flatField c₁ f = NArr.flatField c₂ f ∧
    NSeries.toFlat { index := index, col := c₁ } none = NSeries.toFlat { index := index, col := c₂ } none := by
  have hi₂ : index.length = c₂.len := by rw [hi, ← PCol.rows_length, ← PCol.rows_length, hr]
  rw [getFlatIndex_refines index c₁ h₁, getFlatIndex_refines index c₂ h₂, flatField_refines c₁ h₁ f hf,
    flatField_refines c₂ h₂ f (ht ▸ hf), toFlat_refines index c₁ h₁ hc₁ hi, toFlat_refines index c₂ h₂ hc₂ hi₂, hr]
  refine ⟨rfl, rfl, ?_⟩
  unfold PCol.abs
  rw [hr, ht]

/-- `__setitem__`: the rows after the assignment (or the error) are the same -/
theorem setitem_layout_independent (c₁ c₂ : PCol α) (h₁ : c₁.WF = true) (h₂ : c₂.WF = true)
    (a₁ : c₁.aligned) (a₂ : c₂.aligned) (hr : c₁.rows = c₂.rows) (ht : c₁.ty = c₂.ty) (k : Key) (v : SetVal α)
    (hd : k.distinct c₁.len) :
    (NArr.setItem c₁ k v).map PCol.rows = (NArr.setItem c₂ k v).map PCol.rows := by
  have hl : c₁.len = c₂.len := by rw [← PCol.rows_length, ← PCol.rows_length, hr]
  rw [setItem_refines c₁ h₁ a₁ k v hd, setItem_refines c₂ h₂ a₂ k v (hl ▸ hd), hr, ht]

/-- the per-row lists of every field, column-major (what the flat view, `query`, `dropna` and
    `sort_values` start from), depend on the rows and the declared fields only -/
theorem colLists_layout_independent (c₁ c₂ : PCol α) (hr : c₁.rows = c₂.rows) (ht : c₁.ty = c₂.ty) :
    colLists c₁ = colLists c₂ := by
  unfold colLists tyOf
  rw [hr, ht]

/-- **`query` on a nested layer cannot tell two layouts apart**: two frames whose nested column
    `nest` is stored cleanly in ANY two layouts of the same rows get, from the same condition,
    nested columns with the same rows (and both succeed). -/
theorem query_layout_independent (F₁ F₂ : NFrame Cell) (e : Expr) (nest : String) (c₁ c₂ : PCol Cell)
    (hl : e.layers = [some nest])
    (hn₁ : F₁.nestedColumns.contains nest = true) (hn₂ : F₂.nestedColumns.contains nest = true)
    (hc₁ : F₁.nest? nest = .ok c₁) (hc₂ : F₂.nest? nest = .ok c₂) (h₁ : c₁.Clean) (h₂ : c₂.Clean)
    (hch₁ : c₁.chunks ≠ []) (hch₂ : c₂.chunks ≠ []) (hi₁ : F₁.index.length = c₁.len) (hi₂ : F₂.index.length = c₂.len)
    (hr : c₁.rows = c₂.rows) (ht : c₁.ty = c₂.ty) (vals : List Cell)
    (hev : evalAll (ordFlat (colLists c₁) (c₁.rows.map Row.len)).len
      (recordLookup (ordFlat (colLists c₁) (c₁.rows.map Row.len)) nest) e = .ok vals) :
    ∃ col₁ col₂, F₁.query e = .ok (F₁.setCol nest (.nest col₁)) ∧ F₂.query e = .ok (F₂.setCol nest (.nest col₂)) ∧
      col₁.rows = col₂.rows := by
  have hcl := colLists_layout_independent c₁ c₂ hr ht
  obtain ⟨col₁, hq₁, hrows₁, _⟩ := query_nested_refines F₁ e nest c₁ hl hn₁ hc₁ h₁ hch₁ hi₁ vals hev
  obtain ⟨col₂, hq₂, hrows₂, _⟩ := query_nested_refines F₂ e nest c₂ hl hn₂ hc₂ h₂ hch₂ hi₂ vals (by rw [← hcl, ← hr]; exact hev)
  refine ⟨col₁, col₂, hq₁, hq₂, ?_⟩
  rw [hrows₁, hrows₂, hcl, hr]

/-- **`sort_values` on a nested layer cannot tell two layouts apart**. -/
theorem sort_layout_independent [Inhabited α] (lt : α → α → Bool) (isNull : α → Bool) (F₁ F₂ : NFrame α)
    (nest : String) (c₁ c₂ : PCol α) (hc₁ : F₁.nest? nest = .ok c₁) (hc₂ : F₂.nest? nest = .ok c₂)
    (h₁ : c₁.Clean) (h₂ : c₂.Clean) (hch₁ : c₁.chunks ≠ []) (hch₂ : c₂.chunks ≠ [])
    (hi₁ : F₁.index.length = c₁.len) (hi₂ : F₂.index.length = c₂.len)
    (hr : c₁.rows = c₂.rows) (ht : c₁.ty = c₂.ty) (keys : List (String × Bool))
    (hkeys : ∀ k ∈ keys, c₁.ty.any (·.1 == k.1) = true) (naFirst : Bool)
    (hlt : KeysOrdered lt isNull (sortKeyCols (ordFlat (colLists c₁) (c₁.rows.map Row.len)) keys)) :
    ∃ col₁ col₂, F₁.sortNested lt isNull nest keys naFirst = .ok (F₁.setCol nest (.nest col₁)) ∧
      F₂.sortNested lt isNull nest keys naFirst = .ok (F₂.setCol nest (.nest col₂)) ∧ col₁.rows = col₂.rows := by
  have hcl := colLists_layout_independent c₁ c₂ hr ht
  obtain ⟨b₁, col₁, hs₁, hrows₁, _, _, _, hb₁⟩ := sortNested_rows lt isNull F₁ nest c₁ hc₁ h₁ hch₁ hi₁ keys hkeys naFirst hlt
  obtain ⟨b₂, col₂, hs₂, hrows₂, _, _, _, hb₂⟩ := sortNested_rows lt isNull F₂ nest c₂ hc₂ h₂ hch₂ hi₂ keys
    (fun k hk => ht ▸ hkeys k hk) naFirst (by rw [← hcl, ← hr]; exact hlt)
  refine ⟨col₁, col₂, hs₁, hs₂, ?_⟩
  rw [hrows₁, hrows₂, hb₁, hb₂, hcl, hr]

/-- **`dropna` on a nested layer cannot tell two layouts apart**. -/
theorem dropna_layout_independent (isNull : α → Bool) (F₁ F₂ : NFrame α) (nest : String) (c₁ c₂ : PCol α)
    (hc₁ : F₁.nest? nest = .ok c₁) (hc₂ : F₂.nest? nest = .ok c₂) (h₁ : c₁.Clean) (h₂ : c₂.Clean)
    (hch₁ : c₁.chunks ≠ []) (hch₂ : c₂.chunks ≠ []) (hi₁ : F₁.index.length = c₁.len) (hi₂ : F₂.index.length = c₂.len)
    (hr : c₁.rows = c₂.rows) (ht : c₁.ty = c₂.ty) (how : How) (thresh : Option Nat) (subset : Option (List String))
    (hsub : ∀ fs, subset = some fs → ∀ f ∈ fs, c₁.ty.any (·.1 == f) = true) :
    ∃ col₁ col₂, F₁.dropnaNested isNull nest how thresh subset = .ok (F₁.setCol nest (.nest col₁)) ∧
      F₂.dropnaNested isNull nest how thresh subset = .ok (F₂.setCol nest (.nest col₂)) ∧ col₁.rows = col₂.rows := by
  have hcl := colLists_layout_independent c₁ c₂ hr ht
  obtain ⟨col₁, hd₁, hrows₁, _⟩ := dropnaNested_rows isNull F₁ nest c₁ hc₁ h₁ hch₁ hi₁ how thresh subset hsub
  obtain ⟨col₂, hd₂, hrows₂, _⟩ := dropnaNested_rows isNull F₂ nest c₂ hc₂ h₂ hch₂ hi₂ how thresh subset
    (fun fs hfs f hf => ht ▸ hsub fs hfs f hf)
  refine ⟨col₁, col₂, hd₁, hd₂, ?_⟩
  rw [hrows₁, hrows₂, hcl, hr]

/-- **Field edits cannot tell two layouts apart**: whenever `set_list_field` / `set_flat_field` /
    `fill_field_lists` succeed on two layouts of the same rows (and the same declared fields), the
    edited columns have the same rows and declare the same fields. -/
theorem field_edits_layout_independent {c₁ c₂ c₁' c₂' : PCol α} {f ty : String} {keep : Bool}
    (h₁ : c₁.Clean) (h₂ : c₂.Clean) (hr : c₁.rows = c₂.rows) (ht : c₁.ty = c₂.ty) :
    (∀ (value : PList α), value.rows.length = value.len →
      NArr.setListField c₁ f ty value keep = .ok c₁' → NArr.setListField c₂ f ty value keep = .ok c₂' →
      c₁'.rows = c₂'.rows ∧ c₁'.ty = c₂'.ty) ∧
    (∀ (xs : List α), NArr.setFlatField c₁ f ty (.array xs) keep = .ok c₁' →
      NArr.setFlatField c₂ f ty (.array xs) keep = .ok c₂' → c₁'.rows = c₂'.rows ∧ c₁'.ty = c₂'.ty) ∧
    (∀ (vs : List α), NArr.fillFieldLists c₁ f ty vs keep = .ok c₁' → NArr.fillFieldLists c₂ f ty vs keep = .ok c₂' →
      c₁'.rows = c₂'.rows ∧ c₁'.ty = c₂'.ty) := by
  refine ⟨?_, ?_, ?_⟩
  · intro value hvl e₁ e₂
    have ⟨r₁, t₁⟩ := setListField_rows e₁ hvl
    have ⟨r₂, t₂⟩ := setListField_rows e₂ hvl
    exact ⟨by rw [r₁, r₂, hr], by rw [t₁, t₂, ht]⟩
  · intro xs e₁ e₂
    have ⟨r₁, t₁, _⟩ := setFlatField_rows h₁ e₁
    have ⟨r₂, t₂, _⟩ := setFlatField_rows h₂ e₂
    exact ⟨by rw [r₁, r₂, hr], by rw [t₁, t₂, ht]⟩
  · intro vs e₁ e₂
    have ⟨r₁, t₁⟩ := fillFieldLists_rows h₁ e₁
    have ⟨r₂, t₂⟩ := fillFieldLists_rows h₂ e₂
    exact ⟨by rw [r₁, r₂, hr], by rw [t₁, t₂, ht]⟩

/-- the list view round trip does not see the layout: two series on `Clean` storage with the same declared
    fields and the same rows — in ANY two layouts — give, through `to_lists` then `pack_lists`, the same rows -/
theorem list_view_round_trip_layout_independent (s₁ s₂ : NSeries α) (h₁ : s₁.col.Clean) (h₂ : s₂.col.Clean)
    (hne₁ : s₁.col.chunks ≠ []) (hne₂ : s₂.col.chunks ≠ [])
    (hty : s₁.col.ty = s₂.col.ty) (hrows : s₁.col.rows = s₂.col.rows) :
    ∃ df₁ p₁ df₂ p₂, s₁.toLists none = .ok df₁ ∧ packLists df₁.index df₁.asChunks true = .ok p₁ ∧
      s₂.toLists none = .ok df₂ ∧ packLists df₂.index df₂.asChunks true = .ok p₂ ∧
      p₁.col.rows = p₂.col.rows :=
  listTrip_layout_independent s₁ s₂ h₁ h₂ hne₁ hne₂ hty hrows

end NP.C04
