/-
  C04 — Behaviour does not depend on physical layout or construction history.
  Property theorems only: each is a corollary of a refinement theorem (both layouts refine the
  same function of the logical rows).
-/
import NPModel.Refine.Fields
import NPModel.Refine.Samples
namespace NP.C04
open NP
variable {α : Type}

/-- Two chunks that read as the same rows — whatever their offsets, buffers and hidden data —
    give the same rows after any positional selection. -/
theorem take_layout_independent (s₁ s₂ : PStruct α) (idx : List (Option Nat)) (h : s₁.rows = s₂.rows) :
    (s₁.take idx).rows = (s₂.take idx).rows := by
  rw [PStruct.take_rows, PStruct.take_rows, h]

/-- … and after any window. -/
theorem slice_layout_independent (s₁ s₂ : PStruct α) (st n : Nat) (h : s₁.rows = s₂.rows)
    (h₁ : st + n ≤ s₁.len) : (s₁.slice st n).rows = (s₂.slice st n).rows := by
  have hl : s₁.len = s₂.len := by
    have := congrArg List.length h
    simpa [PStruct.rows_length] using this
  rw [PStruct.slice_rows s₁ st n h₁, PStruct.slice_rows s₂ st n (by omega), h]

/-- A list array and its canonical re-encoding (what `take`, `filter`, `concat`, pickling and
    parquet produce) read as the same rows. -/
theorem canonical_reencoding_same_rows (l : PList α) : (PList.ofRows l.rows).rows = l.rows :=
  PList.ofRows_rows l.rows

/-- non-vacuity: two different layouts of the same two rows -/
example : (Samples.s1.slice 2 1).rows = (Samples.s1.take [some 2]).rows ∧
    (Samples.s1.slice 2 1) ≠ (Samples.s1.take [some 2]) := by decide

end NP.C04
