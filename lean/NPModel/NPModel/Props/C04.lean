/-
  C04 — Behaviour does not depend on physical layout or construction history.
  Property theorems only: each is a corollary of a refinement theorem (both layouts refine the
  same function of the logical rows).
-/
import NPModel.Refine.Fields
import NPModel.Refine.Take
import NPModel.Refine.Samples
namespace NP.C04
open NP
variable {α : Type}

/-- Two chunks that read as the same rows — whatever their offsets, buffers and hidden data —
    give the same rows after any positional selection. -/
theorem take_layout_independent (s₁ s₂ : PStruct α) (idx : List (Option Nat)) (h : s₁.rows = s₂.rows) :
    (s₁.take idx).rows = (s₂.take idx).rows := by
  rw [PStruct.take_rows, PStruct.take_rows, h]

/-- … and after any window. -/
theorem slice_layout_independent (s₁ s₂ : PStruct α) (st n : Nat) (h : s₁.rows = s₂.rows)
    (h₁ : st + n ≤ s₁.len) : (s₁.slice st n).rows = (s₂.slice st n).rows := by
  have hl : s₁.len = s₂.len := by
    have := congrArg List.length h
    simpa [PStruct.rows_length] using this
  rw [PStruct.slice_rows s₁ st n h₁, PStruct.slice_rows s₂ st n (by omega), h]

/-- A list array and its canonical re-encoding (what `take`, `filter`, `concat`, pickling and
    parquet produce) read as the same rows. -/
theorem canonical_reencoding_same_rows (l : PList α) : (PList.ofRows l.rows).rows = l.rows :=
  PList.ofRows_rows l.rows

/-- **`__getitem__` cannot tell two layouts of the same rows apart**: for any two well-formed
    columns that read as the same list of rows — whatever their chunking, slice offsets, buffers and
    hidden data — every key gives the same logical result, or fails on both. -/
theorem getitem_layout_independent (c₁ c₂ : PCol α) (h₁ : c₁.WF = true) (h₂ : c₂.WF = true)
    (h : c₁.rows = c₂.rows) (k : Key) :
    (NArr.getItem c₁ k).map absGet = (NArr.getItem c₂ k).map absGet := by
  rw [getItem_refines c₁ h₁ k, getItem_refines c₂ h₂ k, h]

/-- … and neither can `take`. -/
theorem take_column_layout_independent (c₁ c₂ : PCol α) (h₁ : c₁.WF = true) (h₂ : c₂.WF = true)
    (a₁ : c₁.aligned) (a₂ : c₂.aligned) (h : c₁.rows = c₂.rows) (indices : List Int) (fill : Row α) :
    (NArr.take c₁ indices false fill).map PCol.rows = (NArr.take c₂ indices false fill).map PCol.rows := by
  rw [take_refines_nofill c₁ h₁ a₁, take_refines_nofill c₂ h₂ a₂, h]

/-- … nor pickling (combine_chunks). -/
theorem pickle_layout_independent (c₁ c₂ : PCol α) (h₁ : c₁.WF = true) (h₂ : c₂.WF = true) (h : c₁.rows = c₂.rows) :
    (NArr.pickle c₁).rows = (NArr.pickle c₂).rows := by
  have e : ∀ c : PCol α, c.WF = true → (NArr.pickle c).rows = c.rows := by
    intro c hw
    unfold NArr.pickle PCol.rows
    simp only [List.flatMap_cons, List.flatMap_nil, List.append_nil]
    exact PCol.combine_rows c hw
  rw [e c₁ h₁, e c₂ h₂, h]

/-- non-vacuity: two different layouts of the same two rows -/
example : (Samples.s1.slice 2 1).rows = (Samples.s1.take [some 2]).rows ∧
    (Samples.s1.slice 2 1) ≠ (Samples.s1.take [some 2]) := by decide

end NP.C04
