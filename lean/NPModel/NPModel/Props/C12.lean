/-
  C12 — Dropping missing values in a nested layer removes incomplete records per row.
  Property theorems only.
-/
import NPModel.Refine.Repack
import NPModel.Spec.Frame
import NPModel.Refine.Repacked
import NPModel.Refine.DropnaNested
namespace NP.C12
open NP
variable {α : Type}

/-- **Removing incomplete records inside every row**: `dropna` on a nested layer runs the same
    filter-and-repack pipeline as a nested query, with the mask "record is complete".  For every
    number of rows, row lengths and completeness pattern: packed rows = non-empty filtered rows in
    order; packed index = rows that keep a record (the others become missing); the records of row
    `i` after the operation are exactly its complete records in their original order. -/
theorem dropna_filters_inside_rows (masks : List (List Bool)) (lists : List (List α))
    (h : All2 (fun m l => m.length = l.length) masks lists) :
    let keep := masks.flatten
    let ords := repeatEach (List.range lists.length) (lists.map List.length)
    let ords' := filterBy keep ords
    let flat' := filterBy keep lists.flatten
    segs (packOffsets ords') flat' = (nonemptyRuns (rowRuns 0 masks lists)).map (·.2) ∧
    ((packOffsets ords').dropLast).map (fun o => ords'.getD o 0) = (nonemptyRuns (rowRuns 0 masks lists)).map (·.1) ∧
    ∀ i m l, masks[i]? = some m → lists[i]? = some l → valsOfLabel i ords' flat' = filterBy m l :=
  repack_filtered masks lists h

/-- `how="any"` (the default): a record is kept iff none of the inspected cells is missing. -/
theorem how_any (isNull : α → Bool) (cells : List α) :
    keepRecord isNull .any none cells = cells.all (fun c => !isNull c) := by
  unfold keepRecord
  simp only
  induction cells with
  | nil => simp
  | cons c cs ih =>
    cases hc : isNull c
    · simp [List.filter_cons, hc] at ih ⊢
      exact ih
    · simp only [List.filter_cons, hc, Bool.not_true, Bool.false_eq_true, if_false, List.length_cons,
        List.all_cons, Bool.false_and, decide_eq_false_iff_not]
      have := List.length_filter_le (fun c => !isNull c) cs
      omega

/-- `how="all"`: a record is dropped iff every inspected cell is missing (and there is one). -/
theorem how_all (isNull : α → Bool) (cells : List α) (hne : cells ≠ []) :
    keepRecord isNull .all none cells = cells.any (fun c => !isNull c) := by
  unfold keepRecord
  simp only
  have hl : cells.length ≠ 0 := by simpa using hne
  simp only [hl, or_false]
  induction cells with
  | nil => exact absurd rfl hne
  | cons c cs ih =>
    cases hc : isNull c
    · simp [List.filter_cons, hc]
    · cases cs with
      | nil => simp [List.filter_cons, hc]
      | cons c' cs' =>
        have := ih (by simp) (by simp)
        simp only [List.filter_cons, hc, Bool.not_true, Bool.false_eq_true, if_false, List.any_cons, Bool.false_or]
        simpa [List.filter_cons] using this

/-- `thresh=t`: a record is kept iff at least `t` inspected cells are present. -/
theorem thresh_counts_present (isNull : α → Bool) (how : How) (t : Nat) (cells : List α) :
    keepRecord isNull how (some t) cells = decide ((cells.filter fun c => !isNull c).length ≥ t) := rfl

/-- Target resolution: subset entries naming two different layers are refused. -/
theorem mixed_subset_refused (nested : List String) (a b : String) (ha : nested.contains a = true)
    (hb : nested.contains b = true) (hab : a ≠ b) (f g : String) (on : Option String) :
    resolveDropnaTarget nested on (some [[a, f], [b, g]]) = .error .valueError := by
  have hba : ¬ (b = a) := fun h => hab h.symm
  have ha' : a ∈ nested := by simpa using ha
  have hb' : b ∈ nested := by simpa using hb
  simp [resolveDropnaTarget, subsetLayer, ha', hb', bind, Except.bind, pure, Except.pure, List.mapM_cons, hba]

/-- `on_nested` alone aims at that layer; a dotted subset alone aims at its layer; both must agree. -/
theorem on_nested_aims (nested : List String) (n : String) (h : nested.contains n = true) :
    resolveDropnaTarget nested (some n) none = .ok (.nest n) := by
  have h' : n ∈ nested := by simpa using h
  simp [resolveDropnaTarget, h', bind, Except.bind, pure, Except.pure]

theorem subset_aims (nested : List String) (n f : String) (h : nested.contains n = true) :
    resolveDropnaTarget nested none (some [[n, f]]) = .ok (.nest n) := by
  have h' : n ∈ nested := by simpa using h
  simp [resolveDropnaTarget, subsetLayer, h', bind, Except.bind, pure, Except.pure, List.mapM_cons]

theorem conflicting_targets_refused (nested : List String) (n m f : String) (hn : nested.contains n = true)
    (hm : nested.contains m = true) (hne : m ≠ n) :
    resolveDropnaTarget nested (some n) (some [[m, f]]) = .error .valueError := by
  have hn' : n ∈ nested := by simpa using hn
  have hm' : m ∈ nested := by simpa using hm
  simp [resolveDropnaTarget, subsetLayer, hn', hm', bind, Except.bind, pure, Except.pure, List.mapM_cons, hne]

theorem base_is_default (nested : List String) : resolveDropnaTarget nested none none = .ok .base := by
  simp [resolveDropnaTarget, pure, Except.pure, bind, Except.bind]

example : keepRecord (fun (c : Option Nat) => c.isNone) .any none [some 1, none] = false ∧
    keepRecord (fun (c : Option Nat) => c.isNone) .all none [some 1, none] = true ∧
    keepRecord (fun (c : Option Nat) => c.isNone) .any (some 1) [some 1, none] = true := by decide

/-- **`dropna` on a nested layer, at the level of the frame**: with `masks` = "this record has no
    null in the inspected fields" (any masks), the flat view filtered by the flattened mask and
    re-packed through `_set_filtered_flat_df` leaves in row `i` exactly the complete records of
    row `i` in their original order, every field filtered by the same mask; a row left without
    records becomes missing, and no row of the frame is dropped (`col.rows.length` = number of
    frame rows). -/
theorem dropna_filters_rows_of_the_frame (F : NFrame α) (nest : String)
    (cols : List (String × String × List (List α))) (lens : List Nat) (masks : List (List Bool))
    (hn : lens.length = F.index.length) (hcols : ∀ c ∈ cols, c.2.2.map List.length = lens)
    (hmasks : All2 (fun m n => m.length = n) masks lens) (hne : cols ≠ []) :
    ∃ col, F.setFilteredFlatDf nest ((ordFlat cols lens).filterRows masks.flatten) = .ok (F.setCol nest (.nest col)) ∧
      col.rows = repackedRows (cols.map fun c => (c.1, c.2.1, filterRowsBy masks c.2.2))
        (masks.map fun m => (m.filter id).length) ∧ col.rows.length = F.index.length := by
  obtain ⟨col, h1, h2⟩ := filter_then_repack F nest cols lens masks hn hcols hmasks hne
  refine ⟨col, h1, h2, ?_⟩
  rw [h2]
  simp [repackedRows, hmasks.length_eq, hn]

/-- **`dropna` on a nested layer, end to end** (`NP.NFrame.dropnaNested`, the model checked against
    the code): for every frame whose nested column `nest` is stored cleanly (any chunking and
    offsets), every `how` / `thresh`, and every `subset` naming fields of that column (or none),
    the call succeeds and replaces only that column; record `j` of the flat view is kept iff
    `keepRecord` says so of its cells in the inspected fields (`dropna_keeps_by_record`); row `i` of
    the result holds exactly the kept records of row `i` in their original order, every field
    filtered alike; a row left without records is missing; no frame row is added, dropped or
    moved. -/
theorem dropna_nested_end_to_end (isNull : α → Bool) (F : NFrame α) (nest : String) (c : PCol α)
    (hc : F.nest? nest = .ok c) (hclean : c.Clean) (hch : c.chunks ≠ []) (hidx : F.index.length = c.len)
    (how : How) (thresh : Option Nat) (subset : Option (List String))
    (hsub : ∀ fs, subset = some fs → ∀ f ∈ fs, c.ty.any (·.1 == f) = true) :
    let lens := c.rows.map Row.len
    let flat := ordFlat (colLists c) lens
    let keep := dropnaKeep isNull how thresh (inspectedCols flat subset) flat.len
    let masks := Spec.splitBy lens keep
    ∃ col, F.dropnaNested isNull nest how thresh subset = .ok (F.setCol nest (.nest col)) ∧
      col.rows = repackedRows ((colLists c).map fun f => (f.1, f.2.1, filterRowsBy masks f.2.2))
        (masks.map fun m => (m.filter id).length) ∧
      col.rows.length = F.index.length ∧ masks.flatten = keep ∧ masks.map List.length = lens :=
  dropnaNested_rows isNull F nest c hc hclean hch hidx how thresh subset hsub

/-- the verdict is per record: record `j` is kept iff `keepRecord` accepts its own cells -/
theorem dropna_keeps_by_record (isNull : α → Bool) (how : How) (thresh : Option Nat)
    (cols : List (String × String × List α)) (n j : Nat) (hj : j < n) :
    (dropnaKeep isNull how thresh cols n)[j]? = some (keepRecord isNull how thresh (recordCells cols j)) :=
  dropnaKeep_at isNull how thresh cols n j hj

end NP.C12
