/-
  C13 — eval computes on the flat view and assigns fields positionally.
  Property theorems only.
-/
import NPModel.Refine.FrameLemmas
import NPModel.Refine.Samples
import NPModel.Refine.EvalAssignRows
namespace NP.C13
open NP

/-- **Element for element on the flat view**: the value computed at flat position `j` is the
    expression evaluated on record `j` alone (the elementwise assumption about pandas' engine is
    the *definition* of `evalAll`; it is what the correspondence check validates on every
    generated expression).  Consequently the result has exactly one value per flat record. -/
theorem eval_is_elementwise (n : Nat) (look : Nat → Option String → String → Option Cell) (e : Expr)
    (vals : List Cell) (h : evalAll n look e = .ok vals) :
    vals.length = n ∧ ∀ j, j < n → ∃ c, evalAt look e j = .ok c ∧ vals[j]? = some c := by
  unfold evalAll at h
  have ⟨hl, hi⟩ := mapM_ok_spec (evalAt look e) (List.range n) vals h
  refine ⟨by simpa using hl, ?_⟩
  intro j hj
  exact hi j j (List.getElem?_range hj)

/-- `evalAt` is the expression evaluated on the cells of record `j` only. -/
theorem evalAt_reads_one_record (look : Nat → Option String → String → Option Cell) (e : Expr) (j : Nat) (c : Cell) :
    evalAt look e j = .ok c ↔ e.eval (look j) = .ok c := by
  unfold evalAt
  cases h : e.eval (look j) <;> simp [pure, Except.pure]

/-- **`nest.new = expr` changes that field of that nest and nothing else**: when the nest exists,
    the result frame is the receiver with that one column replaced (same index, same other
    columns, same column order — see `NFrame.setCol_*`), and inside the nest every chunk keeps
    its validity (missing rows, number of rows) and every other field as the identical list
    array; field `new` holds windows of the assigned values. -/
theorem eval_assign_frame_condition {F F' : NFrame Cell} {nest field : String} {e : Expr}
    (hn : F.nestedColumns.contains nest = true) (h : F.evalAssign nest field e = .ok F') :
    ∃ c c' ty, F.nest? nest = .ok c ∧ F' = F.setCol nest (.nest c') ∧ All2 (FieldSet field ty) c.chunks c'.chunks := by
  unfold NFrame.evalAssign at h
  cases he : F.evalExpr e with
  | error err => simp [he, bind, Except.bind] at h
  | ok r =>
    obtain ⟨idx, ty, vals⟩ := r
    simp only [he, bind, Except.bind] at h
    obtain ⟨c, c', h1, h2, h3⟩ := setField_existing_nest hn h
    exact ⟨c, c', ty, h1, h2, h3⟩

/-- the rest of the frame condition, stated for the replaced column -/
theorem replaced_column_frame_condition (F : NFrame Cell) (nest : String) (d : ColData Cell)
    (h : F.cols.any (·.1 == nest) = true) :
    (F.setCol nest d).index = F.index ∧ (F.setCol nest d).cols.map (·.1) = F.cols.map (·.1) ∧
    ∀ m, (nest == m) = false → (F.setCol nest d).col? m = F.col? m :=
  ⟨NFrame.setCol_index F nest d, NFrame.setCol_names F nest d h, fun m hm => NFrame.setCol_other F nest m d hm⟩

/-- **`eval("nest.f = expr")` stores positionally, row by row** — through the implementation model
    (`evalExpr` on the flat view, `__setitem__`'s dispatch, `set_flat_field` / `fill_field_lists`,
    the chunk loop of `set_list_field`, the validator): on a cleanly stored nest of any chunking a
    successful assignment replaces only that column; the values computed on the flat view are cut
    by the rows' record counts and piece `i` becomes field `f` of row `i` (every other field and
    every missing row untouched, the dtype gets `f : ty`).  When the flat index coincides with the
    frame's index the "one value per row" branch is taken instead (identical when every row holds
    one record; finding K5 otherwise). -/
theorem eval_assign_row_by_row (F F' : NFrame Cell) (nest field : String) (e : Expr) (c : PCol Cell)
    (hn : F.nestedColumns.contains nest = true) (hc : F.nest? nest = .ok c) (hclean : c.Clean)
    (idx : List Label) (ty : String) (vals : List Cell) (hev : F.evalExpr e = .ok (idx, ty, vals))
    (h : F.evalAssign nest field e = .ok F') :
    ∃ c', F' = F.setCol nest (.nest c') ∧ c'.ty = Spec.tyUpsert c.ty field ty ∧
      c'.rows = if (idx == F.index) = true
        then List.zipWith (fun r v => r.map fun t => Spec.Table.upsert t field (List.replicate (Row.len r) v)) c.rows vals
        else List.zipWith (fun r l => r.map fun t => Spec.Table.upsert t field l) c.rows
              (Spec.splitBy (c.rows.map Row.len) vals) :=
  evalAssign_rows F F' nest field e c hn hc hclean idx ty vals hev h

end NP.C13
