/-
  C13 — eval computes on the flat view and assigns fields positionally.
  Property theorems only.
-/
import NPModel.Refine.FrameLemmas
import NPModel.Refine.Samples
namespace NP.C13
open NP

/-- **Element for element on the flat view**: the value computed at flat position `j` is the
    expression evaluated on record `j` alone (the elementwise assumption about pandas' engine is
    the *definition* of `evalAll`; it is what the correspondence check validates on every
    generated expression).  Consequently the result has exactly one value per flat record. -/
theorem eval_is_elementwise (n : Nat) (look : Nat → Option String → String → Option Cell) (e : Expr)
    (vals : List Cell) (h : evalAll n look e = .ok vals) :
    vals.length = n ∧ ∀ j, j < n → ∃ c, evalAt look e j = .ok c ∧ vals[j]? = some c := by
  unfold evalAll at h
  have ⟨hl, hi⟩ := mapM_ok_spec (evalAt look e) (List.range n) vals h
  refine ⟨by simpa using hl, ?_⟩
  intro j hj
  exact hi j j (List.getElem?_range hj)

/-- `evalAt` is the expression evaluated on the cells of record `j` only. -/
theorem evalAt_reads_one_record (look : Nat → Option String → String → Option Cell) (e : Expr) (j : Nat) (c : Cell) :
    evalAt look e j = .ok c ↔ e.eval (look j) = .ok c := by
  unfold evalAt
  cases h : e.eval (look j) <;> simp [pure, Except.pure]

/-- **`nest.new = expr` changes that field of that nest and nothing else**: when the nest exists,
    the result frame is the receiver with that one column replaced (same index, same other
    columns, same column order — see `NFrame.setCol_*`), and inside the nest every chunk keeps
    its validity (missing rows, number of rows) and every other field as the identical list
    array; field `new` holds windows of the assigned values. -/
theorem eval_assign_frame_condition {F F' : NFrame Cell} {nest field : String} {e : Expr}
    (hn : F.nestedColumns.contains nest = true) (h : F.evalAssign nest field e = .ok F') :
    ∃ c c' ty, F.nest? nest = .ok c ∧ F' = F.setCol nest (.nest c') ∧ All2 (FieldSet field ty) c.chunks c'.chunks := by
  unfold NFrame.evalAssign at h
  cases he : F.evalExpr e with
  | error err => simp [he, bind, Except.bind] at h
  | ok r =>
    obtain ⟨idx, ty, vals⟩ := r
    simp only [he, bind, Except.bind] at h
    obtain ⟨c, c', h1, h2, h3⟩ := setField_existing_nest hn h
    exact ⟨c, c', ty, h1, h2, h3⟩

/-- the rest of the frame condition, stated for the replaced column -/
theorem replaced_column_frame_condition (F : NFrame Cell) (nest : String) (d : ColData Cell)
    (h : F.cols.any (·.1 == nest) = true) :
    (F.setCol nest d).index = F.index ∧ (F.setCol nest d).cols.map (·.1) = F.cols.map (·.1) ∧
    ∀ m, (nest == m) = false → (F.setCol nest d).col? m = F.col? m :=
  ⟨NFrame.setCol_index F nest d, NFrame.setCol_names F nest d h, fun m hm => NFrame.setCol_other F nest m d hm⟩

end NP.C13
