/-
  C07 — A query on a nested field filters inside every row, and only there.
  Property theorems only (helper lemmas: NPModel.Refine.Runs / Repack).

  The implementation (core.py `query` → `_set_filtered_flat_df`) evaluates the condition on the
  flat view, keeps the records whose value is True, labels them with the ordinal of their row
  (`get_list_index`), re-packs the filtered table with `pack_sorted_df_into_struct` and aligns the
  packed column to the rows `0..n-1`.  The theorems below are about exactly that pipeline, for
  every number of rows, every row length and every per-record outcome of the condition.
-/
import NPModel.Refine.Repack
import NPModel.Spec.Frame
import NPModel.Refine.Repacked
import NPModel.Refine.QueryRows
import NPModel.Refine.SamplesFrame
namespace NP.C07
open NP
variable {α : Type}

/-- **Filtering inside every row.**  `lists` are the per-row lists of one field (a missing or
    empty row contributes `[]`), `masks` the per-record outcomes of the condition, row by row.
    After filtering the flat view and re-packing by the ordinal index:
    (1) the packed rows are exactly the non-empty filtered rows, in row order — so rows keep their
        order and no record moves to another row;
    (2) the packed index holds exactly the ordinals of the rows that keep at least one record — a
        row left with no record is absent and becomes missing when the column is aligned;
    (3) for every row the records labelled with its ordinal are the records of that row the
        condition keeps, in their original order. -/
theorem query_filters_inside_rows (masks : List (List Bool)) (lists : List (List α))
    (h : All2 (fun m l => m.length = l.length) masks lists) :
    let keep := masks.flatten
    let ords := repeatEach (List.range lists.length) (lists.map List.length)
    let ords' := filterBy keep ords
    let flat' := filterBy keep lists.flatten
    segs (packOffsets ords') flat' = (nonemptyRuns (rowRuns 0 masks lists)).map (·.2) ∧
    ((packOffsets ords').dropLast).map (fun o => ords'.getD o 0) = (nonemptyRuns (rowRuns 0 masks lists)).map (·.1) ∧
    ∀ i m l, masks[i]? = some m → lists[i]? = some l → valsOfLabel i ords' flat' = filterBy m l :=
  repack_filtered masks lists h

/-- All fields of a nest are filtered by the same mask and packed with the same offsets, so whole
    records stay together: the offsets depend on the ordinals and the mask only, not on the
    field's values. -/
theorem same_offsets_for_every_field (masks : List (List Bool)) (lists₁ : List (List α)) (lists₂ : List (List α))
    (hlen : lists₁.map List.length = lists₂.map List.length) :
    let keep := masks.flatten
    packOffsets (filterBy keep (repeatEach (List.range lists₁.length) (lists₁.map List.length)))
      = packOffsets (filterBy keep (repeatEach (List.range lists₂.length) (lists₂.map List.length))) := by
  intro keep
  have : lists₁.length = lists₂.length := by
    have := congrArg List.length hlen
    simpa using this
  rw [hlen, this]

/-- A condition mixing layers is refused before anything is evaluated. -/
theorem mixed_layers_refused (F : NFrame Cell) (e : Expr) (h : e.layers.length > 1) :
    F.query e = .error .valueError := by
  unfold NFrame.query
  simp [h, bind, Except.bind, throw, throwThe, MonadExceptOf.throw]

/-- The specification of the property on one row, as used by the correspondence oracle:
    keeping no record makes the row missing, otherwise every field is filtered by the same mask. -/
theorem spec_row_missing_iff (keep : Table α → Nat → Bool) (t : Table α) :
    (Spec.filterRow keep (some t)).isNone = !((List.range (Spec.Table.nrec t)).map (keep t)).any id := by
  unfold Spec.filterRow
  simp only
  split <;> simp_all

/-- **The re-packing step of the frame, row by row** (`_set_filtered_flat_df`, the common last step
    of `query`, `dropna` and `sort_values` on a nested layer): for a frame of `n` rows and the
    records each row keeps (column-major per-row lists of common lengths, indexed by the row
    ordinals), the implementation model — packer, label lookup of the ordinals, `take` with
    `allow_fill` — succeeds and the frame's nested column becomes exactly those per-row tables:
    a row that keeps no record is MISSING, every other row holds its kept records in order, for
    every field at once; rows are never merged, moved or reordered (row `i` of the result is
    built from row `i` of the input only).  Any number of rows, fields and records. -/
theorem repack_step_row_by_row (F : NFrame α) (nest : String) (cols : List (String × String × List (List α)))
    (lens : List Nat) (hn : lens.length = F.index.length) (hcols : ∀ c ∈ cols, c.2.2.map List.length = lens)
    (hne : cols ≠ []) :
    ∃ col, F.setFilteredFlatDf nest (ordFlat cols lens) = .ok (F.setCol nest (.nest col)) ∧
      col.rows = repackedRows cols lens :=
  setFilteredFlatDf_rows F nest cols lens hn hcols hne

/-- **Filtering inside every row, at the level of the frame**: for any per-record outcomes of a
    condition (`masks`, row by row), filtering the ordinal flat table by the flattened mask and
    re-packing through `_set_filtered_flat_df` leaves in row `i` exactly the records of row `i`
    whose mask is set — original order, all fields by the same mask — and makes the row missing
    when none is kept.  (What `query` does after evaluating the condition; `dropna` with the
    mask "record has no null in the subset".) -/
theorem query_filters_rows_of_the_frame (F : NFrame α) (nest : String)
    (cols : List (String × String × List (List α))) (lens : List Nat) (masks : List (List Bool))
    (hn : lens.length = F.index.length) (hcols : ∀ c ∈ cols, c.2.2.map List.length = lens)
    (hmasks : All2 (fun m n => m.length = n) masks lens) (hne : cols ≠ []) :
    ∃ col, F.setFilteredFlatDf nest ((ordFlat cols lens).filterRows masks.flatten) = .ok (F.setCol nest (.nest col)) ∧
      col.rows = repackedRows (cols.map fun c => (c.1, c.2.1, filterRowsBy masks c.2.2))
        (masks.map fun m => (m.filter id).length) :=
  filter_then_repack F nest cols lens masks hn hcols hmasks hne

/-- **`query` on a nested layer, end to end through the implementation model**
    (`NFrame.query` = flat view with the ordinal index → the condition on every record →
    filtered flat table → packer → alignment with `take(allow_fill)`), for every frame whose
    nested column is stored cleanly (`PCol.Clean`; any number of chunks, any slice offsets), every
    condition over that layer only and every outcome `vals` of evaluating it record by record:
    the query succeeds and replaces ONLY that column; row `i` of it holds exactly the records of
    row `i` whose outcome is `True`, in their original order, every field filtered by the same
    mask; a row left without records is missing; the frame keeps all its rows in place. -/
theorem query_nested_end_to_end (F : NFrame Cell) (e : Expr) (nest : String) (c : PCol Cell)
    (hl : e.layers = [some nest]) (hnc : F.nestedColumns.contains nest = true)
    (hc : F.nest? nest = .ok c) (h : c.Clean) (hch : c.chunks ≠ []) (hidx : F.index.length = c.len)
    (vals : List Cell)
    (hev : evalAll (ordFlat (colLists c) (c.rows.map Row.len)).len
      (recordLookup (ordFlat (colLists c) (c.rows.map Row.len)) nest) e = .ok vals) :
    let masks := Spec.splitBy (c.rows.map Row.len) (vals.map fun v => v == some (.bool true))
    ∃ col, F.query e = .ok (F.setCol nest (.nest col)) ∧
      col.rows = repackedRows ((colLists c).map fun c' => (c'.1, c'.2.1, filterRowsBy masks c'.2.2))
        (masks.map fun m => (m.filter id).length) ∧
      col.rows.length = F.index.length :=
  query_nested_refines F e nest c hl hnc hc h hch hidx vals hev

/-- non-vacuity of `query_nested_end_to_end`: the sample frame (two chunks, the first a slice into
    a larger buffer, an empty row) and the condition `n.a > 2` meet every hypothesis; the outcome on
    the three records is `[False, True, True]` -/
example : Samples.qexpr.layers = [some "n"] ∧ Samples.qframe.nestedColumns.contains "n" = true ∧
    Samples.qframe.nest? "n" = .ok Samples.qcol ∧ Samples.qcol.chunks ≠ [] ∧
    Samples.qframe.index.length = Samples.qcol.len ∧
    evalAll (ordFlat (colLists Samples.qcol) (Samples.qcol.rows.map Row.len)).len
      (recordLookup (ordFlat (colLists Samples.qcol) (Samples.qcol.rows.map Row.len)) "n") Samples.qexpr
      = .ok [some (.bool false), some (.bool true), some (.bool true)] := by
  refine ⟨by decide, by decide, rfl, by decide, by decide, by decide⟩

example : Samples.qcol.Clean := by
  refine ⟨by decide, by decide, by decide, ?_, by decide⟩
  intro s hs
  simp only [Samples.qcol, List.mem_cons, List.not_mem_nil, or_false] at hs
  rcases hs with rfl | rfl <;> (unfold PStruct.noHidden; decide)

/-- non-vacuity of `repack_step_row_by_row`: three rows keeping 2, 0 and 1 records of two fields -/
example :
    let cols : List (String × String × List (List Nat)) :=
      [("a", "int64", [[1, 2], [], [3]]), ("b", "int64", [[7, 8], [], [9]])]
    (∀ c ∈ cols, c.2.2.map List.length = [2, 0, 1]) ∧
    repackedRows cols [2, 0, 1] = [some [("a", [1, 2]), ("b", [7, 8])], none, some [("a", [3]), ("b", [9])]] := by
  decide

/-- non-vacuity: three rows (one of them empty), a mask keeping records of the first row only -/
example :
    let masks := [[true, false, true], [], [false]]
    let lists := [[10, 11, 12], [], [13]]
    segs (packOffsets (filterBy masks.flatten (repeatEach (List.range 3) (lists.map List.length))))
      (filterBy masks.flatten lists.flatten) = [[10, 12]] := by decide

end NP.C07
