/-
  C18 — Results stay nested: the API is closed under its own operations.
  Property theorems only, about the closure model NPModel.State.Kinds.  (Partial in the sense of
  DESIGN.md §12: the per-operation rules are pandas runtime behaviour, validated by the
  correspondence; the composition over chains is what is proved.)
-/
import NPModel.State.Kinds
namespace NP.C18
open NP.State

/-- **One step**: every operation of the table maps a closed frame to a closed frame. -/
theorem closure_step (F : FKind) (op : KOp) (h : F.Closed) : (F.step op).Closed := by
  obtain ⟨hc, hk⟩ := h
  cases op with
  | rowOp => exact ⟨hc, hk⟩
  | addField n f =>
    refine ⟨hc, ?_⟩
    intro c hcm
    simp only [FKind.step, List.mem_map] at hcm
    obtain ⟨p, hp, rfl⟩ := hcm
    obtain ⟨c0, k⟩ := p
    have := hk (c0, k) hp
    cases k with
    | base => simp
    | degraded => exact absurd rfl this
    | nested fs => simp only; split <;> simp
  | dropField n f =>
    refine ⟨hc, ?_⟩
    intro c hcm
    simp only [FKind.step, List.mem_map] at hcm
    obtain ⟨p, hp, rfl⟩ := hcm
    obtain ⟨c0, k⟩ := p
    have := hk (c0, k) hp
    cases k with
    | base => simp
    | degraded => exact absurd rfl this
    | nested fs => simp only; split <;> simp
  | addNested name fs =>
    refine ⟨hc, ?_⟩
    intro c hcm
    simp only [FKind.step, List.mem_append, List.mem_filter, List.mem_singleton] at hcm
    rcases hcm with hcm | rfl
    · exact hk c hcm.1
    · simp
  | addBase name =>
    refine ⟨hc, ?_⟩
    intro c hcm
    simp only [FKind.step, List.mem_append, List.mem_filter, List.mem_singleton] at hcm
    rcases hcm with hcm | rfl
    · exact hk c hcm.1
    · simp
  | selectCols names =>
    refine ⟨hc, ?_⟩
    intro c hcm
    simp only [FKind.step, List.mem_filter] at hcm
    exact hk c hcm.1

/-- **Any depth of chaining**. -/
theorem closure_chain (ops : List KOp) : ∀ F : FKind, F.Closed → (F.run ops).Closed := by
  induction ops with
  | nil => intro F h; exact h
  | cons op rest ih => intro F h; exact ih _ (closure_step F op h)

/-- **The listing matches the content**: a column is listed as nested exactly when its kind is
    nested, and the listed fields are the fields of that kind. -/
theorem listing_matches (F : FKind) (n : String) :
    n ∈ F.nestedColumns ↔ ∃ fs, (n, ColKind.nested fs) ∈ F.cols := by
  unfold FKind.nestedColumns
  rw [List.mem_filterMap]
  constructor
  · rintro ⟨⟨c, k⟩, hm, hk⟩
    cases k with
    | base => simp at hk
    | degraded => simp at hk
    | nested fs =>
      simp only [Option.some.injEq] at hk
      subst hk
      exact ⟨fs, hm⟩
  · rintro ⟨fs, hm⟩
    exact ⟨(n, .nested fs), hm, rfl⟩

/-- a nested column never silently degrades along a chain: what is nested stays nested or is
    removed by an explicit column selection / replaced by name -/
theorem nested_stays_nested_under_row_ops (F : FKind) (k : Nat) : (F.run (List.replicate k .rowOp)) = F := by
  induction k with
  | zero => rfl
  | succ k ih => simpa [List.replicate_succ, FKind.run, FKind.step] using ih

example : FKind.Closed { isNestedFrame := true, cols := [("x", .base), ("n", .nested ["a", "b"])] } := by
  refine ⟨rfl, ?_⟩
  intro c hc
  simp only [List.mem_cons, List.mem_nil_iff, or_false] at hc
  rcases hc with rfl | rfl <;> simp

end NP.C18
