/-
  C18 — Results stay nested: the API is closed under its own operations.
  Property theorems only, about the closure model NPModel.State.Kinds.  (Partial in the sense of
  DESIGN.md §12: the per-operation rules are pandas runtime behaviour, validated by the
  correspondence; the composition over chains is what is proved.)
-/
import NPModel.State.Kinds
import NPModel.Refine.SoundFrames
import NPModel.Refine.CleanFilter
import NPModel.Refine.CleanFields
import NPModel.Refine.SamplesFrame
import NPModel.Refine.FieldSubsets
namespace NP.C18
open NP.State

/-- **One step**: every operation of the table maps a closed frame to a closed frame. -/
theorem closure_step (F : FKind) (op : KOp) (h : F.Closed) : (F.step op).Closed := by
  obtain ⟨hc, hk⟩ := h
  cases op with
  | rowOp => exact ⟨hc, hk⟩
  | addField n f =>
    refine ⟨hc, ?_⟩
    intro c hcm
    simp only [FKind.step, List.mem_map] at hcm
    obtain ⟨p, hp, rfl⟩ := hcm
    obtain ⟨c0, k⟩ := p
    have := hk (c0, k) hp
    cases k with
    | base => simp
    | degraded => exact absurd rfl this
    | nested fs => simp only; split <;> simp
  | dropField n f =>
    refine ⟨hc, ?_⟩
    intro c hcm
    simp only [FKind.step, List.mem_map] at hcm
    obtain ⟨p, hp, rfl⟩ := hcm
    obtain ⟨c0, k⟩ := p
    have := hk (c0, k) hp
    cases k with
    | base => simp
    | degraded => exact absurd rfl this
    | nested fs => simp only; split <;> simp
  | addNested name fs =>
    refine ⟨hc, ?_⟩
    intro c hcm
    simp only [FKind.step, List.mem_append, List.mem_filter, List.mem_singleton] at hcm
    rcases hcm with hcm | rfl
    · exact hk c hcm.1
    · simp
  | addBase name =>
    refine ⟨hc, ?_⟩
    intro c hcm
    simp only [FKind.step, List.mem_append, List.mem_filter, List.mem_singleton] at hcm
    rcases hcm with hcm | rfl
    · exact hk c hcm.1
    · simp
  | selectCols names =>
    refine ⟨hc, ?_⟩
    intro c hcm
    simp only [FKind.step, List.mem_filter] at hcm
    exact hk c hcm.1

/-- **Any depth of chaining**. -/
theorem closure_chain (ops : List KOp) : ∀ F : FKind, F.Closed → (F.run ops).Closed := by
  induction ops with
  | nil => intro F h; exact h
  | cons op rest ih => intro F h; exact ih _ (closure_step F op h)

/-- **The listing matches the content**: a column is listed as nested exactly when its kind is
    nested, and the listed fields are the fields of that kind. -/
theorem listing_matches (F : FKind) (n : String) :
    n ∈ F.nestedColumns ↔ ∃ fs, (n, ColKind.nested fs) ∈ F.cols := by
  unfold FKind.nestedColumns
  rw [List.mem_filterMap]
  constructor
  · rintro ⟨⟨c, k⟩, hm, hk⟩
    cases k with
    | base => simp at hk
    | degraded => simp at hk
    | nested fs =>
      simp only [Option.some.injEq] at hk
      subst hk
      exact ⟨fs, hm⟩
  · rintro ⟨fs, hm⟩
    exact ⟨(n, .nested fs), hm, rfl⟩

/-- a nested column never silently degrades along a chain: what is nested stays nested or is
    removed by an explicit column selection / replaced by name -/
theorem nested_stays_nested_under_row_ops (F : FKind) (k : Nat) : (F.run (List.replicate k .rowOp)) = F := by
  induction k with
  | zero => rfl
  | succ k ih => simpa [List.replicate_succ, FKind.run, FKind.step] using ih

example : FKind.Closed { isNestedFrame := true, cols := [("x", .base), ("n", .nested ["a", "b"])] } := by
  refine ⟨rfl, ?_⟩
  intro c hc
  simp only [List.mem_cons, List.mem_nil_iff, or_false] at hc
  rcases hc with rfl | rfl <;> simp


/-! ### on the implementation model: the storage invariant of a frame

The closure model above is about classes and kinds.  The theorems below are about the
implementation model itself (`NP.NFrame`): `NFrame.Sound` — every base column has one cell per
row, every nested column is clean storage (well formed, validated, nothing hidden under missing
rows, ≥ 1 field, ≥ 1 chunk) with one row per frame row — is an invariant of the operations that
rebuild a nested column, so every theorem that needs clean storage (C03, C06, C07, C10–C13) applies
again to the result, to any depth of chaining. -/

open NP in
/-- **One step**: a successful nested `query`, `dropna` or `sort_values` on a sound frame returns a
    sound frame, which is the old frame with that ONE column replaced (any expression, keys,
    how/thresh/subset — only success is assumed). -/
theorem rebuilding_step_keeps_frames_sound (F : NFrame Cell) (h : F.Sound) (op : NestOp) (F' : NFrame Cell)
    (hok : op.run F = .ok F') : F'.Sound ∧ ∃ col, F' = F.setCol op.target (.nest col) :=
  NestOp.run_sound F h op F' hok

open NP in
/-- **Chains of any length**: whatever sequence of nested queries, dropnas and sorts succeeds on a
    sound frame, the result is sound and has the same index — no row of the frame is ever added,
    dropped or moved (by induction over the chain). -/
theorem rebuilding_chains_stay_sound (ops : List NestOp) (F : NFrame Cell) (h : F.Sound) (F' : NFrame Cell)
    (hok : runChain F ops = .ok F') : F'.Sound ∧ F'.index = F.index :=
  runChain_sound ops F h F' hok

open NP in
/-- the pieces: `take` with a missing fill value (the alignment step of every re-packing and of the
    joins) and the packer return clean storage -/
theorem take_and_packer_return_clean_storage {α : Type} :
    (∀ (c : PCol α), c.Clean → ∀ (indices : List Int) (c' : PCol α), NArr.take c indices true none = .ok c' →
      c'.Clean ∧ c'.len = indices.length ∧ c'.ty = c.ty ∧ c'.chunks ≠ []) ∧
    (∀ (df : FlatDF α) (packed : NSeries α), packSortedDf df = .ok packed →
      packed.col.Clean ∧ packed.col.chunks ≠ [] ∧ packed.index.length = packed.col.len) :=
  ⟨fun c hc indices c' h => take_none_clean c hc indices c' h, fun df packed h => packSortedDf_clean df packed h⟩

open NP in
/-- **Joins keep frames sound, whatever the join kind**: a successful `add_nested` of ANY flat table
    onto a sound frame, with `how` = left / right / inner / outer, returns a sound frame (every old
    column re-gathered into clean storage, the new column clean storage, one row per result row). -/
theorem join_keeps_frames_sound {α : Type} [Inhabited α] (F : NFrame α) (h : F.Sound) (flat : FlatDF α)
    (name : String) (how : JoinHow) (na : α) (F' : NFrame α) (hok : F.addNested flat name how na = .ok F') :
    F'.Sound :=
  addNested_sound F h flat name how na F' hok

open NP in
/-- **Chains mixing nested queries, dropnas, sorts and joins**, of any length: sound to any depth. -/
theorem mixed_chains_stay_sound (ops : List FrameOp) (F : NFrame Cell) (h : F.Sound) (F' : NFrame Cell)
    (hok : runFrameChain F ops = .ok F') : F'.Sound :=
  runFrameChain_sound ops F h F' hok

open NP in
/-- **Selecting rows with a boolean mask keeps storage clean** (`__getitem__` with a mask — what a
    base-layer query, a boolean filter or `dropna` on the base layer apply to every nested column):
    chunk by chunk, any chunking; the rows are the rows the mask keeps. -/
theorem mask_selection_keeps_storage_clean {α : Type} (c : PCol α) (hc : c.Clean) (hch : c.chunks ≠ []) (m : List Bool)
    (c' : PCol α) (h : NArr.getItem c (.mask m) = .ok (.col c')) :
    c'.Clean ∧ c'.chunks ≠ [] ∧ c'.rows = filterBy m c.rows :=
  getItem_mask_clean c hc hch m c' h

open NP in
/-- **Base-layer queries keep frames sound**, and so do **chains of ALL the operations modelled**
    (nested queries, dropnas, sorts, joins of every kind, base-layer queries), of any length. -/
theorem all_chains_stay_sound (ops : List AnyOp) (F : NFrame Cell) (h : F.Sound) (F' : NFrame Cell)
    (hok : runAnyChain F ops = .ok F') : F'.Sound :=
  runAnyChain_sound ops F h F' hok

open NP in
/-- **Field edits keep storage clean**: `set_flat_field` (behind `with_flat_field`, `.nest[f] = v`,
    `frame['n.f'] = v`, eval assignment) with an array or one value for all records, and
    `fill_field_lists` (one value per row), return clean storage of the same length whenever they
    succeed — the flat values are cut by the rows' record counts, so nothing ends up under a missing
    row; `set_list_field` does so for list arrays without null lists that hold nothing under the
    column's missing rows. -/
theorem field_edits_keep_storage_clean {α : Type} (c : PCol α) (hc : c.Clean) (hch : c.chunks ≠ []) (f ty : String)
    (keep : Bool) (c' : PCol α) :
    (∀ v : FlatVal α, NArr.setFlatField c f ty v keep = .ok c' → c'.Clean ∧ c'.chunks ≠ [] ∧ c'.len = c.len) ∧
    (∀ vs : List α, NArr.fillFieldLists c f ty vs keep = .ok c' → c'.Clean ∧ c'.chunks ≠ [] ∧ c'.len = c.len) ∧
    (∀ value : PList α, value.WF = true → (∀ v ∈ value.valid, v = true) → HiddenFree value c.rows 0 →
      NArr.setListField c f ty value keep = .ok c' → c'.Clean ∧ c'.chunks ≠ [] ∧ c'.len = c.len) :=
  ⟨fun v h => setFlatField_clean' c hc hch f ty v keep c' h, fun vs h => fillFieldLists_clean c hc hch f ty vs keep c' h,
   fun value hw hv hh h => setListField_clean c hc hch f ty value keep c' hw hv hh h⟩

open NP in
/-- **Chains of EVERY frame operation of the model** — nested and base-layer queries, dropnas,
    sorts, joins of every kind, `frame['nest.field'] = values` (existing or new nest) and eval
    assignment — of any length, stay sound: only success of each step is assumed. -/
theorem every_chain_stays_sound (ops : List AllOp) (F : NFrame Cell) (h : F.Sound) (F' : NFrame Cell)
    (hok : runAllChain F ops = .ok F') : F'.Sound :=
  runAllChain_sound ops F h F' hok

open NP in
/-- … and with **removing fields** (`nf[n] = nf[n].nest.without_field(…)`) and **selecting fields**
    (`nf[n] = nf[n].nest[[…]]`) as further steps of the chain. -/
theorem chains_with_field_removal_and_selection_stay_sound (ops : List FullOp) (F : NFrame Cell) (h : F.Sound)
    (F' : NFrame Cell) (hok : runFullChain F ops = .ok F') : F'.Sound :=
  runFullChain_sound ops F h F' hok

open NP in
/-- non-vacuity: the sample frame (a nested column in two chunks, the first a slice into a larger
    buffer) is sound -/
example : Samples.qframe.Sound := by
  constructor
  · intro n t v hm
    simp only [Samples.qframe, List.mem_cons, List.not_mem_nil, or_false, Prod.mk.injEq] at hm
    rcases hm with ⟨_, hm⟩ | ⟨_, hm⟩
    · injection hm with _ hv; subst hv; rfl
    · cases hm
  · intro n c hm
    simp only [Samples.qframe, List.mem_cons, List.not_mem_nil, or_false, Prod.mk.injEq] at hm
    rcases hm with ⟨_, hm⟩ | ⟨_, hm⟩
    · cases hm
    · injection hm with hc; subst hc
      refine ⟨⟨by decide, by decide, by decide, ?_, by decide⟩, by decide, by decide⟩
      intro s hs
      simp only [Samples.qcol, List.mem_cons, List.not_mem_nil, or_false] at hs
      rcases hs with rfl | rfl <;> (unfold PStruct.noHidden; decide)

end NP.C18
