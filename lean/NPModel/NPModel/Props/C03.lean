/-
  C03 — Element, flat, list and summary views describe the same data.
  Property theorems only.
-/
import NPModel.Refine.Validate
import NPModel.Refine.Views
import NPModel.Refine.Samples
import NPModel.Refine.Observers
import NPModel.Refine.FieldSubsets
import NPModel.Refine.ViewTrips2
namespace NP.C03
open NP
variable {α : Type}

/-- Per-row lengths are the differences of the list offsets: the number of elements the element
    view shows in row `i` of a field equals `offsets[i+1] - offsets[i]` — for any window into any
    buffer, provided null lists have empty extents. -/
theorem row_length_is_offset_difference (l : PList α) (hw : l.WF = true) (hne : l.nullEmpty = true) (i : Nat)
    (hi : i < l.valid.length) :
    ((l.rows.getD i none).getD []).length = (diffs l.offs).getD i 0 :=
  PList.row_length l hw hne i hi

/-- The flat view is the concatenation of the rows of the element view, null lists contributing
    nothing (this is the definition of `ListArray.flatten` the model uses; stated for reference). -/
theorem flat_view_is_concatenation_of_rows (l : PList α) :
    l.flatten = (l.rows.map fun r => r.getD []).flatten := rfl

/-- Total flat length is the sum of the per-row lengths. -/
theorem flat_length_is_sum_of_row_lengths (l : PList α) :
    l.flatten.length = sumNat (l.rows.map fun r => (r.getD []).length) := by
  unfold PList.flatten
  generalize l.rows = rows
  induction rows with
  | nil => rfl
  | cons r rs ih => simp [sumNat, ih] at *

/-- For a list array without null lists the flat view is the window of the child buffer the
    offsets point to (zero copy) — the reason `to_flat` of a sliced column shows exactly the
    slice's records. -/
theorem flat_view_is_window (l : PList α) (hw : l.WF = true) (hv : ∀ v ∈ l.valid, v = true) :
    l.flatten = (l.vals.drop (l.offs.headD 0)).take (l.offs.getLast?.getD 0 - l.offs.headD 0) := by
  have ⟨h1, hm, hl⟩ := PList.WF_parts hw
  rw [PList.flatten_allValid l hv h1, segs_flatten hm hl]

/-- A missing row reads as missing in the element view exactly when the struct validity says so,
    and an empty row (valid struct, empty lists) is not missing. -/
theorem missing_iff_invalid (s : PStruct α) (i : Nat) :
    (s.rowAt i).isNone = !(s.valid.getD i false) := by
  unfold PStruct.rowAt
  cases s.valid.getD i false <;> simp

/-- **Summary quantities agree with the element view** (chunk level, any offsets/buffers):
    `list_lengths` = `diff(list_offsets)` = the lengths of the rows the element view shows —
    missing rows count zero, empty rows count zero and are not missing.  Hypotheses: what validated
    storage satisfies, and no hidden child lists (finding K1 is exactly their failure). -/
theorem lengths_agree_with_element_view (s : PStruct α) (hw : s.WF = true) (hne : s.nullEmpty = true)
    (hh : s.noHidden) (k0 : PField α) (ks : List (PField α)) (hk : s.kids = k0 :: ks) :
    diffs (rebased k0.list.offs) = s.rows.map Row.len :=
  chunk_lengths_are_row_lens s hw hne hh k0 ks hk

/-- **The flat view agrees with the element view**: `field(f).flatten()` is the concatenation,
    row by row, of field `f` of the tables the element view shows; a missing row contributes no
    flat record. -/
theorem flat_view_agrees_with_element_view (s : PStruct α) (hw : s.WF = true) (hh : s.noHidden)
    (f : String) (k : PField α) (hk : s.kid? f = some k) :
    k.list.flatten = Spec.flatField s.rows f :=
  chunk_flat_is_concat_of_rows s hw hh f k hk

/-- **The list-struct view exists for validated storage** (so `list_lengths`, `flat_length`,
    `get_list_index` do not raise), with the re-based offsets of the first field — fields may be
    slices of different buffers. -/
theorem list_struct_view_exists (s : PStruct α) (hw : s.WF = true) (hne : s.nullEmpty = true) (ha : s.aligned)
    (k0 : PField α) (ks : List (PField α)) (hk : s.kids = k0 :: ks) :
    ∃ l, transposeSL s false = .ok l ∧ l.offs = rebased k0.list.offs :=
  ⟨_, transposeSL_ok s hw hne ha k0 ks hk, rfl⟩

/-- non-vacuity: a sliced list array with a null list -/
example : Samples.la.WF = true ∧ Samples.la.nullEmpty = true ∧
    (Samples.la.rows.map fun r => (r.getD []).length) = diffs Samples.la.offs := by decide

/-- **Every view is a function of the same rows — column level.**  On validated storage whose
    missing rows store nothing (`PCol.Clean`: well formed, null ⇒ empty extent, accepted by the
    validator, no hidden child lists, at least one field) — any number of chunks, any slice
    offsets and buffers — the observers of the implementation model are the corresponding
    functions of `c.rows`, the element view:
    `list_lengths` = the rows' record counts (missing and empty rows count 0), -/
theorem list_lengths_of_rows (c : PCol α) (h : c.Clean) : NArr.listLengths c = .ok (c.rows.map Row.len) :=
  listLengths_refines c h

/-- `flat_length` = the total number of records, -/
theorem flat_length_of_rows (c : PCol α) (h : c.Clean) : NArr.flatLength c = .ok (Spec.flatLength c.rows) :=
  flatLength_refines c h

/-- `list_offsets` = the cumulative record counts from 0 — on BOTH code paths (one chunk: the
    first field's re-based offsets; several chunks: cumulative sum of the lengths), -/
theorem list_offsets_of_rows (c : PCol α) (h : c.Clean) :
    NArr.listOffsets c = .ok (offsetsFrom 0 (c.rows.map Row.len)) :=
  listOffsets_refines c h

/-- `get_list_index` = the row ordinal of every record, -/
theorem list_index_of_rows (c : PCol α) (h : c.Clean) : NArr.getListIndex c = .ok (Spec.listIndex c.rows) :=
  getListIndex_refines c h

/-- `get_flat_index` = the row's label once per record, -/
theorem flat_index_of_rows (index : List Label) (c : PCol α) (h : c.Clean) :
    NSeries.getFlatIndex { index := index, col := c } = .ok (Spec.flatIndex index c.rows) :=
  getFlatIndex_refines index c h

/-- the flat values of a field = the concatenation of the field's lists over the rows, -/
theorem flat_field_of_rows (c : PCol α) (h : c.Clean) (f : String) (hf : c.ty.any (·.1 == f) = true) :
    NArr.flatField c f = .ok (Spec.flatField c.rows f) :=
  flatField_refines c h f hf

/-- and `to_flat()` = the flat table of the rows (index and every column, lengths consistent). -/
theorem to_flat_of_rows (index : List Label) (c : PCol α) (h : c.Clean) (hch : c.chunks ≠ [])
    (hidx : index.length = c.len) :
    NSeries.toFlat { index := index, col := c } none = Spec.toFlat index c.abs none :=
  toFlat_refines index c h hch hidx

/-- non-vacuity: the three-chunk sample column (a sliced chunk with a missing row, an empty chunk,
    a chunk whose fields sit in different buffers) is `Clean` -/
example : Samples.c1.Clean := by
  refine ⟨by decide, by decide, by decide, ?_, by decide⟩
  intro s hs
  simp only [Samples.c1, List.mem_cons, List.not_mem_nil, or_false] at hs
  rcases hs with rfl | rfl | rfl <;> (unfold PStruct.noHidden; decide)

/-- **The flat view of SOME of the fields** (`to_flat(fields=…)`, any non-empty list of known names in any order):
    the same flat index, and under every requested name the concatenation of THAT field's lists with that field's
    declared type — a name never shows another field's values, whatever the stored order of the fields. -/
theorem to_flat_of_named_fields (index : List Label) (c : PCol α) (h : c.Clean) (hidx : index.length = c.len)
    (fs : List String) (hne : fs ≠ []) (hall : ∀ f ∈ fs, c.ty.any (·.1 == f) = true) :
    NSeries.toFlat { index := index, col := c } (some fs) = Spec.toFlat index c.abs (some fs) :=
  toFlat_fields_refines index c h hidx fs hne hall

/-- **The list view** (`to_lists()`), series level: on `Clean` storage of any chunking the frame of lists
    has one column per declared field, in declared order and under the field's name, and the i-th list of
    column `f` is the list field `f` has in row i of the element view (no elements for a missing row) —
    exactly one list per row. -/
theorem to_lists_of_rows (s : NSeries α) (h : s.col.Clean) (hne : s.col.chunks ≠ []) :
    ∃ df, s.toLists none = .ok df ∧ df.index = s.index ∧ df.cols.map (·.1) = s.col.ty.map (·.1) ∧
      ∀ col ∈ df.cols, col.2.2.map (fun r => r.getD []) = Spec.fieldLists s.col.rows col.1 ∧
        col.2.2.length = s.col.len :=
  toLists_spec s h hne

end NP.C03
