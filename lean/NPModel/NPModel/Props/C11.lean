/-
  C11 — Sorting by a nested field permutes records inside each row only.
  Property theorems only (helper lemmas: NPModel.Refine.SortRows / Runs).

  The implementation (core.py `sort_values`, nested branch) takes the flat view with the ordinal
  index, sorts it with `by = [ordinal] ++ keys` (pandas lexsort: one permutation of the positions
  applied to every column) and re-packs with `_set_filtered_flat_df`.
-/
import NPModel.Refine.SortRows
import NPModel.Refine.Samples
import NPModel.Refine.Repacked
import NPModel.Refine.SortNested
import NPModel.Refine.CellOrder
namespace NP.C11
open NP
variable {α β : Type}

/-- **No record is lost, duplicated or moved to another row; whole records move together.**
    For ANY comparator, the positions returned by the sort are a permutation of the flat
    positions, and for every row ordinal `k` the records labelled `k` afterwards are a permutation
    of the records labelled `k` before (`g p` = the whole record at flat position `p`, `f p` = its
    ordinal).  No assumption on the keys, directions, ties, nulls or NaN. -/
theorem sort_keeps_records_in_rows [BEq β] (le : Nat → Nat → Bool) (N : Nat) (f : Nat → β) (g : Nat → α) (k : β) :
    let perm := (List.range N).mergeSort le
    (valsOfLabel k (perm.map f) (perm.map g)).Perm (valsOfLabel k ((List.range N).map f) ((List.range N).map g)) := by
  intro perm
  exact reorder_keeps_records_in_rows perm N (mergeSort_positions_perm le N) f g k

/-- **Rows, labels and order of rows are untouched**: when the comparator compares ordinals first
    (transitive and total, as a lexicographic order on a linear pre-order is), the reordered
    ordinal index is non-decreasing … -/
theorem sorted_ordinals_nondecreasing (le : Nat → Nat → Bool) (ord : Nat → Nat)
    (trans : ∀ a b c, le a b → le b c → le a c) (total : ∀ a b, le a b || le b a)
    (hle : ∀ a b, le a b = true → ord a ≤ ord b) (N : Nat) :
    (((List.range N).mergeSort le).map ord).Pairwise (· ≤ ·) := by
  rw [List.pairwise_map]
  exact List.Pairwise.imp (fun h => hle _ _ h) (List.pairwise_mergeSort trans total (List.range N))

/-- … and a table whose ordinal index is non-decreasing packs, row by row, into exactly the
    records labelled with the row's ordinal (in the order the sort left them); the packed rows
    are the non-empty groups in ordinal order.  So every row's new table consists of its own
    records only. -/
theorem sorted_table_packs_by_ordinal (ps : List (Nat × α)) (hs : (ps.map (·.1)).Pairwise (· ≤ ·))
    (k : Nat) (l : List α) (hm : (k, l) ∈ toRuns ps) :
    valsOfLabel k (ps.map (·.1)) (ps.map (·.2)) = l ∧
    segs (packOffsets (ps.map (·.1))) (ps.map (·.2)) = (nonemptyRuns (toRuns ps)).map (·.2) := by
  have h := packed_row_of_sorted (fun a b : Nat => decide (a ≤ b))
    (fun a b c h1 h2 => by simp only [decide_eq_true_eq] at *; omega)
    (fun a b h1 h2 => by simp only [decide_eq_true_eq] at *; omega)
    ps (List.Pairwise.imp (fun h => by simpa using h) hs) k l hm
  exact ⟨h.1, h.2.1⟩

/-- **Ordered by the requested keys**: within the sorted positions every earlier position is
    `le` every later one (the lexicographic comparator of `sort_values`), under the same
    transitivity/totality hypothesis. -/
theorem sorted_positions_ordered (le : Nat → Nat → Bool)
    (trans : ∀ a b c, le a b → le b c → le a c) (total : ∀ a b, le a b || le b a) (N : Nat) :
    ((List.range N).mergeSort le).Pairwise (fun a b => le a b = true) :=
  List.pairwise_mergeSort trans total (List.range N)

/-- non-vacuity: the hypotheses on the comparator are satisfiable — a comparator that looks at
    the ordinal first and at a key afterwards (here both read off the position) -/
example : ∀ N, (((List.range N).mergeSort fun a b => decide (a / 2 < b / 2 ∨ (a / 2 = b / 2 ∧ a % 2 ≥ b % 2))).map (· / 2)).Pairwise (· ≤ ·) := by
  intro N
  apply sorted_ordinals_nondecreasing _ (· / 2)
  · intro a b c h1 h2
    simp only [decide_eq_true_eq] at *
    omega
  · intro a b
    simp only [Bool.or_eq_true, decide_eq_true_eq]
    omega
  · intro a b h
    simp only [decide_eq_true_eq] at h
    omega

/-- **Sorted inside the rows, re-packed into the same rows**: after the flat view has been
    reordered inside every row (the row ordinal is the leading sort key, so the ordinal index is
    unchanged and every row keeps its number of records), `_set_filtered_flat_df` puts into row
    `i` exactly the reordered records of row `i`, for every field at once; rows are never merged
    or moved, the number of rows is unchanged; a row without records comes back missing. -/
theorem sorted_rows_repacked (F : NFrame α) (nest : String) (sorted : List (String × String × List (List α)))
    (lens : List Nat) (hn : lens.length = F.index.length) (hcols : ∀ c ∈ sorted, c.2.2.map List.length = lens)
    (hne : sorted ≠ []) :
    ∃ col, F.setFilteredFlatDf nest (ordFlat sorted lens) = .ok (F.setCol nest (.nest col)) ∧
      col.rows = repackedRows sorted lens ∧ col.rows.length = F.index.length := by
  obtain ⟨col, h1, h2⟩ := setFilteredFlatDf_rows F nest sorted lens hn hcols hne
  exact ⟨col, h1, h2, by rw [h2]; simp [repackedRows, hn]⟩

/-! ### end to end on the implementation model -/

/-- **The comparator of `sort_values` is a total preorder** whenever the cells of every key column
    carry a strict weak order (`KeysOrdered`: `<` on numbers with NaN on top, strings, booleans,
    timestamps — `cell_order_is_strict_weak` for the order the model is run with): ordinal first, then the keys lexicographically,
    each with its own direction, nulls placed by `na_position` independently of the direction.
    Hence the stable merge sort really returns a sorted permutation. -/
theorem comparator_is_total_preorder [Inhabited α] (lt : α → α → Bool) (isNull : α → Bool) (naFirst : Bool)
    (ords : List Label) (kcols : List (Bool × List α)) (h : KeysOrdered lt isNull kcols) :
    (∀ a b, (sortLe lt isNull naFirst ords kcols a b || sortLe lt isNull naFirst ords kcols b a) = true) ∧
    (∀ a b c, sortLe lt isNull naFirst ords kcols a b = true → sortLe lt isNull naFirst ords kcols b c = true →
      sortLe lt isNull naFirst ords kcols a c = true) :=
  ⟨sortLe_total lt isNull naFirst ords kcols h, sortLe_trans lt isNull naFirst ords kcols h⟩

/-- **`sort_values` on a nested layer, end to end** (`NP.NFrame.sortNested`, the model checked
    against the code).  For every frame whose nested column `nest` is stored cleanly (any chunking
    and offsets), every list of keys naming fields of that column, any directions and null
    placement, and any comparison that is a strict weak order on the cells of every key column: the call succeeds and replaces only that
    column; the number of rows is unchanged; and row `i` of the result is missing when row `i` had
    no records, and otherwise is — for EVERY field at once — the old lists of row `i` read through
    ONE permutation `σ` of `0..len-1`: whole records move together, none is lost, duplicated or
    taken from another row; and `σ` is ordered by the requested keys, directions and null
    placement (`lexLe` over the key columns of the row's records). -/
theorem sort_nested_permutes_rows [Inhabited α] (lt : α → α → Bool) (isNull : α → Bool)
    (F : NFrame α) (nest : String) (c : PCol α) (hc : F.nest? nest = .ok c) (hclean : c.Clean)
    (hch : c.chunks ≠ []) (hidx : F.index.length = c.len) (keys : List (String × Bool))
    (hkeys : ∀ k ∈ keys, c.ty.any (·.1 == k.1) = true) (naFirst : Bool)
    (hlt : KeysOrdered lt isNull (sortKeyCols (ordFlat (colLists c) (c.rows.map Row.len)) keys)) :
    let lens := c.rows.map Row.len
    let kcols := sortKeyCols (ordFlat (colLists c) lens) keys
    ∃ col : PCol α, F.sortNested lt isNull nest keys naFirst = .ok (F.setCol nest (.nest col)) ∧
      col.rows.length = F.index.length ∧
      ∀ i, i < F.index.length → ∃ σ : List Nat, σ.Perm (List.range (lens.getD i 0)) ∧
        col.rows.getD i none = (if lens.getD i 0 = 0 then none else
          some ((colLists c).map fun f => (f.1, σ.map fun q => (f.2.2.getD i []).getD q default))) ∧
        σ.Pairwise (fun q r => lexLe lt isNull naFirst
          (sortKeysAt kcols (rowStart lens i + q) (rowStart lens i + r)) = true) :=
  sortNested_permutes_rows lt isNull F nest c hc hclean hch hidx keys hkeys naFirst hlt

/-- the same in terms of flat positions: the sort permutation cut into the rows' extents -/
theorem sort_nested_blocks [Inhabited α] (lt : α → α → Bool) (isNull : α → Bool)
    (F : NFrame α) (nest : String) (c : PCol α) (hc : F.nest? nest = .ok c) (hclean : c.Clean)
    (hch : c.chunks ≠ []) (hidx : F.index.length = c.len) (keys : List (String × Bool))
    (hkeys : ∀ k ∈ keys, c.ty.any (·.1 == k.1) = true) (naFirst : Bool)
    (hlt : KeysOrdered lt isNull (sortKeyCols (ordFlat (colLists c) (c.rows.map Row.len)) keys)) :
    let lens := c.rows.map Row.len
    let flat := ordFlat (colLists c) lens
    let kcols := sortKeyCols flat keys
    ∃ (blocks : List (List Nat)) (col : PCol α),
      F.sortNested lt isNull nest keys naFirst = .ok (F.setCol nest (.nest col)) ∧
      col.rows = repackedRows ((colLists c).map fun f => (f.1, f.2.1,
        blocks.map fun b => b.map fun p => f.2.2.flatten.getD p default)) lens ∧
      blocks.map List.length = lens ∧
      (∀ i, i < lens.length → (blocks.getD i []).Perm
        ((List.range flat.index.length).filter fun p => flat.index.getD p (.int 0) == Label.int (i : Int))) ∧
      (∀ b ∈ blocks, b.Pairwise fun p q => lexLe lt isNull naFirst (sortKeysAt kcols p q) = true) ∧
      blocks = Spec.splitBy lens (sortPerm lt isNull naFirst flat.index kcols) :=
  sortNested_rows lt isNull F nest c hc hclean hch hidx keys hkeys naFirst hlt

/-- **The hypothesis `KeysOrdered` holds of the order the model is run with** (`cellLt`: numbers by
    value with NaN above every number, strings by code points, booleans, timestamps; nulls never
    reach it) for key columns that each hold one kind of value — the element types of the
    property list — nulls and NaN included. -/
theorem cell_order_is_strict_weak (kcols : List (Bool × List Cell)) (h : ∀ k ∈ kcols, ColOneKind k.2) :
    KeysOrdered cellLt cellIsNull kcols :=
  keysOrdered_cellLt kcols h

/-- non-vacuity: a float column with NaN and nulls, and a string column, are each of one kind -/
example : ColOneKind [some (.flt 3), none, some .nan, some (.int 2)] ∧ ColOneKind [some (.str "b"), none, some (.str "a")] := by
  constructor
  · refine ⟨0, ?_⟩
    intro x hx
    simp at hx
    rcases hx with rfl | rfl | rfl <;> rfl
  · refine ⟨1, ?_⟩
    intro x hx
    simp at hx
    rcases hx with rfl | rfl <;> rfl

/-- non-vacuity: `<` on the naturals is a strict weak order -/
example : StrictWeak (fun (a b : Nat) => decide (a < b)) :=
  ⟨fun a b h => by simp only [decide_eq_true_eq, decide_eq_false_iff_not] at *; omega,
   fun a b c h1 h2 => by simp only [decide_eq_false_iff_not] at *; omega⟩

end NP.C11
