/-
  C11 — Sorting by a nested field permutes records inside each row only.
  Property theorems only (helper lemmas: NPModel.Refine.SortRows / Runs).

  The implementation (core.py `sort_values`, nested branch) takes the flat view with the ordinal
  index, sorts it with `by = [ordinal] ++ keys` (pandas lexsort: one permutation of the positions
  applied to every column) and re-packs with `_set_filtered_flat_df`.
-/
import NPModel.Refine.SortRows
import NPModel.Refine.Samples
import NPModel.Refine.Repacked
namespace NP.C11
open NP
variable {α β : Type}

/-- **No record is lost, duplicated or moved to another row; whole records move together.**
    For ANY comparator, the positions returned by the sort are a permutation of the flat
    positions, and for every row ordinal `k` the records labelled `k` afterwards are a permutation
    of the records labelled `k` before (`g p` = the whole record at flat position `p`, `f p` = its
    ordinal).  No assumption on the keys, directions, ties, nulls or NaN. -/
theorem sort_keeps_records_in_rows [BEq β] (le : Nat → Nat → Bool) (N : Nat) (f : Nat → β) (g : Nat → α) (k : β) :
    let perm := (List.range N).mergeSort le
    (valsOfLabel k (perm.map f) (perm.map g)).Perm (valsOfLabel k ((List.range N).map f) ((List.range N).map g)) := by
  intro perm
  exact reorder_keeps_records_in_rows perm N (mergeSort_positions_perm le N) f g k

/-- **Rows, labels and order of rows are untouched**: when the comparator compares ordinals first
    (transitive and total, as a lexicographic order on a linear pre-order is), the reordered
    ordinal index is non-decreasing … -/
theorem sorted_ordinals_nondecreasing (le : Nat → Nat → Bool) (ord : Nat → Nat)
    (trans : ∀ a b c, le a b → le b c → le a c) (total : ∀ a b, le a b || le b a)
    (hle : ∀ a b, le a b = true → ord a ≤ ord b) (N : Nat) :
    (((List.range N).mergeSort le).map ord).Pairwise (· ≤ ·) := by
  rw [List.pairwise_map]
  exact List.Pairwise.imp (fun h => hle _ _ h) (List.pairwise_mergeSort trans total (List.range N))

/-- … and a table whose ordinal index is non-decreasing packs, row by row, into exactly the
    records labelled with the row's ordinal (in the order the sort left them); the packed rows
    are the non-empty groups in ordinal order.  So every row's new table consists of its own
    records only. -/
theorem sorted_table_packs_by_ordinal (ps : List (Nat × α)) (hs : (ps.map (·.1)).Pairwise (· ≤ ·))
    (k : Nat) (l : List α) (hm : (k, l) ∈ toRuns ps) :
    valsOfLabel k (ps.map (·.1)) (ps.map (·.2)) = l ∧
    segs (packOffsets (ps.map (·.1))) (ps.map (·.2)) = (nonemptyRuns (toRuns ps)).map (·.2) := by
  have h := packed_row_of_sorted (fun a b : Nat => decide (a ≤ b))
    (fun a b c h1 h2 => by simp only [decide_eq_true_eq] at *; omega)
    (fun a b h1 h2 => by simp only [decide_eq_true_eq] at *; omega)
    ps (List.Pairwise.imp (fun h => by simpa using h) hs) k l hm
  exact ⟨h.1, h.2.1⟩

/-- **Ordered by the requested keys**: within the sorted positions every earlier position is
    `le` every later one (the lexicographic comparator of `sort_values`), under the same
    transitivity/totality hypothesis. -/
theorem sorted_positions_ordered (le : Nat → Nat → Bool)
    (trans : ∀ a b c, le a b → le b c → le a c) (total : ∀ a b, le a b || le b a) (N : Nat) :
    ((List.range N).mergeSort le).Pairwise (fun a b => le a b = true) :=
  List.pairwise_mergeSort trans total (List.range N)

/-- non-vacuity: the hypotheses on the comparator are satisfiable — a comparator that looks at
    the ordinal first and at a key afterwards (here both read off the position) -/
example : ∀ N, (((List.range N).mergeSort fun a b => decide (a / 2 < b / 2 ∨ (a / 2 = b / 2 ∧ a % 2 ≥ b % 2))).map (· / 2)).Pairwise (· ≤ ·) := by
  intro N
  apply sorted_ordinals_nondecreasing _ (· / 2)
  · intro a b c h1 h2
    simp only [decide_eq_true_eq] at *
    omega
  · intro a b
    simp only [Bool.or_eq_true, decide_eq_true_eq]
    omega
  · intro a b h
    simp only [decide_eq_true_eq] at h
    omega

/-- **Sorted inside the rows, re-packed into the same rows**: after the flat view has been
    reordered inside every row (the row ordinal is the leading sort key, so the ordinal index is
    unchanged and every row keeps its number of records), `_set_filtered_flat_df` puts into row
    `i` exactly the reordered records of row `i`, for every field at once; rows are never merged
    or moved, the number of rows is unchanged; a row without records comes back missing. -/
theorem sorted_rows_repacked (F : NFrame α) (nest : String) (sorted : List (String × String × List (List α)))
    (lens : List Nat) (hn : lens.length = F.index.length) (hcols : ∀ c ∈ sorted, c.2.2.map List.length = lens)
    (hne : sorted ≠ []) :
    ∃ col, F.setFilteredFlatDf nest (ordFlat sorted lens) = .ok (F.setCol nest (.nest col)) ∧
      col.rows = repackedRows sorted lens ∧ col.rows.length = F.index.length := by
  obtain ⟨col, h1, h2⟩ := setFilteredFlatDf_rows F nest sorted lens hn hcols hne
  exact ⟨col, h1, h2, by rw [h2]; simp [repackedRows, hn]⟩

end NP.C11
