/-
  C16 — Results depend only on data and arguments, not on what ran before.
  Property theorems only, about the state model NPModel.State.Aliases.
-/
import NPModel.State.Aliases
namespace NP.C16
open NP.State
variable {D R T : Type}

/-- **The invariant**: after any public call — successful or raising — the alias attribute is
    clear, provided it was clear before (and `eval` clears it whatever it was). -/
theorem aliases_clear_after_call (f : Frame D T) (op : Op D R T) (h : f.aliases = none) :
    (call f op).2.aliases = none := by
  unfold call
  cases op.kind <;> simp only
  · split <;> rfl
  · split <;> simp [h]

theorem eval_always_clears (f : Frame D T) (op : Op D R T) (hk : op.kind = .eval) : (call f op).2.aliases = none := by
  unfold call
  rw [hk]
  simp only
  split <;> rfl

/-- … hence after every history. -/
theorem aliases_clear_after_history (f : Frame D T) (ops : List (Op D R T)) (h : f.aliases = none) :
    (after f ops).aliases = none := by
  induction ops generalizing f with
  | nil => exact h
  | cons op rest ih => exact ih _ (aliases_clear_after_call f op h)

/-- **An operation that raises leaves the frame exactly as it was.** -/
theorem failing_call_no_effect (f : Frame D T) (op : Op D R T) (h : f.aliases = none) (hr : (call f op).1 = none) :
    (call f op).2 = f := by
  unfold call at hr ⊢
  cases hk : op.kind <;> simp only [hk] at hr ⊢
  · split
    · rename_i r d' hs
      simp [hs] at hr
    · cases f; simp_all
  · split
    · rename_i r d' hs
      simp [hs] at hr
    · rfl

/-- A call that is not in place leaves the frame exactly as it was, too. -/
theorem readonly_call_no_effect (f : Frame D T) (op : Op D R T) (h : f.aliases = none) (hi : op.inplace = false) :
    (call f op).2 = f := by
  unfold call
  cases hk : op.kind <;> simp only
  · split <;> (cases f; simp_all)
  · split <;> (cases f; simp_all)

/-- **History independence**: after any prefix of read-only or failing operations the frame is the
    frame one started with, so every later operation has the same outcome and the same effect as
    on a fresh equal frame.  Prefixes of any length. -/
theorem history_independence (f : Frame D T) (h : f.aliases = none) (prefix_ : List (Op D R T))
    (hh : ∀ g : Frame D T, g.aliases = none → ∀ op ∈ prefix_, Harmless g op) (op : Op D R T) :
    call (after f prefix_) op = call f op := by
  have key : after f prefix_ = f := by
    induction prefix_ generalizing f with
    | nil => rfl
    | cons p rest ih =>
      have hp := hh f h p List.mem_cons_self
      have e : (call f p).2 = f := by
        rcases hp with hr | hi
        · exact failing_call_no_effect f p h hr
        · exact readonly_call_no_effect f p h hi
      show after (call f p).2 rest = f
      rw [e]
      exact ih f h (fun g hg o ho => hh g hg o (List.mem_cons_of_mem _ ho))
  rw [key]

/-- Without the `finally` the invariant fails — the model of the code before the fix: a raising
    eval leaves its table behind (kept to document what the fix repaired; proved by evaluation). -/
example :
    let callBefore : Frame Nat Nat → Op Nat Nat Nat → Option Nat × Frame Nat Nat := fun f op =>
      match op.sem f.data (some op.table) with
      | some (r, _) => (some r, { f with aliases := none })
      | none => (none, { f with aliases := some op.table })     -- no try/finally
    (callBefore ⟨0, none⟩ { kind := .eval, table := 7, sem := fun _ _ => none, inplace := false }).2.aliases = some 7 := by
  decide

/-- non-vacuity: a failing eval followed by a plain operation on the same frame -/
example :
    let failingEval : Op Nat Nat Nat := { kind := .eval, table := 7, sem := fun _ _ => none, inplace := false }
    let probe : Op Nat Nat Nat := { kind := .plain, table := 0, sem := fun d t => some (d + t.getD 0, d), inplace := false }
    call (after ⟨5, none⟩ [failingEval]) probe = call ⟨5, none⟩ probe ∧ (call ⟨5, none⟩ failingEval).1 = none := by
  intro failingEval probe
  exact ⟨rfl, rfl⟩

end NP.C16
