/-
  C02 — Packing and unpacking are lossless inverses.
  Property theorems only.
-/
import NPModel.Refine.Rows
import NPModel.Refine.PackFlat
import NPModel.Refine.Samples
import NPModel.Refine.PackSorted
import NPModel.Refine.JoinRows
namespace NP.C02
open NP
variable {α : Type}

/-- Packing per-row lists (what `pack_lists`, `pack_seq`, `pa.array` build: the canonical layout)
    and reading the rows back gives exactly the lists that were packed — nulls, order and
    multiplicities included, for any number of rows of any lengths. -/
theorem pack_lists_then_rows (rows : List (Option (List α))) : (PList.ofRows rows).rows = rows :=
  PList.ofRows_rows rows

/-- The zero-copy packing of a sorted flat column (`ListArray.from_arrays(offsets, flat)` in
    `view_sorted_series_as_list_array`) loses and invents nothing: concatenating the packed rows
    gives back the flat column, whenever the offsets start at 0, are non-decreasing and end at
    the column's length. -/
theorem pack_sorted_then_flatten (offs : List Nat) (vals : List α) (hm : monotone offs = true)
    (h0 : offs.headD 0 = 0) (hl : offs.getLast?.getD 0 = vals.length) :
    (segs offs vals).flatten = vals := by
  rw [segs_flatten hm (by omega), h0, hl]
  simp

/-- … and the packed rows have the lengths announced by the offsets. -/
theorem pack_sorted_row_lengths (offs : List Nat) (vals : List α) (hm : monotone offs = true)
    (hl : offs.getLast?.getD 0 ≤ vals.length) :
    (segs offs vals).map List.length = diffs offs :=
  segs_lengths hm hl

/-- Flattening then re-packing by the row lengths is the identity on the rows (the list view
    round trip): the canonical layout of the rows' lists has those lists as extents. -/
theorem flatten_then_pack (ls : List (List α)) :
    segs (offsetsFrom 0 (ls.map List.length)) ls.flatten = ls :=
  segs_canonical ls

/-- **pack_flat groups by label, ascending, keeping the original order inside each label.**
    `xs` are the (label, record) pairs of the flat table in their original order — in the model
    `pack_flat` sorts `index.zipIdx`, i.e. the records are the row positions, and every column is
    then read through the same sorted positions, so whole records stay together.
    For every packed row `(k, l)`: `l` is exactly the subsequence of records labelled `k` in the
    ORIGINAL table; the packed rows are the non-empty label groups in ascending label order and
    the packed index lists their (pairwise distinct) labels. -/
theorem pack_flat_groups_by_label (xs : List (Label × α)) (k : Label) (l : List α)
    (hm : (k, l) ∈ toRuns (sortedByLabel xs)) :
    let s := sortedByLabel xs
    l = valsOfLabel k (xs.map (·.1)) (xs.map (·.2)) ∧
    segs (packOffsets (s.map (·.1))) (s.map (·.2)) = (nonemptyRuns (toRuns s)).map (·.2) ∧
    ((packOffsets (s.map (·.1))).dropLast).map (fun o => (s.map (·.1)).getD o k) = (nonemptyRuns (toRuns s)).map (·.1) :=
  packFlat_rows xs k l hm

/-- flattening the packed column gives back the stably sorted table: the packed rows, concatenated,
    are the sorted records — nothing lost, duplicated or invented (and the sorted table is a
    permutation of the original). -/
theorem pack_flat_then_flatten (xs : List (Label × α)) :
    let s := sortedByLabel xs
    (segs (packOffsets (s.map (·.1))) (s.map (·.2))).flatten = s.map (·.2) ∧ s.Perm xs := by
  intro s
  have hd : ((toRuns s).map (·.1)).Pairwise (· ≠ ·) :=
    List.Pairwise.imp (fun h => h.2) (packFlat_index_strictly_ascending xs)
  have ⟨e1, e2⟩ := toRuns_labels_vals s
  refine ⟨?_, sortedByLabel_perm xs⟩
  rw [← e1, ← e2, packed_rows_are_runs _ hd, ← runVals_nonempty]

/-- the labels of the packed column are distinct and ascending -/
theorem pack_flat_labels_strictly_ascending (xs : List (Label × α)) :
    ((toRuns (sortedByLabel xs)).map (·.1)).Pairwise (fun a b => a.le b = true ∧ a ≠ b) :=
  packFlat_index_strictly_ascending xs

/-- **The packer of the implementation model is these list views**: on a flat table with a
    monotone index `pack_sorted_df_into_struct` succeeds; its index is the label found at each run
    offset, and its single chunk views every flat column through the SAME offsets
    (`packOffsets index`) — so the run-level theorems above (`pack_sorted_then_flatten`,
    `pack_flat_groups_by_label`, …) are statements about what this function returns, for every
    column at once, and whole records stay together. -/
theorem pack_sorted_df_is_list_views (df : FlatDF α) (hm : isMonotone df.index = true)
    (hc : ∀ col ∈ df.cols, df.index.length ≤ col.2.2.length) (hne : df.cols ≠ []) :
    packSortedDf df = .ok
      { index := ((packOffsets df.index).dropLast).map fun o => df.index.getD o (.int 0)
        col := { ty := df.cols.map fun col => (col.1, col.2.1)
                 chunks := [packedChunk (packOffsets df.index) df.cols] } } :=
  packSortedDf_ok df hm hc hne

/-- … and row `i` of that chunk is, field by field, the `i`-th extent of the flat column. -/
theorem packed_chunk_rows (offs : List Nat) (cols : List (String × String × List α)) :
    (packedChunk offs cols).rows = (List.range (offs.length - 1)).map fun i =>
      some (cols.map fun col => (col.1, (segs offs col.2.2).getD i [])) :=
  packedChunk_rows offs cols

/-! ### end to end on the implementation model -/

/-- **Packing then flattening is the stable sort by label** (`NP.packFlat` then `NP.NSeries.toFlat`,
    the models of `pack_flat` and `.nest.to_flat()` checked against the code).  For ANY flat
    table with at least one column and pairwise distinct column names — any labels in any order,
    repeated or not, any number of records — `pack_flat` succeeds and `to_flat()` of the packed
    series is the table read through the stable sort permutation: the same records, cell for cell
    in every column, grouped by ascending label, original relative order kept inside every label.
    Nothing is lost, duplicated or invented (`stable_sort_is_permutation`). -/
theorem pack_then_flatten_is_stable_sort [Inhabited α] (df : FlatDF α) (hne : df.cols ≠ [])
    (hd : (df.cols.map (·.1)).Pairwise (· ≠ ·)) :
    ∃ packed, packFlat df = .ok packed ∧
      packed.toFlat none = .ok (df.reorder (stableSortPerm df.index) default) :=
  packFlat_toFlat df hne hd

/-- the positions the sorted table is read through are a permutation of `0..n-1` that reads the
    labels in non-decreasing order -/
theorem stable_sort_is_permutation (index : List Label) :
    (stableSortPerm index).Perm (List.range index.length) ∧
    ((stableSortPerm index).map fun i => index.getD i (.int 0)).Pairwise (fun a b => a.le b = true) := by
  constructor
  · rw [stableSortPerm_eq, ← zipIdx_snd]
    exact (sortedByLabel_perm _).map _
  · rw [reorder_index]
    exact sortedByLabel_sorted _

/-- non-vacuity: the hypotheses hold of the table labelled `[b, a, b]` with columns `t`, `u` -/
example : ([("t", "int64", [10, 11, 12]), ("u", "int64", [0, 1, 2])] : List (String × String × List Nat)) ≠ [] ∧
    (([("t", "int64", [10, 11, 12]), ("u", "int64", [0, 1, 2])] : List (String × String × List Nat)).map (·.1)).Pairwise (· ≠ ·) := by
  decide

example : (PList.ofRows [some [1, 2], none, some [], some [3]]).rows = [some [1, 2], none, some [], some [3]] := by
  decide

end NP.C02
