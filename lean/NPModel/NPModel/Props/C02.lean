/-
  C02 — Packing and unpacking are lossless inverses.
  Property theorems only.
-/
import NPModel.Refine.Rows
import NPModel.Refine.Samples
namespace NP.C02
open NP
variable {α : Type}

/-- Packing per-row lists (what `pack_lists`, `pack_seq`, `pa.array` build: the canonical layout)
    and reading the rows back gives exactly the lists that were packed — nulls, order and
    multiplicities included, for any number of rows of any lengths. -/
theorem pack_lists_then_rows (rows : List (Option (List α))) : (PList.ofRows rows).rows = rows :=
  PList.ofRows_rows rows

/-- The zero-copy packing of a sorted flat column (`ListArray.from_arrays(offsets, flat)` in
    `view_sorted_series_as_list_array`) loses and invents nothing: concatenating the packed rows
    gives back the flat column, whenever the offsets start at 0, are non-decreasing and end at
    the column's length. -/
theorem pack_sorted_then_flatten (offs : List Nat) (vals : List α) (hm : monotone offs = true)
    (h0 : offs.headD 0 = 0) (hl : offs.getLast?.getD 0 = vals.length) :
    (segs offs vals).flatten = vals := by
  rw [segs_flatten hm (by omega), h0, hl]
  simp

/-- … and the packed rows have the lengths announced by the offsets. -/
theorem pack_sorted_row_lengths (offs : List Nat) (vals : List α) (hm : monotone offs = true)
    (hl : offs.getLast?.getD 0 ≤ vals.length) :
    (segs offs vals).map List.length = diffs offs :=
  segs_lengths hm hl

/-- Flattening then re-packing by the row lengths is the identity on the rows (the list view
    round trip): the canonical layout of the rows' lists has those lists as extents. -/
theorem flatten_then_pack (ls : List (List α)) :
    segs (offsetsFrom 0 (ls.map List.length)) ls.flatten = ls :=
  segs_canonical ls

example : (PList.ofRows [some [1, 2], none, some [], some [3]]).rows = [some [1, 2], none, some [], some [3]] := by
  decide

end NP.C02
