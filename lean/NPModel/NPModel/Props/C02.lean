/-
  C02 — Packing and unpacking are lossless inverses.
  Property theorems only.
-/
import NPModel.Refine.Rows
import NPModel.Refine.PackFlat
import NPModel.Refine.Samples
import NPModel.Refine.PackSorted
import NPModel.Refine.JoinRows
import NPModel.Refine.ViewTrips
import NPModel.Refine.ViewTrips2
namespace NP.C02
open NP
variable {α : Type}

/-- Packing per-row lists (what `pack_lists`, `pack_seq`, `pa.array` build: the canonical layout)
    and reading the rows back gives exactly the lists that were packed — nulls, order and
    multiplicities included, for any number of rows of any lengths. -/
theorem pack_lists_then_rows (rows : List (Option (List α))) : (PList.ofRows rows).rows = rows :=
  PList.ofRows_rows rows

/-- The zero-copy packing of a sorted flat column (`ListArray.from_arrays(offsets, flat)` in
    `view_sorted_series_as_list_array`) loses and invents nothing: concatenating the packed rows
    gives back the flat column, whenever the offsets start at 0, are non-decreasing and end at
    the column's length. -/
theorem pack_sorted_then_flatten (offs : List Nat) (vals : List α) (hm : monotone offs = true)
    (h0 : offs.headD 0 = 0) (hl : offs.getLast?.getD 0 = vals.length) :
    (segs offs vals).flatten = vals := by
  rw [segs_flatten hm (by omega), h0, hl]
  simp

/-- … and the packed rows have the lengths announced by the offsets. -/
theorem pack_sorted_row_lengths (offs : List Nat) (vals : List α) (hm : monotone offs = true)
    (hl : offs.getLast?.getD 0 ≤ vals.length) :
    (segs offs vals).map List.length = diffs offs :=
  segs_lengths hm hl

/-- Flattening then re-packing by the row lengths is the identity on the rows (the list view
    round trip): the canonical layout of the rows' lists has those lists as extents. -/
theorem flatten_then_pack (ls : List (List α)) :
    segs (offsetsFrom 0 (ls.map List.length)) ls.flatten = ls :=
  segs_canonical ls

/-- **pack_flat groups by label, ascending, keeping the original order inside each label.**
    `xs` are the (label, record) pairs of the flat table in their original order — in the model
    `pack_flat` sorts `index.zipIdx`, i.e. the records are the row positions, and every column is
    then read through the same sorted positions, so whole records stay together.
    For every packed row `(k, l)`: `l` is exactly the subsequence of records labelled `k` in the
    ORIGINAL table; the packed rows are the non-empty label groups in ascending label order and
    the packed index lists their (pairwise distinct) labels. -/
theorem pack_flat_groups_by_label (xs : List (Label × α)) (k : Label) (l : List α)
    (hm : (k, l) ∈ toRuns (sortedByLabel xs)) :
    let s := sortedByLabel xs
    l = valsOfLabel k (xs.map (·.1)) (xs.map (·.2)) ∧
    segs (packOffsets (s.map (·.1))) (s.map (·.2)) = (nonemptyRuns (toRuns s)).map (·.2) ∧
    ((packOffsets (s.map (·.1))).dropLast).map (fun o => (s.map (·.1)).getD o k) = (nonemptyRuns (toRuns s)).map (·.1) :=
  packFlat_rows xs k l hm

/-- flattening the packed column gives back the stably sorted table: the packed rows, concatenated,
    are the sorted records — nothing lost, duplicated or invented (and the sorted table is a
    permutation of the original). -/
theorem pack_flat_then_flatten (xs : List (Label × α)) :
    let s := sortedByLabel xs
    (segs (packOffsets (s.map (·.1))) (s.map (·.2))).flatten = s.map (·.2) ∧ s.Perm xs := by
  intro s
  have hd : ((toRuns s).map (·.1)).Pairwise (· ≠ ·) :=
    List.Pairwise.imp (fun h => h.2) (packFlat_index_strictly_ascending xs)
  have ⟨e1, e2⟩ := toRuns_labels_vals s
  refine ⟨?_, sortedByLabel_perm xs⟩
  rw [← e1, ← e2, packed_rows_are_runs _ hd, ← runVals_nonempty]

/-- the labels of the packed column are distinct and ascending -/
theorem pack_flat_labels_strictly_ascending (xs : List (Label × α)) :
    ((toRuns (sortedByLabel xs)).map (·.1)).Pairwise (fun a b => a.le b = true ∧ a ≠ b) :=
  packFlat_index_strictly_ascending xs

/-- **The packer of the implementation model is these list views**: on a flat table with a
    monotone index `pack_sorted_df_into_struct` succeeds; its index is the label found at each run
    offset, and its single chunk views every flat column through the SAME offsets
    (`packOffsets index`) — so the run-level theorems above (`pack_sorted_then_flatten`,
    `pack_flat_groups_by_label`, …) are statements about what this function returns, for every
    column at once, and whole records stay together. -/
theorem pack_sorted_df_is_list_views (df : FlatDF α) (hm : isMonotone df.index = true)
    (hc : ∀ col ∈ df.cols, df.index.length ≤ col.2.2.length) (hne : df.cols ≠ []) :
    packSortedDf df = .ok
      { index := ((packOffsets df.index).dropLast).map fun o => df.index.getD o (.int 0)
        col := { ty := df.cols.map fun col => (col.1, col.2.1)
                 chunks := [packedChunk (packOffsets df.index) df.cols] } } :=
  packSortedDf_ok df hm hc hne

/-- … and row `i` of that chunk is, field by field, the `i`-th extent of the flat column. -/
theorem packed_chunk_rows (offs : List Nat) (cols : List (String × String × List α)) :
    (packedChunk offs cols).rows = (List.range (offs.length - 1)).map fun i =>
      some (cols.map fun col => (col.1, (segs offs col.2.2).getD i [])) :=
  packedChunk_rows offs cols

/-! ### end to end on the implementation model -/

/-- **Packing then flattening is the stable sort by label** (`NP.packFlat` then `NP.NSeries.toFlat`,
    the models of `pack_flat` and `.nest.to_flat()` checked against the code).  For ANY flat
    table with at least one column and pairwise distinct column names — any labels in any order,
    repeated or not, any number of records — `pack_flat` succeeds and `to_flat()` of the packed
    series is the table read through the stable sort permutation: the same records, cell for cell
    in every column, grouped by ascending label, original relative order kept inside every label.
    Nothing is lost, duplicated or invented (`stable_sort_is_permutation`). -/
theorem pack_then_flatten_is_stable_sort [Inhabited α] (df : FlatDF α) (hne : df.cols ≠ [])
    (hd : (df.cols.map (·.1)).Pairwise (· ≠ ·)) :
    ∃ packed, packFlat df = .ok packed ∧
      packed.toFlat none = .ok (df.reorder (stableSortPerm df.index) default) :=
  packFlat_toFlat df hne hd

/-- the positions the sorted table is read through are a permutation of `0..n-1` that reads the
    labels in non-decreasing order -/
theorem stable_sort_is_permutation (index : List Label) :
    (stableSortPerm index).Perm (List.range index.length) ∧
    ((stableSortPerm index).map fun i => index.getD i (.int 0)).Pairwise (fun a b => a.le b = true) := by
  constructor
  · rw [stableSortPerm_eq, ← zipIdx_snd]
    exact (sortedByLabel_perm _).map _
  · rw [reorder_index]
    exact sortedByLabel_sorted _

/-- non-vacuity: the hypotheses hold of the table labelled `[b, a, b]` with columns `t`, `u` -/
example : ([("t", "int64", [10, 11, 12]), ("u", "int64", [0, 1, 2])] : List (String × String × List Nat)) ≠ [] ∧
    (([("t", "int64", [10, 11, 12]), ("u", "int64", [0, 1, 2])] : List (String × String × List Nat)).map (·.1)).Pairwise (· ≠ ·) := by
  decide

example : (PList.ofRows [some [1, 2], none, some [], some [3]]).rows = [some [1, 2], none, some [], some [3]] := by
  decide

/-- **The list view round trip on the implementation model** (`to_lists` then `pack_lists`).  For
    every nested series on validated storage whose missing rows store nothing (`PCol.Clean`; any
    chunking, slice offsets and buffers), `to_lists()` succeeds, `pack_lists` accepts the frame of
    lists it returned, keeps the index and the field names, and row `i` of the re-packed column is
    present and holds, under every field name, the list that field has in row `i` of the original —
    no elements where that row was missing.  No value, null or order is lost or invented. -/
theorem list_view_round_trip (s : NSeries α) (h : s.col.Clean) (hne : s.col.chunks ≠ []) :
    ∃ df s', s.toLists none = .ok df ∧ packLists df.index df.asChunks true = .ok s' ∧
      s'.index = s.index ∧ s'.col.ty.map (·.1) = s.col.ty.map (·.1) ∧
      s'.col.rows = (List.range s.col.len).map fun i =>
        some (s.col.ty.map fun p => (p.1, (Spec.fieldLists s.col.rows p.1).getD i [])) :=
  toLists_packLists s h hne

/-- … and with distinct field names that says: every row that held a table comes back as the same
    table, every missing row as a row without elements (a table of empty lists). -/
theorem list_view_round_trip_rows (s : NSeries α) (h : s.col.Clean) (hne : s.col.chunks ≠ [])
    (hn : (s.col.ty.map (·.1)).Nodup) :
    ∃ df s', s.toLists none = .ok df ∧ packLists df.index df.asChunks true = .ok s' ∧
      s'.index = s.index ∧
      s'.col.rows = s.col.rows.map fun r => some (r.getD (s.col.ty.map fun p => (p.1, []))) :=
  toLists_packLists_rows s h hne hn

/-- **`pack_seq` stores what the dtype sees of every row it is offered** (`normRow`: the dtype's
    fields in dtype order, looked up by name) whenever each of them is rectangular — any number of
    rows, missing ones included. -/
theorem pack_seq_stores_the_rows (idx : List Label) (ty : List (String × String)) (rows : List (Row α))
    (hrect : ∀ r ∈ rows, Row.rect (normRow ty r) = true) :
    ∃ s, packSeq idx ty rows = .ok s ∧ s.index = idx ∧ s.col.ty = ty ∧ s.col.rows = rows.map (normRow ty) :=
  packSeq_rows idx ty rows hrect

/-- **The element view round trip on the implementation model** (`list(series)` then `pack` /
    `pack_seq` under the column's own dtype): for every validated column in any layout (well formed,
    null ⇒ empty extent; hidden child lists allowed — they are not part of the element view) with
    distinct field names, packing its per-row tables succeeds and gives back exactly the same rows,
    missing rows missing. -/
theorem element_view_round_trip (s : NSeries α) (hw : s.col.WF = true)
    (hne : ∀ ch ∈ s.col.chunks, ch.nullEmpty = true) (hv : s.col.validate = .ok ())
    (hn : (s.col.ty.map (·.1)).Nodup) :
    ∃ s', packSeq s.index s.col.ty (NArr.iter s.col) = .ok s' ∧ s'.index = s.index ∧ s'.col.ty = s.col.ty ∧
      s'.col.rows = s.col.rows :=
  iter_packSeq s hw hne hv hn

/-- **The list view round trip along the physical path** — `pack_lists(series.nest.to_lists())` as the
    code runs it: `to_lists` hands out, per field, the child list arrays of the chunks as they are (raw
    windows into the old buffers, the same chunking for every field); `pack_lists` finds equal chunk
    lengths, builds one struct per chunk position from those very arrays and validates.  On `Clean`
    storage (any chunking, offsets, buffers; field names need not be distinct) this succeeds, keeps the
    index and the declared fields, and chunk by chunk every present row comes back unchanged and every
    missing row as a table of empty lists. -/
theorem list_view_round_trip_physical (s : NSeries α) (h : s.col.Clean) (hne : s.col.chunks ≠ []) :
    ∃ s', s.relist = .ok s' ∧ s'.index = s.index ∧ s'.col.ty = s.col.ty ∧
      s'.col.rows = s.col.chunks.flatMap fun ch => ch.rows.map fun r => some (r.getD (emptyTable ch)) :=
  packLists_fieldChunks_rows s.index s.col h hne

/-- `pack_lists` on list columns that do NOT share their chunking (any number of columns, any chunkings,
    `n` lists each, equal list lengths row by row): the columns are combined, and the result is ONE chunk
    whose field `f` is the canonical re-encoding of column `f`'s lists, every row present — the same rows
    as for equally chunked columns, so the chunking of the list columns is not observable. -/
theorem pack_lists_combines_other_chunkings (idx : List Label) (f0 : String) (fr : List String) (T : String → String)
    (C : String → List (PList α)) (n : Nat)
    (hdiff : (fr.map fun f => (C f).map PList.len).all (· == (C f0).map PList.len) = false)
    (hlen : ∀ f ∈ f0 :: fr, ((C f).flatMap PList.rows).length = n)
    (hal : ∀ f ∈ f0 :: fr, ((C f).flatMap PList.rows).map len0 = ((C f0).flatMap PList.rows).map len0) :
    packLists idx ((f0 :: fr).map fun f => (f, T f, C f)) true =
      .ok { index := idx,
            col := { ty := (f0 :: fr).map fun f => (f, T f),
                     chunks := [{ valid := List.replicate n true,
                                  kids := (f0 :: fr).map fun f => { name := f, ty := T f, list := PList.ofRows ((C f).flatMap PList.rows) } }] } } :=
  packLists_other_chunking idx f0 fr T C n hdiff hlen hal

/-- **the list view round trip is stable**: what it returns is `Clean` storage again, and doing it a
    second time changes nothing (not a cell, not a list array). -/
theorem list_view_round_trip_is_stable (s : NSeries α) (h : s.col.Clean) (hne : s.col.chunks ≠ []) :
    ∃ s', s.relist = .ok s' ∧ s'.col.Clean ∧ s'.relist = .ok s' := by
  obtain ⟨s', h1, h2⟩ := relist_relist s h hne
  refine ⟨s', h1, ?_, h2⟩
  have := packLists_fieldChunks s.index s.col h hne
  unfold NSeries.relist at h1
  rw [this] at h1
  cases h1
  exact allValid_clean s.col h

/-- the physical list view round trip copies nothing: the re-packed column holds, chunk for chunk, the SAME list arrays. -/
theorem list_view_round_trip_shares_the_lists (s : NSeries α) (h : s.col.Clean) (hne : s.col.chunks ≠ []) :
    s.relist = .ok ⟨s.index, ⟨s.col.ty, s.col.chunks.map PStruct.allValid⟩⟩ :=
  packLists_fieldChunks s.index s.col h hne

/-- non-vacuity: the three-chunk sample column (one chunk a slice into a larger buffer, one empty,
    a missing row, a null child list) meets the hypotheses of all four theorems -/
example : Samples.c1.Clean ∧ Samples.c1.chunks ≠ [] ∧ (Samples.c1.ty.map (·.1)).Nodup := by
  refine ⟨⟨by decide, by decide, by decide, ?_, by decide⟩, by decide, by decide⟩
  intro s hs
  simp only [Samples.c1, List.mem_cons, List.not_mem_nil, or_false] at hs
  rcases hs with rfl | rfl | rfl <;> (unfold PStruct.noHidden; decide)

example : ∀ r ∈ Samples.c1.rows, Row.rect (normRow Samples.c1.ty r) = true := by decide

end NP.C02
