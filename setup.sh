#!/bin/sh
# MANIFEST.setup_cmd — offline build of the framework from files on disk only:
# the Lean model, its proofs and the native protocol driver.
cd "$(dirname "$0")/lean/NPModel" || exit 2
lake build 2>&1 | tail -5
test -x .lake/build/bin/npdriver || { echo "npdriver was not built"; exit 2; }
echo "setup ok"
