"""Run context: collects cases, compares real / model / spec, writes evidence and replays."""
import collections
import json
import os
import random
import time
import traceback

from .common import VERIF
from .leanproc import Driver
from . import findings as findings_mod


def err_of(e):
    name = type(e).__name__
    for base in ("ValueError", "TypeError", "IndexError", "KeyError", "AttributeError", "NotImplementedError"):
        if any(k.__name__ == base for k in type(e).__mro__):
            return {"err": base, "cls": name, "msg": str(e)[:200]}
    return {"err": "Other", "cls": name, "msg": str(e)[:200]}


def call_real(f):
    try:
        return {"ok": f()}
    except Exception as e:  # noqa: BLE001
        return err_of(e)


def canon(x):
    """canonical comparable form: errors compare as errors (class kept aside)."""
    if isinstance(x, dict) and "err" in x:
        return {"err": True}
    return x


class Ctx:
    def __init__(self, prop, tier, seed):
        self.prop = prop
        self.tier = tier
        self.seed = seed
        self.rng = random.Random(seed)
        self.driver = Driver()
        self.t0 = time.time()
        self.n_cases = 0
        self.by_op = collections.Counter()
        self.by_feature = collections.Counter()
        self.err_kinds = collections.Counter()
        self.classes = set()
        self.nontrivial = set()
        self.samples = []
        self.failures = []       # concrete spec failures (real code violates the spec relation)
        self.disagreements = []  # model != real although the spec holds
        self.known_hits = collections.OrderedDict()
        self.framework_errors = []
        self.known = findings_mod.load()

    # ------------------------------------------------------------------------------------
    def budget(self, quick, thorough):
        return thorough if self.tier == "thorough" else quick

    def case(self, op, inp, real, model, spec=None, hyp=None, features=(), spec_ok=None, nontrivial=True,
             mode="spec", note=None, extra=None):
        """Record one comparison.
        real/model/spec: canonical JSON values or {"err":…}.  spec_ok overrides the equality test
        against `spec` (relations).  `hyp`: hypothesis vector of the input (dict of bools)."""
        self.n_cases += 1
        self.by_op[op] += 1
        for f in features:
            self.by_feature[f] += 1
        for r in (real,):
            if isinstance(r, dict) and "err" in r:
                self.err_kinds[f"{op}:{r.get('cls', r['err'])}"] += 1
        agree = (model is None) or (canon(real) == canon(model))
        if spec_ok is None:
            spec_ok = (spec is None) or (canon(real) == canon(spec))
        key = (op, tuple(sorted(features)), json.dumps(canon(real), sort_keys=True)[:200])
        self.classes.add(key)
        if nontrivial:
            self.nontrivial.add(key)
        if len(self.samples) < 6 and (self.n_cases % 37 == 1):
            self.samples.append({"op": op, "input": inp, "real": real})
        rec = None
        if not spec_ok or not agree:
            rec = {"property": self.prop, "op": op, "input": inp, "real": real, "model": model, "spec": spec,
                   "hyp": hyp or {}, "features": list(features), "agree": agree, "spec_ok": spec_ok,
                   "mode": mode, "note": note, "seed": self.seed, "extra": extra}
        if not spec_ok:
            k = findings_mod.match(self.known, self.prop, op, hyp or {}, mode)
            # a listed finding covers the case only while the code still does what the model (which follows the code,
            # findings included) says it does: another wrong result at the same call site is a new violation
            if k is not None and agree:
                self.known_hits.setdefault(k["id"], {"entry": k, "count": 0, "example": rec})
                self.known_hits[k["id"]]["count"] += 1
                self.known_hits[k["id"]].setdefault("ops", collections.Counter())[op] += 1
            else:
                self.failures.append(rec)
        elif not agree:
            self.disagreements.append(rec)
        return spec_ok and agree

    def framework_error(self, what):
        self.framework_errors.append(what)

    def impl_crash(self, tb):
        """the implementation raised in an unguarded set-up call: reported as a correspondence that no longer checks"""
        self.disagreements.append({"property": self.prop, "op": "harness.setup_call", "input": {"traceback": tb},
                                   "real": {"err": "raised in the implementation"}, "model": None, "spec": None,
                                   "note": "a call the harness makes to build a case raised inside /repo; on the tree the "
                                           "model follows this call succeeds", "seed": self.seed})

    # ------------------------------------------------------------------------------------
    def finish(self, proof, level="proof", assumptions=(), extra_cov=None):
        """Print the verdict lines, write evidence, return the exit code."""
        self.driver.close()
        wall = time.time() - self.t0
        os.makedirs(os.path.join(VERIF, "evidence"), exist_ok=True)
        os.makedirs(os.path.join(VERIF, "replays"), exist_ok=True)
        code = 0
        lines = []
        for kid, hit in self.known_hits.items():
            lines.append(f"KNOWN-FINDING: property={self.prop} {kid} {hit['entry']['text']} (seen {hit['count']}x)")
        violations = 0

        def write_replay(tag, rec):
            path = os.path.join(VERIF, "replays", f"{self.prop}-{self.seed}-{tag}.json")
            with open(path, "w") as f:
                json.dump(rec, f, indent=1, default=str)
            return path

        if self.failures:
            # smallest failing input first
            self.failures.sort(key=lambda r: len(json.dumps(r["input"], default=str)))
            seen = set()
            for rec in self.failures:
                if rec["op"] in seen:
                    continue
                seen.add(rec["op"])
                violations += 1
                path = write_replay(f"{rec['op']}-{violations}", rec)
                lines.append(f"VIOLATION property={self.prop} replay={path}")
                if violations >= 5:
                    break
            code = 1
        elif self.disagreements or not proof.get("ok", True):
            broken = []
            if not proof.get("ok", True):
                broken.append({"kind": "proof", "theorem": proof.get("broken"), "detail": proof.get("detail")})
            self.disagreements.sort(key=lambda r: len(json.dumps(r["input"], default=str)))
            for rec in self.disagreements[:3]:
                broken.append({"kind": "correspondence", "op": rec["op"], "case": rec})
            path = write_replay("unproved", {"property": self.prop, "no_longer_checks": broken,
                                             "search": {"cases": self.n_cases, "seed": self.seed}})
            lines.append(f"VIOLATION property={self.prop} replay={path} no-failing-input-found")
            violations += 1
            code = 1
        if self.framework_errors:
            for e in self.framework_errors[:5]:
                lines.append(f"FRAMEWORK-ERROR property={self.prop} {e}")
            if code == 0:
                code = 2
        cov = {
            "obligations": proof.get("obligations", 0),
            "discharged": proof.get("discharged", 0),
            "checker_cmd": proof.get("checker_cmd", ""),
            "trusted_base": proof.get("trusted_base", []),
            "theorems": proof.get("theorems", []),
            "evaluations": self.n_cases,
            "distinct_nontrivial": len(self.nontrivial),
            "rule": "cases are (operation, layout/label/argument features, canonical real outcome) classes drawn "
                    "from one PRNG seeded by VERIF_SEED; a class is non-trivial when the input has at least one "
                    "non-empty non-missing row and the operation is not a no-op",
            "traces_validated_against_impl": self.n_cases,
            "samples": self.samples[:6] or [{"note": "no correspondence cases in this run"}],
            "cases_by_operation": dict(self.by_op),
            "cases_by_feature": dict(self.by_feature),
            "error_kinds_hit": dict(self.err_kinds),
            "known_findings_hit": {k: v["count"] for k, v in self.known_hits.items()},
            "model_vs_impl_disagreements": len(self.disagreements),
            "spec_failures": len(self.failures),
        }
        if extra_cov:
            cov.update(extra_cov)
        ev = {
            "property_id": self.prop,
            "tier": self.tier,
            "seed": self.seed,
            "level": level,
            "coverage": cov,
            "assumptions": list(assumptions),
            "wall_s": round(wall, 2),
            "violations": violations,
        }
        with open(os.path.join(VERIF, "evidence", f"{self.prop}.json"), "w") as f:
            json.dump(ev, f, indent=1, default=str)
        for l in lines:
            print(l)
        print(f"{self.prop} tier={self.tier} seed={self.seed} cases={self.n_cases} "
              f"classes={len(self.nontrivial)} proof={proof.get('discharged', 0)}/{proof.get('obligations', 0)} "
              f"known={len(self.known_hits)} violations={violations} wall={wall:.1f}s exit={code}")
        return code
