"""C15: operations do not mutate their inputs; copies are isolated; in-place operations change only
their target.  Families of related objects, full snapshots after every step, the set of objects that MAY
change predicted by the sharing model (State/Heap.lean): an in-place array operation is visible exactly
through the objects holding that very array object (`is`), nothing else ever changes."""
import io

from . import gen, export
from .common import pa, pd, np, weak_rows, TYPES, NestedFrame, NestedDtype, NestedExtensionArray
from .runner import call_real
from .subject import Subject
from .ops_nf import frame_view
from .ops_array import df_of_row


def summaries(arr, rows):
    """the summary views of one nested array (what memoising them would keep) next to what the rows say"""
    lens = [int(x) for x in arr.list_lengths]
    from_rows = [0 if r is None else (len(r[0][1]) if r else 0) for r in rows]
    return {"list_lengths": lens, "flat_length": int(arr.flat_length), "agree_with_rows": lens == from_rows and int(arr.flat_length) == sum(from_rows)}


def snap(obj):
    if isinstance(obj, NestedFrame) or (isinstance(obj, pd.DataFrame) and any(isinstance(t, NestedDtype) for t in obj.dtypes)):
        v = frame_view(obj)
        v["dtypes"] = [str(t) for t in obj.dtypes]
        v["index_name"] = obj.index.name
        v["summaries"] = {c[0]: summaries(obj[c[0]].array, c[2]["rows"]) for c in v["cols"] if c[1] == "nest"}
        return v
    if isinstance(obj, pd.DataFrame):
        return {"flat": {"index": export.labels(obj.index),
                         "cols": [[str(c), str(obj[c].dtype), [repr(v) for v in obj[c].tolist()]] for c in obj.columns]},
                "dtypes": [str(t) for t in obj.dtypes], "index_name": obj.index.name}
    if isinstance(obj, pd.Series) and isinstance(obj.dtype, NestedDtype):
        rows = weak_rows(export.rows_view(obj.array))
        return {"index": export.labels(obj.index), "name": obj.name, "rows": rows, "dtype": str(obj.dtype),
                "index_name": obj.index.name, "summaries": {"self": summaries(obj.array, rows)}}
    if isinstance(obj, pd.Series):
        return {"index": export.labels(obj.index), "name": obj.name, "vals": [repr(v) for v in obj.tolist()], "dtype": str(obj.dtype),
                "index_name": obj.index.name}
    return repr(obj)


def arrays_of(obj):
    """the NestedExtensionArray objects an object holds (identity matters)"""
    if isinstance(obj, pd.DataFrame):
        return [obj[c].array for c in obj.columns if isinstance(obj[c].dtype, NestedDtype)]
    if isinstance(obj, pd.Series) and isinstance(obj.dtype, NestedDtype):
        return [obj.array]
    return []


def run_family(ctx, steps):
    rng = ctx.rng
    s = Subject(ctx, allow_hidden=False, nrows=rng.randint(3, 5), ty=[["a", "double"], ["b", "int64"]], p_missing=0.15)
    n = len(s.content["rows"])
    labels = list(range(n)) if rng.random() < 0.5 else gen.rand_labels(rng, n, pattern="unique_sorted")
    O = NestedFrame({"x": np.arange(n, dtype=np.float64), "k": np.arange(n, dtype=np.int64)}, index=pd.Index(labels))
    O["n"] = pd.Series(s.fresh_ext(), index=O.index, name="n")
    s2 = Subject(ctx, allow_hidden=False, nrows=n, ty=[["p", "int64"]], p_missing=0.1)
    O["other"] = pd.Series(s2.fresh_ext(), index=O.index, name="other")
    # argument table: numpy-backed, labels sorted (the case where packing could alias the caller's memory) or not
    m = rng.randint(n, n + 3)
    flab = [labels[i % n] for i in range(m)]
    if rng.random() < 0.6:
        flab.sort(key=str)
    A = pd.DataFrame({"t": np.arange(m, dtype=np.float64) + 100.0, "u": np.arange(m, dtype=np.int64) + 200}, index=pd.Index(flab))
    ser_arg = pd.Series(np.arange(n, dtype=np.float64) * 3.0, index=O.index, name="argname")
    fam = {"O": O, "C": O.copy(), "S": O.iloc[1:], "K": O[["n", "x", "other"]], "E": O["n"], "A": A, "ser_arg": ser_arg,
           # plain argument objects a caller keeps: positions (with negatives), a list of sort directions, a list of columns
           "P": np.array([-1, 0], dtype=np.int64), "ASC": [False, True], "BY": ["n.a", "n.b"], "SUBSET": ["n.a"],
           # a list of column names the caller keeps (it names the `on` column too)
           "BASECOLS": ["base", "key"]}
    # a nested Series a caller keeps, over an index with its OWN name (and the frame it was taken from)
    D = O[["n", "k"]].copy()
    D.index = D.index.rename("donor_id")
    fam["D"] = D
    fam["DS"] = D["n"]
    # flat values a caller keeps (numpy memory the caller may change later): an array and a Series aligned with O's records
    tot0 = int(O["n"].nest.flat_length)
    fam["VAL"] = np.arange(tot0, dtype=np.float64) + 7000.0
    fam["SVAL"] = pd.Series(np.arange(tot0, dtype=np.float64) + 8000.0, index=O["n"].nest.get_flat_index(), name="sval")
    # the same with timestamps (numpy datetime64 memory, which Arrow can wrap without a copy just like numbers)
    fam["TVAL"] = np.datetime64("2020-01-01", "ns") + np.arange(tot0).astype("timedelta64[s]")
    fam["STVAL"] = pd.Series(np.datetime64("2021-06-01", "ns") + np.arange(tot0).astype("timedelta64[s]"),
                             index=O["n"].nest.get_flat_index(), name="stval")
    fam["R"] = O.add_nested(A, "m")
    hist = [{"start": s.desc(), "labels": labels, "flat_labels": flab}]

    def total(fr):
        return int(fr["n"].nest.flat_length) if isinstance(fr, pd.DataFrame) else int(fr.nest.flat_length)
    last_arg = [None]
    for step in range(steps):
        before = {k: snap(v) for k, v in fam.items()}
        kind = rng.choice(["pure", "pure", "inplace_array", "inplace_frame", "arg_edit"])
        frames = [k for k, v in fam.items() if isinstance(v, NestedFrame) and "n" in v.columns and isinstance(v["n"].dtype, NestedDtype)]
        may_change = set()
        desc = {"kind": kind}
        try:
            # the first step of every family is one of the operations that take an OBJECT the caller keeps (in turn)
            forced = None
            if step == 0:
                k_fam = getattr(ctx, "_families", 0)
                ctx._families = k_fam + 1
                forced = ["sort_with_arg_lists", "dropna_with_arg_list", "take_with_arg_positions", "from_flat_on_with_arg_list",
                          "with_flat_arg", "setitem_field_arg", "pack_seq_nested_series", "add_nested_series",
                          "eval_multiline", "with_flat_arg"][k_fam % 10]
                kind = "pure"
                desc["kind"] = kind
            elif step == 1 and last_arg[0]:
                # ... and the caller changes that very object right afterwards
                kind = "arg_edit"
                desc["kind"] = kind
            if kind == "pure":
                tname = rng.choice(frames) if forced is None else "O"
                X = fam[tname]
                op = forced or rng.choice(["query", "eval", "eval_assign", "eval_multiline", "sort", "dropna", "add_nested", "add_nested_series", "add_nested_series",
                                 "reduce", "with_flat", "with_flat_arg", "with_flat_arg", "setitem_field_arg", "without",
                                 "pack_nested_series", "pack_seq_nested_series", "from_flat_on_with_arg_list",
                                 "to_parquet", "to_flat", "from_flat", "pack", "setitem_series_new_nest", "nest_lists", "take",
                                 "take_all", "mask_all", "loc_all", "iloc_all", "query_base_all", "concat_with_empty",
                                 "concat_empty_first", "reindex_same", "series_take_all", "series_concat_empty",
                                 "sort_with_arg_lists", "dropna_with_arg_list", "take_with_arg_positions"])
                desc.update(target=tname, op=op)
                new = None
                if op == "query":
                    new = X.query("n.a > 0")
                elif op == "eval":
                    new = X.eval("n.a * 2")
                elif op == "eval_assign":
                    new = X.eval("n.c = n.a * 2")
                elif op == "eval_multiline":
                    # several statements, not in place: a base column is overwritten, a nested field added
                    bc = "x" if "x" in X.columns else "k"
                    new = X.eval(rng.choice([f"{bc} = {bc} + 10\nn.c = n.a * 2", f"n.c = n.a * 2\n{bc} = {bc} * 3",
                                             f"{bc} = {bc} + 1\n{bc} = {bc} * 2"]))
                elif op == "sort":
                    new = X.sort_values("n.b", ascending=False)
                elif op == "dropna":
                    new = X.dropna(subset="n.a")
                elif op == "add_nested":
                    new = X.add_nested(fam["A"], f"m{step}")
                elif op == "add_nested_series":
                    new = X.add_nested(fam["DS"], f"ms{step}", how=rng.choice(["left", "left", "outer", "inner"]))
                elif op == "reduce":
                    new = X.reduce(lambda a: {"s": float(np.nansum(np.asarray(a, dtype=float)))}, "n.a")
                elif op == "with_flat":
                    new = X["n"].nest.with_flat_field("z", np.arange(total(X), dtype=np.float64))
                elif op == "with_flat_arg":
                    # the caller's own array / Series as the new field (only frames that still have O's records)
                    if total(X) == len(fam["VAL"]) and len(X) == len(fam["O"]):
                        vn = rng.choice(["VAL", "SVAL", "TVAL", "STVAL"])
                        v = fam[vn]
                        last_arg[0] = vn
                        new = X["n"].nest.with_flat_field(rng.choice(["zv", "a"]) if "T" not in vn else "zt", v if isinstance(v, np.ndarray) or
                                                          X["n"].nest.get_flat_index().equals(v.index) else v.to_numpy())
                elif op == "setitem_field_arg":
                    if total(X) == len(fam["VAL"]) and len(X) == len(fam["O"]):
                        Y = X.copy()
                        vn = rng.choice(["VAL", "SVAL", "TVAL", "STVAL"])
                        v = fam[vn]
                        last_arg[0] = vn
                        Y[f"n.{rng.choice(['zv', 'a']) if 'T' not in vn else 'zt'}"] = v if isinstance(v, np.ndarray) or Y["n"].nest.get_flat_index().equals(v.index) else v.to_numpy()
                        new = Y
                elif op == "without":
                    new = X["n"].nest.without_field("b")
                elif op == "to_parquet":
                    X.to_parquet(io.BytesIO())
                elif op == "to_flat":
                    new = X["n"].nest.to_flat()
                elif op == "from_flat":
                    new = NestedFrame.from_flat(NestedFrame(fam["A"].assign(base=1.0)), base_columns=["base"], name="ff")
                elif op == "pack":
                    from nested_pandas.series.packer import pack
                    new = pack(fam["A"], name="packed")
                elif op in ("pack_nested_series", "pack_seq_nested_series"):
                    # packing what is ALREADY a nested Series (the caller's): a new column all the same
                    from nested_pandas.series.packer import pack, pack_seq
                    src = fam[rng.choice(["E", "DS"])]
                    new = pack(src) if op == "pack_nested_series" else pack_seq(src, name="again")
                elif op == "from_flat_on_with_arg_list":
                    tbl = fam["A"].assign(base=1.0).reset_index(names="key")
                    new = NestedFrame.from_flat(tbl, base_columns=fam["BASECOLS"], on="key", name="ff")
                elif op == "setitem_series_new_nest":
                    Y = X.copy()
                    Y["fresh.w"] = fam["ser_arg"]
                    new = Y
                elif op == "nest_lists":
                    new = X["n"].nest.to_lists()
                elif op == "sort_with_arg_lists":
                    new = X.sort_values(fam["BY"], ascending=fam["ASC"])
                elif op == "dropna_with_arg_list":
                    new = X.dropna(subset=fam["SUBSET"])
                elif op == "take_with_arg_positions":
                    new = X["n"].array.take(fam["P"], allow_fill=False) if len(X) else None
                    new = None if new is None else pd.Series(new)
                elif op == "take_all":          # selections that keep every row, in order: still NEW objects
                    new = X.take(list(range(len(X))))
                elif op == "mask_all":
                    new = X[np.ones(len(X), dtype=bool)]
                elif op == "loc_all":
                    new = X.loc[list(X.index)]
                elif op == "iloc_all":
                    new = X.iloc[list(range(len(X)))]
                elif op == "query_base_all":
                    new = X.query("x > -1000")
                elif op == "concat_with_empty":
                    new = pd.concat([X, X.iloc[0:0]])
                elif op == "concat_empty_first":
                    new = pd.concat([X[np.zeros(len(X), dtype=bool)], X])
                elif op == "reindex_same":
                    new = X.reindex(list(X.index))
                elif op == "series_take_all":
                    new = X["n"].take(list(range(len(X))))
                elif op == "series_concat_empty":
                    new = pd.concat([X["n"], X["n"].iloc[0:0]])
                else:
                    new = X.take(list(range(len(X)))[::-1])
                if new is not None and not isinstance(new, (int, float)):
                    # sharing rule of the model: what an operation returns is made of FRESH array objects and owns its
                    # base values (State/Heap.lean `newObj`): nothing of it may be shared with an object that existed before
                    shared = []
                    for k, v in fam.items():
                        for a in arrays_of(v):
                            if any(a is b for b in arrays_of(new)):
                                shared.append(f"{k}: nested array object")
                        if isinstance(v, pd.DataFrame) and isinstance(new, pd.DataFrame):
                            for c in v.columns:
                                # numpy-backed (mutable) columns only: Arrow-backed columns share immutable buffers by design
                                if (c in new.columns and isinstance(v[c].dtype, np.dtype) and v[c].dtype.kind in "fiu"
                                        and new[c].dtype == v[c].dtype and len(v) and len(new)):
                                    if np.shares_memory(v[c].to_numpy(), new[c].to_numpy()):
                                        shared.append(f"{k}: base column {c}")
                    ctx.case(f"family.result_is_fresh.{op}", {"history": list(hist) + [desc]}, {"ok": shared}, None, {"ok": []},
                             features=("fresh", op), nontrivial=True)
                    fam[f"N{step}"] = new
            elif kind == "inplace_array":
                tname = rng.choice(frames + ["E"])
                X = fam[tname]
                col = rng.choice(["n", "n", "other"]) if isinstance(X, pd.DataFrame) and "other" in X.columns else "n"
                arr = X[col].array if isinstance(X, pd.DataFrame) else X.array
                sharers = {k for k, v in fam.items() if any(a is arr for a in arrays_of(v))}
                may_change = sharers
                op = rng.choice(["setitem_row", "nest_setitem", "setitem_none", "setitem_arg_positions"])
                desc.update(target=tname, op=op, sharers=sorted(sharers))
                if len(arr) == 0:
                    continue
                cty = s.ty if col == "n" else s2.ty
                if op == "setitem_row":
                    arr[rng.randrange(len(arr))] = df_of_row(gen.rand_row(rng, cty, p_missing=0), cty)
                elif op == "setitem_none":
                    arr[rng.randrange(len(arr))] = None
                elif op == "setitem_arg_positions":
                    # the positions array is the CALLER's: it must come back as it was
                    if len(arr) >= 2:
                        arr[fam["P"]] = [df_of_row(gen.rand_row(rng, cty, p_missing=0), cty) for _ in range(2)]
                else:
                    ser = X[col] if isinstance(X, pd.DataFrame) else X
                    fld = "a" if col == "n" else "p"
                    vals = np.arange(int(ser.nest.flat_length), dtype=np.float64 if fld == "a" else np.int64) + 1000 * (step + 1)
                    ser.nest[fld] = vals
            elif kind == "inplace_frame":
                tname = rng.choice(frames)
                X = fam[tname]
                may_change = {tname}
                op = rng.choice(["setitem_field", "query_inplace", "sort_inplace", "dropna_inplace", "eval_inplace", "setitem_new_nest"])
                desc.update(target=tname, op=op)
                if op == "setitem_field":
                    X["n.a"] = np.arange(total(X), dtype=np.float64) - 50.0
                elif op == "query_inplace":
                    X.query("n.b > 0", inplace=True)
                elif op == "sort_inplace":
                    X.sort_values("n.a", inplace=True)
                elif op == "dropna_inplace":
                    X.dropna(subset="n.a", inplace=True)
                elif op == "eval_inplace":
                    X.eval("n.e = n.b + 1", inplace=True)
                else:
                    X["newn.w"] = fam["ser_arg"]
            else:
                which = last_arg[0] if (step == 1 and last_arg[0]) else rng.choice(["A", "VAL", "SVAL", "TVAL", "STVAL"])
                may_change = {which}
                if which == "A":
                    desc.update(target="A", op="iloc_set")
                    A2 = fam["A"]
                    A2.iloc[rng.randrange(len(A2)), rng.randrange(2)] = 999
                elif len(fam["VAL"]):
                    # the caller changes ITS OWN values in place: nothing made from them earlier may follow
                    desc.update(target=which, op="values_set")
                    if which == "VAL":
                        fam["VAL"][rng.randrange(len(fam["VAL"]))] = -999.0
                    elif which == "SVAL":
                        fam["SVAL"].iloc[rng.randrange(len(fam["SVAL"]))] = -999.0
                    elif which == "TVAL":
                        fam["TVAL"][rng.randrange(len(fam["TVAL"]))] = np.datetime64("1999-12-31", "ns")
                    else:
                        fam["STVAL"].iloc[rng.randrange(len(fam["STVAL"]))] = pd.Timestamp("1999-12-31")
        except Exception as e:  # noqa: BLE001  (a refused operation must not change anything either)
            desc["raised"] = f"{type(e).__name__}: {str(e)[:80]}"
            if kind in ("inplace_array", "inplace_frame"):
                may_change = set()
        hist.append(desc)
        after = {k: snap(v) for k, v in fam.items() if k in before}
        changed = sorted(k for k in before if after[k] != before[k])
        unexpected = [k for k in changed if k not in may_change]
        # every member's summary views (row lengths, number of records) still describe ITS OWN rows — also the member
        # that was changed, and whichever of two related objects is asked first
        unexpected += [f"{k}:summaries_disagree_with_rows" for k, v in after.items() if isinstance(v, dict)
                       and any(not sm["agree_with_rows"] for sm in v.get("summaries", {}).values())]
        ctx.case(f"family.{desc.get('kind')}.{desc.get('op')}", {"history": list(hist)},
                 {"ok": {"changed": changed, "unexpected": unexpected}}, None, {"ok": {"unexpected": []}},
                 features=(desc.get("kind"), str(desc.get("op")), f"target={desc.get('target')}"),
                 spec_ok=not unexpected, nontrivial=True)
        if unexpected:
            return


def run_all(ctx):
    for i in range(ctx.budget(70, 700)):
        run_family(ctx, ctx.rng.randint(3, 6))
