"""C02: packing and unpacking are lossless inverses."""
from . import gen, export
from .common import pa, pd, np, weak_rows, weak, TYPES, NestedExtensionArray, NestedDtype, NestedFrame
from .runner import call_real
from .subject import Subject
from .ops_array import colres, df_of_row, history_same_object


def rand_flat(ctx, n, pattern=None, kind=None, arrow=True, ncols=None):
    rng = ctx.rng
    ty = gen.rand_ty(rng, nfields=ncols)
    labels = gen.rand_labels(rng, n, kind=kind, pattern=pattern or rng.choice(
        ["dup_unsorted", "dup_unsorted", "dup_sorted", "unique_unsorted", "unique_sorted", "range", "extreme"]))
    cols = [[nm, t, [gen.rand_cell(rng, t, p_nan=(0.1 if arrow else 0.0)) for _ in range(n)]] for nm, t in ty]
    return {"index": labels, "cols": cols}


def flat_to_df(flat, arrow=True):
    d = {}
    for nm, t, cells in flat["cols"]:
        arr = gen.flat_array(cells, t)
        if arrow:
            d[nm] = pd.Series(arr, dtype=pd.ArrowDtype(TYPES[t]))
        else:
            # numpy-typed input: nulls become NaN/None/NaT, the packer reads them back as nulls
            d[nm] = pd.Series(arr.to_pandas())
    df = pd.DataFrame(d)
    df.index = pd.Index(flat["index"])
    return df


def sorted_stable(flat):
    order = sorted(range(len(flat["index"])), key=lambda i: flat["index"][i])
    return {"index": [flat["index"][i] for i in order],
            "cols": [[nm, t, [cells[i] for i in order]] for nm, t, cells in flat["cols"]]}, order


def ser_view(s):
    return {"index": export.labels(s.index), "col": colres(s.array)}


def mser(j):
    if j is None or "err" in j:
        return j
    v = j["ok"]
    return {"ok": {"index": v["index"], "col": {"ty": v["col"]["ty"], "rows": weak_rows(v["col"]["rows"])}}}


def numpy_ok(flat):
    """numpy-typed frames cannot carry nulls in int/bool columns without changing type"""
    for nm, t, cells in flat["cols"]:
        if t in ("int64", "bool", "string", "timestamp[ns]") and any(c is None for c in cells):
            return False
        if t == "double" and any(c == "nan" for c in cells):
            return False
    return True


def case_pack_flat(ctx, n, pattern=None, kind=None):
    from nested_pandas.series.packer import pack_flat, pack
    rng = ctx.rng
    flat = rand_flat(ctx, n, pattern, kind)
    arrow = rng.random() < 0.6 or not numpy_ok(flat) or n == 0
    df = flat_to_df(flat, arrow)
    exp_sorted, order = sorted_stable(flat)
    feats = (f"n={'>16' if n > 16 else n}", f"arrow={arrow}", f"kind={type(flat['index'][0]).__name__ if n else 'none'}")
    ans = ctx.driver.call("packFlat", flat=flat)
    use_on = rng.random() < 0.3 and n > 0

    def run():
        if use_on:
            d2 = df.reset_index(names="key")
            return pack_flat(d2, name="p", on="key")
        return pack(df, name="p") if rng.random() < 0.5 else pack_flat(df, name="p")
    packed = call_real(run)
    real = {"ok": ser_view(packed["ok"])} if "ok" in packed else packed
    # spec: one row per distinct label, ascending; each row holds its label's records in original order
    uniq = sorted(set(flat["index"]))
    exp_rows = []
    for l in uniq:
        pos = [i for i in range(n) if flat["index"][i] == l]
        exp_rows.append([[nm, [weak(cells[i]) for i in pos]] for nm, t, cells in flat["cols"]])
    spec = {"ok": {"index": [export.label(l) for l in uniq],
                   "col": {"ty": [[nm, t] for nm, t, _ in flat["cols"]], "rows": exp_rows}}}
    ctx.case("pack_flat", {"flat": flat, "arrow": arrow, "on": use_on}, real, mser(ans["model"]), spec, features=feats,
             nontrivial=n > 0)
    if "ok" in packed:
        ser = packed["ok"]
        # flatten(pack(t)) == stable sort of t, records and labels
        back = call_real(lambda: export.flat_df_view(ser.nest.to_flat()))
        ctx.case("to_flat∘pack_flat", {"flat": flat, "arrow": arrow}, back, None, {"ok": exp_sorted}, features=feats,
                 nontrivial=n > 0)
        assert ser.name == "p"
        # the packed column owns its records: the caller goes on with ITS table (numpy-backed, possibly already in label
        # order), changing it in place — flattening the earlier packed column still gives the records that were packed
        if not arrow and n > 0 and not use_on:
            def edit_then_flatten():
                for c in df.columns:
                    if df[c].dtype.kind in "fi":
                        df.iloc[:, list(df.columns).index(c)] = df[c].to_numpy()[::-1].copy() * 0 - 77
                df.iloc[0, 0] = -78
                return export.flat_df_view(ser.nest.to_flat())
            ctx.case("to_flat∘pack_flat.after_source_edit", {"flat": flat, "arrow": arrow}, call_real(edit_then_flatten), None,
                     back if "ok" in back else None, features=feats + ("source_edit",), nontrivial=True)


def case_flat_pack_roundtrip(ctx, s: Subject):
    """flatten a column with distinct ascending labels and pack it again: same column minus empty rows"""
    from nested_pandas.series.packer import pack_flat
    n = len(s.content["rows"])
    labels = gen.rand_labels(ctx.rng, n, pattern="unique_sorted")
    ser = gen.mk_series(s.ca, labels, "nest")
    rows = weak_rows(s.content["rows"])
    keep = [i for i, r in enumerate(rows) if r is not None and len(r[0][1]) > 0]
    spec = {"ok": {"index": [export.label(labels[i]) for i in keep], "col": {"ty": s.ty, "rows": [rows[i] for i in keep]}}}
    real = call_real(lambda: ser_view(pack_flat(ser.nest.to_flat())))
    ctx.case("pack_flat∘to_flat", {**s.desc(), "labels": labels}, real, None, spec, hyp=s.hyp, features=s.features,
             nontrivial=s.nontrivial())


def case_lists_roundtrip(ctx, s: Subject):
    from nested_pandas.series.packer import pack_lists, pack_seq, pack
    ser = s.series()
    rows = weak_rows(s.content["rows"])
    empt = [[n, []] for n, _ in s.ty]
    spec = {"ok": {"index": export.labels(ser.index), "col": {"ty": s.ty, "rows": [empt if r is None else r for r in rows]}}}
    real = call_real(lambda: ser_view(pack_lists(ser.nest.to_lists())))
    # the model runs the same composition on the physical input: `packLists (fieldChunks col)` (theorem
    # C02.list_view_round_trip_physical) — and the specification is computed by the driver as well
    sj = {"index": export.labels(ser.index), "col": s.phys}
    ans = ctx.driver.call("relist", series=sj)
    ctx.case("pack_lists∘to_lists", s.desc(), real, mser(ans["model"]), spec, hyp=s.hyp, features=s.features, nontrivial=s.nontrivial())
    ctx.case("pack_lists∘to_lists.spec_of_driver", s.desc(), mser(ans["spec"]), None, spec, hyp=s.hyp, features=s.features)
    # element view: list of per-row tables then pack — identical, missing rows included
    spec = {"ok": {"index": export.labels(ser.index), "col": {"ty": s.ty, "rows": rows}}}
    real = call_real(lambda: ser_view(pack_seq(list(ser), index=ser.index, dtype=ser.dtype)))
    ans = ctx.driver.call("repackElements", series=sj)      # `packSeq idx ty (iter col)` (C02.element_view_round_trip)
    ctx.case("pack_seq∘list", s.desc(), real, mser(ans["model"]), spec, hyp=s.hyp, features=s.features, nontrivial=s.nontrivial())
    real = call_real(lambda: ser_view(pack(ser)))
    ctx.case("pack(series)", s.desc(), real, None, spec, hyp=s.hyp, features=s.features, nontrivial=s.nontrivial())
    # exact (Arrow-typed) element types and NaN-vs-null through the list view
    real = call_real(lambda: export.flat_df_view(pack_lists(ser.nest.to_lists()).nest.to_flat()))
    exp = call_real(lambda: export.flat_df_view(ser.nest.to_flat()))
    ctx.case("to_flat∘pack_lists∘to_lists", s.desc(), real, None, exp, hyp=s.hyp, features=s.features, nontrivial=s.nontrivial())
    # the same after a field was added: its list array starts at another position of its buffer than the older fields'
    if not s.hyp.get("hidden") and len(rows) > 0:
        tot = int(ser.nest.flat_length)
        ser2 = ser.nest.with_flat_field("zz_new", np.arange(tot, dtype=np.int64) + 500)
        for nm, fn in (("pack_lists", lambda: pack_lists(ser2.nest.to_lists())),
                       ("from_lists", lambda: NestedFrame.from_lists(ser2.nest.to_lists(), name="nest")["nest"])):
            if nm == "from_lists" and any(r is None for r in rows):
                continue    # a missing row shows as absent lists in the list view (K2): from_lists is not offered those
            real = call_real(lambda: export.flat_df_view(fn().nest.to_flat()))
            exp = call_real(lambda: export.flat_df_view(ser2.nest.to_flat()))
            ctx.case(f"to_flat∘{nm}∘to_lists.after_field_added", s.desc(), real, None, exp, hyp=s.hyp, features=s.features + (nm,),
                     nontrivial=s.nontrivial())


def case_field_subset_roundtrip(ctx, s: Subject):
    """the flat / list view of SOME of the fields (any order, not a prefix of the stored order) packs back into the
    column of exactly those fields: every name keeps its own values and element type"""
    from nested_pandas.series.packer import pack_flat, pack_lists
    names = [n for n, _ in s.ty]
    if len(names) < 2:
        return
    sub = ctx.rng.sample(names, ctx.rng.randint(1, len(names)))
    if sub == names[:len(sub)]:
        sub = sub[::-1] if len(sub) > 1 else [names[-1]]
    tymap = dict(map(tuple, s.ty))
    sty = [[n, tymap[n]] for n in sub]
    rows = weak_rows(s.content["rows"])
    srows = [None if r is None else [[n, dict(map(tuple, r))[n]] for n in sub] for r in rows]
    n = len(rows)
    labels = gen.rand_labels(ctx.rng, n, pattern="unique_sorted")
    ser = gen.mk_series(s.ca, labels, "nest")
    keep = [i for i, r in enumerate(rows) if r is not None and len(r[0][1]) > 0]
    spec = {"ok": {"index": [export.label(labels[i]) for i in keep], "col": {"ty": sty, "rows": [srows[i] for i in keep]}}}
    real = call_real(lambda: ser_view(pack_flat(ser.nest.to_flat(fields=sub))))
    ctx.case("pack_flat∘to_flat", {**s.desc(), "labels": labels, "fields": sub}, real, None, spec, hyp=s.hyp,
             features=s.features + ("field_subset",), nontrivial=s.nontrivial())
    empt = [[n, []] for n in sub]
    spec = {"ok": {"index": [export.label(l) for l in labels], "col": {"ty": sty, "rows": [empt if r is None else r for r in srows]}}}
    real = call_real(lambda: ser_view(pack_lists(ser.nest.to_lists(fields=sub))))
    ctx.case("pack_lists∘to_lists", {**s.desc(), "labels": labels, "fields": sub}, real, None, spec, hyp=s.hyp,
             features=s.features + ("field_subset",), nontrivial=s.nontrivial())


def case_tables_without_dtype(ctx):
    """the element view given as plain (numpy-typed) per-row tables and packed WITHOUT a dtype: rows are missing, empty
    or non-empty exactly as the tables say — also tables without rows ahead of the first table with rows"""
    from nested_pandas.series.packer import pack_seq, pack
    rng = ctx.rng
    ty = gen.rand_ty(rng, types=["int64", "double", "bool", "timestamp[ns]"])
    n = rng.choice([1, 2, 3, 4, 6])
    rows = [gen.rand_row(rng, ty, p_missing=0.2, p_empty=0.4, p_null=0.0, p_nan=0.0) for _ in range(n)]
    if all(r is None or len(r[0][1]) == 0 for r in rows):
        k = rng.randrange(n)
        rows[k] = [[nm, [gen.rand_cell(rng, t, p_null=0.0, p_nan=0.0)]] for nm, t in ty]
    labels = gen.rand_labels(rng, n)

    def table(r):
        if r is None:
            return None
        return pd.DataFrame({nm: gen.flat_array(cells, dict(map(tuple, ty))[nm]).to_pandas() for nm, cells in r})
    tables = [table(r) for r in rows]
    spec = {"ok": {"index": [export.label(l) for l in labels], "col": {"ty": ty, "rows": weak_rows(rows)}}}
    lead = next((i for i, r in enumerate(rows) if r is not None and len(r[0][1]) > 0), n)
    feats = (f"leading_empty={any(r is not None for r in rows[:lead])}", f"leading_missing={any(r is None for r in rows[:lead])}")
    for nm, fn in (("pack_seq", lambda: pack_seq(tables, index=pd.Index(labels))), ("pack", lambda: pack(tables, index=pd.Index(labels)))):
        real = call_real(lambda: ser_view(fn()))
        ctx.case(f"{nm}∘tables.no_dtype", {"ty": ty, "rows": rows, "labels": labels}, real, None, spec, features=feats + (nm,),
                 nontrivial=True)


def run_all(ctx):
    rng = ctx.rng
    for i in range(ctx.budget(150, 2000)):
        n = rng.choice([0, 1, 2, 3, 5, 8, 12])
        case_pack_flat(ctx, n)
    # sort stability needs more than 16 unsorted duplicate labels (numpy's unstable sorts are stable below)
    for i in range(ctx.budget(60, 600)):
        case_pack_flat(ctx, rng.randint(17, 80), pattern=rng.choice(["dup_unsorted", "dup_unsorted", "desc_dups"]),
                       kind=rng.choice(["int", "str"]))
    if ctx.tier == "thorough":
        for i in range(40):
            case_pack_flat(ctx, rng.randint(200, 2000), pattern="dup_unsorted")
    for i in range(ctx.budget(120, 1500)):
        s = Subject(ctx)
        case_flat_pack_roundtrip(ctx, s)
        case_lists_roundtrip(ctx, s)
        case_field_subset_roundtrip(ctx, s)
        if i % 2 == 0:
            case_tables_without_dtype(ctx)
    history_same_object(ctx, ctx.budget(20, 200))
    # `NestedFrame.from_flat` / `add_nested` pack through the same code: the records of a label stay with the label
    from . import ops_nf
    for i in range(ctx.budget(40, 400)):
        ops_nf.case_from_flat(ctx)
        if i % 2 == 0:
            ops_nf.case_add_nested(ctx)
        else:
            ops_nf.case_add_nested_on(ctx)      # packed by the values of a column: nothing lost either
