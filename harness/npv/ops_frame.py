"""Frame-level cases (NestedFrame): row movement (C05), and the frame operations of C06-C13."""
from . import gen, export
from .common import pa, pd, np, weak_rows, NestedFrame, NestedExtensionArray
from .runner import call_real
from .subject import Subject


def mk_frame(s: Subject, labels=None, extra_base=True, name="nest"):
    n = len(s.content["rows"])
    labels = labels if labels is not None else s.labels
    d = {"id": np.arange(n, dtype=np.int64)}
    nf = NestedFrame(d, index=pd.Index(labels))
    nf[name] = pd.Series(s.fresh_ext(), index=nf.index, name=name)
    return nf


def frame_pairs(nf, name="nest"):
    """[(label, id, row)] of a frame with base column id and one nested column"""
    rows = weak_rows(export.rows_view(nf[name].array))
    return [[export.label(l), None if pd.isna(i) else int(i), r] for l, i, r in zip(nf.index.tolist(), nf["id"].tolist(), rows)]


def case_row_moves(ctx, s: Subject):
    """Row selection / reordering moves each row's nested table with its base values and label."""
    rng = ctx.rng
    n = len(s.content["rows"])
    rows = weak_rows(s.content["rows"])
    labels = gen.rand_labels(rng, n, pattern=rng.choice(["unique_unsorted", "unique_sorted", "range"]))
    nf = mk_frame(s, labels)
    lab = [export.label(l) for l in nf.index.tolist()]

    def expect(pos):
        return [[lab[i], i, rows[i]] for i in pos]
    ops = []
    perm = list(range(n))
    rng.shuffle(perm)
    ops.append(("iloc[perm]", lambda: nf.iloc[perm], perm))
    k = rng.randint(0, n)
    ops.append(("head", lambda: nf.head(k), list(range(k))))
    ops.append(("tail", lambda: nf.tail(k), list(range(n - k, n)) if k else []))
    mask = [rng.random() < 0.5 for _ in range(n)]
    ops.append(("mask", lambda: nf[np.array(mask, dtype=bool)], [i for i in range(n) if mask[i]]))
    if n:
        sub = [rng.randrange(n) for _ in range(rng.randint(0, n + 1))]
        ops.append(("loc[labels]", lambda: nf.loc[[labels[i] for i in sub]], sub))
        ops.append(("iloc[repeats]", lambda: nf.iloc[sub], sub))
        ops.append(("reindex", lambda: nf.reindex([labels[i] for i in perm]), perm))
    ops.append(("sort_index", lambda: nf.sort_index(kind="stable"),
                sorted(range(n), key=lambda i: labels[i])))
    key = [rng.randint(0, 3) for _ in range(n)]
    nf2 = nf.assign(key=np.array(key, dtype=np.int64))
    ops.append(("sort_values(base)", lambda: nf2.sort_values("key", kind="stable"), sorted(range(n), key=lambda i: key[i])))
    ops.append(("sort_values(base,desc)", lambda: nf2.sort_values("key", ascending=False, kind="stable"),
                sorted(range(n), key=lambda i: -key[i])))
    ops.append(("slice", lambda: nf.iloc[1:n - 1] if n > 1 else nf.iloc[0:0], list(range(1, n - 1)) if n > 1 else []))
    ops.append(("concat", lambda: pd.concat([nf.iloc[k:], nf.iloc[:k]]), list(range(k, n)) + list(range(k))))
    for name, f, pos in ops:
        real = call_real(lambda: {"pairs": frame_pairs(f()), "cls": type(f()).__name__})
        ctx.case(f"frame.{name}", {**s.desc(), "labels": labels, "op": name}, real, None,
                 {"ok": {"pairs": expect(pos), "cls": "NestedFrame"}}, hyp=s.hyp, features=s.features + (name,),
                 nontrivial=s.nontrivial())
