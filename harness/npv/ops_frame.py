"""Frame-level cases (NestedFrame): row movement (C05), and the frame operations of C06-C13."""
from . import gen, export
from .common import pa, pd, np, weak_rows, NestedFrame, NestedExtensionArray
from .runner import call_real
from .subject import Subject


def mk_frame(s: Subject, labels=None, extra_base=True, name="nest"):
    n = len(s.content["rows"])
    labels = labels if labels is not None else s.labels
    d = {"id": np.arange(n, dtype=np.int64)}
    nf = NestedFrame(d, index=pd.Index(labels))
    nf[name] = pd.Series(s.fresh_ext(), index=nf.index, name=name)
    return nf


def frame_pairs(nf, name="nest"):
    """[(label, id, row)] of a frame with base column id and one nested column"""
    rows = weak_rows(export.rows_view(nf[name].array))
    return [[export.label(l), None if pd.isna(i) else int(i), r] for l, i, r in zip(nf.index.tolist(), nf["id"].tolist(), rows)]


def case_row_moves(ctx, s: Subject):
    """Row selection / reordering moves each row's nested table with its base values and label."""
    rng = ctx.rng
    n = len(s.content["rows"])
    rows = weak_rows(s.content["rows"])
    labels = gen.rand_labels(rng, n, pattern=rng.choice(["unique_unsorted", "unique_sorted", "range"]))
    nf = mk_frame(s, labels)
    lab = [export.label(l) for l in nf.index.tolist()]

    def expect(pos):
        return [[lab[i], i, rows[i]] for i in pos]
    ops = []
    perm = list(range(n))
    rng.shuffle(perm)
    ops.append(("iloc[perm]", lambda: nf.iloc[perm], perm))
    k = rng.randint(0, n)
    ops.append(("head", lambda: nf.head(k), list(range(k))))
    ops.append(("tail", lambda: nf.tail(k), list(range(n - k, n)) if k else []))
    mask = [rng.random() < 0.5 for _ in range(n)]
    ops.append(("mask", lambda: nf[np.array(mask, dtype=bool)], [i for i in range(n) if mask[i]]))
    if n:
        sub = [rng.randrange(n) for _ in range(rng.randint(0, n + 1))]
        ops.append(("loc[labels]", lambda: nf.loc[[labels[i] for i in sub]], sub))
        ops.append(("iloc[repeats]", lambda: nf.iloc[sub], sub))
        ops.append(("reindex", lambda: nf.reindex([labels[i] for i in perm]), perm))
    ops.append(("sort_index", lambda: nf.sort_index(kind="stable"),
                sorted(range(n), key=lambda i: labels[i])))
    key = [rng.randint(0, 3) for _ in range(n)]
    nf2 = nf.assign(key=np.array(key, dtype=np.int64))
    ops.append(("sort_values(base)", lambda: nf2.sort_values("key", kind="stable"), sorted(range(n), key=lambda i: key[i])))
    ops.append(("sort_values(base,desc)", lambda: nf2.sort_values("key", ascending=False, kind="stable"),
                sorted(range(n), key=lambda i: -key[i])))
    ops.append(("slice", lambda: nf.iloc[1:n - 1] if n > 1 else nf.iloc[0:0], list(range(1, n - 1)) if n > 1 else []))
    ops.append(("concat", lambda: pd.concat([nf.iloc[k:], nf.iloc[:k]]), list(range(k, n)) + list(range(k))))
    for name, f, pos in ops:
        real = call_real(lambda: {"pairs": frame_pairs(f()), "cls": type(f()).__name__})
        ctx.case(f"frame.{name}", {**s.desc(), "labels": labels, "op": name}, real, None,
                 {"ok": {"pairs": expect(pos), "cls": "NestedFrame"}}, hyp=s.hyp, features=s.features + (name,),
                 nontrivial=s.nontrivial())
    # sorting by base columns on a frame whose labels REPEAT (positions move, labels are carried along)
    if n >= 2:
        dlabels = gen.rand_labels(rng, n, pattern=rng.choice(["dup_unsorted", "dup_sorted", "desc_dups"]))
        nfd = mk_frame(s, dlabels).assign(key=np.array(key, dtype=np.int64), key2=np.array([i % 2 for i in range(n)], dtype=np.int64))
        dlab = [export.label(l) for l in nfd.index.tolist()]
        dops = [("sort_values(base,dup_labels)", lambda: nfd.sort_values("key", kind="stable"), sorted(range(n), key=lambda i: key[i])),
                ("sort_values(base,desc,dup_labels)", lambda: nfd.sort_values("key", ascending=False, kind="stable"),
                 sorted(range(n), key=lambda i: -key[i])),
                ("sort_values(base2,dup_labels)", lambda: nfd.sort_values(["key2", "key"], kind="stable"),
                 sorted(range(n), key=lambda i: (i % 2, key[i]))),
                ("sort_values(base,inplace,dup_labels)",
                 lambda: (lambda g: (g.sort_values("key", kind="stable", inplace=True), g)[1])(nfd.copy()),
                 sorted(range(n), key=lambda i: key[i]))]
        for name, f, pos in dops:
            real = call_real(lambda: {"pairs": frame_pairs(f()), "cls": type(f()).__name__})
            ctx.case(f"frame.{name}", {**s.desc(), "labels": dlabels, "op": name, "key": key}, real, None,
                     {"ok": {"pairs": [[dlab[i], i, rows[i]] for i in pos], "cls": "NestedFrame"}}, hyp=s.hyp,
                     features=s.features + (name,), nontrivial=s.nontrivial())


# ---- C06 at the frame level: nf["nest.field"] = value -----------------------------------------------

def lens_of_rows(rows):
    return [0 if r is None else (len(r[0][1]) if r else 0) for r in rows]


def set_field_rows(rows, f, lists):
    out = []
    for r, l in zip(rows, lists):
        if r is None:
            out.append(None)
            continue
        r2 = [[n, c] for n, c in r]
        if any(n == f for n, _ in r2):
            r2 = [[n, (l if n == f else c)] for n, c in r2]
        else:
            r2.append([f, l])
        out.append(r2)
    return out


def case_frame_field_assign(ctx, s: Subject, form=None, label_pattern=None):
    from .ops_array import rand_field
    from .common import TYPES, dec_cell, weak
    rng = ctx.rng
    rows = s.content["rows"]
    n = len(rows)
    labels = gen.rand_labels(rng, n, pattern=label_pattern)
    other = Subject(ctx, nrows=n, allow_hidden=False)
    nf = mk_frame(s, labels)
    nf["x"] = np.arange(n, dtype=np.float64) * 0.5
    nf["other"] = pd.Series(other.fresh_ext(), index=nf.index, name="other")
    cols_before = list(nf.columns)
    lens = lens_of_rows(rows)
    total = sum(lens)
    f = rand_field(rng, s.ty)
    t = rng.choice(gen.TYNAMES)
    form = form or rng.choice(["flat_array", "flat_series", "base_series", "scalar", "flat_list"])
    if form == "scalar" and t.startswith("timestamp"):
        form = "flat_array"
    if form in ("flat_array", "flat_series", "flat_list"):
        cells = [gen.rand_cell(rng, t) for _ in range(total)]
        arr = gen.flat_array(cells, t)
        if form == "flat_series":
            value = pd.Series(arr, dtype=pd.ArrowDtype(TYPES[t]),
                              index=pd.Index([l for l, k in zip(labels, lens) for _ in range(k)], dtype=nf.index.dtype))
        elif form == "flat_list":
            value = arr.to_pylist() if not t.startswith("timestamp") else arr
        else:
            value = arr
        lists, k = [], 0
        for l in lens:
            lists.append(cells[k:k + l])
            k += l
    elif form == "base_series":
        cells = [gen.rand_cell(rng, t) for _ in range(n)]
        value = pd.Series(gen.flat_array(cells, t), dtype=pd.ArrowDtype(TYPES[t]), index=nf.index)
        lists = [[c] * l for c, l in zip(cells, lens)]
    else:
        cell = gen.rand_cell(rng, t, p_null=0)
        value = dec_cell(cell, t)
        lists = [[cell] * l for l in lens]
    flat_index = [export.label(l) for l, k in zip(labels, lens) for _ in range(k)]
    hyp = dict(s.hyp)
    hyp["flat_eq_index"] = bool(form == "flat_series" and flat_index == [export.label(l) for l in nf.index.tolist()]
                                and any(l != 1 for l in lens))
    exp_rows = weak_rows(set_field_rows(rows, f, lists))
    before_other = weak_rows(export.rows_view(nf["other"].array))

    def run():
        nf2 = nf.copy()
        nf2[f"nest.{f}"] = value
        return {
            "rows": weak_rows(export.rows_view(nf2["nest"].array)),
            "columns": list(nf2.columns), "index": export.labels(nf2.index),
            "id": [int(v) for v in nf2["id"]], "x": [float(v) for v in nf2["x"]],
            "other": weak_rows(export.rows_view(nf2["other"].array)),
            "cls": type(nf2).__name__,
            "field_ty": dict(map(tuple, export.dtype_ty(nf2["nest"].dtype))).get(f),
            "isna": [bool(b) for b in nf2["nest"].isna()],
            "orig_unchanged": weak_rows(export.rows_view(nf["nest"].array)) == weak_rows(rows),
        }
    real = call_real(run)
    spec = {"ok": {"rows": exp_rows, "columns": cols_before, "index": [export.label(l) for l in nf.index.tolist()],
                   "id": list(range(n)), "x": [i * 0.5 for i in range(n)], "other": before_other, "cls": "NestedFrame",
                   "field_ty": t, "isna": [r is None for r in rows], "orig_unchanged": True}}
    if form == "flat_list" and "ok" in real:
        spec["ok"]["field_ty"] = real["ok"]["field_ty"]   # element type of a python list is pyarrow's inference
    if form == "scalar" and "ok" in real:
        spec["ok"]["field_ty"] = real["ok"]["field_ty"]
    ctx.case(f"frame.setitem_field[{form}]", {**s.desc(), "labels": labels, "field": f, "ty": t, "form": form,
                                               "lists": lists}, real, None, spec, hyp=hyp,
             features=s.features + (form, "newfield" if f not in [x for x, _ in s.ty] else "existing"),
             nontrivial=s.nontrivial())
